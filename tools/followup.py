import sys, json
pid = sys.argv[1]; ks = sys.argv[2:]
items = []
for k in ks:
    m = json.load(open(f'/verif/seeded/{pid}-{k}/meta.json'))
    items.append(f"- `seeded/{pid}-{k}/` — {m['what'][:700]}\n  NEEDS: {m['needs'][:400]}")
print(f"""Integrator follow-up for {pid} (≈45-60 min of work, then a 5-line report). Independent engineers, given only the property text, seeded realistic breaking changes; your check (quick tier) MISSED these:

{chr(10).join(items)}

Each directory holds patch.diff, demo.py (fails with the change, passes without), meta.json and verdict.json. Reproduce with `cd /verif && python3 tools/run_seeded.py seeded/{pid}-<k>` (it builds a scratch worktree of /repo, applies the patch, runs demo.py and `VERIF_REPO=… ./check {pid}`, restores evidence/generated files, prints the verdict JSON; add `--tier thorough` to see whether the thorough tier catches it).

Please strengthen the check so that each of these is caught in the QUICK tier with a replay that truly fails on the changed code — by widening the generator / adding an oracle or a correspondence stream for the *class* of behaviour involved (e.g. several variants with different values, multi-step sequences on one object, non-default options, boundary calendar years, spans that are not consecutive runs …), never by special-casing the patch. Where the behaviour is part of your Lean model's scope, extend the model/theorems too; where it is not, say so in notes/{pid}.md. Keep the soundness rules: `./check {pid}` must still exit 0 on /repo for VERIF_SEED=0,1,2,3 (known findings excepted), quick ≤ ~2 min. Do not modify /repo, do not commit; update notes/{pid}.md (section "Seeded changes": which are caught by what, which are not and why). If one of them cannot reasonably be caught because it is outside what the property statement demands, explain that instead of forcing it. Final report: for each seeded change — caught by which site/stream now (or why not), plus the seeds you re-ran on /repo.""")
