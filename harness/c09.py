"""
C09 -- Periods behave as calendar-consistent integers and spans as their ranges.

Correspondence: the Lean model (IrisVerif/Model/{Dates,Spans}.lean, driver C09) against
irispie.dates on the same request lines, canonical text compared exactly (class E).
Oracle: datetime / plain Python ranges, straight from the property statement.
"""
from __future__ import annotations
import re
import datetime as dt
import itertools

import irispie as ir
from irispie import dates as D

from .common import Ctx, err_kind

DRIVERS = ["C09"]
LEVEL = "proof"
MANIFEST = {
    "category": "proof",
    "text": ("Lean 4 theorems about an executable model of dates.py (all integer serials/offsets, all frequencies, all span triples and "
             "in-place op sequences, no bound): (p+n)-p=n, p+(q-p)=q, order/equality/hash-key agree with serial order, mixed frequencies "
             "rejected by every binary op and by Span construction, year/segment round trips, ordinal<->(y,m,d) bijection on valid dates, "
             "consecutive regular periods tile the day line (start(s+1)=end(s)+1, start<=middle<=end), shift keywords land on the documented "
             "period, a span enumerates exactly start+i*step up to end, len/iter/index agree, reversal is an involution, shifting maps elements, "
             "resolve replaces exactly the contextual ends, the operators p>>q / p<<q (None or a contextual end on either side) build the "
             "forward span p..q / the backward span q..p, get_encompassing_span returns min of starts / max of ends over arguments in any "
             "order. The model is tied to the code on every run: closed-form fragments and day tables are "
             "regenerated from dates.py by the translator (a changed formula re-checks the proofs), everything else by exact line-by-line "
             "correspondence with irispie (quick: every day 1890-2110 + boundary years, every regular period of those years; thorough: every "
             "day and period of years 1-9999), plus an independent datetime/range oracle on the implementation that supplies the replay."),
    "design": "7/C09",
    "note": "datetime.date is the reference calendar (tied by enumeration, not proof); CPython hash() itself is not modelled.",
    "technique": "Lean 4 proof over executable model + translator-regenerated fragments + exhaustive differential correspondence",
}
EXTRA_PROPS = ['GenTieC09']   # further property modules audited with this check (translator ties)
ASSUMPTIONS = [
    "datetime.date (C code) is the reference calendar; the model's calendar is tied to it by enumeration of days, not by proof",
    "hash(): only the tuple that Period.__hash__ hashes is modelled, CPython's hash function itself is not",
]

CLS = {"I": D.IntegerPeriod, "Y": D.YearlyPeriod, "H": D.HalfyearlyPeriod, "Q": D.QuarterlyPeriod,
       "M": D.MonthlyPeriod, "D": D.DailyPeriod}
FREQ = {"I": ir.Frequency.INTEGER, "Y": ir.Frequency.YEARLY, "H": ir.Frequency.HALFYEARLY,
        "Q": ir.Frequency.QUARTERLY, "M": ir.Frequency.MONTHLY, "D": ir.Frequency.DAILY}
LETTER = {v: k for k, v in CLS.items()}
FVAL = {"I": 0, "Y": 1, "H": 2, "Q": 4, "M": 12, "D": 365}
REG = ["Y", "H", "Q", "M"]
MAXORD = dt.date(9999, 12, 31).toordinal()


# ---------------------------------------------------------------------------------------
# implementation side of the line protocol (mirrors IrisVerif/Driver/C09.lean `step`)
# ---------------------------------------------------------------------------------------

def show_period(p) -> str:
    return f"{LETTER[type(p)]}:{p.serial}"


def show_endpoint(e) -> str:
    if isinstance(e, D.ContextualPeriod):
        # public face of a contextual end: str() is "<>.start", "<>.end+2", "<>.start-1"
        m = re.fullmatch(r"<>\.(start|end)([+-]\d+)?", str(e))
        if not m:
            raise ValueError(f"unreadable contextual period {e!r}")
        return ("cs:" if m.group(1) == "start" else "ce:") + str(int(m.group(2) or 0))
    return show_period(e)


def parse_endpoint(s):
    if s == "-":
        return None
    a, b = s.split(":")
    if a == "cs":
        return D.start + int(b)
    if a == "ce":
        return D.end + int(b)
    return CLS[a](int(b))


def parse_enc_arg(w):
    """an argument of get_encompassing_span: `-` None; `A:p,q` an object with start_date/end_date attributes (a resolved
    span when both are given and of one frequency, else a ResolutionContext); `S:p,-,q` a sequence of periods / None"""
    if w == "-":
        return None
    if w.startswith("A:"):
        a, b = [parse_endpoint(x) for x in w[2:].split(",")]
        if a is not None and b is not None and type(a) is type(b) and (a.serial + b.serial) % 2 == 0:
            return ir.Span(a, b, 1 if a.serial <= b.serial else -1)
        return D.ResolutionContext(a, b)
    body = w[2:]
    items = [parse_endpoint(x) for x in body.split(",")] if body else []
    return tuple(items) if len(items) % 2 else list(items)


def observe(s) -> str:
    try:
        n = len(s)
        ln = "none" if n is None else str(n)
    except TypeError:
        ln = "none"   # len() of an unresolved span: __len__ returns None -> TypeError from len(); same observable
    except Exception as e:
        ln = err_kind(e)
    try:
        # the serials the span enumerates, through its public iteration (an unresolved span has none)
        ser = "none" if s.needs_resolve else "[" + ",".join(str(x.serial) for x in s) + "]"
    except Exception as e:
        ser = err_kind(e)
    return f"{show_endpoint(s.start)};{show_endpoint(s.end)};{s.step};{ln};{ser}"


def span_op(s, ws):
    """returns (new span, extra text); raises what the implementation raises"""
    op = ws[0]
    if op == "rev":
        s.reverse(); return s, ""
    if op == "ss":
        s.shift_start(int(ws[1])); return s, ""
    if op == "se":
        s.shift_end(int(ws[1])); return s, ""
    if op == "sh":
        s.shift(int(ws[1])); return s, ""
    if op == "add":
        return s + int(ws[1]), ""
    if op == "sub":
        return s - int(ws[1]), ""
    if op == "rs":
        return s >> int(ws[1]), ""
    if op == "ls":
        return s << int(ws[1]), ""
    if op == "res":
        ctx = D.ResolutionContext(parse_endpoint(ws[1]), parse_endpoint(ws[2]))
        return s.resolve(ctx), ""
    if op == "sl":
        part = lambda w: None if w == "-" else int(w)
        try:
            r = s[slice(part(ws[1]), part(ws[2]), part(ws[3]))]
            txt = "none" if r is None else "[" + ",".join(show_period(p) for p in r) + "]"
        except Exception as e:
            txt = err_kind(e)
        return s, "sl=" + txt
    if op == "get":
        try:
            p = s[int(ws[1])]
            r = "none" if p is None else show_period(p)
        except Exception as e:
            r = err_kind(e)
        return s, "get=" + r
    raise ValueError("bad-op")


def construct_span(ws):
    """`span a b step ...` -> Span(a, b, step); `span>> x y ...` -> x >> y; `span<< x y ...` -> x << y (the operators of
    _SpannableMixin, with None on either side going through the reflected methods). Returns (span, index of the first op word)"""
    if ws[0] == "span":
        return ir.Span(parse_endpoint(ws[1]), parse_endpoint(ws[2]), int(ws[3])), 4
    x, y = parse_endpoint(ws[1]), parse_endpoint(ws[2])
    if x is None and y is None:
        raise ValueError("bad-op")   # None >> None is not a span expression
    return (x >> y if ws[0] == "span>>" else x << y), 3


def impl_span_line(ws) -> str:
    try:
        s, k = construct_span(ws)
    except Exception as e:
        return err_kind(e)
    out = [observe(s)]
    ops = [o.strip() for o in " ".join(ws[k:]).split("|") if o.strip()]
    for op in ops:
        try:
            s, extra = span_op(s, op.split())
        except Exception as e:
            out.append(err_kind(e))
            break
        out.append((extra + ";" if extra else "") + observe(s))
    return " | ".join(out)


def B(x) -> str:
    return "T" if x else "F"


def impl_eval(line: str) -> str:
    ws = line.split()
    op = ws[0]
    try:
        if op == "ord2ymd":
            y, m, d = D.DailyPeriod(int(ws[1])).to_ymd()
            return f"{y} {m} {d}"
        if op == "ymd2ord":
            return str(D.DailyPeriod.from_ymd(int(ws[1]), int(ws[2]), int(ws[3])).serial)
        if op == "ys":
            y, s = CLS[ws[1]](int(ws[2])).to_year_segment()
            return f"{y} {s}"
        if op == "fromys":
            return str(CLS[ws[1]].from_year_segment(int(ws[2]), int(ws[3])).serial)
        if op == "toymd":
            y, m, d = CLS[ws[1]](int(ws[2])).to_ymd(position=ws[3])
            return f"{y} {m} {d}"
        if op == "fromymd":
            return str(CLS[ws[1]].from_ymd(int(ws[2]), int(ws[3]), int(ws[4])).serial)
        if op == "refreq":
            return str(CLS[ws[1]](int(ws[2])).refrequent(FREQ[ws[3]], position=ws[4]).serial)
        if op == "shift":
            by = ws[3] if ws[3] in ("yoy", "soy", "boy", "eopy", "tty") else int(ws[3])
            q = CLS[ws[1]](int(ws[2])).shift(by)
            return "none" if q is None else str(q.serial)
        if op == "cmp":
            p, q = CLS[ws[1]](int(ws[2])), CLS[ws[3]](int(ws[4]))
            outs = []
            for f in (lambda: str(p - q), lambda: B(p == q), lambda: B(p != q), lambda: B(p < q),
                      lambda: B(p <= q), lambda: B(p > q), lambda: B(p >= q)):
                try:
                    outs.append(f())
                except Exception as e:
                    outs.append(err_kind(e))
            outs.append(B((int(p.serial), int(p.frequency)) == (int(q.serial), int(q.frequency))))
            return " ".join(outs)
        if op == "hash":
            p = CLS[ws[1]](int(ws[2]))
            # the tuple hashed by Period.__hash__ (hash of an IntEnum member = hash of its value)
            if hash(p) != hash((int(p.serial), hash(int(p.frequency)))):
                return "hash-is-not-of-(serial,frequency)"
            return f"{int(p.serial)} {int(p.frequency)}"
        if op == "pow":
            r = CLS[ws[1]](int(ws[2])) ** int(ws[3])
            if isinstance(r, D.EmptySpan):
                return "E"
            if isinstance(r, D.Span):
                return "S " + observe(r)
            return "P " + show_period(r)
        if op == "pfu":
            r = D.periods_from_until(parse_endpoint(ws[1]), parse_endpoint(ws[2]), int(ws[3]))
            return "[" + ",".join(show_period(p) for p in r) + "]"
        if op == "dir":
            sp = ir.Span(parse_endpoint(ws[1]), parse_endpoint(ws[2]), int(ws[3]))
            before = observe(sp)
            rv = sp.reversed()
            if observe(sp) != before or rv is sp:
                return "reversed() changed the span it was called on"
            return f"{sp.direction} {rv.direction}"
        if op in ("sfs", "sfl"):
            fn = D.spans_from_short_span if op == "sfs" else D.spans_from_long_span
            short, long_ = fn(frame_iterable(parse_endpoint(ws[1]), parse_endpoint(ws[2])), int(ws[3]), int(ws[4]))
            return "[" + ",".join(show_period(p) for p in short) + "]|[" + ",".join(show_period(p) for p in long_) + "]"
        if op == "ext":
            r = D.extend_span(frame_iterable(parse_endpoint(ws[1]), parse_endpoint(ws[2])), int(ws[3]), int(ws[4]), ws[5] == "1", ws[6] == "1")
            return show_period(r[0]) + " " + show_period(r[1])
        if op in ("span", "span>>", "span<<"):
            return impl_span_line(ws)
        if op == "speq":
            s1 = ir.Span(parse_endpoint(ws[1]), parse_endpoint(ws[2]), int(ws[3]))
            s2 = ir.Span(parse_endpoint(ws[4]), parse_endpoint(ws[5]), int(ws[6]))
            r = (s1 == s2)
            try:
                ne = (s1 != s2)
            except Exception:
                ne = None
            if ne is not (not r):
                return "!= is not the negation of =="
            return B(r)
        if op == "enc":
            sp, a, b = D.get_encompassing_span(*[parse_enc_arg(w) for w in ws[1:]])
            alt = ir.Span.encompassing(*[parse_enc_arg(w) for w in ws[1:]])
            if observe(alt) != observe(sp):
                return "Span.encompassing differs from get_encompassing_span"
            return f"{observe(sp)} {'-' if a is None else show_period(a)} {'-' if b is None else show_period(b)}"
    except Exception as e:
        return err_kind(e)
    return "bad-op"


# ---------------------------------------------------------------------------------------
# generators
# ---------------------------------------------------------------------------------------

def day_ordinals(ctx: Ctx):
    if ctx.quick:
        lo, hi = dt.date(1890, 1, 1).toordinal(), dt.date(2110, 12, 31).toordinal()
        extra = []
        for y in (1, 2, 3, 4, 100, 400, 1600, 1700, 1800, 2400, 9996, 9999):
            a = dt.date(y, 1, 1).toordinal()
            extra.extend(range(a, min(a + 366, MAXORD + 1)))
        return sorted(set(range(lo, hi + 1)) | set(extra))
    return range(1, MAXORD + 1)


def regular_serials(ctx: Ctx, f: str):
    v = FVAL[f]
    if ctx.quick:
        years = sorted(set(range(1880, 2121)) | {1, 2, 3, 4, 100, 400, 1600, 1700, 1800, 1900, 2000, 2400, 9998, 9999})
        return [y * v + s for y in years for s in range(v)]
    return range(1 * v, 10000 * v)


def gen_calendar_lines(ctx: Ctx):
    lines = []
    for n in day_ordinals(ctx):
        lines.append(f"ord2ymd {n}")
    ctx.count("days", len(lines))
    k = len(lines)
    # the (year, segment) view of daily periods and the shift keywords, on a thinner grid
    ords = list(day_ordinals(ctx))
    step = 1 if not ctx.quick else 3
    for n in ords[::step]:
        lines.append(f"ys D {n}")
    for n in ords[::7 if ctx.quick else 3]:
        for kw in ("soy", "eopy", "tty", "yoy"):
            if kw in ("yoy", "eopy") and n - 366 < 1:
                continue   # year 0 is outside datetime's calendar
            lines.append(f"shift D {n} {kw}")
    # valid and invalid (y, m, d) triples
    years = [1, 4, 100, 400, 1900, 1999, 2000, 2019, 2020, 2023, 2024, 2100, 9999]
    for y in years:
        for m in range(0, 14):
            for d in (0, 1, 15, 28, 29, 30, 31, 32):
                lines.append(f"ymd2ord {y} {m} {d}")
                lines.append(f"fromymd D {y} {m} {d}")
    ctx.count("daily_other_lines", len(lines) - k)
    return lines


def gen_regular_lines(ctx: Ctx):
    lines = []
    for f in REG:
        v = FVAL[f]
        for s in regular_serials(ctx, f):
            lines.append(f"ys {f} {s}")
            lines.append(f"toymd {f} {s} start")
            lines.append(f"toymd {f} {s} middle")
            lines.append(f"toymd {f} {s} end")
            lines.append(f"shift {f} {s} soy")
            lines.append(f"shift {f} {s} eopy")
            lines.append(f"shift {f} {s} tty")
            lines.append(f"shift {f} {s} yoy")
        for y in (1, 1999, 2020, 9999):
            for seg in range(1, v + 1):
                lines.append(f"fromys {f} {y} {seg}")
            for m in range(1, 13):
                for d in (1, 15, 28):
                    lines.append(f"fromymd {f} {y} {m} {d}")
        ctx.count(f"regular_periods_{f}", len(regular_serials(ctx, f)))
    # integer frequency: no calendar methods
    for s in (-5, 0, 7):
        lines += [f"ys I {s}", f"toymd I {s} start", f"shift I {s} yoy", f"shift I {s} 3", f"shift I {s} soy", f"fromys I 2020 {s}"]
    return lines


def gen_cmp_lines(ctx: Ctx):
    rng = ctx.rng.fork("cmp")
    lines = []
    freqs = ["I", "Y", "H", "Q", "M", "D"]
    edge = [0, 1, -1, 2, 7, 8079, 8080, 8083, 24240, 737425, 737484]
    for f1 in freqs:
        for f2 in freqs:
            for a in edge[:6]:
                for b in edge[:6]:
                    lines.append(f"cmp {f1} {a} {f2} {b}")
    for _ in range(ctx.n(4000, 60000)):
        f1 = rng.choice(freqs)
        f2 = f1 if rng.chance(0.7) else rng.choice(freqs)
        a = rng.choice(edge) if rng.chance(0.2) else rng.randint(-10**6, 10**6)
        b = a + rng.choice([0, 0, 1, -1, 4, -12, 365, 10**4, -10**6]) if rng.chance(0.6) else rng.randint(-10**6, 10**6)
        lines.append(f"cmp {f1} {a} {f2} {b}")
    for f in freqs:
        for a in edge:
            lines.append(f"hash {f} {a}")
    ctx.count("cmp_lines", len(lines))
    return lines


SPAN_OPS = ["rev", "ss", "se", "sh", "add", "sub", "rs", "ls", "res", "get"]


def rand_span_ops(rng, f, n, base):
    ops = []
    for _ in range(n):
        op = rng.weighted([("rev", 3), ("ss", 3), ("se", 3), ("sh", 3), ("add", 2), ("sub", 2), ("rs", 1), ("ls", 1), ("res", 2), ("get", 4), ("sl", 3)])
        if op == "rev":
            ops.append("rev")
        elif op in ("ss", "se", "sh", "add", "sub"):
            ops.append(f"{op} {rng.randint(-6, 6)}")
        elif op in ("rs", "ls"):
            ops.append(f"{op} {rng.randint(-4, 4)}")
        elif op == "res":
            g = f if rng.chance(0.9) else rng.choice(["Y", "Q", "M", "I", "D"])
            a = base[g] + rng.randint(-25, 25)
            ops.append(f"res {g}:{a} {g}:{a + rng.randint(-3, 25)}")
        elif op == "sl":
            part = lambda lo, hi: "-" if rng.chance(0.35) else str(rng.randint(lo, hi))
            ops.append(f"sl {part(-9, 9)} {part(-9, 9)} {part(-3, 3)}")
        else:
            ops.append(f"get {rng.randint(-9, 9)}")
    return ops


def gen_span_lines(ctx: Ctx):
    rng = ctx.rng.fork("span")
    lines = []
    # exhaustive small scope: every (start, end, step) with |start-end| <= R, 1 <= |step| <= 5, then a fixed probe sequence
    R = 9 if ctx.quick else 14
    base = {"Y": 2020, "Q": 8080, "M": 24240, "I": 0, "D": 737425, "H": 4040}
    probes = "get 0 | get -1 | get 1 | get 99 | sl 1 - 2 | sl - - -1 | sl -2 - - | sl 0 0 - | rev | get 0 | get -1 | sl - 2 - | rev | sh 3 | add -2 | sub 1"
    for f in (["Q", "I"] if ctx.quick else ["Y", "H", "Q", "M", "D", "I"]):
        b0 = base[f]
        for d in range(-R, R + 1):
            for st in (-5, -4, -3, -2, -1, 0, 1, 2, 3, 4, 5):
                lines.append(f"span {f}:{b0} {f}:{b0 + d} {st} | {probes}")
    ctx.count("span_exhaustive_small", len(lines))
    k = len(lines)
    # random mutation sequences, including open ends and mixed frequencies
    for _ in range(ctx.n(2500, 50000)):
        f = rng.choice(["Y", "H", "Q", "M", "D", "I"])
        a0 = base[f] + rng.randint(-20, 20)
        kind = rng.weighted([("res", 6), ("openstart", 1), ("openend", 1), ("ctx", 1), ("mixed", 1)])
        st = rng.choice([1, 1, 1, -1, 2, -2, 3, -3, 5, 0, 7])
        e1 = f"{f}:{a0}"
        e2 = f"{f}:{a0 + rng.randint(-15, 15)}"
        if kind == "openstart": e1 = "-"
        if kind == "openend": e2 = "-"
        if kind == "ctx":
            e1 = f"cs:{rng.randint(-3, 3)}" if rng.chance(0.5) else e1
            e2 = f"ce:{rng.randint(-3, 3)}"
        if kind == "mixed":
            g = rng.choice([x for x in ["Y", "Q", "M", "I", "D"] if x != f])
            e2 = f"{g}:{base[g]}"
        ops = rand_span_ops(rng, f, rng.randint(1, 12), base)
        lines.append(f"span {e1} {e2} {st} | " + " | ".join(ops))
        ctx.count(f"span_kind_{kind}")
    ctx.count("span_random_sequences", len(lines) - k)
    # spans built with the operators `x >> y` / `x << y` (periods, None, contextual start/end on either side, mixed
    # frequencies), resolved against a context and then mutated like any other span
    k = len(lines)
    for _ in range(ctx.n(600, 8000)):
        f = rng.choice(["Y", "H", "Q", "M", "D", "I"])
        a0 = base[f] + rng.randint(-20, 20)

        def endpoint(other_none):
            c = rng.weighted([("per", 6), ("none", 0 if other_none else 3), ("cs", 1), ("ce", 1), ("mixed", 1)])
            if c == "per": return f"{f}:{a0 + rng.randint(-12, 12)}"
            if c == "none": return "-"
            if c == "cs": return f"cs:{rng.randint(-3, 3)}"
            if c == "ce": return f"ce:{rng.randint(-3, 3)}"
            g = rng.choice([x for x in ["Y", "Q", "M", "I", "D"] if x != f])
            return f"{g}:{base[g]}"
        e1 = endpoint(False)
        e2 = endpoint(e1 == "-")
        sym = rng.choice(["span>>", "span<<"])
        lo = a0 + rng.randint(-10, 0)
        ops = [f"res {f}:{lo} {f}:{lo + rng.randint(0, 14)}"] if rng.chance(0.8) else []
        ops += rand_span_ops(rng, f, rng.randint(0, 6), base)
        lines.append(f"{sym} {e1} {e2} | " + " | ".join(ops))
        ctx.count("span_operator_" + ("open" if "-" in (e1, e2) else "ctx" if ("c" in (e1[0], e2[0])) else "closed"))
    ctx.count("span_operator_lines", len(lines) - k)
    # p ** n and periods_from_until
    for f in ("Q", "M", "I", "D"):
        for n in range(-5, 6):
            lines.append(f"pow {f} {base[f]} {n}")
        for d in range(-6, 7):
            for st in (-2, -1, 1, 2, 3):
                lines.append(f"pfu {f}:{base[f]} {f}:{base[f] + d} {st}")
    lines.append("pfu Q:1 M:5 1")
    # simulation frames: spans_from_short_span / spans_from_long_span / extend_span
    k = len(lines)
    for f in ("Y", "Q", "M", "I", "D"):
        for d in (0, 1, 2, 5):
            for lag in (-3, -1, 0, 2):
                for lead in (-1, 0, 1, 4):
                    lines.append(f"sfs {f}:{base[f]} {f}:{base[f] + d} {lag} {lead}")
                    lines.append(f"sfl {f}:{base[f] + lag} {f}:{base[f] + d + lead} {lag} {lead}")
            for lo, hi in ((-2, 3), (0, 0), (-1, 0), (1, -1)):
                for pre in "01":
                    for app in "01":
                        lines.append(f"ext {f}:{base[f]} {f}:{base[f] + d} {lo} {hi} {pre} {app}")
    for _ in range(ctx.n(200, 3000)):
        f = rng.choice(["Y", "H", "Q", "M", "D", "I"])
        a0 = base[f] + rng.randint(-30, 30)
        d, lag, lead = rng.randint(0, 12), rng.randint(-6, 3), rng.randint(-3, 6)
        lines.append(f"{rng.choice(['sfs', 'sfl'])} {f}:{a0} {f}:{a0 + d} {lag} {lead}")
        lines.append(f"ext {f}:{a0} {f}:{a0 + d} {rng.randint(-6, 3)} {rng.randint(-3, 6)} {rng.randint(0, 1)} {rng.randint(0, 1)}")
    for f in ("Y", "Q", "M", "I", "D"):
        for d in range(-4, 5):
            for st in (-3, -1, 1, 2):
                lines.append(f"dir {f}:{base[f]} {f}:{base[f] + d} {st}")
        for st in (-2, -1, 1, 3):
            lines += [f"dir - {f}:{base[f]} {st}", f"dir {f}:{base[f]} - {st}", f"dir - - {st}", f"dir cs:1 ce:-1 {st}"]
    lines.append("dir Q:1 M:5 1")
    lines.append("sfs Q:1 M:5 -1 1")
    lines.append("sfl Q:1 M:5 -1 1")
    ctx.count("frame_lines", len(lines) - k)
    # span == span: equal and unequal triples of one frequency, different frequencies with equal and with different steps,
    # open ends
    k = len(lines)
    for _ in range(ctx.n(500, 6000)):
        f = rng.choice(["Y", "H", "Q", "M", "D", "I"])
        a0 = base[f] + rng.randint(-8, 8)
        b0 = a0 + rng.randint(-6, 6)
        st = rng.choice([1, 1, -1, 2, 3, -2])
        kind = rng.weighted([("same", 3), ("start", 2), ("end", 2), ("step", 2), ("mixed", 4), ("mixed-step", 4), ("open", 1)])
        g, a1, b1, st1 = f, a0, b0, st
        if kind == "start": a1 = a0 + rng.choice([-1, 1, 2])
        if kind == "end": b1 = b0 + rng.choice([-1, 1, 2])
        if kind == "step": st1 = st + rng.choice([1, 2, -1]) or 1
        if kind.startswith("mixed"):
            g = rng.choice([x for x in ["Y", "H", "Q", "M", "D", "I"] if x != f])
            a1, b1 = base[g] + (a0 - base[f]), base[g] + (b0 - base[f])
            if kind == "mixed-step": st1 = st + rng.choice([1, 2, 3])
        e = [f"{f}:{a0}", f"{f}:{b0}", f"{g}:{a1}", f"{g}:{b1}"]
        if kind == "open":
            e[rng.randint(0, 3)] = rng.choice(["-", "cs:1", "ce:-1"])
        lines.append(f"speq {e[0]} {e[1]} {st} {e[2]} {e[3]} {st1}")
        ctx.count("span_eq_" + kind)
    ctx.count("span_eq_lines", len(lines) - k)
    # get_encompassing_span / Span.encompassing: objects with start/end attributes, sequences in any order with None
    # elements, None arguments, empty sequences, mixed frequencies within one sequence (ignored) and across arguments (rejected)
    k = len(lines)
    for _ in range(ctx.n(500, 8000)):
        f = rng.choice(["Y", "H", "Q", "M", "D", "I"])
        args = []
        for _ in range(rng.randint(0, 4)):
            kind = rng.weighted([("seq", 5), ("attrs", 3), ("none", 1), ("foreign", 1)])
            g = f if kind != "foreign" else rng.choice([x for x in ["Y", "Q", "M", "I", "D"] if x != f])

            def per():
                return f"{g}:{base[g] + rng.randint(-15, 15)}"
            if kind == "none":
                args.append("-")
            elif kind == "attrs":
                args.append("A:" + (per() if rng.chance(0.85) else "-") + "," + (per() if rng.chance(0.85) else "-"))
            else:
                items = [per() if rng.chance(0.85) else "-" for _ in range(rng.randint(0, 5))]
                if items and rng.chance(0.08):
                    h = rng.choice([x for x in ["Y", "Q", "M", "I", "D"] if x != g])
                    items[rng.randint(0, len(items) - 1)] = f"{h}:{base[h]}"
                args.append("S:" + ",".join(items))
        lines.append("enc " + " ".join(args))
    ctx.count("encompassing_lines", len(lines) - k)
    return lines


# ---------------------------------------------------------------------------------------
# property oracle on the implementation (independent of the Lean model)
# ---------------------------------------------------------------------------------------

ONE = dt.timedelta(days=1)


def oracle_calendar(ctx: Ctx, budget_scale=1):
    """tiling, accessors, shift keywords -- through datetime only"""
    # regular frequencies
    for f in REG:
        v = FVAL[f]
        cls = CLS[f]
        serials = regular_serials(ctx, f)
        for s in serials:
            p = cls(s)
            try:
                y, seg = p.to_year_segment()
                a, m, b = (p.to_python_date(position=k) for k in ("start", "middle", "end"))
                ok = a <= m <= b and a.year == y == b.year == p.year and p.segment == seg == (a.month - 1) // (12 // v) + 1
                if not ok:
                    ctx.fail(f"regular-accessors-{f}", {"freq": f, "serial": s}, f"start/middle/end={a},{m},{b} year/segment={y},{seg}")
                if y < 9999 or seg < v:
                    nxt = (p + 1).to_python_date(position="start")
                    if nxt != b + ONE:
                        ctx.fail(f"tiling-{f}", {"freq": f, "serial": s}, f"end={b} next start={nxt}")
                # shift keywords
                q = p.shift("yoy")
                if (q.serial != s - v) or q.to_year_segment() != (y - 1, seg):
                    ctx.fail("shift-yoy", {"freq": f, "serial": s}, f"{q!r}")
                if p.shift("soy").to_year_segment() != (y, 1) or p.shift("boy") != p.shift("soy"):
                    ctx.fail("shift-soy", {"freq": f, "serial": s}, f"{p.shift('soy')!r}")
                if p.shift("eopy").to_year_segment() != (y - 1, v):
                    ctx.fail("shift-eopy", {"freq": f, "serial": s}, f"{p.shift('eopy')!r}")
                t = p.shift("tty")
                if (seg == 1 and t is not None) or (seg > 1 and (t is None or t.serial != s - 1)):
                    ctx.fail("shift-tty", {"freq": f, "serial": s}, f"{t!r}")
            except Exception as e:
                ctx.fail(f"regular-raises-{f}", {"freq": f, "serial": s}, repr(e))
            ctx.evaluations += 1
    # the regular period built from a calendar date (from_ymd, refrequent of the daily period) covers that date
    for f in REG:
        cls = CLS[f]
        for y in sorted({1, 1900, 1999, 2000, 2019, 2020, 2023, 2024, 9999} | (set() if (ctx.quick and budget_scale == 1) else set(range(1990, 2031)))):
            for m in range(1, 13):
                for d in (1, 14, 28, dt.date(y + (m == 12), m % 12 + 1, 1).toordinal() - dt.date(y, m, 1).toordinal() if y < 9999 else 28):
                    date = dt.date(y, m, d)
                    try:
                        p = cls.from_ymd(y, m, d)
                        a, b = p.to_python_date(position="start"), p.to_python_date(position="end")
                        q = D.DailyPeriod.from_ymd(y, m, d).refrequent(FREQ[f])
                        if not (a <= date <= b) or p.year != y or q != p:
                            ctx.fail(f"period-from-date-{f}", {"freq": f, "date": [y, m, d]}, f"from_ymd -> {p!r} covering {a}..{b}; refrequent of the day -> {q!r}")
                    except Exception as e:
                        ctx.fail(f"period-from-date-{f}", {"freq": f, "date": [y, m, d]}, repr(e))
                    ctx.evaluations += 1
    # daily
    ords = list(day_ordinals(ctx))
    for n in ords[::(5 if (ctx.quick and budget_scale == 1) else 1)]:
        p = D.DailyPeriod(n)
        date = dt.date.fromordinal(n)
        try:
            if (p.year, p.month, p.day) != (date.year, date.month, date.day) or p.to_python_date() != date:
                ctx.fail("daily-ymd", {"ordinal": n}, f"{p.to_ymd()} vs {date}")
            if D.DailyPeriod.from_ymd(date.year, date.month, date.day).serial != n:
                ctx.fail("daily-from-ymd", {"ordinal": n}, "from_ymd(to_ymd) differs")
        except Exception as e:
            ctx.fail("daily-ymd-raises", {"ordinal": n}, repr(e))
        doy = (date - dt.date(date.year, 1, 1)).days + 1
        try:
            if p.to_year_segment() != (date.year, doy) or p.segment != doy:
                ctx.fail("daily-year-segment", {"ordinal": n}, f"{p.to_year_segment()} vs {(date.year, doy)}")
        except Exception as e:
            ctx.fail("daily-year-segment", {"ordinal": n}, "to_year_segment()/segment raises " + repr(e))
        try:
            if p.shift("soy").to_python_date() != dt.date(date.year, 1, 1):
                ctx.fail("daily-shift-soy", {"ordinal": n}, repr(p.shift("soy")))
            if date.year > 1 and p.shift("eopy").to_python_date() != dt.date(date.year - 1, 12, 31):
                ctx.fail("daily-shift-eopy", {"ordinal": n}, repr(p.shift("eopy")))
        except Exception as e:
            ctx.fail("daily-shift-raises", {"ordinal": n}, repr(e))
        try:
            t = p.shift("tty")
            if (doy == 1 and t is not None) or (doy > 1 and (t is None or t.serial != n - 1)):
                ctx.fail("daily-shift-tty", {"ordinal": n}, f"{t!r}")
        except Exception as e:
            ctx.fail("daily-shift-tty", {"ordinal": n}, "shift('tty') raises " + repr(e))
        ctx.evaluations += 1


def oracle_arith(ctx: Ctx, lines):
    for line in lines:
        ws = line.split()
        if ws[0] != "cmp":
            continue
        p, q = CLS[ws[1]](int(ws[2])), CLS[ws[3]](int(ws[4]))
        case = {"line": line}
        # periods are values: `r += k` / `r -= k` rebind the name, they never move a period other references still hold
        try:
            held, r = p, p
            r += 3
            r -= 1
            if held.serial != int(ws[2]) or p.serial != int(ws[2]) or r.serial != int(ws[2]) + 2 or type(r) is not type(p):
                ctx.fail("period-mutated-by-augmented-assignment", case, f"after r = p; r += 3; r -= 1: p is {p!r}, r is {r!r}")
                continue
        except Exception as e:
            ctx.fail("period-arithmetic", case, f"augmented assignment raises {e!r}")
            continue
        ctx.evaluations += 1
        if ws[1] != ws[3]:
            for name, f in (("-", lambda: p - q), ("==", lambda: p == q), ("!=", lambda: p != q), ("<", lambda: p < q),
                            ("<=", lambda: p <= q), (">", lambda: p > q), (">=", lambda: p >= q)):
                try:
                    r = f()
                    ctx.fail("mixed-frequency-not-rejected", case, f"{name} returned {r!r}")
                except Exception:
                    pass
            try:
                ir.Span(p, q)
                ctx.fail("mixed-frequency-not-rejected", case, "Span(p, q) accepted")
            except Exception:
                pass
            continue
        try:
            a, b = p.serial, q.serial
            n = q - p
            ok = (p + n == q) and ((p + n) - p == n) and (n + p == q) and (q - n == p)
            ok = ok and (p < q) == (a < b) and (p <= q) == (a <= b) and (p > q) == (a > b) and (p >= q) == (a >= b)
            ok = ok and (p == q) == (a == b) and (p != q) == (a != b)
            ok = ok and (a != b or hash(p) == hash(q)) and ((p in {q}) == (a == b)) and (({p: 1}.get(q) == 1) == (a == b))
            ok = ok and [(p < q), (p == q), (p > q)].count(True) == 1
            if not ok:
                ctx.fail("period-arithmetic", case, "arithmetic/order/hash law fails")
        except Exception as e:
            ctx.fail("period-arithmetic", case, repr(e))


def pyrange_list(a, b, st):
    """start, start+step, ... up to end in either direction (plain loop, no range())"""
    out, x = [], a
    if st > 0:
        while x <= b:
            out.append(x); x += st
    elif st < 0:
        while x >= b:
            out.append(x); x += st
    return out


def oracle_span_eq(ctx: Ctx, line, ws):
    """two resolved spans of one frequency are equal iff their (start, end, step) are; spans of different frequencies are
    never silently compared, whatever their steps"""
    if any(w == "-" or w[0] == "c" for w in (ws[1], ws[2], ws[4], ws[5])):
        return
    ctx.evaluations += 1
    fa, fb = ws[1][0], ws[4][0]
    try:
        s1 = ir.Span(parse_endpoint(ws[1]), parse_endpoint(ws[2]), int(ws[3]))
        s2 = ir.Span(parse_endpoint(ws[4]), parse_endpoint(ws[5]), int(ws[6]))
    except Exception:
        return
    for name, fn in (("==", lambda: s1 == s2), ("!=", lambda: s1 != s2)):
        try:
            r = fn()
        except Exception:
            if fa == fb:
                ctx.fail("span-equality", {"line": line}, f"{name} raises on spans of one frequency")
            continue
        if fa != fb:
            ctx.fail("mixed-frequency-not-rejected", {"line": line}, f"spans of different frequencies: {name} returned {r!r}")
            return
        want = (ws[1], ws[2], int(ws[3])) == (ws[4], ws[5], int(ws[6]))
        if r is not (want if name == "==" else not want):
            ctx.fail("span-equality", {"line": line}, f"{name} returned {r!r}")
            return
    ctx.nontriv(("speq", fa == fb, int(ws[3]) == int(ws[6])))


def frame_iterable(a, b):
    """the iterable handed to spans_from_short_span / spans_from_long_span / extend_span: they read only its first and
    last element, so the shape alternates between a pair, a Span and a tuple of all periods (when a <= b is one frequency)"""
    if type(a) is type(b) and a.serial <= b.serial:
        k = (a.serial + b.serial) % 3
        if k == 0:
            return ir.Span(a, b)
        if k == 1:
            return tuple(D.periods_from_until(a, b))
    return (a, b)


def oracle_direction(ctx: Ctx, line, ws):
    """direction is "forward" exactly for a positive step, reversed() flips it, and a resolved span with two or more
    periods is enumerated upwards exactly when it is forward"""
    a, b, st = parse_endpoint(ws[1]), parse_endpoint(ws[2]), int(ws[3])
    if st == 0 or (a is not None and b is not None and type(a) is not type(b)):
        return
    ctx.evaluations += 1
    try:
        sp = ir.Span(a, b, st)
        want = "forward" if st > 0 else "backward"
        flip = "backward" if st > 0 else "forward"
        if sp.direction != want or sp.reversed().direction != flip:
            ctx.fail("span-direction", {"line": line}, f"direction {sp.direction!r}, reversed {sp.reversed().direction!r}; expected {want!r}, {flip!r}")
            return
        if a is not None and b is not None and not isinstance(a, D.ContextualPeriod) and not isinstance(b, D.ContextualPeriod):
            ser = [p.serial for p in sp]
            if len(ser) >= 2:
                up = all(x < y for x, y in zip(ser, ser[1:]))
                down = all(x > y for x, y in zip(ser, ser[1:]))
                if (want == "forward" and not up) or (want == "backward" and not down):
                    ctx.fail("span-direction", {"line": line}, f"a {want} span enumerates {ser[:6]}")
                    return
                ctx.nontriv(("dir", st > 0, len(ser) > 2))
    except Exception as e:
        ctx.fail("span-direction", {"line": line}, f"{e!r}")


def oracle_frames(ctx: Ctx, line, ws):
    """spans_from_short_span / spans_from_long_span: the short span is first..last, the long span is the short one moved
    by (max_lag, max_lead) at its two ends, the two functions invert each other; extend_span moves an end exactly when
    its switch is on"""
    a, b = parse_endpoint(ws[1]), parse_endpoint(ws[2])
    if type(a) is not type(b) or (ws[0] != "ext" and a.serial > b.serial):
        return   # mixed frequencies / an inverted pair are rejected (tie: theorem spansFrom_inverted_rejected)
    ctx.evaluations += 1
    K = type(a)
    try:
        if ws[0] == "ext":
            lo, hi, pre, app = int(ws[3]), int(ws[4]), ws[5] == "1", ws[6] == "1"
            s, e = D.extend_span(frame_iterable(a, b), lo, hi, pre, app)
            want = (a.serial + (lo if pre else 0), b.serial + (hi if app else 0))
            if (s.serial, e.serial) != want or type(s) is not K or type(e) is not K:
                ctx.fail("extend-span", {"line": line}, f"extend_span -> {(s.serial, e.serial)}, expected {want}")
            ctx.nontriv(("ext", pre, app))
            return
        lag, lead = int(ws[3]), int(ws[4])
        if ws[0] == "sfs":
            short, long_ = D.spans_from_short_span(frame_iterable(a, b), lag, lead)
            want_s, want_l = list(range(a.serial, b.serial + 1)), list(range(a.serial + lag, b.serial + lead + 1))
        else:
            short, long_ = D.spans_from_long_span(frame_iterable(a, b), lag, lead)
            want_l, want_s = list(range(a.serial, b.serial + 1)), list(range(a.serial - lag, b.serial - lead + 1))
        got_s, got_l = [p.serial for p in short], [p.serial for p in long_]
        if got_s != want_s or got_l != want_l or any(type(p) is not K for p in tuple(short) + tuple(long_)):
            ctx.fail("simulation-frame-spans", {"line": line}, f"{ws[0]} -> short {got_s[:8]} long {got_l[:8]}, expected short {want_s[:8]} long {want_l[:8]}")
            return
        if ws[0] == "sfs" and got_l:
            back_s, back_l = D.spans_from_long_span(long_, lag, lead)
            if [p.serial for p in back_s] != got_s or [p.serial for p in back_l] != got_l:
                ctx.fail("simulation-frame-spans", {"line": line}, f"spans_from_long_span does not invert spans_from_short_span: short {[p.serial for p in back_s][:8]} vs {got_s[:8]}")
                return
        ctx.nontriv((ws[0], lag < 0, lag > 0, lead > 0, lead < 0, len(got_s) > 1))
    except Exception as e:
        ctx.fail("simulation-frame-spans", {"line": line}, f"{ws[0]}: {e!r}")


def oracle_pfu(ctx: Ctx, line, ws):
    """periods_from_until(a, b, step) (and its aliases periods_from_to / daters_from_to) lists a, a+step, ... while <= b"""
    a, b, st = parse_endpoint(ws[1]), parse_endpoint(ws[2]), int(ws[3])
    if type(a) is not type(b) or st <= 0:
        return
    ctx.evaluations += 1
    want = pyrange_list(a.serial, b.serial, st)
    for name, fn in (("periods_from_until", D.periods_from_until), ("periods_from_to", D.periods_from_to), ("daters_from_to", D.daters_from_to)):
        try:
            got = fn(a, b, st)
            span_way = [p.serial for p in ir.Span(a, b, st)]
            if [p.serial for p in got] != want or any(type(p) is not type(a) for p in got) or span_way != want:
                ctx.fail("periods-from-until", {"line": line}, f"{name} -> {[p.serial for p in got][:8]}, Span -> {span_way[:8]}, expected {want[:8]}")
                return
            if st == 1 and [p.serial for p in fn(a, b)] != want:
                ctx.fail("periods-from-until", {"line": line}, f"{name} with the default step differs from step=1")
                return
        except Exception as e:
            ctx.fail("periods-from-until", {"line": line}, f"{name}: {e!r}")
            return


def oracle_encompassing(ctx: Ctx, line, ws):
    """the encompassing span starts at or before and ends at or after every period of every argument (sequences in any
    order); only arguments of one frequency are judged (the others are the rejection cases of the correspondence stream)"""
    ctx.evaluations += 1
    case = {"line": line}
    lo, hi, letters = [], [], set()
    for w in ws[1:]:
        if w == "-":
            continue
        items = [x for x in w[2:].split(",") if x and x != "-"]
        letters |= {x.split(":")[0] for x in items}
        sers = [int(x.split(":")[1]) for x in items]
        if w.startswith("A:"):
            a, b = w[2:].split(",")
            if a != "-": lo.append(int(a.split(":")[1]))
            if b != "-": hi.append(int(b.split(":")[1]))
        elif sers:
            lo.append(min(sers)); hi.append(max(sers))
    if len(letters) > 1:
        return
    try:
        sp, a, b = D.get_encompassing_span(*[parse_enc_arg(w) for w in ws[1:]])
        got = (None if a is None else a.serial, None if b is None else b.serial)
        want = (min(lo) if lo else None, max(hi) if hi else None)
        ok = got == want and (a is None or sp.start == a) and (b is None or sp.end == b) and sp.step == 1
        ok = ok and (a is None or LETTER[type(a)] in letters) and (b is None or LETTER[type(b)] in letters)
        if not ok:
            ctx.fail("encompassing-span", case, f"start/end {got}, expected {want}; span {sp!r}")
        elif lo and hi:
            ctx.nontriv(("enc", len(ws) - 1, want[0] <= want[1]))
    except Exception as e:
        ctx.fail("encompassing-span", case, repr(e))


def oracle_spans(ctx: Ctx, lines):
    """replay every span line on the implementation, checking after every op that len / iter / index agree with the
    plain enumeration of start, start+step, ... and that reversal / shifting do what the property says"""
    for line in lines:
        ws = line.split()
        if ws[0] == "enc":
            oracle_encompassing(ctx, line, ws)
            continue
        if ws[0] == "pfu":
            oracle_pfu(ctx, line, ws)
            continue
        if ws[0] == "dir":
            oracle_direction(ctx, line, ws)
            continue
        if ws[0] in ("sfs", "sfl", "ext"):
            oracle_frames(ctx, line, ws)
            continue
        if ws[0] == "speq":
            oracle_span_eq(ctx, line, ws)
            continue
        if ws[0] not in ("span", "span>>", "span<<"):
            continue
        ctx.evaluations += 1
        case = {"line": line}
        try:
            s, k0 = construct_span(ws)
        except Exception:
            continue
        if ws[0] != "span":
            # x >> y runs forward from x (or the context's start) to y (or the context's end); x << y runs back from y (or the
            # context's end) to x (or the context's start)
            x, y = ws[1], ws[2]
            want3 = (x if x != "-" else "cs:0", y if y != "-" else "ce:0", 1) if ws[0] == "span>>" else \
                    (y if y != "-" else "ce:0", x if x != "-" else "cs:0", -1)
            got3 = (show_endpoint(s.start), show_endpoint(s.end), s.step)
            if got3 != want3:
                ctx.fail("span-operator-construction", case, f"{x} {ws[0][4:]} {y} is the span {got3}, expected {want3}")
                continue
        ops = [o.strip() for o in " ".join(ws[k0:]).split("|") if o.strip()]
        for op in [None] + ops:
            try:
                if op is not None:
                    if op.split()[0] == "res":
                        # resolution replaces exactly the contextual ends by the context's start/end plus their offset
                        cs, ce = parse_endpoint(op.split()[1]), parse_endpoint(op.split()[2])
                        def resolved(e):
                            if isinstance(e, D.ContextualPeriod):
                                tag, off = show_endpoint(e).split(":")
                                return show_period((cs if tag == "cs" else ce) + int(off))
                            return show_period(e)
                        want3 = (resolved(s.start), resolved(s.end), s.step)
                        same_class = want3[0][0] == want3[1][0]
                        r = s.resolve(D.ResolutionContext(cs, ce))
                        got3 = (show_endpoint(r.start), show_endpoint(r.end), r.step)
                        if same_class and got3 != want3:
                            ctx.fail("span-resolve", case, f"after {op}: resolved to {got3}, expected {want3}")
                            break
                    before = None
                    if not s.needs_resolve and s.step != 0 and type(s.start) is type(s.end):
                        before = [p.serial for p in s]
                    s, _ = span_op(s, op.split())
                    if before is not None and op.split()[0] in ("sh", "add", "sub"):
                        k = int(op.split()[1]) * (-1 if op.split()[0] == "sub" else 1)
                        if [p.serial for p in s] != [x + k for x in before]:
                            ctx.fail("span-shift", case, f"after {op}: elements are not shifted by {k}")
                    if before is not None and op.split()[0] == "rev":
                        now = [p.serial for p in s]
                        if before and (before[-1] == s.start.serial) and now != before[::-1]:
                            ctx.fail("span-reverse", case, "reversal does not enumerate the reversed sequence")
                        r2 = s.reversed()
                        if (r2.start, r2.end, r2.step) != (s.end, s.start, -s.step):
                            ctx.fail("span-reverse", case, "reversed() is not the mirror image")
            except Exception:
                break
            # functional forms never modify or alias the span they are applied to (resolved or open-ended alike)
            try:
                snap = (show_endpoint(s.start), show_endpoint(s.end), s.step)
                r = s.reversed()
                c = s.copy()
                c.shift(2); c.reverse()
                plus = s + 1
                # ... also for the neutral offset: `span + 0`, `0 + span`, `span - 0` are new spans, not the span itself
                zeros = [s + 0, 0 + s, s - 0]
                ok = r is not s and c is not s and plus is not s and all(z is not s for z in zeros)
                ok = ok and all((show_endpoint(z.start), show_endpoint(z.end), z.step) == snap for z in zeros)
                for z in zeros:
                    z.shift(3); z.reverse()
                ok = ok and (show_endpoint(s.start), show_endpoint(s.end), s.step) == snap
                ok = ok and (show_endpoint(r.start), show_endpoint(r.end), r.step) == (snap[1], snap[0], -snap[2])
                if not ok:
                    ctx.fail("span-functional-form-mutates", case, f"after {op}: reversed()/copy()/+ changed or aliased the span: was {snap}, now "
                             f"{(show_endpoint(s.start), show_endpoint(s.end), s.step)}")
                    break
            except Exception:
                pass
            if not s.needs_resolve and not isinstance(s.start, D.ContextualPeriod) and not isinstance(s.end, D.ContextualPeriod) \
                    and type(s.start) is not type(s.end):
                # mixing frequencies is rejected rather than silently compared: no operation may hand out a resolved span
                # whose ends have different frequencies
                ctx.fail("mixed-frequency-not-rejected", case, f"after {op}: resolved span from {s.start!r} to {s.end!r}")
                break
            if s.needs_resolve or s.step == 0 or type(s.start) is not type(s.end):
                continue
            want = pyrange_list(s.start.serial, s.end.serial, s.step)
            try:
                got = [p.serial for p in s]
                ok = got == want and len(s) == len(want) and all(type(p) is type(s.start) for p in s)
                ok = ok and all(s[i].serial == want[i] for i in range(len(want)))
                ok = ok and all(s[-i].serial == want[-i] for i in range(1, len(want) + 1))
                if want:
                    ok = ok and s[0] == s.start
                # slices select by position: for a positive slice step they are the list's own slices; for a negative one the
                # code returns the same positions in span order
                for sl in (slice(1, None, 2), slice(None, None, None), slice(-2, None), slice(None, 2), slice(None, None, -1), slice(5, 0, -2)):
                    got_sl = [p.serial for p in s[sl]]
                    ref = want[sl] if (sl.step or 1) > 0 else sorted(want[sl], key=want.index)
                    ok = ok and got_sl == ref
                if not ok:
                    ctx.fail("span-enumeration", case, f"after {op}: iter={got[:8]} expected={want[:8]} len={len(s)}")
                if len(want) >= 2:
                    ctx.nontriv(("span", s.step, len(want), op.split()[0] if op else "init"))
            except Exception as e:
                ctx.fail("span-enumeration", case, f"after {op}: {e!r}")


# ---------------------------------------------------------------------------------------
# entry points
# ---------------------------------------------------------------------------------------

def all_lines(ctx: Ctx):
    return {
        "calendar": gen_calendar_lines(ctx),
        "regular": gen_regular_lines(ctx),
        "cmp": gen_cmp_lines(ctx),
        "span": gen_span_lines(ctx),
    }


def history_independence(ctx: Ctx, streams, first_pass):
    """every request is a pure function of its arguments: a second evaluation of a sample of all requests, in a shuffled order
    that interleaves frequencies and streams (after everything else has run in this process), must give the first answers.
    This is what exposes memos keyed too coarsely (e.g. by serial or by year without the frequency) and state left behind."""
    rng = ctx.rng.fork("history")
    pool = [(name, i) for name, lines in streams.items() for i in range(len(lines))]
    k = min(len(pool), ctx.n(30000, 300000))
    for j in range(k):   # partial Fisher-Yates: the first k entries are a uniform sample in random order
        r = rng.randint(j, len(pool) - 1)
        pool[j], pool[r] = pool[r], pool[j]
    bad = 0
    for name, i in pool[:k]:
        again = impl_eval(streams[name][i])
        if again != first_pass[name][i]:
            bad += 1
            if bad <= 3:
                ctx.fail("answer-depends-on-history", {"line": streams[name][i]} if "span" in streams[name][i][:4] else streams[name][i],
                         f"first evaluation {first_pass[name][i]!r}, evaluated again later in the same process {again!r}")
    ctx.count("history_reevaluations", k)
    ctx.evaluations += k


def run(ctx: Ctx):
    ctx.rule = ("calendar: every day / every regular period of the enumerated years (quick: 1890-2110 plus boundary years; "
                "thorough: years 1-9999 exhaustively); arithmetic: edge and random period pairs of equal and mixed frequency; "
                "spans: every (start,end,step) in a small box plus random mutation sequences with open ends. "
                "distinct_nontrivial counts distinct (step, length>=2, op) span states reached, distinct (freq, year%400, segment) "
                "calendar classes and distinct cmp sign patterns")
    streams = all_lines(ctx)
    first_pass = {}
    for name, lines in streams.items():
        impl = [impl_eval(l) for l in lines]
        first_pass[name] = impl
        model = ctx.model("C09", lines)
        ctx.compare(name, lines, impl, model)
        ctx.evaluations += len(lines)
        for l, o in list(zip(lines, impl))[:: max(1, len(lines) // 2)][:2]:
            ctx.sample({"stream": name, "request": l, "implementation": o})
        for l, o in zip(lines, impl):
            ws = l.split()
            if ws[0] in ("ys", "toymd") and not o.startswith("err"):
                y = int(o.split()[0])
                ctx.nontriv((ws[0], ws[1], y % 400 if ws[1] != "D" else y % 4, o.split()[1] if ws[0] == "ys" and ws[1] != "D" else ""))
            elif ws[0] == "cmp":
                ctx.nontriv(("cmp", ws[1] == ws[3], o[-13:]))
    history_independence(ctx, streams, first_pass)
    ctx.exhaustive = not ctx.quick
    oracle_calendar(ctx)
    oracle_arith(ctx, streams["cmp"])
    oracle_spans(ctx, streams["span"])


def search(ctx: Ctx, seeds):
    """failing-input search on the real code when a tie broke: the oracles alone with the full budget"""
    ctx.tier = "quick"   # bounded: quick enumeration without thinning (~1 min)
    oracle_calendar(ctx, budget_scale=10)
    oracle_arith(ctx, gen_cmp_lines(ctx))
    oracle_spans(ctx, gen_span_lines(ctx) + [c for c in seeds if isinstance(c, str) and (c.startswith("span") or c.startswith("enc") or c.startswith("pfu") or c.startswith("speq") or c.startswith("sfs") or c.startswith("sfl") or c.startswith("ext ") or c.startswith("dir "))])


def replay(ctx: Ctx, payload):
    case = payload.get("case")
    lines = []
    if isinstance(case, dict) and "line" in case:
        lines = [case["line"]]
    elif isinstance(case, str):
        lines = [case]
    if lines:
        impl = [impl_eval(l) for l in lines]
        ctx.compare("replay", lines, impl, ctx.model("C09", lines))
        oracle_arith(ctx, lines)
        oracle_spans(ctx, lines)
        ctx.evaluations += len(lines)
    else:
        oracle_calendar(ctx)
