/-
Helper lemmas for property C18 about the executable VAR model (`Model/RedVar.lean`): reading an `ofFn`
matrix, congruence of the left-to-right sums, one simulation step.
-/
import IrisVerif.Model.RedVar
import Mathlib.Tactic.Ring
import Mathlib.Tactic.Linarith

namespace IrisVerif.RedVar
open IrisVerif

theorem get_ofFn (r c : Nat) (f : Nat → Nat → Rat) (i j : Nat) :
    (QMat.ofFn r c f).get i j = if i < r ∧ j < c then f i j else 0 := by
  unfold QMat.get QMat.ofFn
  simp only [Array.getD_eq_getD_getElem?, Array.getElem?_map, Array.getElem?_range]
  by_cases hi : i < r <;> by_cases hj : j < c <;> simp [hi, hj]

theorem sumTo_congr {n : Nat} {f g : Nat → Rat} (h : ∀ k, k < n → f k = g k) : sumTo n f = sumTo n g := by
  unfold sumTo
  induction n with
  | zero => rfl
  | succ n ih =>
    rw [List.range_succ, List.foldl_append, List.foldl_append, ih (fun k hk => h k (by omega))]
    simp [h n (by omega)]


theorem simStep_rows (s : Spec) (A B : QMat) (c : QVec) (X E P : QMat) (t : Nat) :
    (simStep s A B c X E P t).rows = P.rows ∧ (simStep s A B c X E P t).cols = P.cols := ⟨rfl, rfl⟩

theorem simStep_get (s : Spec) (A B : QMat) (c : QVec) (X E P : QMat) (t i j : Nat)
    (hi : i < P.rows) (hj : j < P.cols) :
    (simStep s A B c X E P t).get i j = if j = t then simValue s A B c X E P i t else P.get i j := by
  unfold simStep
  rw [get_ofFn]
  simp [hi, hj]

/-- the simulated value of period `t` reads the path only in columns before `t` -/
theorem simValue_congr (s : Spec) (A B : QMat) (c : QVec) (X E P D : QMat) (i t : Nat)
    (ht : 1 ≤ t) (hn : s.n = D.rows)
    (hagree : ∀ i j, i < D.rows → j < t → P.get i j = D.get i j) :
    simValue s A B c X E P i t = simValue s A B c X E D i t := by
  unfold simValue
  congr 3
  apply sumTo_congr
  intro r hr
  have hnpos : 0 < s.n := by
    unfold Spec.numLagged at hr
    rcases Nat.eq_zero_or_pos s.n with h0 | h0
    · rw [h0] at hr; simp at hr
    · exact h0
  rw [hagree (r % s.n) (t - (r / s.n + 1)) (hn ▸ Nat.mod_lt r hnpos) (Nat.sub_lt (by omega) (Nat.succ_pos _))]

theorem simulate_dims (s : Spec) (A B : QMat) (c : QVec) (X E P : QMat) (ts : List Nat) :
    (simulate s A B c X E P ts).rows = P.rows ∧ (simulate s A B c X E P ts).cols = P.cols := by
  unfold simulate
  induction ts generalizing P with
  | nil => exact ⟨rfl, rfl⟩
  | cons t ts ih =>
    simp only [List.foldl_cons]
    exact ih (simStep s A B c X E P t)


/-! ### finite-map lemmas for the databox returned by `estimate` -/

theorem dbLookup_append {α : Type} (a b : DB α) (k : String) :
    dbLookup (a ++ b) k = if dbHas a k then dbLookup a k else dbLookup b k := by
  unfold dbLookup dbHas
  rw [List.find?_append]
  cases h : a.find? (fun p => p.1 == k) with
  | none =>
    have : a.any (fun p => p.1 == k) = false := by
      rw [List.find?_eq_none] at h
      simpa [List.any_eq_false] using h
    simp [this]
  | some v =>
    have : a.any (fun p => p.1 == k) = true := by
      rw [List.any_eq_true]
      exact ⟨v, List.mem_of_find?_eq_some h, by simpa using List.find?_some h⟩
    simp [this]

theorem dbHas_map {α : Type} (a : DB α) (f : String × α → α) (k : String) :
    dbHas (a.map (fun p => (p.1, f p))) k = dbHas a k := by
  unfold dbHas
  simp [List.any_map, Function.comp_def]

theorem dbLookup_map {α : Type} (a : DB α) (f : String → α → α) (k : String) :
    dbLookup (a.map (fun p => (p.1, f p.1 p.2))) k = (dbLookup a k).map (f k) := by
  unfold dbLookup
  induction a with
  | nil => rfl
  | cons p ps ih =>
    simp only [List.map_cons, List.find?_cons]
    by_cases h : (p.1 == k) = true
    · have hk : p.1 = k := by simpa using h
      simp [h, hk]
    · simp only [h]
      exact ih

theorem dbLookup_filter_not {α : Type} (b : DB α) (q : String → Bool) (k : String) (hq : q k = false) :
    dbLookup (b.filter (fun p => !q p.1)) k = dbLookup b k := by
  unfold dbLookup
  induction b with
  | nil => rfl
  | cons p ps ih =>
    by_cases h : (p.1 == k) = true
    · have hk : p.1 = k := by simpa using h
      simp [List.filter_cons, hk, hq]
    · by_cases hqp : q p.1 = true
      · simp only [List.filter_cons, hqp, Bool.not_true, List.find?_cons, h]
        simpa using ih
      · simp only [List.filter_cons, hqp, Bool.not_false, List.find?_cons, h, if_true]
        simpa using ih

theorem dbHas_iff_lookup {α : Type} (a : DB α) (k : String) : dbHas a k = (dbLookup a k).isSome := by
  unfold dbHas dbLookup
  induction a with
  | nil => rfl
  | cons p ps ih =>
    by_cases h : (p.1 == k) = true
    · simp [List.find?_cons, h]
    · simp only [List.any_cons, List.find?_cons, h, Bool.false_or]
      simpa using ih


end IrisVerif.RedVar
