/-
Line-protocol driver for the first-order model (property C01).

  vec  A <n> q s …  M <n> q s …
        -> sys=q:s,…;init=TF…;nf=<n>;dyn=i:j,…
  cert <ne> S <n> q s …  A B C D T K P X J Ru          (matrices as `r c x11 …`, entries `num/den`)
        -> ok smax=<n> rows=<n> bLead=<q> E1=<q> E2=<q> E3=<q> E4=<q>,<q>,… W=<q> scale=<q>      (max-abs of every block)
  stab <k> T
        -> T | F                                        (‖T^(2^k)‖∞ < 1, exactly)
  sqtri T Ua Ta P Pa K Ka X Xa
        -> ok TU=<q> P=<q> K=<q> X=<q> scale=<q>       (max-abs of T Ua - Ua Ta, P - Ua Pa, K - Ua Ka, X - Ua Xa)
  sim  <dev 0/1> <split 0/1> <first> <last> A <n> q s … M <n> q s …  T K P X J Ru Z H D x u v w y
        -> x <matrix> y <matrix>
-/
import IrisVerif.Model.FirstOrder
import IrisVerif.Driver.Util

open IrisVerif IrisVerif.FirstOrder IrisVerif.Driver

namespace IrisVerif.Driver.C01

abbrev P (α : Type) := List String → Option (α × List String)

def pNat : P Nat := fun ws => match ws with
  | w :: rest => w.toNat?.map (fun n => (n, rest))
  | [] => none

def pInt : P Int := fun ws => match ws with
  | w :: rest => w.toInt?.map (fun n => (n, rest))
  | [] => none

def pKey (k : String) : P Unit := fun ws => match ws with
  | w :: rest => if w == k then some ((), rest) else none
  | [] => none

def pTokens : P (List Token) := fun ws => do
  let (n, ws) ← pNat ws
  let rec go : Nat → List String → List Token → Option (List Token × List String)
    | 0, ws, acc => some (acc.reverse, ws)
    | k + 1, ws, acc => do
      let (q, ws) ← pNat ws
      let (s, ws) ← pInt ws
      go k ws (⟨q, s⟩ :: acc)
  go n ws []

def pMat : P QMat := QMat.parse?

def pMats : Nat → P (List QMat)
  | 0 => fun ws => some ([], ws)
  | k + 1 => fun ws => do
    let (m, ws) ← pMat ws
    let (ms, ws) ← pMats k ws
    pure (m :: ms, ws)

def showTok (t : Token) : String := toString t.qid ++ ":" ++ toString t.shift

def doVec (ws : List String) : Option String := do
  let (_, ws) ← pKey "A" ws
  let (actual, ws) ← pTokens ws
  let (_, ws) ← pKey "M" ws
  let (meas, _) ← pTokens ws
  let sv := systemVector actual meas
  let ti := trueInitials actual sv
  pure ("sys=" ++ ",".intercalate (sv.map showTok) ++ ";init=" ++ String.join (ti.map showBool) ++
    ";nf=" ++ toString (numForwards sv) ++ ";dyn=" ++
    ",".intercalate ((dynidPairs sv).map (fun (i, j) => toString i ++ ":" ++ toString j)))

def doCert (ws : List String) : Option String := do
  let (ne, ws) ← pNat ws
  let (_, ws) ← pKey "S" ws
  let (sysvec, ws) ← pTokens ws
  let (ms, _) ← pMats 10 ws
  match ms with
  | [A, B, C, D, T, K, Pm, X, J, Ru] =>
    let c ← certificate sysvec ne ⟨A, B, C, D⟩ ⟨T, K, Pm, X, J, Ru⟩
    pure ("ok smax=" ++ toString c.E4.length ++ " rows=" ++ toString c.E1.rows ++
      " bLead=" ++ QMat.showRat c.bLead.maxAbs ++ " E1=" ++ QMat.showRat c.E1.maxAbs ++
      " E2=" ++ QMat.showRat c.E2.maxAbs ++ " E3=" ++ QMat.showRat c.E3.maxAbs ++
      " E4=" ++ ",".intercalate (c.E4.map (fun e => QMat.showRat e.maxAbs)) ++
      " W=" ++ QMat.showRat c.W.maxAbs ++ " scale=" ++ QMat.showRat c.scale)
  | _ => none

def doStab (ws : List String) : Option String := do
  let (k, ws) ← pNat ws
  let (T, _) ← pMat ws
  if T.rows != T.cols || k > 12 then none
  pure (showBool (stableCert T k))

def doSqTri (ws : List String) : Option String := do
  let (ms, _) ← pMats 9 ws
  match ms with
  | [T, Ua, Ta, Pm, Pa, K, Ka, X, Xa] =>
    if T.rows != T.cols || Ua.rows != T.rows || Ua.cols != Ta.rows || Ta.rows != Ta.cols then none
    let (tu, p, k, x, sc) := squareTriangularResiduals T Ua Ta Pm Pa K Ka X Xa
    pure ("ok TU=" ++ QMat.showRat tu ++ " P=" ++ QMat.showRat p ++ " K=" ++ QMat.showRat k ++ " X=" ++ QMat.showRat x ++
      " scale=" ++ QMat.showRat sc)
  | _ => none

def doSim (ws : List String) : Option String := do
  let (dev, ws) ← pNat ws
  let (split, ws) ← pNat ws
  let (first, ws) ← pNat ws
  let (last, ws) ← pNat ws
  let (_, ws) ← pKey "A" ws
  let (actual, ws) ← pTokens ws
  let (_, ws) ← pKey "M" ws
  let (meas, ws) ← pTokens ws
  let (ms, _) ← pMats 14 ws
  match ms with
  | [T, K, Pm, X, J, Ru, Z, H, D, x, u, v, w, y] =>
    if first == 0 || last < first || last ≥ x.cols then none
    let sv := systemVector actual meas
    let ti := (trueInitials actual sv).drop (numForwards sv)
    let out := simulate ⟨T, K, Pm, X, J, Ru⟩ ⟨Z, H, D⟩ (dev == 1) (split == 1) (solutionVector sv) ti ⟨x, u, v, w, y⟩ first last
    pure ("x " ++ out.x.toText ++ " y " ++ out.y.toText)
  | _ => none

/-- `memo P X J Ru F f1 f2 …`: a sequence of horizon requests on one memo; per request the returned matrices -/
def doMemo (ws : List String) : Option String := do
  let (ms, ws) ← pMats 4 ws
  let (_, ws) ← pKey "F" ws
  let fs ← ws.mapM (·.toNat?)
  match ms with
  | [Pm, X, J, Ru] =>
    let outs := runRequests Pm (expansionGen X J Ru) [] fs
    pure (" | ".intercalate (outs.map (fun l => " ; ".intercalate (l.map QMat.toText))))
  | _ => none

/-- `hist a<p> s d l c k …` on one object that starts solved with parameterisation 0: assign p / solve / observe in deviations /
observe in levels / copy / observe every copy (deviation then level).  Reply: per observation `<params in force>:<solution of>:<D|L>` -/
def doHist (ws : List String) : Option String := do
  let ops ← ws.mapM fun w =>
    if w == "s" then some [ObjOp.solve] else if w == "d" then some [ObjOp.obs true] else if w == "l" then some [ObjOp.obs false]
    else if w == "c" then some [ObjOp.copy]
    else if w.startsWith "k" then (w.drop 1).toNat?.map (fun n => (List.range n).flatMap (fun k => [ObjOp.obsCopy k true, ObjOp.obsCopy k false]))
    else if w.startsWith "a" then (w.drop 1).toNat?.map (fun p => [ObjOp.assign p]) else none
  let outs := runObj (fun (p : Nat) => (p, false)) (fun (s : Nat × Bool) => (s.1, true)) ⟨0, (0, false), []⟩ ops.flatten
  -- an undisciplined history (an observation between assign and solve) is flagged: `runObj_pure` does not apply to it
  pure ((if disciplinedOps true ops.flatten then "" else "undisciplined ") ++ ",".intercalate (outs.map fun (p, d, s) =>
    toString p ++ ":" ++ toString s.1 ++ ":" ++ (if d then "D" else "L") ++ (if s.2 == d then "" else "!")))

/-- `mcert nf F G Hc J Z Hm D` -> max-abs of the lead columns of `G` (must be 0), of `F Z + G_b`, `F D + Hc`, `F Hm + J`, scale -/
def doMCert (ws : List String) : Option String := do
  let (nf, ws) ← pNat ws
  let (ms, _) ← pMats 7 ws
  match ms with
  | [F, G, Hc, Jm, Z, Hm, D] =>
    let (gl, z, dd, h, sc) := measurementCertificate nf F G Hc Jm Z Hm D
    pure ("ok gLead=" ++ QMat.showRat gl ++ " Z=" ++ QMat.showRat z ++ " D=" ++ QMat.showRat dd ++ " H=" ++ QMat.showRat h ++
      " scale=" ++ QMat.showRat sc)
  | _ => none

/-- `plan n M D` -> `i:j,…` (model variant : data variant per output) or `err:bad` -/
def doPlan (ws : List String) : Option String := do
  let ns ← ws.mapM (·.toNat?)
  match ns with
  | [n, M, D] =>
    match variantPlan n M D with
    | some l => pure (",".intercalate (l.map fun (i, j) => toString i ++ ":" ++ toString j))
    | none => pure "err:bad"
  | _ => none

def step (line : String) : String :=
  let r := match words line with
    | "vec" :: ws => doVec ws
    | "cert" :: ws => doCert ws
    | "stab" :: ws => doStab ws
    | "sqtri" :: ws => doSqTri ws
    | "memo" :: ws => doMemo ws
    | "hist" :: ws => doHist ws
    | "plan" :: ws => doPlan ws
    | "mcert" :: ws => doMCert ws
    | "sim" :: ws => doSim ws
    | _ => none
  r.getD "bad-op"

end IrisVerif.Driver.C01

def main : IO Unit := IrisVerif.Driver.runMain IrisVerif.Driver.C01.step
