/-
Line-protocol driver for the AD model (property C02).

  ad <Q|F> <sys|flat|nf0|nf1> <logly bits by qid | -> <nwrt> <wrt…> <ndata> (<q> <s> <val>)… <expr, prefix form>
        Q: exact rationals `num/den` (reply `na` where not representable), F: IEEE doubles as their 64 bits (decimal)
        wrt: `q s` pairs for `sys`, single `q` for the steady modes
        expr: c <val> | t <q> <s> | neg e | pos e | add|sub|mul|div|pow e e | <fn1> e | maximum|minimum e e
     -> ok <value> <d_0> … <d_{nwrt-1}>   |  err:type  |  err:unmodelled
  offsets <l0> <l1> …                    -> [0,l0,…] | err:empty
  tvec <n> (<q> <min> <max>)…            -> q:s,q:s,…
  dynid <n> (<q> <s>)…                   -> row:i:j,…
  sysmap <token lists: teqs… ; meqs… ; tv ; shocks ; mvars ; mshocks>   -> A=…|B=…|D=…|F=…|G=…|J=…
  stacked <spots> <cols> <eqs…>          -> entries
  sysmat F <logly bits> <ndata> (q s val)… <tv> <neq> (<wrt> <expr>)…  -> A=row;row|B=row;row   (dense, bits)   | err:rejected
  sysall F <bits> <data> <tv> <shocks> <mvars> <mshocks> <nT> (<wrt> <expr>)… <nM> (<wrt> <expr>)…  -> A=…|B=…|D=…|F=…|G=…|J=…
  evhist (f|j|e):<point id> …             -> the point in force at every observation
  termrows <all spots> <nreg> <cols> <eqs…>  -> sorted rows of the stored pattern beyond the regular spots   (terminate_jacobian)
  termspots <cols> <qids> <last> <n (q maxshift)…>  -> inx:q:c,…     (Terminator.__init__)
  termjac <wrt spots> <terminit spots>   -> lhsCol:rhsCol,…            (create_terminal_jacobian_map)
Entries print as `lhsRow:lhsCol:rhsRow:rhsCol`.
-/
import IrisVerif.Model.Expr
import IrisVerif.Model.ADSystem
import IrisVerif.Driver.Util

open IrisVerif IrisVerif.AD IrisVerif.Driver

namespace IrisVerif.Driver.C02

abbrev P (β : Type) := List String → Option (β × List String)

def pNat : P Nat
  | w :: ws => w.toNat?.map (·, ws)
  | [] => none

def pInt : P Int
  | w :: ws => w.toInt?.map (·, ws)
  | [] => none

def pRep {β} (p : P β) : Nat → P (List β)
  | 0, ws => some ([], ws)
  | n + 1, ws => do
    let (x, ws) ← p ws
    let (xs, ws) ← pRep p n ws
    pure (x :: xs, ws)

def pCounted {β} (p : P β) : P (List β) := fun ws => do
  let (n, ws) ← pNat ws
  pRep p n ws

def pToken : P Token := fun ws => do
  let (q, ws) ← pNat ws
  let (s, ws) ← pInt ws
  pure ((q, s), ws)

def fn1? : String → Option Fn1
  | "log" => some .log | "exp" => some .exp | "sqrt" => some .sqrt | "abs" => some .abs
  | "logistic" => some .logistic | "normal_cdf" => some .normal_cdf | "normal_pdf" => some .normal_pdf
  | _ => none

def fn2? : String → Option Fn2
  | "maximum" => some .maximum | "minimum" => some .minimum
  | _ => none

def bin? : String → Option BinOp
  | "add" => some .add | "sub" => some .sub | "mul" => some .mul | "div" => some .div | "pow" => some .pow
  | _ => none

/-- prefix-form expression; `fuel` bounds the recursion (the line length) -/
def pExpr {α} (pv : P α) : Nat → P (Expr α)
  | 0, _ => none
  | fuel + 1, ws =>
    match ws with
    | [] => none
    | "c" :: ws => do let (v, ws) ← pv ws; pure (.const v, ws)
    | "t" :: ws => do let ((q, s), ws) ← pToken ws; pure (.tok q s, ws)
    | "neg" :: ws => do let (e, ws) ← pExpr pv fuel ws; pure (.neg e, ws)
    | "pos" :: ws => do let (e, ws) ← pExpr pv fuel ws; pure (.pos e, ws)
    | w :: ws =>
      match bin? w, fn1? w, fn2? w with
      | some op, _, _ => do
        let (a, ws) ← pExpr pv fuel ws
        let (b, ws) ← pExpr pv fuel ws
        pure (.bin op a b, ws)
      | _, some f, _ => do let (a, ws) ← pExpr pv fuel ws; pure (.call1 f a, ws)
      | _, _, some f => do
        let (a, ws) ← pExpr pv fuel ws
        let (b, ws) ← pExpr pv fuel ws
        pure (.call2 f a b, ws)
      | _, _, _ => none

inductive Mode | sys | flat | nf0 | nf1

def mode? : String → Option Mode
  | "sys" => some .sys | "flat" => some .flat | "nf0" => some .nf0 | "nf1" => some .nf1 | _ => none

def loglyOf (bits : String) (q : Nat) : Bool := (bits.toList.getD q '0') = '1'

def lookup {α} (dflt : α) (data : List (Token × α)) (q : Nat) (s : Int) : α :=
  match data.find? (fun e => e.1 = (q, s)) with
  | some e => e.2
  | none => dflt

def showErr : Err → String
  | .typeError => "err:type"
  | .unmodelled => "err:unmodelled"

section
variable {α : Type} [Add α] [Sub α] [Mul α] [Div α] [Neg α] [NatCast α] [IntCast α] [ADFun α]

def seedOf (m : Mode) (wrtT : List Token) (wrtQ : List Nat) (j : Nat) : Nat → Int → α :=
  match m with
  | .sys => seedSystem wrtT j
  | .flat => seedFlat wrtQ j
  | .nf0 => seedNonflat wrtQ 0 j
  | .nf1 => seedNonflat wrtQ 1 j

def runAd (pv : P α) (sv : α → String) (dflt : α) (ext : Fn1 → α → α) (ws : List String) : Option String := do
  let (m, ws) ← (match ws with | w :: ws => (mode? w).map (·, ws) | [] => none)
  let (bits, ws) ← (match ws with | w :: ws => some (w, ws) | [] => none)
  let (wrtT, wrtQ, ws) ← (match m with
    | .sys => do let (l, ws) ← pCounted pToken ws; pure (l, ([] : List Nat), ws)
    | _ => do let (l, ws) ← pCounted pNat ws; pure (([] : List Token), l, ws))
  let (data, ws) ← pCounted (fun ws => do
    let (t, ws) ← pToken ws
    let (v, ws) ← pv ws
    pure ((t, v), ws)) ws
  let (e, ws) ← pExpr pv (ws.length + 1) ws
  if !ws.isEmpty then none
  let n := match m with | .sys => wrtT.length | _ => wrtQ.length
  let mk (j : Nat) : Ctx α := ⟨lookup dflt data, seedOf m wrtT wrtQ j, loglyOf bits, ext⟩
  -- the value is the same in every direction; with no direction at all it is evaluated once with zero seeds
  match adEquation (mk n) e with
  | .error err => pure (showErr err)
  | .ok (.num v) => pure ("num " ++ sv v)
  | .ok (.atom v _) =>
    let ds := (List.range n).map (fun j =>
      match adEquation (mk j) e with
      | .ok (.atom _ d) => sv d
      | _ => "?")
    pure (" ".intercalate ("ok" :: sv v :: ds))

end

/-- `sysmat`: A and B (transition equations, without dynamic identities) of one variant, dense, row-major -/
def runSysmat {α : Type} [Add α] [Sub α] [Mul α] [Div α] [Neg α] [NatCast α] [IntCast α] [ADFun α]
    (pv : P α) (sv : α → String) (dflt zero : α) (ext : Fn1 → α → α) (ws : List String) : Option String := do
  let (bits, ws) ← (match ws with | w :: ws => some (w, ws) | [] => none)
  let (data, ws) ← pCounted (fun ws => do
    let (t, ws) ← pToken ws
    let (v, ws) ← pv ws
    pure ((t, v), ws)) ws
  let (tv, ws) ← pCounted pToken ws
  let (eqs, ws) ← pCounted (fun ws => do
    let (wrt, ws) ← pCounted pToken ws
    let (e, ws) ← pExpr pv (ws.length + 1) ws
    pure ((e, wrt), ws)) ws
  if !ws.isEmpty then none
  match systemAB (lookup dflt data) (loglyOf bits) ext eqs tv zero with
  | none => pure "err:rejected"
  | some (a, b) =>
    let show_ (m : Nat → Nat → α) : String :=
      ";".intercalate ((List.range eqs.length).map (fun r => ",".intercalate ((List.range tv.length).map (fun c => sv (m r c)))))
    pure ("A=" ++ show_ a ++ "|B=" ++ show_ b)

/-- `sysall`: A B D F G J (equation rows) of one variant, dense, row-major -/
def runSysall {α : Type} [Add α] [Sub α] [Mul α] [Div α] [Neg α] [NatCast α] [IntCast α] [ADFun α]
    (pv : P α) (sv : α → String) (dflt zero : α) (ext : Fn1 → α → α) (ws : List String) : Option String := do
  let (bits, ws) ← (match ws with | w :: ws => some (w, ws) | [] => none)
  let (data, ws) ← pCounted (fun ws => do
    let (t, ws) ← pToken ws
    let (v, ws) ← pv ws
    pure ((t, v), ws)) ws
  let (tv, ws) ← pCounted pToken ws
  let (shocks, ws) ← pCounted pToken ws
  let (mvars, ws) ← pCounted pToken ws
  let (mshocks, ws) ← pCounted pToken ws
  let pEq : P (Expr α × List Token) := fun ws => do
    let (wrt, ws) ← pCounted pToken ws
    let (e, ws) ← pExpr pv (ws.length + 1) ws
    pure ((e, wrt), ws)
  let (teqs, ws) ← pCounted pEq ws
  let (meqs, ws) ← pCounted pEq ws
  if !ws.isEmpty then none
  match systemAll (lookup dflt data) (loglyOf bits) ext teqs meqs tv shocks mvars mshocks zero with
  | none => pure "err:rejected"
  | some s =>
    let show_ (m : Nat → Nat → α) (nr nc : Nat) : String :=
      ";".intercalate ((List.range nr).map (fun r => ",".intercalate ((List.range nc).map (fun c => sv (m r c)))))
    pure ("A=" ++ show_ s.A teqs.length tv.length ++ "|B=" ++ show_ s.B teqs.length tv.length ++
      "|D=" ++ show_ s.D teqs.length shocks.length ++ "|F=" ++ show_ s.F meqs.length mvars.length ++
      "|G=" ++ show_ s.G meqs.length tv.length ++ "|J=" ++ show_ s.J meqs.length mshocks.length)

/-! carriers -/

def pXRat : P XRat
  | w :: ws => (parseRat? w).map (fun q => (some q, ws))
  | [] => none

def showXRat : XRat → String
  | some q => showRat q
  | none => "na"

def extXRat : Fn1 → XRat → XRat
  | .abs, some x => some (if x < 0 then -x else x)
  | _, _ => none

instance : IntCast XRat := ⟨fun i => some (i : Rat)⟩

def pFloat : P Float
  | w :: ws => w.toNat?.map (fun n => (Float.ofBits n.toUInt64, ws))
  | [] => none

def showFloat (x : Float) : String := toString x.toBits.toNat

open FloatCarrier in
def extFloat : Fn1 → Float → Float
  | .abs, x => x.abs
  | _, _ => 0.0 / 0.0

open FloatCarrier in
instance : IntCast Float := ⟨fun i => Float.ofInt i⟩

open FloatCarrier in
def runAdFloat (ws : List String) : Option String :=
  runAd (α := Float) pFloat showFloat (0.0 / 0.0) extFloat ws

open FloatCarrier in
def runSysmatFloat (ws : List String) : Option String :=
  runSysmat (α := Float) pFloat showFloat (0.0 / 0.0) 0.0 extFloat ws

open FloatCarrier in
def runSysallFloat (ws : List String) : Option String :=
  runSysall (α := Float) pFloat showFloat (0.0 / 0.0) 0.0 extFloat ws

def runAdXRat (ws : List String) : Option String :=
  runAd (α := XRat) pXRat showXRat none extXRat ws

/-! maps -/

def showToken (t : Token) : String := toString t.1 ++ ":" ++ toString t.2

def showEntry (e : Entry) : String :=
  toString e.lhsRow ++ ":" ++ toString e.lhsCol ++ ":" ++ toString e.rhsRow ++ ":" ++ toString e.rhsCol

def showEntries (l : List Entry) : String := ",".intercalate (l.map showEntry)

def runSysmap (ws : List String) : Option String := do
  let (teqs, ws) ← pCounted (pCounted pToken) ws
  let (meqs, ws) ← pCounted (pCounted pToken) ws
  let (tv, ws) ← pCounted pToken ws
  let (shocks, ws) ← pCounted pToken ws
  let (mvars, ws) ← pCounted pToken ws
  let (mshocks, ws) ← pCounted pToken ws
  if !ws.isEmpty then none
  match systemMaps teqs meqs tv shocks mvars mshocks with
  | none => pure "err:empty"
  | some m => pure ("A=" ++ showEntries m.A ++ "|B=" ++ showEntries m.B ++ "|D=" ++ showEntries m.D ++
      "|F=" ++ showEntries m.F ++ "|G=" ++ showEntries m.G ++ "|J=" ++ showEntries m.J)

def runStacked (ws : List String) : Option String := do
  let (spots, ws) ← pCounted pToken ws
  let (cols, ws) ← pCounted pInt ws
  let (eqs, ws) ← pCounted (pCounted pToken) ws
  if !ws.isEmpty then none
  pure (showEntries (stackedMap spots cols eqs))

def step (line : String) : String :=
  let r : Option String :=
    match words line with
    | "ad" :: "Q" :: ws => runAdXRat ws
    | "ad" :: "F" :: ws => runAdFloat ws
    | "offsets" :: ws => do
      let ls ← ws.mapM String.toNat?
      match rhsOffsets ls with
      | none => pure "err:empty"
      | some l => pure ("[" ++ ",".intercalate (l.map toString) ++ "]")
    | "tvec" :: ws => do
      let (rs, ws) ← pCounted (fun ws => do
        let (q, ws) ← pNat ws
        let (a, ws) ← pInt ws
        let (b, ws) ← pInt ws
        pure ((q, a, b), ws)) ws
      if !ws.isEmpty then none
      pure (",".intercalate ((transitionVector rs).map showToken))
    | "dynid" :: ws => do
      let (tv, ws) ← pCounted pToken ws
      if !ws.isEmpty then none
      pure (",".intercalate ((dynid tv).map (fun r => toString r.1 ++ ":" ++ toString r.2.1 ++ ":" ++ toString r.2.2)))
    | "sysmat" :: "F" :: ws => runSysmatFloat ws
    | "sysall" :: "F" :: ws => runSysallFloat ws
    | "evhist" :: ws => do
      -- ops `f:<id>` `j:<id>` `e:<id>` on point ids: which point is in force at every observation
      let ops ← ws.mapM (fun w => match w.splitOn ":" with
        | ["f", n] => n.toNat?.map EvOp.evalFunc
        | ["j", n] => n.toNat?.map EvOp.evalJacob
        | ["e", n] => n.toNat?.map EvOp.evalBoth
        | _ => none)
      let outs := evRun (fun (p : Nat) => p) (fun (p : Nat) => p) 0 ops
      pure (" ".intercalate (outs.map (fun o => match o with
        | .func f => "f:" ++ toString f | .jacob j => "j:" ++ toString j | .both f j => "e:" ++ toString f ++ ":" ++ toString j)))
    | "termrows" :: ws => do
      let (spots, ws) ← pCounted pToken ws
      let (nreg, ws) ← pNat ws
      let (cols, ws) ← pCounted pInt ws
      let (eqs, ws) ← pCounted (pCounted pToken) ws
      if !ws.isEmpty then none
      pure (",".intercalate ((terminalRows spots nreg cols eqs).map toString))
    | "termspots" :: ws => do
      let (cols, ws) ← pCounted pInt ws
      let (qids, ws) ← pCounted pNat ws
      let (last, ws) ← pInt ws
      let (ms, ws) ← pCounted (fun ws => do
        let (q, ws) ← pNat ws
        let (m, ws) ← pInt ws
        pure ((q, m), ws)) ws
      if !ws.isEmpty then none
      let maxShift (q : Nat) : Int := match ms.find? (fun e => e.1 = q) with | some e => e.2 | none => 0
      pure (",".intercalate ((terminalSpots cols qids maxShift last).map
        (fun e => toString e.1 ++ ":" ++ showToken e.2)))
    | "termjac" :: ws => do
      let (spots, ws) ← pCounted pToken ws
      let (terminit, ws) ← pCounted pToken ws
      if !ws.isEmpty then none
      pure (",".intercalate ((terminalJacMap spots terminit).map (fun e => toString e.1 ++ ":" ++ toString e.2)))
    | "sysmap" :: ws => runSysmap ws
    | "stacked" :: ws => runStacked ws
    | _ => none
  r.getD "bad-op"

end IrisVerif.Driver.C02

def main : IO Unit := IrisVerif.Driver.runMain IrisVerif.Driver.C02.step
