/-
Line-protocol driver for the reduced-form VAR model (property C18).

  est n m p icpt dof cols <n*cols cells> <m*cols cells> <k | -1> {M mu kappa rho*n | E mu mean*n}*k
      -> ok;W=<mask>;beta=<qmat>;u=<n*T cells>;cov=<qmat>;mean=<cells|singular>;sim=<qmat|none>
         or err:nodata | err:singular | err:dof
  sim n m p cols <A n*(n*p)> <B n*m> <c n> <Y n*cols> <X m*cols> <E n*cols> t0 t1  -> <qmat path>
  comp n p icpt <A n*(n*p)> <c n, only when icpt=1>  -> T=<qmat>;K=<cells>;mean=<cells|singular>

cells: `num/den`, `num` or `nan`.
-/
import IrisVerif.Model.RedVar
import IrisVerif.Driver.Util

open IrisVerif IrisVerif.RedVar IrisVerif.Driver

namespace IrisVerif.Driver.C18

def cell? (w : String) : Option Cell :=
  if w = "nan" then some none else (QMat.parseRat? w).map some

def showCell : Cell → String
  | none => "nan"
  | some q => QMat.showRat q

/-- take `k` cells from the front of the word list -/
def takeCells (k : Nat) (ws : List String) : Option (Array Cell × List String) :=
  if ws.length < k then none else do
    let v ← (ws.take k).mapM cell?
    pure (v.toArray, ws.drop k)

def takeRats (k : Nat) (ws : List String) : Option (Array Rat × List String) := do
  let (v, rest) ← takeCells k ws
  let v ← v.toList.mapM id
  pure (v.toArray, rest)

def takeOMat (r c : Nat) (ws : List String) : Option (OMat × List String) := do
  let (v, rest) ← takeCells (r * c) ws
  pure (OMat.ofFn r c (fun i j => (v.getD (i * c + j) none)), rest)

def takeQMat (r c : Nat) (ws : List String) : Option (QMat × List String) := do
  let (v, rest) ← takeRats (r * c) ws
  pure (QMat.ofFn r c (fun i j => v.getD (i * c + j) 0), rest)

def takePriors (n : Nat) : Nat → List String → Option (List Prior × List String)
  | 0, ws => some ([], ws)
  | k + 1, ws =>
    match ws with
    | "M" :: mu :: kappa :: rest => do
      let mu ← QMat.parseRat? mu
      let kappa ← kappa.toNat?
      let (rho, rest) ← takeRats n rest
      let (ps, rest) ← takePriors n k rest
      pure (Prior.minnesota rho mu kappa :: ps, rest)
    | "E" :: mu :: rest => do
      let mu ← QMat.parseRat? mu
      let (mean, rest) ← takeRats n rest
      let (ps, rest) ← takePriors n k rest
      pure (Prior.mean mean mu :: ps, rest)
    | _ => none

def showVec (v : QVec) : String := " ".intercalate (v.toList.map QMat.showRat)

def showOMatCells (a : OMat) : String :=
  " ".intercalate (a.data.toList.flatMap (fun r => r.toList.map showCell))

def showMean : Option QVec → String
  | none => "singular"
  | some v => showVec v

def showErr : Err → String
  | .noData => "err:nodata"
  | .singular => "err:singular"
  | .dofZero => "err:dof"

def runEst (ws : List String) : Option String := do
  match ws with
  | n :: m :: p :: icpt :: dof :: cols :: rest =>
    let n ← n.toNat?; let m ← m.toNat?; let p ← p.toNat?; let cols ← cols.toNat?
    let icpt := icpt = "1"; let dof := dof = "1"
    let s : Spec := ⟨n, m, p, icpt⟩
    let (Y, rest) ← takeOMat n cols rest
    let (X, rest) ← takeOMat m cols rest
    match rest with
    | k :: rest =>
      let k ← k.toInt?
      let (priors, rest) ← (if k < 0 then some (none, rest) else
        (takePriors n k.toNat rest).map (fun (ps, r) => (some ps, r)))
      if rest ≠ [] then none else
      match estimate s dof Y X priors with
      | .error e => pure (showErr e)
      | .ok e =>
        let mask := String.join ((List.range (numBase s Y)).map (fun t => if whereObs s Y X t then "1" else "0"))
        let mu := mean s (coefA s e.beta) (coefC s e.beta)
        let sim := match resimulate s Y X e with
          | none => "none"
          | some path => path.toText
        pure (";".intercalate ["ok", "W=" ++ mask, "beta=" ++ e.beta.toText, "u=" ++ showOMatCells e.u,
          "cov=" ++ e.cov.toText, "mean=" ++ showMean mu, "sim=" ++ sim])
    | _ => none
  | _ => none

def runSim (ws : List String) : Option String := do
  match ws with
  | n :: m :: p :: cols :: rest =>
    let n ← n.toNat?; let m ← m.toNat?; let p ← p.toNat?; let cols ← cols.toNat?
    let s : Spec := ⟨n, m, p, true⟩
    let (A, rest) ← takeQMat n (n * p) rest
    let (B, rest) ← takeQMat n m rest
    let (c, rest) ← takeRats n rest
    let (Y, rest) ← takeQMat n cols rest
    let (X, rest) ← takeQMat m cols rest
    let (E, rest) ← takeQMat n cols rest
    match rest with
    | [t0, t1] =>
      let t0 ← t0.toNat?; let t1 ← t1.toNat?
      if t0 < p ∨ t1 ≥ cols then none else
      pure (simulate s A B c X E Y ((List.range (t1 + 1 - t0)).map (· + t0))).toText
    | _ => none
  | _ => none

def runComp (ws : List String) : Option String := do
  match ws with
  | n :: p :: icpt :: rest =>
    let n ← n.toNat?; let p ← p.toNat?
    let icpt := icpt = "1"
    let s : Spec := ⟨n, 0, p, icpt⟩
    let (A, rest) ← takeQMat n (n * p) rest
    let (c, rest) ← (if icpt then (takeRats n rest).map (fun (c, r) => (some c, r)) else some (none, rest))
    if rest ≠ [] then none else
    pure (";".intercalate ["T=" ++ (companionT s A).toText, "K=" ++ showVec (companionK s c),
      "mean=" ++ showMean (mean s A c)])
  | _ => none

/-- `merge <T|-> k:v … | k:v …`: what `estimate` returns for a target (`T`) or none (`-`) and an output databox; values are
opaque tags -/
def parseDB (ws : List String) : Option (DB String) :=
  ws.mapM (fun w => match w.splitOn ":" with
    | [k, v] => some (k, v)
    | _ => none)

def showDB (db : DB String) : String := " ".intercalate (db.map (fun p => p.1 ++ ":" ++ p.2))

def runMerge (ws : List String) : Option String := do
  match ws with
  | flag :: rest =>
    let i := rest.idxOf "|"
    if i ≥ rest.length then none else
    let t ← parseDB (rest.take i)
    let o ← parseDB (rest.drop (i + 1))
    let target := if flag = "T" then some t else none
    pure (showDB (estimateReturn target o))
  | _ => none

/-- `comph n p icpt <A> <c if icpt> <flags 0/1 …>`: a history of companion requests (1 = deviation) on one variant, one
`T=…;K=…` per request, separated by ` | ` -/
def runCompHist (ws : List String) : Option String := do
  match ws with
  | n :: p :: icpt :: rest =>
    let n ← n.toNat?; let p ← p.toNat?
    let icpt := icpt = "1"
    let s : Spec := ⟨n, 0, p, icpt⟩
    let (A, rest) ← takeQMat n (n * p) rest
    let (c, rest) ← (if icpt then (takeRats n rest).map (fun (c, r) => (some c, r)) else some (none, rest))
    let flags ← rest.mapM (fun w => if w = "1" then some true else if w = "0" then some false else none)
    let (_, outs) := runRequests s A c {} flags
    pure (" | ".intercalate (outs.map (fun o => "T=" ++ o.1.toText ++ ";K=" ++ showVec o.2)))
  | _ => none

/-- split a word list on the separator word `||` -/
def splitVariants (ws : List String) : List (List String) :=
  ws.foldr (fun w acc => if w = "||" then [] :: acc else match acc with
    | [] => [[w]]
    | a :: rest => (w :: a) :: rest) [[]]

/-- `estv <est args of variant 0> || <est args of variant 1> …`: the variant loop of `estimate`, one reply per variant joined
by ` || ` (the variants share dimensions and options; the model maps `estimate` over the variants' data) -/
def runEstVariants (ws : List String) : Option String := do
  let rs ← (splitVariants ws).mapM runEst
  pure (" || ".intercalate rs)

def step (line : String) : String :=
  match words line with
  | "est" :: ws => (runEst ws).getD "bad-op"
  | "sim" :: ws => (runSim ws).getD "bad-op"
  | "comp" :: ws => (runComp ws).getD "bad-op"
  | "estv" :: ws => (runEstVariants ws).getD "bad-op"
  | "comph" :: ws => (runCompHist ws).getD "bad-op"
  | "merge" :: ws => (runMerge ws).getD "bad-op"
  | _ => "bad-op"

end IrisVerif.Driver.C18

def main : IO Unit := IrisVerif.Driver.runMain IrisVerif.Driver.C18.step
