/-
Helper lemmas for C12 (arip): the autoregressive difference matrix of `_create_basic_system_matrices`, the documented
smoothness criterion as `‖K x − c‖²`, and "bordered KKT system ⇒ constrained least-squares minimiser"
(orthogonality + expanding the square, DESIGN.md A.2 carried over to the constrained case). Mathlib matrices over an
arbitrary linearly ordered field.
-/
import Mathlib.Data.Matrix.Mul
import Mathlib.Data.Matrix.Block
import Mathlib.Algebra.Order.Ring.Defs
import Mathlib.Algebra.Order.BigOperators.Ring.Finset
import Mathlib.Algebra.BigOperators.Fin
import Mathlib.Tactic.Linarith
import Mathlib.Tactic.Ring
import Mathlib.Tactic.Abel
import Mathlib.Tactic.FieldSimp
import Mathlib.Tactic.NormNum

namespace IrisVerif.AripMin
open Matrix

variable {K : Type} [Field K]

/-- the `(N) × (N+1)` difference matrix of `_create_basic_system_matrices`:
row `i` has `1/σ_{i+1}` in column `i+1` and `-ρ/σ_{i+1}` in column `i` -/
def arK (N : Nat) (rho : K) (sigma : Fin (N + 1) → K) : Matrix (Fin N) (Fin (N + 1)) K :=
  fun i j => if j = i.succ then 1 / sigma i.succ else if j = i.castSucc then -rho / sigma i.succ else 0

/-- the constant column: `c / σ_{i+1}` -/
def arC (N : Nat) (const : K) (sigma : Fin (N + 1) → K) : Fin N → K := fun i => const / sigma i.succ

/-- the documented smoothness criterion `Σ_t ((x_{t+1} − ρ x_t − c) / σ_{t+1})²` -/
def criterion (N : Nat) (rho const : K) (sigma : Fin (N + 1) → K) (x : Fin (N + 1) → K) : K :=
  ∑ i : Fin N, ((x i.succ - rho * x i.castSucc - const) / sigma i.succ) ^ 2

theorem arK_mulVec (N : Nat) (rho : K) (sigma x : Fin (N + 1) → K) (i : Fin N) :
    (arK N rho sigma *ᵥ x) i = (x i.succ - rho * x i.castSucc) / sigma i.succ := by
  have hne : i.succ ≠ i.castSucc := by
    intro h; have := congrArg Fin.val h; simp at this
  have e : ∀ j : Fin (N + 1), arK N rho sigma i j * x j
      = (if j = i.succ then 1 / sigma i.succ * x j else 0) + (if j = i.castSucc then -rho / sigma i.succ * x j else 0) := by
    intro j
    unfold arK
    by_cases h1 : j = i.succ
    · subst h1; simp [hne]
    · by_cases h2 : j = i.castSucc
      · subst h2; simp [h1]
      · simp [h1, h2]
  simp only [Matrix.mulVec, dotProduct, e, Finset.sum_add_distrib, Finset.sum_ite_eq', Finset.mem_univ, if_true]
  ring

theorem criterion_eq (N : Nat) (rho const : K) (sigma x : Fin (N + 1) → K) :
    criterion N rho const sigma x
      = (arK N rho sigma *ᵥ x - arC N const sigma) ⬝ᵥ (arK N rho sigma *ᵥ x - arC N const sigma) := by
  unfold criterion dotProduct
  apply Finset.sum_congr rfl
  intro i _
  simp only [Pi.sub_apply, arK_mulVec, arC]
  ring

section Ordered
set_option linter.unusedSectionVars false
variable [LinearOrder K] [IsStrictOrderedRing K]
variable {n p q : Type} [Fintype n] [Fintype p] [Fintype q]

theorem dot_self_nonneg (v : p → K) : 0 ≤ v ⬝ᵥ v := by
  unfold dotProduct
  exact Finset.sum_nonneg (fun i _ => mul_self_nonneg (v i))

/-- **Constrained least squares.** If `KᵀK x + M λ = Kᵀc` where the multiplier term `M λ` lies in the row space of the
constraint matrix `A` (`M λ = Aᵀ μ`), and `A x = b`, then `x` minimises `‖K x − c‖²` over `{x' | A x' = b}`;
the excess of any other feasible point is exactly `‖K (x' − x)‖²`. -/
theorem constrained_ls_excess (Km : Matrix p n K) (c : p → K) (A : Matrix q n K) (b : q → K) (x : n → K)
    (mterm : n → K) (mu : q → K) (hrow : mterm = Aᵀ *ᵥ mu)
    (hstat : (Kmᵀ * Km) *ᵥ x + mterm = Kmᵀ *ᵥ c) (hfeas : A *ᵥ x = b) (x' : n → K) (hfeas' : A *ᵥ x' = b) :
    (Km *ᵥ x' - c) ⬝ᵥ (Km *ᵥ x' - c)
      = (Km *ᵥ x - c) ⬝ᵥ (Km *ᵥ x - c) + (Km *ᵥ (x' - x)) ⬝ᵥ (Km *ᵥ (x' - x)) := by
  set r := Km *ᵥ x - c with hr
  set d := x' - x with hd
  have hAd : A *ᵥ d = 0 := by rw [hd, Matrix.mulVec_sub, hfeas, hfeas', sub_self]
  have e1 : Km *ᵥ x' - c = r + Km *ᵥ d := by
    simp only [hr, hd, Matrix.mulVec_sub]; abel
  have e3 : Kmᵀ *ᵥ r = - (Aᵀ *ᵥ mu) := by
    rw [hr, Matrix.mulVec_sub, Matrix.mulVec_mulVec, ← hrow, ← hstat]; abel
  have e2 : r ⬝ᵥ (Km *ᵥ d) = 0 := by
    rw [Matrix.dotProduct_mulVec, ← Matrix.mulVec_transpose, e3, neg_dotProduct, Matrix.mulVec_transpose,
      ← Matrix.dotProduct_mulVec, hAd, dotProduct_zero, neg_zero]
  rw [e1]
  simp only [add_dotProduct, dotProduct_add]
  rw [dotProduct_comm (Km *ᵥ d) r, e2]; ring

theorem constrained_ls_min (Km : Matrix p n K) (c : p → K) (A : Matrix q n K) (b : q → K) (x : n → K)
    (mterm : n → K) (mu : q → K) (hrow : mterm = Aᵀ *ᵥ mu)
    (hstat : (Kmᵀ * Km) *ᵥ x + mterm = Kmᵀ *ᵥ c) (hfeas : A *ᵥ x = b) (x' : n → K) (hfeas' : A *ᵥ x' = b) :
    (Km *ᵥ x - c) ⬝ᵥ (Km *ᵥ x - c) ≤ (Km *ᵥ x' - c) ⬝ᵥ (Km *ᵥ x' - c) := by
  rw [constrained_ls_excess Km c A b x mterm mu hrow hstat hfeas x' hfeas']
  linarith [dot_self_nonneg (Km *ᵥ (x' - x))]


/-- the bordered (saddle-point) system `[[KᵀK, Aᵀ], [A, 0]] (x, λ) = (Kᵀc, b)` is stationarity plus feasibility -/
theorem bordered_split [DecidableEq n] [DecidableEq q] (G : Matrix n n K) (A : Matrix q n K) (g x : n → K) (b lam : q → K)
    (h : Matrix.fromBlocks G Aᵀ A 0 *ᵥ Sum.elim x lam = Sum.elim g b) : G *ᵥ x + Aᵀ *ᵥ lam = g ∧ A *ᵥ x = b := by
  rw [Matrix.fromBlocks_mulVec] at h
  have h1 := congrArg (fun f => f ∘ Sum.inl) h
  have h2 := congrArg (fun f => f ∘ Sum.inr) h
  simp only [Sum.elim_comp_inl, Sum.elim_comp_inr, Matrix.zero_mulVec, add_zero] at h1 h2
  exact ⟨h1, h2⟩

end Ordered
end IrisVerif.AripMin
