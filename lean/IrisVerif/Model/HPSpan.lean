/-
Second layer of the executable model of `irispie/series/_hp.py` (property C14): what happens *around* the linear
solve of `Model/HP.lean`.

* the **forms of the `span` argument** of `_data_hpf` (`...`/`None`, a `Span` with open ends, any step and either
  direction, any iterable of periods in any order) and how `resolve_periods`, `min(span)`, `max(span)` and
  `get_encompassing_span` reduce them to the two numbers the filter uses (`SpanReq`, `hullOf`, `dataHpfReq`);
* the **object state** of `_ConstrainedHodrickPrescottFilter`: `self._F` is built once in `__init__` and every call of
  `filter_data` (one per data variant) works on a *copy* (`_add_eye_for_observations`), so the object is the same
  after any number of calls (`HPObject`, `HPObject.step`, `HPObject.run`).
-/
import IrisVerif.Model.HP
import IrisVerif.Model.Spans

namespace IrisVerif.HP

open IrisVerif IrisVerif.Dates

/-! ### forms of the requested span -/

inductive SpanReq where
  | dots                                       -- `span=...` or `span=None`: the data's own range
  | range (a b : Option Int) (step : Int)      -- `Span(a, b, step)`; a missing end is the data's start/end (by direction)
  | periods (l : List Int)                     -- any other iterable of periods (list, tuple), in the given order
  deriving Repr, Inhabited

/-- `self.resolve_periods(span)` as a list of serials; `none` = the call raises (`step = 0`) -/
def SpanReq.elems (dlo dhi : Int) : SpanReq → Option (List Int)
  | .dots => some (pyRange dlo (dhi + 1) 1)
  | .range a b step =>
    if step = 0 then none else
      let a' := a.getD (if step > 0 then dlo else dhi)
      let b' := b.getD (if step > 0 then dhi else dlo)
      some (pyRange a' (b' + sign step) step)
  | .periods l => some l

/-- `(min(span), max(span))`; `none` for an empty selection (`if span:` is false and the Series constructor raises) -/
def hullOf : List Int → Option (Int × Int)
  | [] => none
  | a :: l => some (l.foldl min a, l.foldl max a)

def SpanReq.hull (dlo dhi : Int) (s : SpanReq) : Option (Int × Int) :=
  (s.elems dlo dhi).bind hullOf

/-- `_data_hpf` for any form of `span`: outer `none` = the call raises (empty selection, zero step), inner `none` =
singular system. The filter itself sees the requested periods only through their minimum and maximum. -/
def dataHpfReq (lg ex : Rat → Rat) (r : Request) (s : SpanReq) : Option (Option Result) :=
  (s.hull r.dstart (r.dstart + r.dlen - 1)).map (fun h => dataHpf lg ex { r with span := some h })

/-! ### the filter object and its state -/

/-- `_ConstrainedHodrickPrescottFilter` after `__init__`: the number of periods and `self._F` -/
structure HPObject where
  n : Nat
  F : QMat
  lw : List Nat
  cw : List Nat
  deriving Repr, Inhabited

def HPObject.init (n : Nat) (lam : Rat) (lw cw : List Nat) : HPObject := ⟨n, initF n lam lw cw, lw, cw⟩

/-- `filter_data` on one data variant: works on `copy(self._F) + diag(obs)`; the object itself is returned unchanged -/
def HPObject.step (lg ex : Rat → Rat) (ld cd : List Rat) (o : HPObject) (y : Array (Option Rat)) :
    HPObject × Option Filtered :=
  let F := addEye o.n o.F y
  let b := rhs lg y ld cd
  let out :=
    match QMat.solveChecked F (QMat.col b) with
    | none => none
    | some x =>
      let xs := x.toVec
      let trend := (Array.range o.n).map (fun i => xs.getD i 0)
      let gap := (Array.range o.n).map (fun i =>
        match y.getD i none with
        | some v => some (ex (lg v - xs.getD i 0))
        | none => none)
      some ⟨trend.map ex, gap, (Array.range (xs.size - o.n)).map (fun i => xs.getD (o.n + i) 0)⟩
  (o, out)

/-- the variant loop of `_data_hpf`: the same object is used for every variant, in order -/
def HPObject.run (lg ex : Rat → Rat) (ld cd : List Rat) (o : HPObject) :
    List (Array (Option Rat)) → HPObject × List (Option Filtered)
  | [] => (o, [])
  | y :: ys =>
    let (o1, out) := o.step lg ex ld cd y
    let (o2, outs) := HPObject.run lg ex ld cd o1 ys
    (o2, out :: outs)

end IrisVerif.HP
