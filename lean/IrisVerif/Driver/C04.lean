/-
Line-protocol driver of the model-language model (property C04).

Requests (one per line, tokens separated by blanks):
  pf <name>                      -> `<PF> <default shift>` | `none`          (pseudofunction table)
  kw <keyword>                   -> `q:<kind>` | `e:<kind>` | `none`          (block keywords and aliases)
  lists <w> ...                  -> resolved words (list members sorted)      w = P<text> | T<name>`<type> | L<type>
  prep <items> | lists k=a,b ... | flags k=T ...   -> `ok <words>` | `err:bad` | `err:depth`
  model D <decl>... | L <T/F> <name>... | S <name> <tree> ; ... | E <T/M> <descr> <eqn> [!! <eqn>] ; ... | X <t> <name>=<start>:<v>,<v>... ...
        -> `names ... | descr ... | log ... | neq n | dyn v ... | std v ...`  or `err:bad`
Trees are in prefix notation: `#<rat>`, `n:<name>:<k>`, `~ e`, `+ - * / ^ a b`, `f:<fn> a`, `g:<fn> a b`,
`p:<pseudofunction>:<k|_> e`, `$:<substitution>`; equations: `= lhs rhs` or `e expr`.
-/
import IrisVerif.Model.ModelLang
import IrisVerif.Model.ModelLangTok
import IrisVerif.Driver.Util

open IrisVerif.ModelLang IrisVerif.Driver

namespace IrisVerif.Driver.C04

/-! ### small helpers -/

def splitSections (ws : List String) (sep : String) : List (List String) :=
  let rec go : List String → List String → List (List String) → List (List String)
    | [], cur, acc => (cur.reverse :: acc).reverse
    | w :: rest, cur, acc => if w = sep then go rest [] (cur.reverse :: acc) else go rest (w :: cur) acc
  go ws [] []

def pfName : PF → String
  | .shift => "shift" | .diff => "diff" | .diffLog => "diffLog" | .pct => "pct" | .roc => "roc"
  | .movSum => "movSum" | .movAvg => "movAvg" | .movProd => "movProd"

def qkindName : QKind → String
  | .tv => "tv" | .mv => "mv" | .ts => "ts" | .ant => "ant" | .ms => "ms" | .par => "par"
  | .exo => "exo" | .tstd => "tstd" | .mstd => "mstd"

def qkind? : String → Option QKind
  | "tv" => some .tv | "mv" => some .mv | "ts" => some .ts | "ms" => some .ms
  | "par" => some .par | "exo" => some .exo
  | _ => none

/-- descriptions cross the pipe as `_` followed by the text with `~` for blanks -/
def descrOfToken (s : String) : String := ((s.drop 1).toString).replace "~" " "
def descrToToken (s : String) : String := "_" ++ s.replace " " "~"

/-! ### trees -/

def binop? : String → Option BinOp
  | "+" => some .add | "-" => some .sub | "*" => some .mul | "/" => some .div | "^" => some .pow
  | _ => none

partial def parseExpr : List String → Option (Expr × List String)
  | [] => none
  | w :: rest =>
    if w.startsWith "#" then (parseRat? (w.drop 1).toString).map (fun q => (.num q, rest))
    else if w.startsWith "n:" then
      match w.splitOn ":" with
      | [_, n, k] => k.toInt?.map (fun k => (.name n k, rest))
      | _ => none
    else if w = "~" then (parseExpr rest).map (fun (e, r) => (.neg e, r))
    else if w.startsWith "f:" then (parseExpr rest).map (fun (e, r) => (.call1 (w.drop 2).toString e, r))
    else if w.startsWith "g:" then do
      let (a, r) ← parseExpr rest
      let (b, r) ← parseExpr r
      pure (.call2 (w.drop 2).toString a b, r)
    else match binop? w with
      | some op => do
        let (a, r) ← parseExpr rest
        let (b, r) ← parseExpr r
        pure (.bin op a b, r)
      | none => none

partial def parsePExpr : List String → Option (PExpr × List String)
  | [] => none
  | w :: rest =>
    if w.startsWith "#" then (parseRat? (w.drop 1).toString).map (fun q => (.num q, rest))
    else if w.startsWith "n:" then
      match w.splitOn ":" with
      | [_, n, k] => k.toInt?.map (fun k => (.name n k, rest))
      | _ => none
    else if w.startsWith "$:" then some (.subs (w.drop 2).toString, rest)
    else if w.startsWith "p:" then
      match w.splitOn ":" with
      | [_, f, k] => do
        let pf ← PF.ofName? f
        let k ← if k = "_" then some none else k.toInt?.map some
        let (e, r) ← parseExpr rest
        pure (.pseudo pf e k, r)
      | _ => none
    else if w = "~" then (parsePExpr rest).map (fun (e, r) => (.neg e, r))
    else if w.startsWith "f:" then (parsePExpr rest).map (fun (e, r) => (.call1 (w.drop 2).toString e, r))
    else if w.startsWith "g:" then do
      let (a, r) ← parsePExpr rest
      let (b, r) ← parsePExpr r
      pure (.call2 (w.drop 2).toString a b, r)
    else match binop? w with
      | some op => do
        let (a, r) ← parsePExpr rest
        let (b, r) ← parsePExpr r
        pure (.bin op a b, r)
      | none => none

def parseEqn : List String → Option (Eqn PExpr × List String)
  | "=" :: rest => do
    let (l, r) ← parsePExpr rest
    let (rhs, r) ← parsePExpr r
    pure (.eq l rhs, r)
  | "e" :: rest => do
    let (e, r) ← parsePExpr rest
    pure (.bare e, r)
  | _ => none

def parseEquation (ws : List String) : Option Equation :=
  match ws with
  | k :: d :: rest => do
    let kind ← (if k = "T" then some EqKind.transition else if k = "M" then some EqKind.measurement else none)
    let (dyn, r) ← parseEqn rest
    match r with
    | [] => pure ⟨kind, descrOfToken d, dyn, none⟩
    | "!!" :: r => do
      let (st, r) ← parseEqn r
      if r.isEmpty then pure ⟨kind, descrOfToken d, dyn, some st⟩ else none
    | _ => none
  | _ => none

/-! ### carriers -/

def ratPowNat (a : Rat) : Nat → Rat
  | 0 => 1
  | n + 1 => ratPowNat a n * a

def ratAbs (a : Rat) : Rat := if a < 0 then -a else a

/-- exact rational evaluation; `none` = outside exact arithmetic (transcendental function, division by zero,
non-integer power, missing data) -/
def AlgQ : Alg (Option Rat) where
  const q := some q
  neg a := a.map (fun x => -x)
  bin op a b := do
    let x ← a
    let y ← b
    match op with
    | .add => pure (x + y)
    | .sub => pure (x - y)
    | .mul => pure (x * y)
    | .div => if y = 0 then none else pure (x / y)
    | .pow =>
      if y.den = 1 then
        if y.num ≥ 0 then pure (ratPowNat x y.num.toNat)
        else if x = 0 then none else pure (1 / ratPowNat x y.num.natAbs)
      else none
  call1 f a := do
    let x ← a
    match f with
    | "abs" => pure (ratAbs x)
    | "dbl" => pure (x + x)
    | "sq" => pure (x * x)
    | _ => none
  call2 f a b := do
    let x ← a
    let y ← b
    match f with
    | "maximum" => pure (if x < y then y else x)
    | "minimum" => pure (if y < x then y else x)
    | "avg2" => pure ((x + y) / 2)
    | _ => none

def nanF : Float := 0.0 / 0.0

def ratToFloat (q : Rat) : Float := Float.ofInt q.num / Float.ofNat q.den

def AlgF : Alg Float where
  const q := ratToFloat q
  neg a := -a
  bin op x y :=
    match op with
    | .add => x + y
    | .sub => x - y
    | .mul => x * y
    | .div => x / y
    | .pow => Float.pow x y
  call1 f x :=
    match f with
    | "log" => Float.log x
    | "exp" => Float.exp x
    | "sqrt" => Float.sqrt x
    | "abs" => Float.abs x
    | "dbl" => x + x
    | "sq" => x * x
    | _ => nanF
  call2 f x y :=
    match f with
    | "maximum" => if x < y then y else x
    | "minimum" => if y < x then y else x
    | "avg2" => (x + y) / 2
    | _ => nanF

structure Row where
  name : String
  start : Int
  vals : Array Rat

def parseRow (w : String) : Option Row :=
  match w.splitOn "=" with
  | [n, r] =>
    match r.splitOn ":" with
    | [s, vs] => do
      let s ← s.toInt?
      let vs ← (vs.splitOn ",").mapM parseRat?
      pure ⟨n, s, vs.toArray⟩
    | _ => none
  | _ => none

def dataQ (rows : List Row) : Data (Option Rat) := fun n s =>
  match rows.find? (·.name = n) with
  | some r => if s < r.start then none else r.vals[(s - r.start).toNat]?
  | none => none

def dataF (rows : List Row) : Data Float := fun n s =>
  match dataQ rows n s with
  | some q => ratToFloat q
  | none => nanF

def showVal (rows : List Row) (t : Int) (e : Option Expr) : String :=
  match e with
  | none => "err"
  | some e =>
    match eval AlgQ (dataQ rows) t e with
    | some q => "q:" ++ showRat q
    | none => "f:" ++ toString (eval AlgF (dataF rows) t e).toBits

/-! ### names used by an expression (undeclared names are rejected by the code) -/

def exprNames : Expr → List String
  | .num _ => []
  | .name n _ => [n]
  | .neg e => exprNames e
  | .bin _ a b => exprNames a ++ exprNames b
  | .call1 _ a => exprNames a
  | .call2 _ a b => exprNames a ++ exprNames b

/-! ### the `model` request -/

def parseDecl (w : String) : Option Decl :=
  match w.splitOn ":" with
  | k :: n :: d => (qkind? k).map (fun k => ⟨k, n, descrOfToken (":".intercalate d)⟩)
  | _ => none

def showLog : Option Bool → String
  | some true => "T" | some false => "F" | none => "-"

def runModel (ws : List String) : Option String := do
  match splitSections ws "|" with
  | [("D" :: dws), ("L" :: ab :: listed), ("S" :: sws), ("E" :: ews), ("X" :: t :: xws)] =>
    let decls ← dws.mapM parseDecl
    let allBut := ab = "T"
    let t ← t.toInt?
    let rows ← xws.mapM parseRow
    -- substitutions: bodies are expanded (pseudofunctions) before they are inlined; they cannot refer to each other
    let sdefs ← ((splitSections sws ";").filter (fun l => !l.isEmpty)).mapM (fun l => match l with
      | n :: rest => do
        let (e, r) ← parsePExpr rest
        if r.isEmpty then pure (n, e) else none
      | [] => none)
    let defs : String → Option Expr := fun s =>
      match sdefs.find? (·.1 = s) with
      | some (_, e) => expand (fun _ => none) e
      | none => none
    let eqs ← ((splitSections ews ";").filter (fun l => !l.isEmpty)).mapM parseEquation
    -- the checks of `from_source`
    let all := allDecls decls
    let names := all.map (·.name)
    if names.eraseDups.length ≠ names.length then return "err:bad"
    if !logListOk decls listed then return "err:bad"
    let nT := (eqs.filter (·.kind = .transition)).length
    let nM := (eqs.filter (·.kind = .measurement)).length
    if nT ≠ (decls.filter (·.kind = .tv)).length ∨ nM ≠ (decls.filter (·.kind = .mv)).length then return "err:bad"
    let tshocks := (decls.filter (·.kind = .ts)).map (·.name)
    let ordered := (eqs.filter (·.kind = .transition)) ++ (eqs.filter (·.kind = .measurement))
    let dyn := ordered.map (dynamicXtring defs tshocks)
    let std := ordered.map (steadyXtring defs)
    if (dyn ++ std).any (·.isNone) then return "err:bad"
    let used := (dyn ++ std).flatMap (fun e => match e with | some e => exprNames e | none => [])
    if used.any (fun n => !names.contains n) then return "err:bad"
    let qs := quantities decls allBut listed
    let namesTxt := ";".intercalate (QKind.all.map (fun k => qkindName k ++ "=" ++ ",".intercalate (namesOfKind qs k)))
    let descrTxt := " ".intercalate (qs.map (fun q => q.name ++ "=" ++ descrToToken q.descr))
    let logTxt := " ".intercalate ((qs.filter (·.logly.isSome)).map (fun q => q.name ++ "=" ++ showLog q.logly))
    let eqDescr := " ".intercalate (ordered.map (fun e => descrToToken e.descr))
    pure ("names " ++ namesTxt ++ " | descr " ++ descrTxt ++ " | log " ++ logTxt ++ " | neq " ++ toString ordered.length
      ++ " " ++ eqDescr
      ++ " | dyn " ++ " ".intercalate (dyn.map (showVal rows t))
      ++ " | std " ++ " ".intercalate (std.map (showVal rows t)))
  | _ => none

/-! ### the `prep` request -/

def mode? : Char → Option Mode
  | 'p' => some .plain | 'u' => some .upper | 'l' => some .lower
  | _ => none

/-- a word: pieces joined by `,`; a piece is `L<text>` or `C<mode><name>` -/
def parseWord (w : String) : Option Word :=
  (w.splitOn ",").mapM (fun p =>
    if p.startsWith "L" then some (Piece.lit (p.drop 1).toString)
    else if p.startsWith "C" then do
      let m ← mode? ((p.drop 1).toString.front)
      pure (Piece.ctl (p.drop 2).toString m)
    else none)

def parseItem (ws : List String) : Option Item :=
  match ws with
  | "T" :: rest => (rest.mapM parseWord).map .text
  | "F" :: c :: "W" :: rest => (rest.mapM parseWord).map (fun ws => .for ((c.drop 1).toString) (.words ws))
  | ["F", c, "X", k] => (parseWord k).map (fun k => .for ((c.drop 1).toString) (.ctx k))
  | ["I", "E", a, b] => do
    let a ← parseWord a
    let b ← parseWord b
    pure (.if (.eq a b))
  | ["I", "G", k] => (parseWord k).map (fun k => .if (.flag k))
  | ["EL"] => some .else
  | ["EN"] => some .end
  | _ => none

def parseKV (w : String) : Option (String × String) :=
  match w.splitOn "=" with
  | [k, v] => some (k, v)
  | _ => none

def showErr : Err → String
  | .bad => "err:bad"
  | .depth => "err:depth"

def runPrep (ws : List String) : Option String := do
  match splitSections ws "|" with
  | [iws, ("lists" :: lws), ("flags" :: fws)] =>
    let items ← ((splitSections iws "/").filter (fun l => !l.isEmpty)).mapM parseItem
    let lists ← lws.mapM parseKV
    let flags ← fws.mapM parseKV
    let ctx : Ctx := {
      lists := fun k => (lists.find? (·.1 = k)).map (fun kv => (kv.2.splitOn ",").filter (· ≠ ""))
      flags := fun k => (flags.find? (·.1 = k)).map (fun kv => kv.2 = "T") }
    match resolve ctx items with
    | .ok out => pure (" ".intercalate ("ok" :: out))
    | .error e => pure (showErr e)
  | _ => none

/-! ### the `lists` request -/

def parseLWord (w : String) : Option LWord :=
  if w.startsWith "P" then some (.plain (w.drop 1).toString)
  else if w.startsWith "L" then some (.list (w.drop 1).toString)
  else if w.startsWith "T" then
    match ((w.drop 1).toString).splitOn "`" with
    | [n, t] => some (.typed n t)
    | _ => none
  else none

/-! ### round 4: keyword normaliser, substitutions, token parser -/

def parseSTok (w : String) : STok :=
  if w.length ≥ 3 && w.startsWith "$" && w.endsWith "$" then .ref ((w.drop 1).dropEnd 1).toString else .word w

def showSTok : STok → String
  | .word w => w
  | .ref s => "$" ++ s ++ "$"

/-- `subs name=tok,tok ; name2=... | tok tok ...` -/
def runSubs (ws : List String) : Option String := do
  match splitSections ws "|" with
  | [dws, ews] =>
    let defs ← dws.mapM (fun w => match w.splitOn "=" with
      | n :: rest => some (n, (("=".intercalate rest).splitOn ",").filter (· ≠ "") |>.map parseSTok)
      | _ => none)
    pure (" ".intercalate ("ok" :: (resolveSubstitutions defs (ews.map parseSTok)).map showSTok))
  | _ => none

def tok? (w : String) : Option Tok :=
  if w = "(" then some .lp else if w = ")" then some .rp else if w = "," then some .comma else if w = "=" then some .eq
  else if w.startsWith "#" then (parseRat? (w.drop 1).toString).map .num
  else if w.startsWith "F:" then some (.fn (w.drop 2).toString)
  else if w.startsWith "n:" then
    match w.splitOn ":" with
    | [_, n, k] => k.toInt?.map (fun k => .name n k)
    | _ => none
  else (binop? w).map .op

def encExpr : Expr → String
  | .num q => "#" ++ showRat q
  | .name n k => "n:" ++ n ++ ":" ++ toString k
  | .neg e => "~ " ++ encExpr e
  | .bin o a b => (match o with | .add => "+" | .sub => "-" | .mul => "*" | .div => "/" | .pow => "^") ++ " " ++ encExpr a ++ " " ++ encExpr b
  | .call1 f a => "f:" ++ f ++ " " ++ encExpr a
  | .call2 f a b => "g:" ++ f ++ " " ++ encExpr a ++ " " ++ encExpr b

/-- `parse <t> <tokens> | <data rows>` -> `ok <tree in prefix form> | <value of the translated equation>` -/
def runParse (ws : List String) : Option String := do
  match splitSections ws "|" with
  | [t :: tws, xws] =>
    let t ← t.toInt?
    let toks ← tws.mapM tok?
    let rows ← xws.mapM parseRow
    match IrisVerif.ModelLang.parseEqn toks with
    | none => pure "err:parse"
    | some q =>
      let enc := match q with
        | .eq l r => "= " ++ encExpr l ++ " " ++ encExpr r
        | .bare e => "e " ++ encExpr e
      -- printing the parsed tree gives the tokens back
      let again := if printEqn q = toks then "T" else "F"
      pure ("ok " ++ enc ++ " | " ++ again ++ " | " ++ showVal rows t (some q.xtring))
  | _ => none

/-- `pparse <t> <tokens> | <data rows>`: as `parse`, with the precedence parser (minimally parenthesised text) -/
def runPParse (ws : List String) : Option String := do
  match splitSections ws "|" with
  | [t :: tws, xws] =>
    let t ← t.toInt?
    let toks ← tws.mapM tok?
    let rows ← xws.mapM parseRow
    match parsePrecEqn toks with
    | none => pure "err:parse"
    | some q =>
      let enc := match q with
        | .eq l r => "= " ++ encExpr l ++ " " ++ encExpr r
        | .bare e => "e " ++ encExpr e
      pure ("ok " ++ enc ++ " | " ++ showVal rows t (some q.xtring))
  | _ => none

def step (line : String) : String :=
  match words line with
  | ["pf", n] => match PF.ofName? n with
    | some pf => pfName pf ++ " " ++ toString pf.defaultShift
    | none => "none"
  | ["kw", k] => match QKind.ofKeyword? k, EqKind.ofKeyword? k with
    | some q, _ => "q:" ++ qkindName q
    | none, some .transition => "e:T"
    | none, some .measurement => "e:M"
    | none, none => "none"
  | "lists" :: rest => match rest.mapM parseLWord with
    | some ws => " ".intercalate ("ok" :: resolveLists ws)
    | none => "bad-op"
  | "kwnorm" :: rest => " ".intercalate ("ok" :: (normaliseKeywords (rest.map String.toList)).map String.ofList)
  | "subs" :: rest => (runSubs rest).getD "bad-op"
  | "parse" :: rest => (runParse rest).getD "bad-op"
  | "pparse" :: rest => (runPParse rest).getD "bad-op"
  | "jinja" :: rest =>
    -- `jinja vars k=v ... | flags k=T ... | pieces`: pieces `T:w`, `V:name`, `I:flag:0|1:th,th:el,el`
    match splitSections rest "|" with
    | ["vars" :: vws, "flags" :: fws, pws] =>
      match vws.mapM parseKV, fws.mapM parseKV with
      | some vs, some fs =>
        let c : JCtx := { vars := fun k => (vs.find? (·.1 = k)).map (·.2), flags := fun k => (fs.find? (·.1 = k)).map (fun kv => kv.2 = "T") }
        let ps := pws.filterMap (fun w => match w.splitOn ":" with
          | ["T", x] => some (JPiece.text x)
          | ["V", n] => some (JPiece.var n)
          | ["I", f, ng, th, el] => some (JPiece.ite f (ng = "1") ((th.splitOn ",").filter (· ≠ "")) ((el.splitOn ",").filter (· ≠ "")))
          | _ => none)
        " ".intercalate ("ok" :: renderJinja c ps)
      | _, _ => "bad-op"
    | _ => "bad-op"
  | "strfy" :: rest =>
    -- `strfy <rat>@<decimals> ...` -> the texts joined by commas (as `_stringify` prints an iterable) and the values re-read
    match rest.mapM (fun w => match w.splitOn "@" with
        | [q, k] => do let q ← parseRat? q; let k ← k.toNat?; pure (q, k)
        | _ => none) with
    | some qs =>
      let ts := stringifyList qs
      "ok " ++ ",".intercalate (ts.map DecText.render) ++ " | " ++ " ".intercalate (ts.map (fun t => showRat (rereadDec t)))
    | none => "bad-op"
  | "prep" :: rest => (runPrep rest).getD "bad-op"
  | "model" :: rest => (runModel rest).getD "bad-op"
  | _ => "bad-op"

end IrisVerif.Driver.C04

def main : IO Unit := IrisVerif.Driver.runMain IrisVerif.Driver.C04.step
