/-
Helper lemmas for C17: the carrier of the theorems (a field with abstract partial unary functions), arithmetic of
NaN-or-finite values, the frame lemma for expression evaluation, and what one statement of `simulate`/`exogenize` changes.
-/
import IrisVerif.Model.Sequential
import Mathlib.Algebra.Field.Basic
import Mathlib.Algebra.CharZero.Defs
import Mathlib.Tactic.FieldSimp
import Mathlib.Tactic.Ring

set_option linter.unusedSectionVars false
set_option linter.unusedSimpArgs false

namespace IrisVerif.Seq
open IrisVerif.Gen

/-- abstract partial unary functions on a field: code 0 = exp, 1 = log, the others arbitrary -/
class UnaryFns (K : Type) where
  fn? : Nat → K → Option K

/-- the carrier of the theorems: any field; division by zero is undefined (NaN) -/
instance fieldCarrier {K : Type} [Field K] [DecidableEq K] [UnaryFns K] : Carrier K where
  add := (· + ·)
  sub := (· - ·)
  mul := (· * ·)
  neg := (- ·)
  div? := fun x y => if y = 0 then none else some (x / y)
  fn? := UnaryFns.fn?
  ofNat := fun n => (n : K)

/-- `log` inverts `exp`, and `log` of a product is the sum of the logs, wherever they are defined -/
class LawfulExpLog (K : Type) [Field K] [UnaryFns K] : Prop where
  log_exp : ∀ x y : K, UnaryFns.fn? 0 x = some y → UnaryFns.fn? 1 y = some x
  log_mul : ∀ a b la lb : K, UnaryFns.fn? 1 a = some la → UnaryFns.fn? 1 b = some lb → UnaryFns.fn? 1 (a * b) = some (la + lb)

section carrier
variable {β : Type} [Carrier β]

@[simp] theorem V.nan_add (a : V β) : V.nan + a = V.nan := rfl
@[simp] theorem V.add_nan (a : V β) : a + V.nan = V.nan := by cases a <;> rfl
@[simp] theorem V.nan_sub (a : V β) : V.nan - a = V.nan := rfl
@[simp] theorem V.sub_nan (a : V β) : a - V.nan = V.nan := by cases a <;> rfl
@[simp] theorem V.nan_mul (a : V β) : V.nan * a = V.nan := rfl
@[simp] theorem V.mul_nan (a : V β) : a * V.nan = V.nan := by cases a <;> rfl
@[simp] theorem V.nan_div (a : V β) : V.nan / a = V.nan := rfl
@[simp] theorem V.div_nan (a : V β) : a / V.nan = V.nan := by cases a <;> rfl
@[simp] theorem V.exp_nan : V.exp (V.nan : V β) = V.nan := rfl
@[simp] theorem V.log_nan : V.log (V.nan : V β) = V.nan := rfl
@[simp] theorem V.fn_nan (k : Nat) : V.fn k (V.nan : V β) = V.nan := rfl
@[simp] theorem V.neg_nan : - (V.nan : V β) = V.nan := rfl

theorem V.add_eq_fin {a b : V β} {c : β} (h : a + b = V.fin c) : ∃ x y, a = V.fin x ∧ b = V.fin y := by
  cases a <;> cases b <;> simp_all
theorem V.sub_eq_fin {a b : V β} {c : β} (h : a - b = V.fin c) : ∃ x y, a = V.fin x ∧ b = V.fin y := by
  cases a <;> cases b <;> simp_all
theorem V.mul_eq_fin {a b : V β} {c : β} (h : a * b = V.fin c) : ∃ x y, a = V.fin x ∧ b = V.fin y := by
  cases a <;> cases b <;> simp_all
theorem V.div_eq_fin {a b : V β} {c : β} (h : a / b = V.fin c) : ∃ x y, a = V.fin x ∧ b = V.fin y := by
  cases a <;> cases b <;> simp_all
theorem V.exp_eq_fin {a : V β} {c : β} (h : V.exp a = V.fin c) : ∃ x, a = V.fin x := by
  cases a <;> simp_all
theorem V.log_eq_fin {a : V β} {c : β} (h : V.log a = V.fin c) : ∃ x, a = V.fin x := by
  cases a <;> simp_all

/-! ### tables -/

@[simp] theorem Table.set_same (tbl : Table β) (r : Nat) (c : Int) (v : V β) : (tbl.set r c v) r c = v := by
  simp [Table.set]

theorem Table.set_other (tbl : Table β) (r r' : Nat) (c c' : Int) (v : V β) (h : (r', c') ≠ (r, c)) :
    (tbl.set r c v) r' c' = tbl r' c' := by
  simp only [Table.set]
  split
  · rename_i h'; exact absurd (Prod.ext h'.1 h'.2) h
  · rfl

theorem Table.set_comm (tbl : Table β) (r r' : Nat) (c c' : Int) (v v' : V β) (h : (r, c) ≠ (r', c')) :
    (tbl.set r c v).set r' c' v' = (tbl.set r' c' v').set r c v := by
  funext a b
  simp only [Table.set]
  by_cases h1 : a = r' ∧ b = c' <;> by_cases h2 : a = r ∧ b = c <;> simp [h1, h2]
  all_goals first
    | (exfalso; apply h; rw [← h2.1, ← h2.2, ← h1.1, ← h1.2])
    | (intro e1 e2; exfalso; apply h; simp [e1, e2])

/-- frame lemma: an expression depends only on the cells it reads -/
theorem Expr.eval_congr (e : Expr β) (t : Int) (tbl tbl' : Table β)
    (h : ∀ c ∈ e.reads t, tbl' c.1 c.2 = tbl c.1 c.2) : e.eval tbl' t = e.eval tbl t := by
  induction e with
  | const c => rfl
  | var r s => simpa [Expr.eval, Expr.reads] using h
  | neg a ih => simp only [Expr.eval]; rw [ih (by simpa [Expr.reads] using h)]
  | add a b iha ihb =>
    simp only [Expr.eval]
    rw [iha (fun c hc => h c (by simp [Expr.reads, hc])), ihb (fun c hc => h c (by simp [Expr.reads, hc]))]
  | sub a b iha ihb =>
    simp only [Expr.eval]
    rw [iha (fun c hc => h c (by simp [Expr.reads, hc])), ihb (fun c hc => h c (by simp [Expr.reads, hc]))]
  | mul a b iha ihb =>
    simp only [Expr.eval]
    rw [iha (fun c hc => h c (by simp [Expr.reads, hc])), ihb (fun c hc => h c (by simp [Expr.reads, hc]))]
  | div a b iha ihb =>
    simp only [Expr.eval]
    rw [iha (fun c hc => h c (by simp [Expr.reads, hc])), ihb (fun c hc => h c (by simp [Expr.reads, hc]))]
  | fn k a ih => simp only [Expr.eval]; rw [ih (by simpa [Expr.reads] using h)]

theorem Equation.lagVal_congr (eq : Equation β) (t : Int) (tbl tbl' : Table β)
    (h : ∀ c ∈ eq.lagCells t, tbl' c.1 c.2 = tbl c.1 c.2) : eq.lagVal tbl' t = eq.lagVal tbl t := by
  unfold Equation.lagVal Equation.lagCells at *
  cases hs : eq.tr.lagShift with
  | none => rfl
  | some s => simp only [hs] at h ⊢; exact h (eq.lhs, t + s) (by simp)

/-- the right-hand side (with residual) depends only on `deps` -/
theorem Equation.rhsFull_congr (eq : Equation β) (t : Int) (tbl tbl' : Table β)
    (h : ∀ c ∈ eq.deps t, tbl' c.1 c.2 = tbl c.1 c.2) : eq.rhsFull tbl' t = eq.rhsFull tbl t := by
  unfold Equation.rhsFull
  have h1 : eq.rhs.eval tbl' t = eq.rhs.eval tbl t :=
    Expr.eval_congr _ _ _ _ (fun c hc => h c (by simp [Equation.deps, hc]))
  by_cases hi : eq.identity
  · simp [hi, h1]
  · have h2 : tbl' eq.res t = tbl eq.res t := h (eq.res, t) (by simp [Equation.deps, hi])
    simp [hi, h1, h2]

/-- the truth of the equation depends only on the LHS cell and `deps` -/
theorem Equation.holds_congr (eq : Equation β) (t : Int) (tbl tbl' : Table β)
    (hl : tbl' eq.lhs t = tbl eq.lhs t)
    (h : ∀ c ∈ eq.deps t, tbl' c.1 c.2 = tbl c.1 c.2) : eq.Holds tbl' t ↔ eq.Holds tbl t := by
  unfold Equation.Holds Equation.lhsValue
  rw [eq.rhsFull_congr t tbl tbl' h,
    eq.lagVal_congr t tbl tbl' (fun c hc => h c (by simp [Equation.deps, hc])), hl]

end carrier

section field
variable {K : Type} [Field K] [DecidableEq K] [UnaryFns K]

@[simp] theorem V.fin_add (a b : K) : (V.fin a + V.fin b) = V.fin (a + b) := rfl
@[simp] theorem V.fin_sub (a b : K) : (V.fin a - V.fin b) = V.fin (a - b) := rfl
@[simp] theorem V.fin_mul (a b : K) : (V.fin a * V.fin b) = V.fin (a * b) := rfl
@[simp] theorem V.fin_div (a b : K) : (V.fin a / V.fin b) = (if b = 0 then V.nan else V.fin (a / b)) := by
  show V.vdiv _ _ = _
  simp only [V.vdiv, Carrier.div?]
  split <;> rfl
@[simp] theorem V.ofNat_eq (n : Nat) : (OfNat.ofNat n : V K) = V.fin (n : K) := rfl
@[simp] theorem V.exp_fin (a : K) : V.exp (V.fin a) = V.ofOption (UnaryFns.fn? 0 a) := rfl
@[simp] theorem V.log_fin (a : K) : V.log (V.fin a) = V.ofOption (UnaryFns.fn? 1 a) := rfl
@[simp] theorem V.ofOption_some (a : K) : V.ofOption (some a) = V.fin a := rfl
@[simp] theorem V.ofOption_none : V.ofOption (none : Option K) = V.nan := rfl

theorem V.ofOption_eq_fin {o : Option K} {c : K} (h : V.ofOption o = V.fin c) : o = some c := by
  cases o with
  | none => simp at h
  | some x => simp at h; simp [h]

end field


/-! ### the statement lists of `Explanatory.exogenize` and what a step / a schedule can change -/

section steps
variable {K : Type} [Field K] [DecidableEq K] [UnaryFns K]

/-- statement list of the pinned `Explanatory.exogenize`: LHS := value; residual := eval_residual -/
def stepsAsIs : List Nat := [0, 2]
/-- repaired statement list: LHS := value; residual := 0; residual := eval_residual -/
def stepsRepaired : List Nat := [0, 1, 2]

theorem runSteps_simulate (eq : Equation K) (t : Int) (v : V K) (tbl : Table K) :
    runSteps [3] eq t v tbl = .ok (tbl.set eq.lhs t (eq.evalLevel tbl t)) := rfl

theorem runSteps_asIs (eq : Equation K) (t : Int) (v : V K) (tbl : Table K) :
    runSteps stepsAsIs eq t v tbl
      = .ok ((tbl.set eq.lhs t v).set eq.res t (eq.evalResidual (tbl.set eq.lhs t v) t)) := rfl

theorem runSteps_repaired (eq : Equation K) (t : Int) (v : V K) (tbl : Table K) :
    runSteps stepsRepaired eq t v tbl
      = .ok ((((tbl.set eq.lhs t v).set eq.res t (V.fin 0))).set eq.res t
          (eq.evalResidual ((tbl.set eq.lhs t v).set eq.res t (V.fin 0)) t)) := by
  show Except.ok _ = _
  simp [Carrier.ofNat]

theorem selfOK_unpack (eqs : List (Equation K)) (s : Int × Nat) (eq : Equation K) (heq : eqs[s.2]? = some eq)
    (h : selfOK eqs s = true) :
    (eq.lhs, s.1) ∉ eq.deps s.1 ∧ (eq.identity = false → (eq.res, s.1) ∉ eq.depsNoRes s.1) := by
  unfold selfOK at h
  rw [heq] at h
  simp only [Bool.and_eq_true, Bool.or_eq_true] at h
  refine ⟨by simpa using h.1, ?_⟩
  intro hid
  rcases h.2 with h2 | h2
  · rw [hid] at h2; exact absurd h2 (by simp)
  · simpa using h2.1

/-- `runSteps` of either exogenize list changes only the LHS cell and the residual cell -/
theorem runSteps_exo_frame (exo : List Nat) (hexo : exo = stepsAsIs ∨ exo = stepsRepaired)
    (eq : Equation K) (tbl tbl2 : Table K) (t : Int) (v : V K)
    (hrun : runSteps exo eq t v tbl = .ok tbl2) (c : Cell) (h1 : c ≠ (eq.lhs, t)) (h2 : c ≠ (eq.res, t)) :
    tbl2 c.1 c.2 = tbl c.1 c.2 := by
  rcases hexo with h | h
  · rw [h, runSteps_asIs] at hrun
    injection hrun with hrun
    subst hrun
    rw [Table.set_other _ _ _ _ _ _ h2, Table.set_other _ _ _ _ _ _ h1]
  · rw [h, runSteps_repaired] at hrun
    injection hrun with hrun
    subst hrun
    rw [Table.set_other _ _ _ _ _ _ h2, Table.set_other _ _ _ _ _ _ h2, Table.set_other _ _ _ _ _ _ h1]

theorem branchOf_some_isSome (plan : Plan) (eq : Equation K) (tbl : Table K) (t : Int) (v : V K)
    (h : branchOf plan eq tbl t = .ok (some v)) : eq.identity = false ∧ (plan eq.lhs t).isSome = true := by
  unfold branchOf getTransform at h
  by_cases hid : eq.identity
  · simp [hid] at h
    cases h
  · cases hp : plan eq.lhs t with
    | none => simp [hid, hp] at h; cases h
    | some p => simp [hid]

/-- one step changes only the cells in `stepWrites` -/
theorem stepWith_frame (exo : List Nat) (hexo : exo = stepsAsIs ∨ exo = stepsRepaired)
    (eqs : List (Equation K)) (plan : Plan) (tbl tbl' : Table K) (s : Int × Nat)
    (hstep : stepWith [3] exo eqs plan tbl s = .ok tbl') (c : Cell) (hc : c ∉ stepWrites eqs plan s) :
    tbl' c.1 c.2 = tbl c.1 c.2 := by
  unfold stepWith at hstep
  unfold stepWrites at hc
  cases heq : eqs[s.2]? with
  | none => simp [heq] at hstep
  | some eq =>
    simp only [heq] at hstep hc
    cases hb : branchOf plan eq tbl s.1 with
    | error e => simp [hb, bind, Except.bind] at hstep
    | ok o =>
      cases o with
      | none =>
        simp only [hb, bind, Except.bind, runSteps_simulate] at hstep
        injection hstep with hstep
        subst hstep
        exact Table.set_other _ _ _ _ _ _ (fun h => hc (by simp [← h]))
      | some v =>
        simp only [hb, bind, Except.bind] at hstep
        obtain ⟨hid, hp⟩ := branchOf_some_isSome plan eq tbl s.1 v hb
        simp only [hid, hp, Bool.not_false, Bool.and_self, if_true, List.mem_cons, List.not_mem_nil, or_false,
          not_or] at hc
        exact runSteps_exo_frame exo hexo eq tbl tbl' s.1 v hstep c hc.1 hc.2

/-- running a schedule changes only cells written by one of its steps -/
theorem simulateWith_frame (exo : List Nat) (hexo : exo = stepsAsIs ∨ exo = stepsRepaired)
    (eqs : List (Equation K)) (plan : Plan) (sched : List (Int × Nat)) (tbl tblF : Table K)
    (hrun : simulateWith [3] exo eqs plan tbl sched = .ok tblF) (c : Cell)
    (hc : ∀ s ∈ sched, c ∉ stepWrites eqs plan s) : tblF c.1 c.2 = tbl c.1 c.2 := by
  induction sched generalizing tbl with
  | nil =>
    simp only [simulateWith, List.foldlM_nil, pure, Except.pure] at hrun
    injection hrun with hrun
    rw [hrun]
  | cons s rest ih =>
    simp only [simulateWith, List.foldlM_cons, bind, Except.bind] at hrun
    cases hs : stepWith [3] exo eqs plan tbl s with
    | error e => simp [hs] at hrun
    | ok tbl' =>
      simp only [hs] at hrun
      rw [ih tbl' hrun (fun s' hs' => hc s' (List.mem_cons_of_mem _ hs')),
        stepWith_frame exo hexo eqs plan tbl tbl' s hs c (hc s (List.mem_cons_self))]


theorem admissible_split (eqs : List (Equation K)) (plan : Plan) (pre post : List (Int × Nat)) (s : Int × Nat)
    (h : admissible eqs plan (pre ++ s :: post) = true) :
    stepOK eqs plan s post = true ∧ ∀ s' ∈ pre, ∀ c ∈ stepWrites eqs plan s, c ∉ stepWrites eqs plan s' := by
  induction pre with
  | nil =>
    simp only [List.nil_append, admissible, Bool.and_eq_true] at h
    exact ⟨h.1, by simp⟩
  | cons a pre ih =>
    simp only [List.cons_append, admissible, Bool.and_eq_true] at h
    obtain ⟨h1, h2⟩ := ih h.2
    refine ⟨h1, ?_⟩
    intro s' hs' c hc
    rcases List.mem_cons.mp hs' with rfl | hs'
    · have := h.1
      simp only [stepOK, laterOK, Bool.and_eq_true, List.all_eq_true] at this
      have := (this.2 s (by simp) c hc).2
      simpa using this
    · exact h2 s' hs' c hc

end steps

/-! ### admissible schedules: the Prop, the executable decision, the two execution orders -/

section orders
variable {β : Type}

theorem Expr.reads_eq_map_tokens (e : Expr β) (t : Int) :
    e.reads t = e.tokens.map (fun p => (p.1, t + p.2)) := by
  induction e with
  | const c => rfl
  | var r s => rfl
  | neg a ih => simpa [Expr.reads, Expr.tokens] using ih
  | add a b iha ihb => simp [Expr.reads, Expr.tokens, iha, ihb]
  | sub a b iha ihb => simp [Expr.reads, Expr.tokens, iha, ihb]
  | mul a b iha ihb => simp [Expr.reads, Expr.tokens, iha, ihb]
  | div a b iha ihb => simp [Expr.reads, Expr.tokens, iha, ihb]
  | fn k a ih => simpa [Expr.reads, Expr.tokens] using ih

theorem Equation.depsNoRes_eq_map (eq : Equation β) (t : Int) :
    eq.depsNoRes t = eq.depNoResTokens.map (fun p => (p.1, t + p.2)) := by
  unfold Equation.depsNoRes Equation.depNoResTokens Equation.lagCells
  rw [Expr.reads_eq_map_tokens]
  cases eq.tr.lagShift <;> simp

theorem Equation.deps_eq_map (eq : Equation β) (t : Int) :
    eq.deps t = eq.depTokens.map (fun p => (p.1, t + p.2)) := by
  have h := eq.depsNoRes_eq_map t
  unfold Equation.depsNoRes at h
  unfold Equation.deps Equation.depTokens
  rw [h]
  by_cases hi : eq.identity <;> simp [hi]


/-- step `s'` (run after `s`) writes nothing that the equation of `s` reads or that `s` wrote -/
def NoClobber (eqs : List (Equation β)) (plan : Plan) (s s' : Int × Nat) : Prop :=
  ∀ c ∈ stepWrites eqs plan s', c ∉ stepDeps eqs s ∧ c ∉ stepWrites eqs plan s

/-- **Admissible schedule** (the property's "that order computes every value before it is read"): no step writes a cell its
own equation reads, and for every pair of steps `s` before `s'`, `s'` writes nothing that `s` read or wrote.  Hence every cell
an equation reads is either never written (an input cell) or was written by an earlier step only, and no cell is written
twice. -/
def Admissible (eqs : List (Equation β)) (plan : Plan) (sched : List (Int × Nat)) : Prop :=
  (∀ s ∈ sched, selfOK eqs s = true) ∧ sched.Pairwise (NoClobber eqs plan)

theorem laterOK_iff (eqs : List (Equation β)) (plan : Plan) (s : Int × Nat) (rest : List (Int × Nat)) :
    laterOK eqs plan s rest = true ↔ ∀ s' ∈ rest, NoClobber eqs plan s s' := by
  simp [laterOK, NoClobber, List.all_eq_true]

/-- the executable decision `admissible` is exactly `Admissible` -/
theorem admissible_iff (eqs : List (Equation β)) (plan : Plan) (sched : List (Int × Nat)) :
    admissible eqs plan sched = true ↔ Admissible eqs plan sched := by
  induction sched with
  | nil => simp [admissible, Admissible]
  | cons s rest ih =>
    simp only [admissible, stepOK, Bool.and_eq_true, ih, Admissible, List.mem_cons, forall_eq_or_imp,
      List.pairwise_cons, laterOK_iff]
    constructor
    · rintro ⟨⟨h1, h2⟩, h3, h4⟩; exact ⟨⟨h1, h3⟩, h2, h4⟩
    · rintro ⟨⟨h1, h3⟩, h2, h4⟩; exact ⟨⟨h1, h2⟩, h3, h4⟩

/-- the flag the driver prints for the step at position `pre.length` is `stepOK` of that step w.r.t. the steps after it -/
theorem admissibleFlags_getElem (eqs : List (Equation β)) (plan : Plan) (pre post : List (Int × Nat)) (s : Int × Nat) :
    (admissibleFlags eqs plan (pre ++ s :: post))[pre.length]? = some (stepOK eqs plan s post) := by
  induction pre with
  | nil => simp [admissibleFlags]
  | cons a pre ih => simpa [admissibleFlags] using ih

theorem admissibleFlags_length (eqs : List (Equation β)) (plan : Plan) (sched : List (Int × Nat)) :
    (admissibleFlags eqs plan sched).length = sched.length := by
  induction sched with
  | nil => rfl
  | cons s rest ih => simp [admissibleFlags, ih]

/-- all flags true ⇔ the schedule is `Admissible` -/
theorem admissibleFlags_all_iff (eqs : List (Equation β)) (plan : Plan) (sched : List (Int × Nat)) :
    (∀ b ∈ admissibleFlags eqs plan sched, b = true) ↔ Admissible eqs plan sched := by
  rw [← admissible_iff]
  induction sched with
  | nil => simp [admissibleFlags, admissible]
  | cons s rest ih =>
    simp only [admissibleFlags, admissible, List.mem_cons, forall_eq_or_imp, Bool.and_eq_true, ih]


theorem stepWrites_mem (eqs : List (Equation β)) (plan : Plan) (s : Int × Nat) (c : Cell)
    (h : c ∈ stepWrites eqs plan s) : ∃ eq, eqs[s.2]? = some eq ∧ c.2 = s.1 ∧ c.1 ∈ eq.writeRows := by
  unfold stepWrites at h
  cases heq : eqs[s.2]? with
  | none => simp [heq] at h
  | some eq =>
    refine ⟨eq, rfl, ?_⟩
    simp only [heq, List.mem_cons] at h
    rcases h with rfl | h
    · simp [Equation.writeRows]
    · by_cases hi : eq.identity
      · simp [hi] at h
      · by_cases hp : (plan eq.lhs s.1).isSome <;> simp [hi, hp] at h
        subst h
        simp [Equation.writeRows, hi]

/-- the step for equation `j` at column `t'` does not clobber the step for equation `i` at column `t`, provided no token of
equation `i` points from `t` to a row that `j` writes at `t'`, and the two steps are not two different equations at one column
writing a common row -/
theorem noClobber_of (eqs : List (Equation β)) (plan : Plan) (i j : Nat) (t t' : Int)
    (hW : DistinctWrites eqs)
    (hC : ∀ ei ej, eqs[i]? = some ei → eqs[j]? = some ej → ∀ tok ∈ ei.depTokens, tok.1 ∈ ej.writeRows →
      t + tok.2 ≠ t')
    (hne : t = t' → i ≠ j) : NoClobber eqs plan (t, i) (t', j) := by
  intro c hc
  obtain ⟨ej, hej, hc2, hc1⟩ := stepWrites_mem eqs plan (t', j) c hc
  simp only at hej hc2
  constructor
  · intro hd
    unfold stepDeps at hd
    cases hei : eqs[i]? with
    | none => simp [hei] at hd
    | some ei =>
      simp only [hei, Equation.deps_eq_map, List.mem_map] at hd
      obtain ⟨tok, htok, rfl⟩ := hd
      exact hC ei ej hei hej tok htok hc1 hc2
  · intro hw
    obtain ⟨ei, hei, hw2, hw1⟩ := stepWrites_mem eqs plan (t, i) c hw
    simp only at hei hw2
    have hij := hne (hw2.symm.trans hc2)
    exact hW (ei, i) (List.mem_zipIdx_iff_getElem?.mpr hei) (ej, j) (List.mem_zipIdx_iff_getElem?.mpr hej) hij _ hw1 hc1

/-- the static `SelfOKText` gives `selfOK` at every column -/
theorem selfOK_of_text (eqs : List (Equation β)) (s : Int × Nat) (h : AllSelfOK eqs) : selfOK eqs s = true := by
  unfold selfOK
  cases heq : eqs[s.2]? with
  | none => rfl
  | some eq =>
    obtain ⟨h1, h2⟩ := h eq (List.mem_of_getElem? heq)
    have key : ∀ (l : List (Nat × Int)) (r : Nat), (r, s.1) ∈ l.map (fun p => (p.1, s.1 + p.2)) → (r, (0 : Int)) ∈ l := by
      intro l r hm
      obtain ⟨tok, htok, he⟩ := List.mem_map.mp hm
      have h1 : tok.1 = r := (Prod.mk.injEq _ _ _ _ ▸ he).1
      have h2 : s.1 + tok.2 = s.1 := (Prod.mk.injEq _ _ _ _ ▸ he).2
      have : tok = (r, 0) := Prod.ext h1 (by simp only; omega)
      rw [← this]; exact htok
    have hA : (eq.deps s.1).contains (eq.lhs, s.1) = false := by
      rw [Bool.eq_false_iff]
      intro hc
      exact h1 (key _ _ (by simpa [Equation.deps_eq_map] using hc))
    show (!(eq.deps s.1).contains (eq.lhs, s.1) &&
        (eq.identity || !(eq.depsNoRes s.1).contains (eq.res, s.1) && !(eq.res, s.1) == (eq.lhs, s.1))) = true
    rw [hA]
    rcases h2 with h2 | ⟨h2, h3⟩
    · simp [h2]
    · have hB : (eq.depsNoRes s.1).contains (eq.res, s.1) = false := by
        rw [Bool.eq_false_iff]
        intro hc
        exact h2 (key _ _ (by simpa [Equation.depsNoRes_eq_map] using hc))
      have hC : ((eq.res, s.1) == (eq.lhs, s.1)) = false := by
        rw [Bool.eq_false_iff]
        intro hc
        exact h3 (by simpa using hc)
      rw [hB, hC]; simp


theorem mem_datesEquations (cols : List Int) (n : Nat) (s : Int × Nat) :
    s ∈ datesEquations cols n ↔ s.1 ∈ cols ∧ s.2 < n := by
  simp only [datesEquations, List.mem_flatMap, List.mem_map, List.mem_range]
  constructor
  · rintro ⟨t, ht, i, hi, rfl⟩; exact ⟨ht, hi⟩
  · rintro ⟨ht, hi⟩; exact ⟨s.1, ht, s.2, hi, rfl⟩

theorem mem_equationsDates (cols : List Int) (n : Nat) (s : Int × Nat) :
    s ∈ equationsDates cols n ↔ s.1 ∈ cols ∧ s.2 < n := by
  simp only [equationsDates, List.mem_flatMap, List.mem_map, List.mem_range]
  constructor
  · rintro ⟨i, hi, t, ht, rfl⟩; exact ⟨ht, hi⟩
  · rintro ⟨ht, hi⟩; exact ⟨s.2, hi, s.1, ht, rfl⟩

/-- `dates_equations` runs the steps in lexicographic order of (column, equation) -/
theorem pairwise_datesEquations (R : Int × Nat → Int × Nat → Prop) (cols : List Int) (n : Nat)
    (hcols : cols.Pairwise (· < ·))
    (h : ∀ t ∈ cols, ∀ t' ∈ cols, ∀ i j, i < n → j < n → (t < t' ∨ (t = t' ∧ i < j)) → R (t, i) (t', j)) :
    (datesEquations cols n).Pairwise R := by
  unfold datesEquations
  rw [List.pairwise_flatMap]
  constructor
  · intro t ht
    rw [List.pairwise_map]
    exact List.pairwise_lt_range.imp_of_mem (fun {i j} hi hj hij =>
      h t ht t ht i j (List.mem_range.mp hi) (List.mem_range.mp hj) (Or.inr ⟨rfl, hij⟩))
  · refine hcols.imp_of_mem (fun {t t'} ht ht' htt x hx y hy => ?_)
    obtain ⟨i, hi, rfl⟩ := List.mem_map.mp hx
    obtain ⟨j, hj, rfl⟩ := List.mem_map.mp hy
    exact h t ht t' ht' i j (List.mem_range.mp hi) (List.mem_range.mp hj) (Or.inl htt)

/-- `equations_dates` runs the steps in lexicographic order of (equation, column) -/
theorem pairwise_equationsDates (R : Int × Nat → Int × Nat → Prop) (cols : List Int) (n : Nat)
    (hcols : cols.Pairwise (· < ·))
    (h : ∀ t ∈ cols, ∀ t' ∈ cols, ∀ i j, i < n → j < n → (i < j ∨ (i = j ∧ t < t')) → R (t, i) (t', j)) :
    (equationsDates cols n).Pairwise R := by
  unfold equationsDates
  rw [List.pairwise_flatMap]
  constructor
  · intro i hi
    rw [List.pairwise_map]
    exact hcols.imp_of_mem (fun {t t'} ht ht' htt =>
      h t ht t' ht' i i (List.mem_range.mp hi) (List.mem_range.mp hi) (Or.inr ⟨rfl, htt⟩))
  · refine List.pairwise_lt_range.imp_of_mem (fun {i j} hi hj hij x hx y hy => ?_)
    obtain ⟨t, ht, rfl⟩ := List.mem_map.mp hx
    obtain ⟨t', ht', rfl⟩ := List.mem_map.mp hy
    exact h t ht t' ht' i j (List.mem_range.mp hi) (List.mem_range.mp hj) (Or.inl hij)

end orders

/-! ### databox merge, extent of the data array, converses for the execution orders -/

section merge
variable {κ ν : Type} [DecidableEq κ]

theorem Dict.lookup_set1 (d : Dict κ ν) (k k' : κ) (v : ν) :
    (Dict.set1 d k v).lookup k' = if k' = k then some v else d.lookup k' := by
  induction d with
  | nil =>
    by_cases h : k' = k
    · simp [Dict.set1, List.lookup, h]
    · have : (k' == k) = false := by simpa using h
      simp [Dict.set1, List.lookup, h, this]
  | cons p rest ih =>
    obtain ⟨pk, pv⟩ := p
    simp only [Dict.set1]
    by_cases hp : pk = k
    · subst hp
      by_cases h : k' = pk
      · simp [List.lookup, h]
      · have : (k' == pk) = false := by simpa using h
        simp [List.lookup, h, this]
    · simp only [hp, if_false, List.lookup]
      by_cases h' : k' = pk
      · have hk : k' ≠ k := fun e => hp (h'.symm.trans e)
        simp [h', hk]
        subst h'; simp [hk]
      · have : (k' == pk) = false := by simpa using h'
        simp only [this, ih]

/-- the value the LAST binding of `k` in `l` gives (Python: later assignments win) -/
def Dict.last? (l : Dict κ ν) (k : κ) : Option ν :=
  match l with
  | [] => none
  | p :: rest => (Dict.last? rest k).or (if p.1 = k then some p.2 else none)

theorem Dict.lookup_update (d other : Dict κ ν) (k : κ) :
    (Dict.update d other).lookup k = (Dict.last? other k).or (d.lookup k) := by
  induction other generalizing d with
  | nil => simp [Dict.update, Dict.last?]
  | cons p rest ih =>
    have ih' := ih (Dict.set1 d p.1 p.2)
    simp only [Dict.update, List.foldl_cons] at ih' ⊢
    rw [ih', Dict.lookup_set1, Dict.last?]
    by_cases h : k = p.1
    · subst h; cases Dict.last? rest p.1 <;> simp
    · have h' : ¬ p.1 = k := fun e => h e.symm
      cases Dict.last? rest k <;> simp [h, h']

/-- with distinct keys the last binding is the only one -/
theorem Dict.last?_eq_lookup (l : Dict κ ν) (k : κ) (h : l.Pairwise (fun a b => a.1 ≠ b.1)) :
    Dict.last? l k = l.lookup k := by
  induction l with
  | nil => rfl
  | cons p rest ih =>
    obtain ⟨h1, h2⟩ := List.pairwise_cons.mp h
    rw [Dict.last?, ih h2]
    by_cases hk : p.1 = k
    · subst hk
      have : rest.lookup p.1 = none := by
        rw [List.lookup_eq_none_iff]
        intro q hq
        simpa using (h1 q hq)
      simp [this, List.lookup]
    · have : (k == p.1) = false := by simpa using fun e : k = p.1 => hk e.symm
      simp [hk, List.lookup, this]

/-- keys of `d.set1 k v`: unchanged when `k` is present, `k` appended otherwise -/
theorem Dict.keys_set1 (d : Dict κ ν) (k : κ) (v : ν) :
    (Dict.set1 d k v).map (·.1) = if k ∈ d.map (·.1) then d.map (·.1) else d.map (·.1) ++ [k] := by
  induction d with
  | nil => simp [Dict.set1]
  | cons p rest ih =>
    simp only [Dict.set1]
    by_cases hp : p.1 = k
    · simp [hp]
    · have hk : ¬ k = p.1 := fun e => hp e.symm
      simp only [hp, if_false, List.map_cons, ih, List.mem_cons, hk, false_or]
      split <;> simp

/-- key order after `update`: the keys of `d` first, in their order; then the new keys of `other` in order of first appearance -/
theorem Dict.keys_update (d other : Dict κ ν) :
    (Dict.update d other).map (·.1)
      = other.foldl (fun ks p => if p.1 ∈ ks then ks else ks ++ [p.1]) (d.map (·.1)) := by
  induction other generalizing d with
  | nil => rfl
  | cons p rest ih =>
    have ih' := ih (Dict.set1 d p.1 p.2)
    simp only [Dict.update, List.foldl_cons] at ih' ⊢
    rw [ih', Dict.keys_set1]

theorem Dict.keys_prefix_update (d other : Dict κ ν) :
    d.map (·.1) <+: (Dict.update d other).map (·.1) := by
  rw [Dict.keys_update]
  generalize d.map (·.1) = ks
  induction other generalizing ks with
  | nil => exact List.prefix_refl _
  | cons p rest ih =>
    simp only [List.foldl_cons]
    split
    · exact ih ks
    · exact (List.prefix_append ks [p.1]).trans (ih _)

end merge

section extent
variable {β : Type}

theorem foldl_min_le (l : List (Nat × Int)) (m : Int) :
    l.foldl (fun m tok => min m tok.2) m ≤ m ∧ ∀ tok ∈ l, l.foldl (fun m tok => min m tok.2) m ≤ tok.2 := by
  induction l generalizing m with
  | nil => simp
  | cons a rest ih =>
    obtain ⟨h1, h2⟩ := ih (min m a.2)
    simp only [List.foldl_cons, List.mem_cons, forall_eq_or_imp]
    refine ⟨by omega, by omega, h2⟩

theorem le_foldl_max (l : List (Nat × Int)) (m : Int) :
    m ≤ l.foldl (fun m tok => max m tok.2) m ∧ ∀ tok ∈ l, tok.2 ≤ l.foldl (fun m tok => max m tok.2) m := by
  induction l generalizing m with
  | nil => simp
  | cons a rest ih =>
    obtain ⟨h1, h2⟩ := ih (max m a.2)
    simp only [List.foldl_cons, List.mem_cons, forall_eq_or_imp]
    refine ⟨by omega, by omega, h2⟩

theorem minShift_le (eqs : List (Equation β)) (eq : Equation β) (h : eq ∈ eqs) (tok : Nat × Int)
    (ht : tok ∈ eq.depTokens) : minShift eqs ≤ tok.2 ∧ minShift eqs ≤ 0 := by
  unfold minShift
  have := foldl_min_le (eqs.flatMap Equation.depTokens) 0
  exact ⟨this.2 tok (List.mem_flatMap.mpr ⟨eq, h, ht⟩), this.1⟩

theorem le_maxShift (eqs : List (Equation β)) (eq : Equation β) (h : eq ∈ eqs) (tok : Nat × Int)
    (ht : tok ∈ eq.depTokens) : tok.2 ≤ maxShift eqs ∧ 0 ≤ maxShift eqs := by
  unfold maxShift
  have := le_foldl_max (eqs.flatMap Equation.depTokens) 0
  exact ⟨this.2 tok (List.mem_flatMap.mpr ⟨eq, h, ht⟩), this.1⟩

end extent

section converse
variable {β : Type}

/-- in a strictly increasing list, a smaller member comes before a larger one -/
theorem pairwise_of_lt {α : Type} (lt S : α → α → Prop) (hirr : ∀ a b, lt a b → lt b a → False) (l : List α)
    (h1 : l.Pairwise lt) (h2 : l.Pairwise S) : ∀ a ∈ l, ∀ b ∈ l, lt a b → S a b := by
  induction l with
  | nil => simp
  | cons x rest ih =>
    obtain ⟨hx1, hr1⟩ := List.pairwise_cons.mp h1
    obtain ⟨hx2, hr2⟩ := List.pairwise_cons.mp h2
    intro a ha b hb hab
    rcases List.mem_cons.mp ha with rfl | ha' <;> rcases List.mem_cons.mp hb with rfl | hb'
    · exact absurd hab (fun h => hirr _ _ h h)
    · exact hx2 b hb'
    · exact absurd (hx1 a ha') (fun h => hirr _ _ h hab)
    · exact ih hr1 hr2 a ha' b hb' hab

/-- converse of `pairwise_datesEquations` -/
theorem of_pairwise_datesEquations (R : Int × Nat → Int × Nat → Prop) (cols : List Int) (n : Nat)
    (hcols : cols.Pairwise (· < ·)) (h : (datesEquations cols n).Pairwise R) :
    ∀ t ∈ cols, ∀ t' ∈ cols, ∀ i j, i < n → j < n → (t < t' ∨ (t = t' ∧ i < j)) → R (t, i) (t', j) := by
  unfold datesEquations at h
  rw [List.pairwise_flatMap] at h
  obtain ⟨h1, h2⟩ := h
  intro t ht t' ht' i j hi hj hord
  rcases hord with hlt | ⟨rfl, hij⟩
  · exact pairwise_of_lt (· < ·) _ (fun a b h1 h2 => by omega) cols hcols h2 t ht t' ht' hlt (t, i)
      (List.mem_map.mpr ⟨i, List.mem_range.mpr hi, rfl⟩) (t', j) (List.mem_map.mpr ⟨j, List.mem_range.mpr hj, rfl⟩)
  · have := h1 t ht
    rw [List.pairwise_map] at this
    exact pairwise_of_lt (· < ·) _ (fun a b h1 h2 => by omega) (List.range n) List.pairwise_lt_range this
      i (List.mem_range.mpr hi) j (List.mem_range.mpr hj) hij

/-- converse of `pairwise_equationsDates` -/
theorem of_pairwise_equationsDates (R : Int × Nat → Int × Nat → Prop) (cols : List Int) (n : Nat)
    (hcols : cols.Pairwise (· < ·)) (h : (equationsDates cols n).Pairwise R) :
    ∀ t ∈ cols, ∀ t' ∈ cols, ∀ i j, i < n → j < n → (i < j ∨ (i = j ∧ t < t')) → R (t, i) (t', j) := by
  unfold equationsDates at h
  rw [List.pairwise_flatMap] at h
  obtain ⟨h1, h2⟩ := h
  intro t ht t' ht' i j hi hj hord
  rcases hord with hlt | ⟨rfl, htt⟩
  · exact pairwise_of_lt (· < ·) _ (fun a b h1 h2 => by omega) (List.range n) List.pairwise_lt_range h2
      i (List.mem_range.mpr hi) j (List.mem_range.mpr hj) hlt (t, i)
      (List.mem_map.mpr ⟨t, ht, rfl⟩) (t', j) (List.mem_map.mpr ⟨t', ht', rfl⟩)
  · have := h1 i (List.mem_range.mpr hi)
    rw [List.pairwise_map] at this
    exact pairwise_of_lt (· < ·) _ (fun a b h1 h2 => by omega) cols hcols this t ht t' ht' htt

/-- the LHS cell of a step is always among its writes -/
theorem lhs_mem_stepWrites (eqs : List (Equation β)) (plan : Plan) (s : Int × Nat) (eq : Equation β)
    (h : eqs[s.2]? = some eq) : (eq.lhs, s.1) ∈ stepWrites eqs plan s := by
  simp [stepWrites, h]

/-- a token of equation `i` that points from column `t` at the LHS row of equation `j` puts that LHS cell among the reads of
step `(t, i)`, where step `(t + shift, j)` writes it: the two steps clobber unless `(t + shift, j)` runs first -/
theorem clobber_of_token (eqs : List (Equation β)) (plan : Plan) (i j : Nat) (ei ej : Equation β) (t : Int)
    (tok : Nat × Int) (hei : eqs[i]? = some ei) (hej : eqs[j]? = some ej) (htok : tok ∈ ei.depTokens)
    (hrow : tok.1 = ej.lhs) : ¬ NoClobber eqs plan (t, i) (t + tok.2, j) := by
  intro h
  have hw := lhs_mem_stepWrites eqs plan (t + tok.2, j) ej hej
  have := (h _ hw).1
  apply this
  simp only [stepDeps, hei, Equation.deps_eq_map, List.mem_map]
  exact ⟨tok, htok, by rw [hrow]⟩

end converse

/-! ### row numbering is immaterial -/

section rename
variable {β : Type}
variable [Carrier β]

theorem Expr.eval_rename (num : Nat → Nat) (tbl tbl' : Table β) (h : Agree num tbl tbl') (e : Expr β) (t : Int) :
    (e.rename num).eval tbl' t = e.eval tbl t := by
  induction e with
  | const c => rfl
  | var r s => exact h r (t + s)
  | neg a ih => simp only [Expr.rename, Expr.eval, ih]
  | add a b iha ihb => simp only [Expr.rename, Expr.eval, iha, ihb]
  | sub a b iha ihb => simp only [Expr.rename, Expr.eval, iha, ihb]
  | mul a b iha ihb => simp only [Expr.rename, Expr.eval, iha, ihb]
  | div a b iha ihb => simp only [Expr.rename, Expr.eval, iha, ihb]
  | fn k a ih => simp only [Expr.rename, Expr.eval, ih]

theorem Equation.lagVal_rename (num : Nat → Nat) (tbl tbl' : Table β) (h : Agree num tbl tbl') (eq : Equation β) (t : Int) :
    (eq.rename num).lagVal tbl' t = eq.lagVal tbl t := by
  unfold Equation.lagVal Equation.rename
  simp only
  cases eq.tr.lagShift with
  | none => rfl
  | some s => exact h _ _

theorem Equation.rhsFull_rename (num : Nat → Nat) (tbl tbl' : Table β) (h : Agree num tbl tbl') (eq : Equation β) (t : Int) :
    (eq.rename num).rhsFull tbl' t = eq.rhsFull tbl t := by
  unfold Equation.rhsFull Equation.rename
  simp only [Expr.eval_rename num tbl tbl' h, h eq.res t]

theorem Equation.evalLevel_rename (num : Nat → Nat) (tbl tbl' : Table β) (h : Agree num tbl tbl') (eq : Equation β) (t : Int) :
    (eq.rename num).evalLevel tbl' t = eq.evalLevel tbl t := by
  unfold Equation.evalLevel
  rw [Equation.lagVal_rename num tbl tbl' h, Equation.rhsFull_rename num tbl tbl' h]
  rfl

theorem Equation.evalResidual_rename (num : Nat → Nat) (tbl tbl' : Table β) (h : Agree num tbl tbl') (eq : Equation β) (t : Int) :
    (eq.rename num).evalResidual tbl' t = eq.evalResidual tbl t := by
  unfold Equation.evalResidual Equation.lhsValue
  rw [Equation.lagVal_rename num tbl tbl' h, Equation.rhsFull_rename num tbl tbl' h]
  show IrisVerif.Gen.Explanatory.residualBody V.exp V.log (eq.tr.apply (tbl' (num eq.lhs) t) _) _ = _
  rw [h eq.lhs t]

theorem Agree.set (num : Nat → Nat) (hinj : Function.Injective num) (tbl tbl' : Table β) (h : Agree num tbl tbl')
    (r : Nat) (c : Int) (v : V β) : Agree num (tbl.set r c v) (tbl'.set (num r) c v) := by
  intro r2 c2
  simp only [Table.set]
  by_cases hr : r2 = r
  · subst hr; simp [h r2 c2]
  · have : num r2 ≠ num r := fun e => hr (hinj e)
    simp [hr, this, h r2 c2]


theorem detectExogenized_rename (num : Nat → Nat) (tbl tbl' : Table β) (h : Agree num tbl tbl') (lhsRow : Nat)
    (p : PlanPoint) (t : Int) :
    detectExogenized tbl' (num lhsRow) (p.rename num) t = detectExogenized tbl lhsRow p t := by
  unfold detectExogenized PlanPoint.rename planLagColumn
  simp only
  cases hp : p.target with
  | none => simp only [Option.map_none, h lhsRow]
  | some r => simp only [Option.map_some, h r t, h lhsRow]

theorem branchOf_rename (num : Nat → Nat) (tbl tbl' : Table β) (h : Agree num tbl tbl') (plan plan' : Plan)
    (hp : PlanAgree num plan plan') (eq : Equation β) (t : Int) :
    branchOf plan' (eq.rename num) tbl' t = branchOf plan eq tbl t := by
  unfold branchOf getTransform
  have : (eq.rename num).identity = eq.identity := rfl
  rw [this]
  by_cases hi : eq.identity
  · simp [hi]
  · simp only [hi, Bool.false_eq_true, if_false]
    show (match plan' (num eq.lhs) t with | none => _ | some p => _) = _
    rw [hp eq.lhs t]
    cases plan eq.lhs t with
    | none => rfl
    | some p => exact detectExogenized_rename num tbl tbl' h eq.lhs p t

theorem runStatement_rename (num : Nat → Nat) (hinj : Function.Injective num) (tbl tbl' : Table β)
    (h : Agree num tbl tbl') (eq : Equation β) (t : Int) (v : V β) (code : Nat) :
    RelE num (runStatement eq t v tbl code) (runStatement (eq.rename num) t v tbl' code) := by
  match code with
  | 0 => exact Agree.set num hinj tbl tbl' h eq.lhs t v
  | 1 => exact Agree.set num hinj tbl tbl' h eq.res t _
  | 2 =>
    show Agree num _ (tbl'.set (num eq.res) t ((eq.rename num).evalResidual tbl' t))
    rw [Equation.evalResidual_rename num tbl tbl' h]
    exact Agree.set num hinj tbl tbl' h eq.res t _
  | 3 =>
    show Agree num _ (tbl'.set (num eq.lhs) t ((eq.rename num).evalLevel tbl' t))
    rw [Equation.evalLevel_rename num tbl tbl' h]
    exact Agree.set num hinj tbl tbl' h eq.lhs t _
  | (n + 4) => exact rfl

theorem runSteps_rename (num : Nat → Nat) (hinj : Function.Injective num) (codes : List Nat) (tbl tbl' : Table β)
    (h : Agree num tbl tbl') (eq : Equation β) (t : Int) (v : V β) :
    RelE num (runSteps codes eq t v tbl) (runSteps codes (eq.rename num) t v tbl') := by
  induction codes generalizing tbl tbl' with
  | nil => exact h
  | cons c rest ih =>
    have h1 := runStatement_rename num hinj tbl tbl' h eq t v c
    simp only [runSteps, List.foldlM_cons, bind, Except.bind]
    cases ha : runStatement eq t v tbl c with
    | error e =>
      cases hb : runStatement (eq.rename num) t v tbl' c with
      | error e' => rw [ha, hb] at h1; exact h1
      | ok b => rw [ha, hb] at h1; exact h1.elim
    | ok a =>
      cases hb : runStatement (eq.rename num) t v tbl' c with
      | error e' => rw [ha, hb] at h1; exact h1.elim
      | ok b =>
        rw [ha, hb] at h1
        exact ih a b h1

theorem stepWith_rename (num : Nat → Nat) (hinj : Function.Injective num) (sim exo : List Nat)
    (eqs : List (Equation β)) (plan plan' : Plan) (hp : PlanAgree num plan plan') (tbl tbl' : Table β)
    (h : Agree num tbl tbl') (s : Int × Nat) :
    RelE num (stepWith sim exo eqs plan tbl s) (stepWith sim exo (eqs.map (Equation.rename num)) plan' tbl' s) := by
  unfold stepWith
  rw [List.getElem?_map]
  cases heq : eqs[s.2]? with
  | none => exact rfl
  | some eq =>
    simp only [Option.map_some, bind, Except.bind]
    rw [branchOf_rename num tbl tbl' h plan plan' hp eq s.1]
    cases branchOf plan eq tbl s.1 with
    | error e => exact rfl
    | ok o =>
      cases o with
      | none => exact runSteps_rename num hinj sim tbl tbl' h eq s.1 V.nan
      | some v => exact runSteps_rename num hinj exo tbl tbl' h eq s.1 v

/-- **Row numbering is immaterial.**  Renumbering the rows by any injective map (equations, plan and data array alike) renumbers
the result of the simulation in the same way: errors coincide, and the final data arrays agree cell by cell through the map. -/
theorem simulateWith_rename (num : Nat → Nat) (hinj : Function.Injective num) (sim exo : List Nat)
    (eqs : List (Equation β)) (plan plan' : Plan) (hp : PlanAgree num plan plan') (sched : List (Int × Nat))
    (tbl tbl' : Table β) (h : Agree num tbl tbl') :
    RelE num (simulateWith sim exo eqs plan tbl sched)
      (simulateWith sim exo (eqs.map (Equation.rename num)) plan' tbl' sched) := by
  induction sched generalizing tbl tbl' with
  | nil => exact h
  | cons s rest ih =>
    have h1 := stepWith_rename num hinj sim exo eqs plan plan' hp tbl tbl' h s
    simp only [simulateWith, List.foldlM_cons, bind, Except.bind]
    cases ha : stepWith sim exo eqs plan tbl s with
    | error e =>
      cases hb : stepWith sim exo (eqs.map (Equation.rename num)) plan' tbl' s with
      | error e' => rw [ha, hb] at h1; exact h1
      | ok b => rw [ha, hb] at h1; exact h1.elim
    | ok a =>
      cases hb : stepWith sim exo (eqs.map (Equation.rename num)) plan' tbl' s with
      | error e' => rw [ha, hb] at h1; exact h1.elim
      | ok b =>
        rw [ha, hb] at h1
        exact ih a b h1

end rename

end IrisVerif.Seq
