/-
Line-protocol driver for the Series model (property C10).

request:  `N | op | op | ...`   a pool of N empty series, then operations (see `parseOp`)
reply:    `state # state # ...`  after every op the whole pool (and what the op returned);
          an op that raises prints its error kind and ends the sequence.
-/
import IrisVerif.Model.Series
import IrisVerif.Model.SeriesHeap
import IrisVerif.Driver.Util

open IrisVerif.Dates IrisVerif.Series IrisVerif.Driver

namespace IrisVerif.Driver.C10

def showErr : Err → String
  | .mixedFreq => "err:mixed"
  | .badInput => "err:bad"
  | .noPeriod => "none"

def showRatC (q : Rat) : String := if q.den = 1 then toString q.num else toString q.num ++ "/" ++ toString q.den

def showCell : Cell → String
  | none => "nan"
  | some (.fin q) => showRatC q
  | some .pinf => "inf"
  | some .ninf => "-inf"

def showRows (rows : List Row) : String :=
  if rows.isEmpty then "-" else ":".intercalate (rows.map (fun r => ",".intercalate (r.map showCell)))

def showSeries (s : Series) : String :=
  (match s.start with | none => "none" | some st => s.freq.letter ++ toString st) ++ ";" ++
    toString s.rows.length ++ "x" ++ toString s.nv ++ ";" ++ showRows s.rows

def showOutput : Output → String
  | .none => ""
  | .data rows nc => "out=" ++ toString rows.length ++ "x" ++ toString nc ++ ";" ++ showRows rows ++ ";"
  | .series s => "out=" ++ showSeries s ++ ";"

def showPool (p : Pool) : String := " & ".intercalate (p.map showSeries)

/-! parsing -/

def cell? (s : String) : Option Cell :=
  if s = "nan" then some none
  else if s = "inf" then some (some .pinf)
  else if s = "-inf" then some (some .ninf)
  else (parseRat? s).map (fun q => some (.fin q))

def splitNE (s : String) (sep : String) : List String := if s = "" then [] else s.splitOn sep

def cells? (s : String) : Option (List Cell) := (splitNE s ",").mapM cell?

def rows? (s : String) : Option (List Row) :=
  if s = "-" then some [] else (s.splitOn ":").mapM cells?

def period? (s : String) : Option Period := do
  let f ← Freq.ofLetter? (s.take 1).toString
  let n ← (s.drop 1).toString.toInt?
  pure ⟨f, n⟩

def optPeriod? (s : String) : Option (Option Period) :=
  if s = "-" then some none else (period? s).map some

def after (s pre : String) : Option String :=
  if s.startsWith pre then some (s.drop pre.length).toString else none

def dates? (s : String) : Option DatesArg :=
  if s = "all" then some .all
  else match after s "l=" with
    | some r => (splitNE r ",").mapM period? |>.map .list
    | none => match after s "sp=" with
      | some r => (match r.splitOn "," with
        | [a, b, st] => do pure (.span (← optPeriod? a) (← optPeriod? b) (← st.toInt?))
        | _ => none)
      | none => none

def vars? (s : String) : Option VarArg :=
  if s = "all" then some .all
  else match after s "v=" with
    | some r => r.toInt?.map .one
    | none => match after s "vl=" with
      | some r => (splitNE r ",").mapM String.toInt? |>.map .list
      | none => match after s "vsl=" with
        | some r => (match r.splitOn ":" with
          | [a, b] => do
            let a' ← (if a = "" then some none else a.toInt?.map some)
            let b' ← (if b = "" then some none else b.toInt?.map some)
            pure (.slice a' b')
          | _ => none)
        | none => none

def transposeRows (rows : List Row) : List (List Cell) :=
  transpose ((rows.head?.map List.length).getD 0) rows

def col? (s : String) : Option Col :=
  match after s "c:" with
  | some r => (cells? r).map .column
  | none => (cell? s).map .scalar

def data? (s : String) : Option DataSrc :=
  if s = "none" then some (.lit .pyNone)
  else match after s "s=" with
    | some r => (cell? r).map (fun c => .lit (.scalar c))
    | none => match after s "vs=" with
      | some r => (splitNE r ";").mapM col? |>.map (fun l => .lit (.variants l))
      | none => match after s "a=" with
        | some r => (rows? r).map (fun rows => .lit (.array (transposeRows rows)))
        | none => match after s "a1=" with
          | some r => (cells? r).map (fun c => .lit (.array [c]))
          | none => match after s "ser=" with
            | some r => r.toNat?.map .series
            | none => none

def shiftBy? (s : String) : Option ShiftBy :=
  match s with
  | "yoy" => some .yoy | "soy" => some .soy | "eopy" => some .eopy | "tty" => some .tty
  | k => k.toInt?.map .by_

def binFn? : String → Option BinFn
  | "add" => some .add | "sub" => some .sub | "mul" => some .mul | _ => none

def cmpFn? : String → Option CmpFn
  | "gt" => some .gt | "lt" => some .lt | "ge" => some .ge | "le" => some .le | "eq" => some .eq | "ne" => some .ne
  | _ => none

def unFn? : String → Option UnFn
  | "neg" => some .neg | "pos" => some .pos | "abs" => some .abs | _ => none

def statFn? : String → Option StatFn
  | "sum" => some .sum | "prod" => some .prod | "mean" => some .mean | "min" => some .min | "max" => some .max
  | "nansum" => some .nansum | "nanprod" => some .nanprod | "nanmean" => some .nanmean
  | "nanmin" => some .nanmin | "nanmax" => some .nanmax | _ => none

def movFn? : String → Option MovFn
  | "sum" => some .sum | "avg" => some .avg | "prod" => some .prod | _ => none

def optInt? (s : String) : Option (Option Int) := if s = "-" then some none else s.toInt?.map some

def fillMethod? (m arg : String) : Option FillMethod :=
  match m with
  | "constant" => (cell? arg).map .constant
  | "next" => some .next | "previous" => some .previous | "nearest" => some .nearest | "linear" => some .linear
  | _ => none

def testFn? (t c : String) : Option TestFn :=
  match t with
  | "isnan" => some .isnan
  | _ => do
    let q ← parseRat? c
    match t with
    | "lt" => some (.lt q) | "le" => some (.le q) | "gt" => some (.gt q) | "ge" => some (.ge q)
    | "eq" => some (.eq q) | "ne" => some (.ne q) | _ => none

def parseOp (ws : List String) : Option Op :=
  match ws with
  | ["new", k, f, nv] => do pure (.new (← k.toNat?) (← Freq.ofLetter? f) (← nv.toNat?))
  | ["init", k, f, st, nv, rows] => do
    pure (.init (← k.toNat?) (← Freq.ofLetter? f) (← st.toInt?) (← nv.toNat?) (← rows? rows))
  | ["set", i, d, v, x] => do pure (.set (← i.toNat?) (← dates? d) (← vars? v) (← data? x))
  | ["get", i, d, v] => do pure (.get (← i.toNat?) (← dates? d) (← vars? v))
  -- other public spellings of the same write / read: `x[dates, variants] = data`, `set_data(dates=…, data=…, variants=…)`,
  -- `x[dates, variants]`, `get_data(dates=…, variants=…)`
  | ["setb", i, d, v, x] => do pure (.set (← i.toNat?) (← dates? d) (← vars? v) (← data? x))
  | ["setk", i, d, v, x] => do pure (.set (← i.toNat?) (← dates? d) (← vars? v) (← data? x))
  | ["getb", i, d, v] => do pure (.get (← i.toNat?) (← dates? d) (← vars? v))
  | ["getk", i, d, v] => do pure (.get (← i.toNat?) (← dates? d) (← vars? v))
  | ["gfu", i, a, b, v] => do pure (.gfu (← i.toNat?) (← period? a) (← period? b) (← vars? v))
  | ["call", k, i, d, v] => do pure (.call (← k.toNat?) (← i.toNat?) (← dates? d) (← vars? v))
  | ["shift", i, b] => do pure (.shift (← i.toNat?) (← shiftBy? b))
  | ["fshift", k, i, b] => do pure (.fshift (← k.toNat?) (← i.toNat?) (← shiftBy? b))
  | ["idx", k, i, b] => do pure (.fshift (← k.toNat?) (← i.toNat?) (.by_ (← b.toInt?)))
  | ["clip", i, a, b] => do pure (.clip (← i.toNat?) (← optPeriod? a) (← optPeriod? b))
  | ["overlay", i, j] => do pure (.overlay (← i.toNat?) (← j.toNat?))
  | ["underlay", i, j] => do pure (.underlay (← i.toNat?) (← j.toNat?))
  | ["foverlay", k, i, j] => do pure (.foverlay (← k.toNat?) (← i.toNat?) (← j.toNat?))
  | ["funderlay", k, i, j] => do pure (.funderlay (← k.toNat?) (← i.toNat?) (← j.toNat?))
  | "hstack" :: k :: is => do pure (.hstack (← k.toNat?) (← is.mapM String.toNat?))
  | ["bin", k, f, i, j] => do pure (.binop (← k.toNat?) (← binFn? f) (← i.toNat?) (← j.toNat?))
  | ["cmp", f, i, j] => do pure (.cmp (← cmpFn? f) (← i.toNat?) (← j.toNat?))
  | ["sc", k, f, i, c] => do pure (.scalar (← k.toNat?) (← binFn? f) (← i.toNat?) (← cell? c) false)
  | ["rsc", k, f, i, c] => do pure (.scalar (← k.toNat?) (← binFn? f) (← i.toNat?) (← cell? c) true)
  | ["un", k, g, i] => do pure (.unary (← k.toNat?) (← unFn? g) (← i.toNat?))
  | ["trim", i] => do pure (.trim (← i.toNat?))
  | ["empty", i] => do pure (.empty (← i.toNat?))
  | ["copy", k, i] => do pure (.copy (← k.toNat?) (← i.toNat?))
  | ["stat", k, f, i] => do pure (.stat (← k.toNat?) (← i.toNat?) (← statFn? f))
  | ["mstat", i, f] => do pure (.stat (← i.toNat?) (← i.toNat?) (← statFn? f))
  | ["mov", k, f, i, w] => do pure (.mov (← k.toNat?) (← i.toNat?) (← movFn? f) (← optInt? w))
  | ["mmov", i, f, w] => do pure (.mov (← i.toNat?) (← i.toNat?) (← movFn? f) (← optInt? w))
  | ["fill", k, i, m, arg, d] => do pure (.fill (← k.toNat?) (← i.toNat?) (← fillMethod? m arg) (← dates? d))
  | ["mfill", i, m, arg, d] => do pure (.fill (← i.toNat?) (← i.toNat?) (← fillMethod? m arg) (← dates? d))
  | ["extrap", k, i, cs, c, d] => do
    pure (.extrap (← k.toNat?) (← i.toNat?) (← (splitNE cs ",").mapM parseRat?) (← parseRat? c) (← dates? d))
  | ["mextrap", i, cs, c, d] => do
    pure (.extrap (← i.toNat?) (← i.toNat?) (← (splitNE cs ",").mapM parseRat?) (← parseRat? c) (← dates? d))
  | ["rw", i, t, c, new] => do pure (.replaceWhere (← i.toNat?) (← testFn? t c) (← cell? new))
  | _ => none

def showClasses (h : Heap) : String := " ~ " ++ ",".intercalate (h.classes.map toString)

/-- values and buffers side by side: the pool of series and the heap of buffer classes -/
def runOps (p : Pool) (h : Heap) : List String → List String
  | [] => []
  | o :: rest =>
    match parseOp (words o) with
    | none => ["bad-op"]
    | some op =>
      match IrisVerif.Series.step p op with
      | .error e => [showErr e]
      | .ok (p', out) =>
        let h' := h.step op
        (showOutput out ++ showPool p' ++ showClasses h') :: runOps p' h' rest

def step (line : String) : String :=
  match (line.splitOn "|").map (fun x => x.trimAscii.toString) with
  | n :: ops =>
    (match n.toNat? with
     | some n => " # ".intercalate (runOps (List.replicate n (Series.new .I 1)) (Heap.init n) (ops.filter (· ≠ "")))
     | none => "bad-op")
  | _ => "bad-op"

end IrisVerif.Driver.C10

def main : IO Unit := IrisVerif.Driver.runMain IrisVerif.Driver.C10.step
