/-
Tie T for the matrix code of property C14 (trend filters): the hand-written executable model `Model/HP.lean` EQUALS
the definitions that `tools/gens/npmat_c14.py` regenerates on every run from `/repo/src/irispie/series/_ell_one.py`
(`Generated/EllOneGen.lean`) and `/repo/src/irispie/series/_hp.py` (`Generated/HpGen.lean`), for every number of
periods (and every smoothing parameter, every list of constraint positions).
-/
import IrisVerif.Props.GenTieCore
import IrisVerif.Model.HP
import IrisVerif.Generated.EllOneGen
import IrisVerif.Generated.HpGen

namespace IrisVerif.GenTieC14

open IrisVerif IrisVerif.QMat IrisVerif.HP IrisVerif.GenTie IrisVerif.QMatNp

/-! ## `_ell_one.py`: the difference matrices of the l1 trend filter -/

theorem eye2_sub (n k : Nat) :
    eye2 ((n : Int) - (k : Int)) (n : Int) = QMat.ofFn (n - k) n (fun i j => if i = j then 1 else 0) := by
  unfold eye2
  have h1 : ((n : Int) - (k : Int)).toNat = n - k := by omega
  rw [h1, Int.toNat_natCast]

theorem sliceIdx_one (n : Nat) : sliceIdx n (1 : Int) = min 1 n := sliceIdx_natCast n 1
theorem sliceIdx_two (n : Nat) : sliceIdx n (2 : Int) = min 2 n := sliceIdx_natCast n 2
theorem sliceIdx_neg_one (n : Nat) : sliceIdx n (-(1 : Int)) = n - 1 := sliceIdx_neg n 1 (by omega)
theorem sliceIdx_neg_two (n : Nat) : sliceIdx n (-(2 : Int)) = n - 2 := sliceIdx_neg n 2 (by omega)

theorem eye2_sub_one (n : Nat) :
    eye2 ((n : Int) - 1) (n : Int) = QMat.ofFn (n - 1) n (fun i j => if i = j then 1 else 0) := eye2_sub n 1
theorem eye2_sub_two (n : Nat) :
    eye2 ((n : Int) - 2) (n : Int) = QMat.ofFn (n - 2) n (fun i j => if i = j then 1 else 0) := eye2_sub n 2

/-- **`_first_order_matrix_setup`**: the second component `D` is the model's first-difference matrix, for every number
of periods `n` (for `n = 0`, where numpy raises, both sides are the empty matrix) -/
theorem model_eq_generated_lonfD_first (n : Nat) :
    lonfD 1 n = (Gen.EllOne._first_order_matrix_setup (n : Int)).2 := by
  unfold Gen.EllOne._first_order_matrix_setup lonfD
  simp only [if_true]
  rw [eye2_sub_one]
  unfold QMatNp.setSlice
  simp only [ofFn_rows, ofFn_cols, lo, hi, sliceIdx_one]
  apply ofFn_congr
  intro i j hi' hj'
  have hn : min 1 n = 1 := by omega
  simp only [get_sub, get_slice, get_ofFn, slice_rows, slice_cols, ofFn_rows, ofFn_cols, lo, hi,
    sliceIdx_one, sliceIdx_neg_one, hn, Nat.sub_zero, Nat.zero_add]
  split_ifs <;> first | rfl | (exfalso; omega) | norm_num

/-- `D[:, k:] = E` -/
theorem get_setSlice_colsFrom (D E : QMat) (kz : Int) (k : Nat) (hk : kz = (k : Int)) (i j : Nat) (hi' : i < D.rows)
    (hj' : j < D.cols) :
    (QMatNp.setSlice D none none (some kz) none E).get i j = if k ≤ j then E.get i (j - k) else D.get i j := by
  subst hk
  rw [get_setSlice _ _ _ _ _ _ _ _ hi' hj']
  simp only [lo, hi, sliceIdx_natCast, Nat.sub_zero]
  by_cases h : k ≤ j
  · have hm : min k D.cols = k := by omega
    rw [hm, if_pos h, if_pos ⟨Nat.zero_le _, hi', h, hj'⟩]
  · rw [if_neg h, if_neg (by omega)]

/-- `D[:, k:]` -/
theorem get_slice_colsFrom (D : QMat) (kz : Int) (k : Nat) (hk : kz = (k : Int)) (i j : Nat) (hi' : i < D.rows)
    (hj' : k + j < D.cols) :
    (QMatNp.slice D none none (some kz) none).get i j = D.get i (k + j) := by
  subst hk
  rw [get_slice]
  simp only [lo, hi, sliceIdx_natCast, Nat.sub_zero, Nat.zero_add]
  have hm : min k D.cols = k := by omega
  rw [hm, if_pos ⟨hi', by omega⟩]

/-- `d[:, :-k]` -/
theorem get_slice_colsUpToNeg (d : QMat) (kz : Int) (k : Nat) (hk : kz = -(k : Int)) (hk0 : 0 < k) (i j : Nat)
    (hi' : i < d.rows) (hj' : j + k < d.cols) :
    (QMatNp.slice d none none none (some kz)).get i j = d.get i j := by
  subst hk
  rw [get_slice]
  simp only [lo, hi, sliceIdx_neg _ _ hk0, Nat.sub_zero, Nat.zero_add]
  rw [if_pos ⟨hi', by omega⟩]

/-- **`_second_order_matrix_setup`**: the second component `D` is the model's second-difference matrix
(`D[i,i] = 1, D[i,i+1] = -2, D[i,i+2] = 1`), for every number of periods -/
theorem model_eq_generated_lonfD_second (n : Nat) :
    lonfD 2 n = (Gen.EllOne._second_order_matrix_setup (n : Int)).2 := by
  unfold Gen.EllOne._second_order_matrix_setup lonfD
  simp only [show ¬ (2 = 1) by omega, if_false]
  rw [eye2_sub_two]
  generalize hd : QMat.ofFn (n - 2) n (fun i j => if i = j then (1 : Rat) else 0) = d
  have hdr : d.rows = n - 2 := by rw [← hd]; rfl
  have hdc : d.cols = n := by rw [← hd]; rfl
  have hdg : ∀ i j, i < n - 2 → j < n → d.get i j = if i = j then 1 else 0 := by
    intro i j hi' hj'; rw [← hd, get_ofFn_of_lt _ _ _ _ _ hi' hj']
  -- the first update
  generalize hD1 : QMatNp.setSlice d none none (some (1 : Int)) none
    (QMatNp.slice d none none (some (1 : Int)) none - QMat.smul 2 (QMatNp.slice d none none none (some (-(1 : Int))))) = D1
  have hD1r : D1.rows = n - 2 := by rw [← hD1]; exact hdr
  have hD1c : D1.cols = n := by rw [← hD1]; exact hdc
  have hD1g : ∀ i j, i < n - 2 → j < n → D1.get i j = if j = i then 1 else if j = i + 1 then -2 else 0 := by
    intro i j hi' hj'
    rw [← hD1, get_setSlice_colsFrom d _ (1 : Int) 1 rfl i j (by omega) (by omega)]
    by_cases h1 : 1 ≤ j
    · rw [if_pos h1, get_sub]
      simp only [slice_rows, slice_cols, lo, hi, sliceIdx_one, hdr, hdc, Nat.sub_zero]
      have hm : min 1 n = 1 := by omega
      have hc1 : (i < n - 2 ∧ j - 1 < n - 1) := ⟨hi', by omega⟩
      rw [hm, if_pos hc1, get_slice_colsFrom d 1 1 rfl i (j - 1) (by omega) (by omega), get_smul]
      simp only [slice_rows, slice_cols, lo, hi, sliceIdx_neg_one, hdr, hdc, Nat.sub_zero]
      rw [if_pos hc1, get_slice_colsUpToNeg d (-(1 : Int)) 1 rfl (by omega) i (j - 1) (by omega) (by omega),
        hdg i _ hi' (by omega), hdg i _ hi' (by omega)]
      split_ifs <;> first | rfl | (exfalso; omega) | norm_num
    · rw [if_neg h1, hdg i j hi' hj']
      split_ifs <;> first | rfl | (exfalso; omega)
  -- the second update
  unfold kEntry
  rw [← ofFn_get (QMatNp.setSlice D1 none none (some (2 : Int)) none _) (wellShaped_setSlice _ _ _ _ _ _)
    (show _ = n - 2 from hD1r) (show _ = n from hD1c)]
  apply ofFn_congr
  intro i j hi' hj'
  rw [get_setSlice_colsFrom D1 _ (2 : Int) 2 rfl i j (by omega) (by omega)]
  by_cases h2 : 2 ≤ j
  · rw [if_pos h2, get_add]
    simp only [slice_rows, slice_cols, lo, hi, sliceIdx_two, hD1r, hD1c, Nat.sub_zero]
    have hm : min 2 n = 2 := by omega
    have hc2 : (i < n - 2 ∧ j - 2 < n - 2) := ⟨hi', by omega⟩
    rw [hm, if_pos hc2, get_slice_colsFrom D1 2 2 rfl i (j - 2) (by omega) (by omega),
      get_slice_colsUpToNeg d (-(2 : Int)) 2 rfl (by omega) i (j - 2) (by omega) (by omega),
      hD1g i _ hi' (by omega), hdg i _ hi' (by omega)]
    split_ifs <;> first | rfl | (exfalso; omega) | norm_num
  · rw [if_neg h2, hD1g i j hi' hj']
    split_ifs <;> first | rfl | (exfalso; omega)

/-- the first components (`d`, the plain rectangular identity) are never used by `lonf`; for the record -/
theorem generated_d_first (n : Nat) :
    (Gen.EllOne._first_order_matrix_setup (n : Int)).1 = QMat.ofFn (n - 1) n (fun i j => if i = j then 1 else 0) := by
  unfold Gen.EllOne._first_order_matrix_setup
  exact eye2_sub_one n

/-! ## `_hp.py`: the plain filter matrix `F = λ KᵀK` -/

/-- the two loops of `_create_plain_filter_matrix` build the model's second-difference matrix `K` -/
theorem generated_K (n : Nat) :
    (List.range (n - 2)).foldl (fun (K : QMat) (i : Nat) => QMatNp.setEntry K (i : Int) ((i : Int) + 1) (-2))
      ((List.range (n - 2)).foldl (fun (K : QMat) (i : Nat) =>
          QMatNp.setEntry (QMatNp.setEntry K (i : Int) (i : Int) 1) (i : Int) ((i : Int) + 2) 1) (QMat.zero (n - 2) n))
      = hpK n := by
  have l1 := Is.foldl_rows (R := n - 2) (C := n)
    (fun (K : QMat) (i : Nat) => QMatNp.setEntry (QMatNp.setEntry K (i : Int) (i : Int) 1) (i : Int) ((i : Int) + 2) 1)
    (fun i c old => if c = i + 2 then 1 else if c = i then 1 else old)
    (by
      intro K f i hi' hK
      have e : ((i : Int) + 2) = ((i + 2 : Nat) : Int) := by omega
      rw [e]
      refine ((hK.setEntry i i 1 hi' (by omega)).setEntry i (i + 2) 1 hi' (by omega)).congr (fun r c _ _ => ?_)
      by_cases hr : r = i <;> simp [hr])
    (QMat.zero (n - 2) n) _ (Is.zero _ _) (n - 2) (Nat.le_refl _)
  have l2 := Is.foldl_rows (R := n - 2) (C := n)
    (fun (K : QMat) (i : Nat) => QMatNp.setEntry K (i : Int) ((i : Int) + 1) (-2))
    (fun i c old => if c = i + 1 then -2 else old)
    (by
      intro K f i hi' hK
      have e : ((i : Int) + 1) = ((i + 1 : Nat) : Int) := by omega
      rw [e]
      refine (hK.setEntry i (i + 1) (-2) hi' (by omega)).congr (fun r c _ _ => ?_)
      by_cases hr : r = i <;> simp [hr])
    _ _ l1 (n - 2) (Nat.le_refl _)
  rw [l2.eq_ofFn]
  unfold hpK kEntry
  apply ofFn_congr
  intro i j hi' hj'
  simp only [hi', if_true]
  split_ifs <;> first | rfl | (exfalso; omega)

/-- **`_create_plain_filter_matrix`**: the method stores the model's `plainF n λ` in `self._F` and changes nothing else,
for every number of periods and every smoothing parameter -/
theorem model_eq_generated_plainF (n : Nat) (self : Gen.Hp.HPFilter) (hn : self._num_periods = (n : Int)) :
    Gen.Hp.HPFilter._create_plain_filter_matrix self = { self with _F := plainF n self._smooth } := by
  unfold Gen.Hp.HPFilter._create_plain_filter_matrix
  simp only []
  rw [hn]
  have h2 : ((n : Int) - 2) = ((n : Int) - ((2 : Nat) : Int)) := rfl
  rw [h2, foldl_range_sub, foldl_range_sub, zeros_sub_left, generated_K]
  rfl

/-! ## `_hp.py`: level and change constraints -/

/-- the loop of `_add_level_constraints`: `extra_rows[i, j] = 1; extra_variants[j, i] = 1` for `i, j in enumerate(lw)` -/
theorem generated_level_loop (n : Nat) (lw : List Nat) (hlw : ∀ i, i < lw.length → lw.getD i 0 < n) :
    (QMatNp.enumerate (lw.map Int.ofNat)).foldl (fun (st : QMat × QMat) (p : Int × Int) =>
        (QMatNp.setEntry st.1 p.1 p.2 1, QMatNp.setEntry st.2 p.2 p.1 1))
      (QMat.zero lw.length n, QMat.zero (n + lw.length) lw.length)
    = (QMat.ofFn lw.length n (fun i j => levelPat (lw.getD i 0) j),
       QMat.ofFn (n + lw.length) lw.length (fun r i => levelPat (lw.getD i 0) r)) := by
  rw [foldl_enumerate _ 0, List.length_map]
  simp only [getD_map_ofNat]
  rw [foldl_pair (List.range lw.length)
    (fun (K : QMat) (i : Nat) => QMatNp.setEntry K (i : Int) ((lw.getD i 0 : Nat) : Int) 1)
    (fun (K : QMat) (i : Nat) => QMatNp.setEntry K ((lw.getD i 0 : Nat) : Int) (i : Int) 1)]
  have l1 := Is.foldl_rows (R := lw.length) (C := n)
    (fun (K : QMat) (i : Nat) => QMatNp.setEntry K (i : Int) ((lw.getD i 0 : Nat) : Int) 1)
    (fun i c old => if c = lw.getD i 0 then 1 else old)
    (by
      intro K f i hi' hK
      refine (hK.setEntry i (lw.getD i 0) 1 hi' (hlw i hi')).congr (fun r c _ _ => ?_)
      by_cases hr : r = i <;> simp [hr])
    _ _ (Is.zero _ _) lw.length (Nat.le_refl _)
  have l2 := Is.foldl_cols (R := n + lw.length) (C := lw.length)
    (fun (K : QMat) (i : Nat) => QMatNp.setEntry K ((lw.getD i 0 : Nat) : Int) (i : Int) 1)
    (fun i r old => if r = lw.getD i 0 then 1 else old)
    (by
      intro K f i hi' hK
      refine (hK.setEntry (lw.getD i 0) i 1 (by have := hlw i hi'; omega) hi').congr (fun r c _ _ => ?_)
      by_cases hc : c = i <;> simp [hc])
    _ _ (Is.zero _ _) lw.length (Nat.le_refl _)
  rw [l1.eq_ofFn, l2.eq_ofFn]
  congr 1
  · apply ofFn_congr
    intro i j hi' _
    simp only [hi', if_true, levelPat]
  · apply ofFn_congr
    intro r i _ hi'
    simp only [hi', if_true, levelPat]

/-- **`_add_level_constraints`**: the method borders `self._F` exactly as the model's `addLevel` does and adds the number
of constraints to `_num_extra_rows`, for every list of in-range positions -/
theorem model_eq_generated_addLevel (n : Nat) (self : Gen.Hp.HPFilter) (hn : self._num_periods = (n : Int))
    (lw : List Nat) (hlw : ∀ i, i < lw.length → lw.getD i 0 < n) :
    Gen.Hp.HPFilter._add_level_constraints self (lw.map Int.ofNat)
      = { self with _F := addLevel n self._F lw, _num_extra_rows := self._num_extra_rows + (lw.length : Int) } := by
  unfold Gen.Hp.HPFilter._add_level_constraints addLevel
  by_cases he : lw.isEmpty = true
  · have : lw = [] := List.isEmpty_iff.1 he
    subst this
    simp
  · have he' : ¬ ((lw.map Int.ofNat).isEmpty = true) := by simpa using he
    simp only [he, he', if_false, Bool.false_eq_true]
    simp only [hn, List.length_map, zeros_natCast]
    have e : ((n : Int) + (lw.length : Int)) = ((n + lw.length : Nat) : Int) := by omega
    rw [e, zeros_natCast, generated_level_loop n lw hlw]

/-- the loop of `_add_change_constraints` -/
theorem generated_change_loop (R C : Nat) (cw : List Nat)
    (hcw : ∀ i, i < cw.length → 1 ≤ cw.getD i 0 ∧ cw.getD i 0 < C ∧ cw.getD i 0 < R + cw.length) :
    (QMatNp.enumerate (cw.map Int.ofNat)).foldl (fun (st : QMat × QMat) (p : Int × Int) =>
        (QMatNp.setEntry (QMatNp.setEntry st.1 p.1 (p.2 - 1) (-1)) p.1 p.2 1,
         QMatNp.setEntry (QMatNp.setEntry st.2 (p.2 - 1) p.1 (-1)) p.2 p.1 1))
      (QMat.zero cw.length C, QMat.zero (R + cw.length) cw.length)
    = (QMat.ofFn cw.length C (fun i c => changePat (cw.getD i 0) c),
       QMat.ofFn (R + cw.length) cw.length (fun r i => changePat (cw.getD i 0) r)) := by
  rw [foldl_enumerate _ 0, List.length_map]
  simp only [getD_map_ofNat]
  rw [foldl_pair (List.range cw.length)
    (fun (K : QMat) (i : Nat) => QMatNp.setEntry (QMatNp.setEntry K (i : Int) (((cw.getD i 0 : Nat) : Int) - 1) (-1))
      (i : Int) ((cw.getD i 0 : Nat) : Int) 1)
    (fun (K : QMat) (i : Nat) => QMatNp.setEntry (QMatNp.setEntry K (((cw.getD i 0 : Nat) : Int) - 1) (i : Int) (-1))
      ((cw.getD i 0 : Nat) : Int) (i : Int) 1)]
  have l1 := Is.foldl_rows (R := cw.length) (C := C)
    (fun (K : QMat) (i : Nat) => QMatNp.setEntry (QMatNp.setEntry K (i : Int) (((cw.getD i 0 : Nat) : Int) - 1) (-1))
      (i : Int) ((cw.getD i 0 : Nat) : Int) 1)
    (fun i c old => if c = cw.getD i 0 then 1 else if c = cw.getD i 0 - 1 then -1 else old)
    (by
      intro K f i hi' hK
      obtain ⟨h1, h2, _⟩ := hcw i hi'
      have e : (((cw.getD i 0 : Nat) : Int) - 1) = ((cw.getD i 0 - 1 : Nat) : Int) := by omega
      rw [e]
      refine ((hK.setEntry i (cw.getD i 0 - 1) (-1) hi' (by omega)).setEntry i (cw.getD i 0) 1 hi' h2).congr
        (fun r c _ _ => ?_)
      by_cases hr : r = i <;> simp [hr])
    _ _ (Is.zero _ _) cw.length (Nat.le_refl _)
  have l2 := Is.foldl_cols (R := R + cw.length) (C := cw.length)
    (fun (K : QMat) (i : Nat) => QMatNp.setEntry (QMatNp.setEntry K (((cw.getD i 0 : Nat) : Int) - 1) (i : Int) (-1))
      ((cw.getD i 0 : Nat) : Int) (i : Int) 1)
    (fun i r old => if r = cw.getD i 0 then 1 else if r = cw.getD i 0 - 1 then -1 else old)
    (by
      intro K f i hi' hK
      obtain ⟨h1, _, h3⟩ := hcw i hi'
      have e : (((cw.getD i 0 : Nat) : Int) - 1) = ((cw.getD i 0 - 1 : Nat) : Int) := by omega
      rw [e]
      refine ((hK.setEntry (cw.getD i 0 - 1) i (-1) (by omega) hi').setEntry (cw.getD i 0) i 1 h3 hi').congr
        (fun r c _ _ => ?_)
      by_cases hc : c = i <;> simp [hc])
    _ _ (Is.zero _ _) cw.length (Nat.le_refl _)
  rw [l1.eq_ofFn, l2.eq_ofFn]
  congr 1
  · apply ofFn_congr
    intro i j hi' _
    obtain ⟨h1, _, _⟩ := hcw i hi'
    simp only [hi', if_true, changePat]
    split_ifs <;> first | rfl | (exfalso; omega)
  · apply ofFn_congr
    intro r i _ hi'
    obtain ⟨h1, _, _⟩ := hcw i hi'
    simp only [hi', if_true, changePat]
    split_ifs <;> first | rfl | (exfalso; omega)

/-- **`_add_change_constraints`**: the method borders `self._F` exactly as the model's `addChange` does and adds the
number of constraints to `_num_extra_rows`, for every list of positions `1 ≤ j` inside the current matrix (position 0
is removed beforehand by `_remove_first_date_change`; with `j = 0` numpy's index `-1` would wrap around) -/
theorem model_eq_generated_addChange (self : Gen.Hp.HPFilter) (cw : List Nat)
    (hcw : ∀ i, i < cw.length → 1 ≤ cw.getD i 0 ∧ cw.getD i 0 < self._F.cols ∧ cw.getD i 0 < self._F.rows + cw.length) :
    Gen.Hp.HPFilter._add_change_constraints self (cw.map Int.ofNat)
      = { self with _F := addChange self._F cw, _num_extra_rows := self._num_extra_rows + (cw.length : Int) } := by
  unfold Gen.Hp.HPFilter._add_change_constraints addChange
  by_cases he : cw.isEmpty = true
  · have : cw = [] := List.isEmpty_iff.1 he
    subst this
    simp
  · have he' : ¬ ((cw.map Int.ofNat).isEmpty = true) := by simpa using he
    simp only [he, he', if_false, Bool.false_eq_true]
    simp only [List.length_map, shape_fst, shape_snd, zeros_natCast]
    have e : ((self._F.rows : Int) + (cw.length : Int)) = ((self._F.rows + cw.length : Nat) : Int) := by omega
    rw [e, zeros_natCast, generated_change_loop self._F.rows self._F.cols cw hcw]


/-- **the sequence of `__init__`** (`_create_plain_filter_matrix`, `_add_level_constraints`, `_add_change_constraints`;
`__init__` itself, which only stores its arguments and calls the three methods, is not regenerated): the matrix left in
`self._F` is the model's `initF` -/
theorem model_eq_generated_initF (n : Nat) (self : Gen.Hp.HPFilter) (hn : self._num_periods = (n : Int))
    (lw cw : List Nat) (hlw : ∀ i, i < lw.length → lw.getD i 0 < n)
    (hcw : ∀ i, i < cw.length → 1 ≤ cw.getD i 0 ∧ cw.getD i 0 < (addLevel n (plainF n self._smooth) lw).cols ∧
      cw.getD i 0 < (addLevel n (plainF n self._smooth) lw).rows + cw.length) :
    (Gen.Hp.HPFilter._add_change_constraints
      (Gen.Hp.HPFilter._add_level_constraints (Gen.Hp.HPFilter._create_plain_filter_matrix self) (lw.map Int.ofNat))
      (cw.map Int.ofNat))._F = initF n self._smooth lw cw := by
  rw [model_eq_generated_plainF n self hn,
    model_eq_generated_addLevel n { self with _F := plainF n self._smooth } hn lw hlw,
    model_eq_generated_addChange _ cw hcw]
  rfl

/-! ## non-vacuity (kernel evaluation): a filter over 5 periods with a level constraint at 1 and a change constraint at 3 -/

example : (∀ i, i < [1].length → [1].getD i 0 < 5) ∧
    (∀ i, i < [3].length → 1 ≤ [3].getD i 0 ∧ [3].getD i 0 < (addLevel 5 (plainF 5 1600) [1]).cols ∧
      [3].getD i 0 < (addLevel 5 (plainF 5 1600) [1]).rows + [3].length) := by
  constructor
  · intro i hi'; have : i = 0 := by simpa using hi'
    subst this; decide
  · intro i hi'; have : i = 0 := by simpa using hi'
    subst this; decide +kernel

theorem ex_initF_agrees :
    ((Gen.Hp.HPFilter._add_change_constraints (Gen.Hp.HPFilter._add_level_constraints
        (Gen.Hp.HPFilter._create_plain_filter_matrix ⟨5, 1600, false, 0, QMat.zero 0 0⟩) [1]) [3])._F
      == initF 5 1600 [1] [3]) = true := by
  decide +kernel

theorem ex_lonfD_agrees :
    ((Gen.EllOne._second_order_matrix_setup 6).2 == lonfD 2 6 && (Gen.EllOne._first_order_matrix_setup 6).2 == lonfD 1 6)
      = true := by
  decide +kernel

end IrisVerif.GenTieC14
