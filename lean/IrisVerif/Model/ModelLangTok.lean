/-
Token-level front end of the model-language model (property C04, deepening round 4):

* `Tok`, `printFull : Expr → List Tok` (the fully parenthesised spelling of a tree: one of the renderings of the
  harness' printer) and `parseTok` (recursive descent over that token language), `printEqn / parseEqn`;
* `normaliseWord / normaliseKeywords` -- `_expand_shortcut_keywords` and `_replace_underscores_by_hyphens` of
  `parsers/models.py` on source words (lists of characters): `!transition_variables` -> `!transition-variables`,
  `!variables` -> `!transition-variables`; a word that does not start with `!`, and the `!!` separator with whatever
  is glued to it (`!!k_ss`), are left alone;
* `resolveSubstitutions` -- `parsers/_substitutions.py`: `$name$` is replaced by the body of THIS source's definition
  (the last one when a name is defined twice: `dict(...)`), a pure function of its two arguments.
No Mathlib import.
-/
import IrisVerif.Model.ModelLang

namespace IrisVerif.ModelLang

/-! ## Tokens, printer, parser -/

inductive Tok
  | num (q : Rat)
  | name (n : String) (k : Int)        -- a name with its time shift (`x`, `x[-1]`)
  | fn (f : String)                    -- a function name (followed by `(`)
  | op (o : BinOp)                     -- `+ - * / ^`; `-` is also the unary minus
  | lp | rp | comma
  | eq                                 -- `=` / `:=`
  deriving DecidableEq, Repr, Inhabited

/-- the fully parenthesised spelling: every unary minus and every binary operation carries its own parentheses -/
def printFull : Expr → List Tok
  | .num q => [.num q]
  | .name n k => [.name n k]
  | .neg e => .lp :: .op .sub :: (printFull e ++ [.rp])
  | .bin o a b => .lp :: (printFull a ++ .op o :: (printFull b ++ [.rp]))
  | .call1 f a => .fn f :: .lp :: (printFull a ++ [.rp])
  | .call2 f a b => .fn f :: .lp :: (printFull a ++ .comma :: (printFull b ++ [.rp]))

def Expr.height : Expr → Nat
  | .num _ => 1
  | .name _ _ => 1
  | .neg e => e.height + 1
  | .bin _ a b => max a.height b.height + 1
  | .call1 _ a => a.height + 1
  | .call2 _ a b => max a.height b.height + 1

/-- after `(`: the rest of a parenthesised binary operation, given the parser for operands -/
def parseBinRest (p : List Tok → Option (Expr × List Tok)) (r : List Tok) : Option (Expr × List Tok) :=
  match p r with
  | some (a, .op o :: r2) =>
    match p r2 with
    | some (b, .rp :: r4) => some (.bin o a b, r4)
    | _ => none
  | _ => none

/-- recursive descent; the first argument bounds the nesting depth (any bound >= the height of the tree suffices) -/
def parseTok : Nat → List Tok → Option (Expr × List Tok)
  | 0, _ => none
  | _ + 1, .num q :: r => some (.num q, r)
  | _ + 1, .name x k :: r => some (.name x k, r)
  | n + 1, .fn f :: .lp :: r =>
    match parseTok n r with
    | some (a, .rp :: r2) => some (.call1 f a, r2)
    | some (a, .comma :: r2) =>
      match parseTok n r2 with
      | some (b, .rp :: r4) => some (.call2 f a b, r4)
      | _ => none
    | _ => none
  | n + 1, .lp :: .op .sub :: r =>
    match parseTok n r with
    | some (e, .rp :: r2) => some (.neg e, r2)
    | _ => none
  | n + 1, .lp :: r => parseBinRest (parseTok n) r
  | _, _ => none

/-- a whole expression: nothing may be left over -/
def parseExprTok (ts : List Tok) : Option Expr :=
  match parseTok ts.length ts with
  | some (e, []) => some e
  | _ => none

def printEqn : Eqn Expr → List Tok
  | .eq l r => printFull l ++ .eq :: printFull r
  | .bare e => printFull e

def parseEqn (ts : List Tok) : Option (Eqn Expr) :=
  match parseTok ts.length ts with
  | some (l, []) => some (.bare l)
  | some (l, .eq :: r) =>
    match parseTok ts.length r with
    | some (rhs, []) => some (.eq l rhs)
    | _ => none
  | _ => none

/-! ## Operator precedence (minimally parenthesised text)

The grammar of the expression language after `^` -> `**` (it is Python's):
  expr   := term (("+" | "-") term)*            left-associative
  term   := factor (("*" | "/") factor)*        left-associative
  factor := "-" factor | power                  unary minus binds tighter than `* /`, looser than `^` on its left
  power  := primary ("^" factor)?               right-associative; the exponent may carry a unary minus
  primary:= number | name | f "(" expr ("," expr)? ")" | "(" expr ")"
-/

inductive PMode
  | expr | term | factor | power | primary
  | addRest (acc : Expr) | mulRest (acc : Expr)

/-- precedence parser; the first argument is a step budget (`8 * length + 8` is always enough) -/
def pp : Nat → PMode → List Tok → Option (Expr × List Tok)
  | 0, _, _ => none
  | n + 1, .expr, ts =>
    match pp n .term ts with
    | some (a, r) => pp n (.addRest a) r
    | none => none
  | n + 1, .addRest acc, .op .add :: r =>
    match pp n .term r with
    | some (b, r2) => pp n (.addRest (.bin .add acc b)) r2
    | none => none
  | n + 1, .addRest acc, .op .sub :: r =>
    match pp n .term r with
    | some (b, r2) => pp n (.addRest (.bin .sub acc b)) r2
    | none => none
  | _ + 1, .addRest acc, ts => some (acc, ts)
  | n + 1, .term, ts =>
    match pp n .factor ts with
    | some (a, r) => pp n (.mulRest a) r
    | none => none
  | n + 1, .mulRest acc, .op .mul :: r =>
    match pp n .factor r with
    | some (b, r2) => pp n (.mulRest (.bin .mul acc b)) r2
    | none => none
  | n + 1, .mulRest acc, .op .div :: r =>
    match pp n .factor r with
    | some (b, r2) => pp n (.mulRest (.bin .div acc b)) r2
    | none => none
  | _ + 1, .mulRest acc, ts => some (acc, ts)
  | n + 1, .factor, .op .sub :: r =>
    match pp n .factor r with
    | some (e, r2) => some (.neg e, r2)
    | none => none
  | n + 1, .factor, ts => pp n .power ts
  | n + 1, .power, ts =>
    match pp n .primary ts with
    | some (b, .op .pow :: r2) =>
      match pp n .factor r2 with
      | some (e, r3) => some (.bin .pow b e, r3)
      | none => none
    | other => other
  | _ + 1, .primary, .num q :: r => some (.num q, r)
  | _ + 1, .primary, .name x k :: r => some (.name x k, r)
  | n + 1, .primary, .fn f :: .lp :: r =>
    match pp n .expr r with
    | some (a, .rp :: r2) => some (.call1 f a, r2)
    | some (a, .comma :: r2) =>
      match pp n .expr r2 with
      | some (b, .rp :: r4) => some (.call2 f a b, r4)
      | _ => none
    | _ => none
  | n + 1, .primary, .lp :: r =>
    match pp n .expr r with
    | some (e, .rp :: r2) => some (e, r2)
    | _ => none
  | _ + 1, .primary, _ => none

def parsePrec (ts : List Tok) : Option Expr :=
  match pp (8 * ts.length + 8) .expr ts with
  | some (e, []) => some e
  | _ => none

def parsePrecEqn (ts : List Tok) : Option (Eqn Expr) :=
  match pp (8 * ts.length + 8) .expr ts with
  | some (l, []) => some (.bare l)
  | some (l, .eq :: r) =>
    match pp (8 * ts.length + 8) .expr r with
    | some (rhs, []) => some (.eq l rhs)
    | _ => none
  | _ => none

/-- the text of `_postprocess_xtring`: `-(lhs)+rhs` with the right-hand side NOT parenthesised -/
def translateTokens (lhs rhs : List Tok) : List Tok := .op .sub :: .lp :: (lhs ++ .rp :: .op .add :: rhs)

/-! ## Keyword aliases -/

def isLowerAscii (c : Char) : Bool := 'a' ≤ c && c ≤ 'z'

/-- `_replace_underscores_by_hyphens` (`(?<!!)(![a-z]+)_([a-z]+)`) on one source word -/
def hyphenate : List Char → List Char
  | '!' :: '!' :: r => '!' :: '!' :: r
  | '!' :: r =>
    match r.span isLowerAscii with
    | (a, '_' :: c :: r2) => if !a.isEmpty && isLowerAscii c then '!' :: (a ++ '-' :: c :: r2) else '!' :: r
    | _ => '!' :: r
  | w => w

-- keyword spellings as explicit character lists (string literals do not reduce well in proofs)
def kwVariables : List Char := ['!', 'v', 'a', 'r', 'i', 'a', 'b', 'l', 'e', 's']
def kwShocks : List Char := ['!', 's', 'h', 'o', 'c', 'k', 's']
def kwEquations : List Char := ['!', 'e', 'q', 'u', 'a', 't', 'i', 'o', 'n', 's']
def kwTransitionVariables : List Char := ['!', 't', 'r', 'a', 'n', 's', 'i', 't', 'i', 'o', 'n', '-', 'v', 'a', 'r', 'i', 'a', 'b', 'l', 'e', 's']
def kwTransitionShocks : List Char := ['!', 't', 'r', 'a', 'n', 's', 'i', 't', 'i', 'o', 'n', '-', 's', 'h', 'o', 'c', 'k', 's']
def kwTransitionEquations : List Char := ['!', 't', 'r', 'a', 'n', 's', 'i', 't', 'i', 'o', 'n', '-', 'e', 'q', 'u', 'a', 't', 'i', 'o', 'n', 's']

/-- `_expand_shortcut_keywords` on one source word -/
def expandShortcut (w : List Char) : List Char :=
  if w = kwVariables then kwTransitionVariables
  else if w = kwShocks then kwTransitionShocks
  else if w = kwEquations then kwTransitionEquations
  else w

def normaliseWord (w : List Char) : List Char := hyphenate (expandShortcut w)

def normaliseKeywords (ws : List (List Char)) : List (List Char) := ws.map normaliseWord

/-- the documented spellings of every block keyword with the canonical keyword they stand for
(`"!transition_variables" ↦ "!transition-variables"`, `"!variables" ↦ "!transition-variables"`, ...) -/
def keywordAliases : List (List Char × List Char) := [
  (['!', 't', 'r', 'a', 'n', 's', 'i', 't', 'i', 'o', 'n', '-', 'v', 'a', 'r', 'i', 'a', 'b', 'l', 'e', 's'],
   ['!', 't', 'r', 'a', 'n', 's', 'i', 't', 'i', 'o', 'n', '-', 'v', 'a', 'r', 'i', 'a', 'b', 'l', 'e', 's']),
  (['!', 't', 'r', 'a', 'n', 's', 'i', 't', 'i', 'o', 'n', '_', 'v', 'a', 'r', 'i', 'a', 'b', 'l', 'e', 's'],
   ['!', 't', 'r', 'a', 'n', 's', 'i', 't', 'i', 'o', 'n', '-', 'v', 'a', 'r', 'i', 'a', 'b', 'l', 'e', 's']),
  (['!', 'v', 'a', 'r', 'i', 'a', 'b', 'l', 'e', 's'],
   ['!', 't', 'r', 'a', 'n', 's', 'i', 't', 'i', 'o', 'n', '-', 'v', 'a', 'r', 'i', 'a', 'b', 'l', 'e', 's']),
  (['!', 't', 'r', 'a', 'n', 's', 'i', 't', 'i', 'o', 'n', '-', 's', 'h', 'o', 'c', 'k', 's'],
   ['!', 't', 'r', 'a', 'n', 's', 'i', 't', 'i', 'o', 'n', '-', 's', 'h', 'o', 'c', 'k', 's']),
  (['!', 't', 'r', 'a', 'n', 's', 'i', 't', 'i', 'o', 'n', '_', 's', 'h', 'o', 'c', 'k', 's'],
   ['!', 't', 'r', 'a', 'n', 's', 'i', 't', 'i', 'o', 'n', '-', 's', 'h', 'o', 'c', 'k', 's']),
  (['!', 's', 'h', 'o', 'c', 'k', 's'],
   ['!', 't', 'r', 'a', 'n', 's', 'i', 't', 'i', 'o', 'n', '-', 's', 'h', 'o', 'c', 'k', 's']),
  (['!', 't', 'r', 'a', 'n', 's', 'i', 't', 'i', 'o', 'n', '-', 'e', 'q', 'u', 'a', 't', 'i', 'o', 'n', 's'],
   ['!', 't', 'r', 'a', 'n', 's', 'i', 't', 'i', 'o', 'n', '-', 'e', 'q', 'u', 'a', 't', 'i', 'o', 'n', 's']),
  (['!', 't', 'r', 'a', 'n', 's', 'i', 't', 'i', 'o', 'n', '_', 'e', 'q', 'u', 'a', 't', 'i', 'o', 'n', 's'],
   ['!', 't', 'r', 'a', 'n', 's', 'i', 't', 'i', 'o', 'n', '-', 'e', 'q', 'u', 'a', 't', 'i', 'o', 'n', 's']),
  (['!', 'e', 'q', 'u', 'a', 't', 'i', 'o', 'n', 's'],
   ['!', 't', 'r', 'a', 'n', 's', 'i', 't', 'i', 'o', 'n', '-', 'e', 'q', 'u', 'a', 't', 'i', 'o', 'n', 's']),
  (['!', 'm', 'e', 'a', 's', 'u', 'r', 'e', 'm', 'e', 'n', 't', '-', 'v', 'a', 'r', 'i', 'a', 'b', 'l', 'e', 's'],
   ['!', 'm', 'e', 'a', 's', 'u', 'r', 'e', 'm', 'e', 'n', 't', '-', 'v', 'a', 'r', 'i', 'a', 'b', 'l', 'e', 's']),
  (['!', 'm', 'e', 'a', 's', 'u', 'r', 'e', 'm', 'e', 'n', 't', '_', 'v', 'a', 'r', 'i', 'a', 'b', 'l', 'e', 's'],
   ['!', 'm', 'e', 'a', 's', 'u', 'r', 'e', 'm', 'e', 'n', 't', '-', 'v', 'a', 'r', 'i', 'a', 'b', 'l', 'e', 's']),
  (['!', 'm', 'e', 'a', 's', 'u', 'r', 'e', 'm', 'e', 'n', 't', '-', 's', 'h', 'o', 'c', 'k', 's'],
   ['!', 'm', 'e', 'a', 's', 'u', 'r', 'e', 'm', 'e', 'n', 't', '-', 's', 'h', 'o', 'c', 'k', 's']),
  (['!', 'm', 'e', 'a', 's', 'u', 'r', 'e', 'm', 'e', 'n', 't', '_', 's', 'h', 'o', 'c', 'k', 's'],
   ['!', 'm', 'e', 'a', 's', 'u', 'r', 'e', 'm', 'e', 'n', 't', '-', 's', 'h', 'o', 'c', 'k', 's']),
  (['!', 'm', 'e', 'a', 's', 'u', 'r', 'e', 'm', 'e', 'n', 't', '-', 'e', 'q', 'u', 'a', 't', 'i', 'o', 'n', 's'],
   ['!', 'm', 'e', 'a', 's', 'u', 'r', 'e', 'm', 'e', 'n', 't', '-', 'e', 'q', 'u', 'a', 't', 'i', 'o', 'n', 's']),
  (['!', 'm', 'e', 'a', 's', 'u', 'r', 'e', 'm', 'e', 'n', 't', '_', 'e', 'q', 'u', 'a', 't', 'i', 'o', 'n', 's'],
   ['!', 'm', 'e', 'a', 's', 'u', 'r', 'e', 'm', 'e', 'n', 't', '-', 'e', 'q', 'u', 'a', 't', 'i', 'o', 'n', 's']),
  (['!', 'e', 'x', 'o', 'g', 'e', 'n', 'o', 'u', 's', '-', 'v', 'a', 'r', 'i', 'a', 'b', 'l', 'e', 's'],
   ['!', 'e', 'x', 'o', 'g', 'e', 'n', 'o', 'u', 's', '-', 'v', 'a', 'r', 'i', 'a', 'b', 'l', 'e', 's']),
  (['!', 'e', 'x', 'o', 'g', 'e', 'n', 'o', 'u', 's', '_', 'v', 'a', 'r', 'i', 'a', 'b', 'l', 'e', 's'],
   ['!', 'e', 'x', 'o', 'g', 'e', 'n', 'o', 'u', 's', '-', 'v', 'a', 'r', 'i', 'a', 'b', 'l', 'e', 's']),
  (['!', 'l', 'o', 'g', '-', 'v', 'a', 'r', 'i', 'a', 'b', 'l', 'e', 's'],
   ['!', 'l', 'o', 'g', '-', 'v', 'a', 'r', 'i', 'a', 'b', 'l', 'e', 's']),
  (['!', 'l', 'o', 'g', '_', 'v', 'a', 'r', 'i', 'a', 'b', 'l', 'e', 's'],
   ['!', 'l', 'o', 'g', '-', 'v', 'a', 'r', 'i', 'a', 'b', 'l', 'e', 's']),
  (['!', 'a', 'l', 'l', '-', 'b', 'u', 't'],
   ['!', 'a', 'l', 'l', '-', 'b', 'u', 't']),
  (['!', 'a', 'l', 'l', '_', 'b', 'u', 't'],
   ['!', 'a', 'l', 'l', '-', 'b', 'u', 't']),
  (['!', 's', 't', 'e', 'a', 'd', 'y', '-', 'a', 'u', 't', 'o', 'v', 'a', 'l', 'u', 'e', 's'],
   ['!', 's', 't', 'e', 'a', 'd', 'y', '-', 'a', 'u', 't', 'o', 'v', 'a', 'l', 'u', 'e', 's']),
  (['!', 's', 't', 'e', 'a', 'd', 'y', '_', 'a', 'u', 't', 'o', 'v', 'a', 'l', 'u', 'e', 's'],
   ['!', 's', 't', 'e', 'a', 'd', 'y', '-', 'a', 'u', 't', 'o', 'v', 'a', 'l', 'u', 'e', 's']),
  (['!', 'a', 'u', 't', 'o', 's', 'w', 'a', 'p', 's', '-', 's', 'i', 'm', 'u', 'l', 'a', 't', 'e'],
   ['!', 'a', 'u', 't', 'o', 's', 'w', 'a', 'p', 's', '-', 's', 'i', 'm', 'u', 'l', 'a', 't', 'e']),
  (['!', 'a', 'u', 't', 'o', 's', 'w', 'a', 'p', 's', '_', 's', 'i', 'm', 'u', 'l', 'a', 't', 'e'],
   ['!', 'a', 'u', 't', 'o', 's', 'w', 'a', 'p', 's', '-', 's', 'i', 'm', 'u', 'l', 'a', 't', 'e']),
  (['!', 'a', 'u', 't', 'o', 's', 'w', 'a', 'p', 's', '-', 's', 't', 'e', 'a', 'd', 'y'],
   ['!', 'a', 'u', 't', 'o', 's', 'w', 'a', 'p', 's', '-', 's', 't', 'e', 'a', 'd', 'y']),
  (['!', 'a', 'u', 't', 'o', 's', 'w', 'a', 'p', 's', '_', 's', 't', 'e', 'a', 'd', 'y'],
   ['!', 'a', 'u', 't', 'o', 's', 'w', 'a', 'p', 's', '-', 's', 't', 'e', 'a', 'd', 'y']),
  (['!', 'p', 'a', 'r', 'a', 'm', 'e', 't', 'e', 'r', 's'],
   ['!', 'p', 'a', 'r', 'a', 'm', 'e', 't', 'e', 'r', 's']),
  (['!', 's', 'u', 'b', 's', 't', 'i', 't', 'u', 't', 'i', 'o', 'n', 's'],
   ['!', 's', 'u', 'b', 's', 't', 'i', 't', 'u', 't', 'i', 'o', 'n', 's']),
  (['!', 'p', 'r', 'e', 'p', 'r', 'o', 'c', 'e', 's', 's', 'o', 'r'],
   ['!', 'p', 'r', 'e', 'p', 'r', 'o', 'c', 'e', 's', 's', 'o', 'r']),
  (['!', 'p', 'o', 's', 't', 'p', 'r', 'o', 'c', 'e', 's', 's', 'o', 'r'],
   ['!', 'p', 'o', 's', 't', 'p', 'r', 'o', 'c', 'e', 's', 's', 'o', 'r'])]

/-! ## Substitutions -/

inductive STok
  | word (w : String)
  | ref (s : String)              -- `$s$`
  deriving DecidableEq, Repr, Inhabited

/-- `dict(pairs)[s]`: the last definition of a name wins -/
def lookupLast (defs : List (String × List STok)) (s : String) : Option (List STok) :=
  (defs.reverse.find? (fun d => d.1 = s)).map (·.2)

/-- `make_substitutions`: one pass; a reference to an undefined name is not touched (the pattern is built from the
defined names); bodies are inserted as they are (references inside bodies are not resolved) -/
def resolveSubstitutions (defs : List (String × List STok)) (eq : List STok) : List STok :=
  eq.flatMap (fun t => match t with
    | .ref s => (lookupLast defs s).getD [t]
    | .word _ => [t])

/-! ## `<...>` stringification of numbers (`_stringify`: `str(value)`, iterables joined by `,`)

A decimal text is modelled by its sign, its digits (least significant first) and the number of digits after the point;
`stringifyDec q k` is the text of a value `q` that has `k` decimals (what `str` prints for integers and for floats given by at
most 15 significant decimal digits: every digit, no rounding), `rereadDec` is the value the equation compiler reads back. -/

structure DecText where
  neg : Bool
  digits : List Nat
  scale : Nat
  deriving DecidableEq, Repr, Inhabited

def digits10 (n : Nat) : List Nat :=
  if h : n < 10 then [n] else (n % 10) :: digits10 (n / 10)
termination_by n
decreasing_by omega

def ofDigits10 : List Nat → Nat
  | [] => 0
  | d :: r => d + 10 * ofDigits10 r

def stringifyDec (q : Rat) (k : Nat) : DecText :=
  ⟨decide (q < 0), digits10 (q * (10 : Rat) ^ k).num.natAbs, k⟩

def rereadDec (t : DecText) : Rat :=
  (if t.neg then -1 else 1) * (ofDigits10 t.digits : Rat) / (10 : Rat) ^ t.scale

/-- the characters: digits most significant first, a point before the last `scale` digits (padded with zeros) -/
def DecText.render (t : DecText) : String :=
  let ds := t.digits ++ List.replicate (t.scale + 1 - t.digits.length) 0
  let cs := ds.reverse.map (fun d => Char.ofNat (48 + d))
  let ip := cs.take (cs.length - t.scale)
  let fp := cs.drop (cs.length - t.scale)
  (if t.neg then "-" else "") ++ String.ofList ip ++ (if t.scale = 0 then "" else "." ++ String.ofList fp)

/-- an iterable is the texts of its elements joined by commas -/
def stringifyList (qs : List (Rat × Nat)) : List DecText := qs.map (fun p => stringifyDec p.1 p.2)

/-! ## The templating step (`{{ name }}`, `{% if flag %} ... {% else %} ... {% endif %}`) as a function of THIS call's context

Only the part of Jinja that the generated sources use; an undefined variable prints nothing, an undefined flag is false
(Jinja's default `Undefined`). The function has no other input: what an earlier call put into its context cannot matter. -/

inductive JPiece
  | text (w : String)
  | var (name : String)
  | ite (flag : String) (negated : Bool) (thenWords elseWords : List String)
  deriving Repr, Inhabited

structure JCtx where
  vars : String → Option String
  flags : String → Option Bool

def renderJinja (c : JCtx) (ps : List JPiece) : List String :=
  ps.flatMap (fun p => match p with
    | .text w => [w]
    | .var n => match c.vars n with | some v => [v] | none => []
    | .ite f neg th el => if ((c.flags f).getD false) != neg then th else el)

/-- a process that renders a sequence of (context, template) pairs -/
def renderAllJinja (calls : List (JCtx × List JPiece)) : List (List String) :=
  calls.map (fun c => renderJinja c.1 c.2)

end IrisVerif.ModelLang
