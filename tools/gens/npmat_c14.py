"""
py2lean plugin for property C14 (trend filters), built on the numpy -> QMat engine of tools/gens/npmat.py:

* series/_ell_one.py  `_first_order_matrix_setup`, `_second_order_matrix_setup`     -> Generated/EllOneGen.lean
* series/_hp.py       `_ConstrainedHodrickPrescottFilter._create_plain_filter_matrix`,
                      `_add_level_constraints`, `_add_change_constraints`             -> Generated/HpGen.lean

The hand-written model (Model/HP.lean: `lonfD`, `hpK`, `plainF`, `addLevel`, `addChange`) is proved equal to these in
Props/GenTieC14.lean.
"""
from __future__ import annotations
import importlib.util, os, sys


def _engine():
    name = "py2lean_npmat_engine"
    if name not in sys.modules:
        spec = importlib.util.spec_from_file_location(name, os.path.join(os.path.dirname(os.path.abspath(__file__)), "npmat.py"))
        mod = importlib.util.module_from_spec(spec)
        sys.modules[name] = mod
        spec.loader.exec_module(mod)
    return sys.modules[name]


def gen_ell_one(repo: str) -> str:
    E = _engine()
    unit = E.Unit(repo, "src/irispie/series/_ell_one.py", "IrisVerif.Gen.EllOne")
    for f in ("_first_order_matrix_setup", "_second_order_matrix_setup"):
        unit.function(f)
    return unit.render("The difference-matrix setups of the l1 trend filter (series/_ell_one.py, property C14) as definitions over QMat.")


def gen_hp(repo: str) -> str:
    E = _engine()
    spec = E.ClassSpec(
        "_ConstrainedHodrickPrescottFilter", "src/irispie/series/_hp.py",
        {"_num_periods": E.INT, "_smooth": E.RAT, "_log": E.BOOL, "_num_extra_rows": E.INT, "_F": E.MAT},
        lean="HPFilter",
    )
    unit = E.Unit(repo, "src/irispie/series/_hp.py", "IrisVerif.Gen.Hp", classes={"_ConstrainedHodrickPrescottFilter": spec})
    for m in ("_create_plain_filter_matrix", "_add_level_constraints", "_add_change_constraints"):
        unit.method(spec, m)
    return unit.render("Assembly of the constrained Hodrick-Prescott system matrix (series/_hp.py, property C14) as definitions over QMat.")


GENERATORS = {
    "EllOneGen.lean": (gen_ell_one, {"C14"}),
    "HpGen.lean": (gen_hp, {"C14"}),
}
