/-
Tie T for the matrix code of property C05 (steady state of linear models): the linear algorithm of the hand-written
model `Model/Steady.lean` (namespace `Linear`) is tied to the definitions that `tools/gens/npmat_c05.py` regenerates on
every run from `/repo/src/irispie/fords/steadiers.py` (`Generated/SteadyLinearGen.lean`), where the least-squares solve
`_solutions.left_div` is an explicit parameter.

The model calls `QMat.solveChecked` (exact elimination + exact re-check) where the code calls `left_div`.  The tie is
stated with the external solver *instantiated by the model's checked solver* (`modelLeftDiv`): whenever the model's
algorithm succeeds, the generated function evaluated with that solver returns the model's answer.  The systems handed to
the solver are equal as `QMat` values (`stackedAB_eq`), under the shape conditions written out in the theorems.
-/
import IrisVerif.Props.GenTieCore
import IrisVerif.Model.Steady
import IrisVerif.Generated.SteadyLinearGen

namespace IrisVerif.GenTieC05

open IrisVerif IrisVerif.QMat IrisVerif.Steady.Linear IrisVerif.GenTie IrisVerif.QMatNp

/-- the external `left_div` instantiated by the model's checked exact solver (0 × 0 when it fails) -/
def modelLeftDiv (a b : QMat) : QMat := (QMat.solveChecked a b).getD (QMat.zero 0 0)

theorem modelLeftDiv_of_some (a b x : QMat) (h : QMat.solveChecked a b = some x) : modelLeftDiv a b = x := by
  unfold modelLeftDiv; rw [h]; rfl

/-! ## `solve_steady_linear_flat` -/

/-- **`solve_steady_linear_flat`**, for every value of the external solver: the four results are
`ξ = left_div(-(A+B), C)`, `y = left_div(-F, G ξ + H)` and zero changes -/
theorem generated_flat (ld : QMat → QMat → QMat) (sys : Gen.SteadyLinear.System) :
    Gen.SteadyLinear.solve_steady_linear_flat ld sys =
      (ld (-(sys.A + sys.B)) sys.C, ld (-sys.F) (sys.G * ld (-(sys.A + sys.B)) sys.C + sys.H),
        QMat.zero (ld (-(sys.A + sys.B)) sys.C).rows (ld (-(sys.A + sys.B)) sys.C).cols,
        QMat.zero (ld (-sys.F) (sys.G * ld (-(sys.A + sys.B)) sys.C + sys.H)).rows
          (ld (-sys.F) (sys.G * ld (-(sys.A + sys.B)) sys.C + sys.H)).cols) := by
  unfold Gen.SteadyLinear.solve_steady_linear_flat
  simp only [zeros_shape]

/-- **the model's flat algorithm is the generated function** run with the model's checked solver -/
theorem model_eq_generated_flat (A B C F G H xi y : QMat) (h1 : solveFlat A B C = some xi)
    (h2 : solveMeasurement F G H xi = some y) :
    Gen.SteadyLinear.solve_steady_linear_flat modelLeftDiv ⟨A, B, C, F, G, H⟩
      = (xi, y, QMat.zero xi.rows xi.cols, QMat.zero y.rows y.cols) := by
  rw [generated_flat]
  unfold solveFlat at h1
  unfold solveMeasurement at h2
  simp only [modelLeftDiv_of_some _ _ _ h1, modelLeftDiv_of_some _ _ _ h2]

/-! ## `solve_steady_linear_nonflat`: the stacked two-date transition system -/

/-- the stacked matrix the code assembles, `[[A+B, 0·A + (0-1)·B], [A+B, k·A + (k-1)·B]]` with `k = 1`, is the model's
`stackedAB A B 1` when `A` and `B` have the same shape -/
theorem stackedAB_eq (A B : QMat) (hr : B.rows = A.rows) (hc : B.cols = A.cols) :
    stackedAB A B 1 =
      QMat.vstack (QMat.hstack (A + B) (QMat.smul (0 : Rat) A + QMat.smul ((((0 : Int) - (1 : Int)) : Int) : Rat) B))
        (QMat.hstack (A + B) (QMat.smul (((1 : Int) : Int) : Rat) A + QMat.smul ((((1 : Int) - (1 : Int)) : Int) : Rat) B)) := by
  unfold stackedAB
  have e1 : QMat.smul (-1) B = QMat.smul (0 : Rat) A + QMat.smul ((((0 : Int) - (1 : Int)) : Int) : Rat) B := by
    show QMat.smul (-1) B = QMat.add _ _
    unfold QMat.smul QMat.add
    simp only [ofFn_rows, ofFn_cols, hr, hc]
    apply ofFn_congr
    intro i j hi' hj'
    rw [get_ofFn_of_lt _ _ _ _ _ hi' hj', get_ofFn_of_lt _ _ _ _ _ hi' hj']
    norm_num
  have e2 : ((((1 : Int) : Int) : Rat)) = 1 := by norm_num
  have e3 : (((((1 : Int) - (1 : Int)) : Int) : Rat)) = 1 - 1 := by norm_num
  rw [e1, e2, e3]

/-- **the transition block of `solve_steady_linear_nonflat`**: when the model's `solveNonflat` succeeds with `(ξ, Δξ)`,
the generated function run with the model's checked solver returns the same `ξ` (1st result) and `Δξ` (3rd result) -/
theorem model_eq_generated_nonflat_transition (A B C F G H xi dxi : QMat) (hr : B.rows = A.rows) (hc : B.cols = A.cols)
    (hC : C.cols = 1) (h : solveNonflat A B C = some (xi, dxi)) :
    (Gen.SteadyLinear.solve_steady_linear_nonflat modelLeftDiv ⟨A, B, C, F, G, H⟩).1 = xi ∧
    (Gen.SteadyLinear.solve_steady_linear_nonflat modelLeftDiv ⟨A, B, C, F, G, H⟩).2.2.1 = dxi := by
  unfold solveNonflat at h
  split at h
  · rename_i x hx
    injection h with h
    obtain ⟨hxi, hdxi⟩ := Prod.mk.inj h
    obtain ⟨hsq, _, hxr, hxc, _, _⟩ := solveChecked_sound _ _ x hx
    have hcols : (-(stackedAB A B 1)).cols = A.cols + A.cols := by
      show (A + B).cols + (QMat.smul (-1) B).cols = _
      rw [add_cols, smul_cols, hc]
    have hxr' : x.rows = A.cols + A.cols := by rw [hxr, ← hsq, hcols]
    have hxc' : x.cols = 1 := by rw [hxc]; exact hC
    have hmin : min A.cols (A.cols + A.cols) = A.cols := Nat.min_eq_left (Nat.le_add_right _ _)
    unfold Gen.SteadyLinear.solve_steady_linear_nonflat
    simp only []
    rw [← stackedAB_eq A B hr hc, modelLeftDiv_of_some _ _ _ hx]
    have h0 : ((0 : Int)) = ((0 : Nat) : Int) := rfl
    constructor
    · rw [← hxi]
      unfold QMatNp.slice
      simp only [shape_snd, h0, lo_some_nat, hi_some_nat, lo_none, hi_none, hxr', hxc', hmin, Nat.zero_min]
    · rw [← hdxi]
      unfold QMatNp.slice
      simp only [shape_snd, lo_some_nat, lo_none, hi_none, hxr', hxc', hmin, Nat.two_mul]
  · cases h

end IrisVerif.GenTieC05
