/-
Property-level consequences of the correctness of the executable solver (`Lemmas/QMatSolve.lean`:
`QMat.solve_sound`, `QMat.solve_complete`, `QMat.solve_isSome_iff`, `QMat.solveChecked_eq_solve`).

Until now the models' `err:singular` / `none` branch was excluded "only modulo the completeness of Gauss-Jordan", and
several bridged theorems carried a non-singularity hypothesis `hdet` that could not be derived from the model
returning an answer.  Both caveats go: a model answers **iff** its system matrix is non-singular.

* general: `solveChecked_some_iff_det` (the form the models use);
* C18: `estimate_isUnit_det` (a successful estimate certifies `det (X Xᵀ) ≠ 0`), hence `estimate_closed_form` and
  `estimate_noise_free'` without `hdet`; `ols_isSome_iff`;
* C07: `stackedSolve_isUnit_det`, `stackedSolve_roundtrip'` (no `hdet`), `stackedSolve_complete` (square non-singular
  impact matrix ⇒ `stackedSolve` answers);
* C14: `filterData_isSome_iff` (the filter answers iff the bordered system matrix is non-singular);
* C15: `lyapunov_isUnit_det` (an answer certifies `det (I − T⊗T) ≠ 0`), `rescale_solution'` (scaling law, no `hdet`).
-/
import IrisVerif.Lemmas.QMatSolve
import IrisVerif.Props.QMatBridge
import IrisVerif.Props.BridgeC07
import IrisVerif.Props.BridgeC15
import IrisVerif.Props.C14

open Matrix

namespace IrisVerif.QMatSolveBridge

open IrisVerif IrisVerif.QMat

/-! ## general -/

/-- the checked solve answers exactly on well-posed non-singular systems (dimensions named by the caller) -/
theorem solveChecked_some_iff_det (a b : QMat) (n : Nat) (hr : a.rows = n) (hc : a.cols = n) (hb : b.rows = n) :
    (∃ x, solveChecked a b = some x) ↔ (a.toMat n n).det ≠ 0 := by
  subst hr
  rw [← Option.isSome_iff_exists, solveChecked_isSome_iff, ← isUnit_iff_ne_zero]
  exact ⟨fun h => h.2.2, fun h => ⟨hc, hb, h⟩⟩

/-! ## C18 -/

section C18
open IrisVerif.RedVar IrisVerif.QMatBridge IrisVerif.LeastSquares

/-- **a successful estimate certifies that the moment matrix `X Xᵀ` of the regressors is non-singular** -/
theorem estimate_isUnit_det (s : Spec) (dof : Bool) (Y X : OMat) (pr : Option (List Prior)) (e : Estimate)
    (h : estimate s dof Y X pr = .ok e) :
    IsUnit ((e.rhsEst.toMat s.numRhs e.lhsEst.cols) * (e.rhsEst.toMat s.numRhs e.lhsEst.cols)ᵀ).det := by
  obtain ⟨_, hrr, hc, _, _, _⟩ := estimate_dims s dof Y X pr e h
  obtain ⟨_, _, _, _, x, hx, _⟩ := estimate_ok s dof Y X pr e h
  have := ((solveChecked_isSome_iff _ _).1 (by rw [hx]; rfl)).2.2
  have ha : (normalMx e.rhsEst).rows = s.numRhs := hrr
  rw [ha] at this
  have hMx : (normalMx e.rhsEst).toMat s.numRhs s.numRhs
      = e.rhsEst.toMat s.numRhs e.lhsEst.cols * (e.rhsEst.toMat s.numRhs e.lhsEst.cols)ᵀ := by
    unfold normalMx
    rw [toMat_mul _ _ s.numRhs e.lhsEst.cols s.numRhs hrr hc hrr, toMat_transpose _ _ _ hrr hc]
  rw [hMx] at this
  exact this

/-- the estimate is the closed form `((X Xᵀ)⁻¹ X Yᵀ)ᵀ` -- no non-singularity hypothesis -/
theorem estimate_closed_form (s : Spec) (dof : Bool) (Y X : OMat) (pr : Option (List Prior)) (e : Estimate)
    (h : estimate s dof Y X pr = .ok e) :
    let L := e.lhsEst.toMat s.n e.lhsEst.cols
    let R := e.rhsEst.toMat s.numRhs e.lhsEst.cols
    e.beta.toMat s.n s.numRhs = ((R * Rᵀ)⁻¹ * (R * Lᵀ))ᵀ :=
  estimate_eq_closed_form s dof Y X pr e h (estimate_isUnit_det s dof Y X pr e h)

/-- **noise-free data return the generating coefficients** -- no non-singularity hypothesis -/
theorem estimate_noise_free' (s : Spec) (dof : Bool) (Y X : OMat) (pr : Option (List Prior)) (e : Estimate)
    (h : estimate s dof Y X pr = .ok e) (β₀ : Matrix (Fin s.n) (Fin s.numRhs) ℚ)
    (hgen : e.lhsEst.toMat s.n e.lhsEst.cols = β₀ * e.rhsEst.toMat s.numRhs e.lhsEst.cols) :
    e.beta.toMat s.n s.numRhs = β₀ :=
  estimate_noise_free s dof Y X pr e h β₀ (estimate_isUnit_det s dof Y X pr e h) hgen

/-- `ordinary_least_squares` fails (the model's `singular`) exactly when `X Xᵀ` is singular -/
theorem ols_isSome_iff (lhs rhs : QMat) (k T : Nat) (hr : rhs.rows = k) (hc : rhs.cols = T) :
    (ols lhs rhs).isSome = true ↔ IsUnit (rhs.toMat k T * (rhs.toMat k T)ᵀ).det := by
  unfold ols
  rw [Option.isSome_map, solveChecked_isSome_iff]
  have ha : (normalMx rhs).rows = k := hr
  have hMx : (normalMx rhs).toMat k k = rhs.toMat k T * (rhs.toMat k T)ᵀ := by
    unfold normalMx
    rw [toMat_mul _ _ k T k hr hc hr, toMat_transpose _ _ _ hr hc]
  rw [ha, hMx]
  exact ⟨fun h => h.2.2, fun h => ⟨hr, hr, h⟩⟩

end C18

/-! ## C07 -/

section C07
open IrisVerif.Plans IrisVerif.BridgeC07

theorem stackedSolve_isUnit_det (c : CondInput) (o : CondOutput) (M : QMat) (h : stackedSolve c = .ok (o, M)) :
    IsUnit (impactM c).det := by
  obtain ⟨hM, _, e, he, _⟩ := stackedSolve_ok c o M h
  rw [hM] at he
  have := ((solveChecked_isSome_iff _ _).1 (by rw [he]; rfl)).2.2
  rw [impact_rows] at this
  exact this

/-- **`roundtrip_recovers` on the model without any non-singularity hypothesis**: `stackedSolve` answering is itself
the certificate -/
theorem stackedSolve_roundtrip' (c : CondInput) (hu : c.u0.wellShaped = true) (hv : c.v0.wellShaped = true)
    (eTrue : QVec)
    (htar : ∀ r, r < (exoSpots c).length → (targetVec c).getD r 0 =
      (selectExo c (simulate c.sol c.init (applyInstruments c eTrue).1 (applyInstruments c eTrue).2 c.N)).getD r 0)
    (o : CondOutput) (M : QMat) (h : stackedSolve c = .ok (o, M)) :
    o.u = (applyInstruments c eTrue).1 ∧ o.v = (applyInstruments c eTrue).2 ∧
      o.xi = simulate c.sol c.init (applyInstruments c eTrue).1 (applyInstruments c eTrue).2 c.N :=
  stackedSolve_roundtrip c hu hv eTrue htar (stackedSolve_isUnit_det c o M h) o M h

/-- **completeness**: as many instruments as exogenized cells and a non-singular impact matrix ⇒ `stackedSolve`
answers (neither `notSquare` nor `singular`) -/
theorem stackedSolve_complete (c : CondInput) (hsq : numInstruments c = (exoSpots c).length)
    (htv : (targetVec c).size = (exoSpots c).length) (hdet : IsUnit (impactM c).det) :
    ∃ o, stackedSolve c = .ok (o, (impact c).2) := by
  have hrows := impact_rows c
  have hcols : (impact c).2.cols = (impact c).2.rows := by rw [impact_cols, hrows, hsq]
  have hb : (QMat.col (vsub (targetVec c) (impact c).1)).rows = (impact c).2.rows := by
    rw [col_rows, vsub_size, htv, hrows]
  have hdet' : IsUnit ((impact c).2.toMat (impact c).2.rows (impact c).2.rows).det := by
    rw [hrows]; exact hdet
  obtain ⟨e, he⟩ := Option.isSome_iff_exists.1 ((solveChecked_isSome_iff _ _).2 ⟨hcols, hb, hdet'⟩)
  unfold stackedSolve
  simp only
  rw [if_neg (by simp [hcols]), he]
  exact ⟨_, rfl⟩

end C07

/-! ## C14 -/

section C14
open IrisVerif.HP IrisVerif.HPModel

/-- **the constrained Hodrick-Prescott filter answers iff its bordered system matrix is non-singular** -/
theorem filterData_isSome_iff (lg ex : Rat → Rat) (n : Nat) (lam : Rat) (lw cw : List Nat) (ld cd : List Rat)
    (y : Array (Option Rat)) (hy : y.size = n) (hld : ld.length = lw.length) (hcd : cd.length = cw.length) :
    (filterData lg ex n lam lw cw ld cd y).isSome = true ↔
      IsUnit ((sysMatrix n lam lw cw y).toMat (n + lw.length + cw.length) (n + lw.length + cw.length)).det := by
  have hr := sysMatrix_rows n lam lw cw y
  have hc := sysMatrix_cols n lam lw cw y
  have hb : (QMat.col (rhs lg y ld cd)).rows = (sysMatrix n lam lw cw y).rows := by
    rw [QMat.col_rows, rhs_size, hr, hy, hld, hcd]
  have key := solveChecked_isSome_iff (sysMatrix n lam lw cw y) (QMat.col (rhs lg y ld cd))
  rw [hr] at key
  have : (filterData lg ex n lam lw cw ld cd y).isSome
      = (QMat.solveChecked (sysMatrix n lam lw cw y) (QMat.col (rhs lg y ld cd))).isSome := by
    unfold filterData
    simp only
    cases QMat.solveChecked (sysMatrix n lam lw cw y) (QMat.col (rhs lg y ld cd)) <;> rfl
  rw [this, key]
  exact ⟨fun h => h.2.2, fun h => ⟨hc, hb.trans hr, h⟩⟩

end C14

/-! ## C15 -/

section C15
open IrisVerif.Acov IrisVerif.BridgeC15
open Kronecker

/-- **an answer of the model's Lyapunov solver certifies `det (I − T⊗T) ≠ 0`** (uniqueness of the stationary
covariance, `C15.lyapunov_unique_kron`, then needs no hypothesis) -/
theorem lyapunov_isUnit_det (T Sig Om : QMat) (n : Nat) (hr : T.rows = n) (hc : T.cols = n)
    (h : lyapunov T Sig = some Om) : IsUnit (1 - T.toMat n n ⊗ₖ T.toMat n n).det := by
  subst hr
  unfold lyapunov at h
  simp only at h
  cases hs : QMat.solveChecked (QMat.identity (T.rows * T.rows) - QMat.kron T T) (QMat.col (QMat.vec Sig)) with
  | none => rw [hs] at h; cases h
  | some x =>
    have hu := ((solveChecked_isSome_iff _ _).1 (by rw [hs]; rfl)).2.2
    have hrows : (QMat.identity (T.rows * T.rows) - QMat.kron T T).rows = T.rows * T.rows := rfl
    rw [hrows, toMat_sub (QMat.identity (T.rows * T.rows)) (QMat.kron T T) (T.rows * T.rows) (T.rows * T.rows) rfl rfl,
      toMat_identity, toMat_kron T T T.rows T.rows T.rows T.rows rfl hc rfl hc] at hu
    have e1 : (1 : Matrix (Fin (T.rows * T.rows)) (Fin (T.rows * T.rows)) ℚ)
        = (1 : Matrix (Fin T.rows × Fin T.rows) (Fin T.rows × Fin T.rows) ℚ).submatrix
            finProdFinEquiv.symm finProdFinEquiv.symm := (Matrix.submatrix_one_equiv _).symm
    have e2 : ∀ (A B : Matrix (Fin T.rows × Fin T.rows) (Fin T.rows × Fin T.rows) ℚ),
        A.submatrix finProdFinEquiv.symm finProdFinEquiv.symm - B.submatrix finProdFinEquiv.symm finProdFinEquiv.symm
          = (A - B).submatrix (finProdFinEquiv (m := T.rows) (n := T.rows)).symm finProdFinEquiv.symm := by
      intro A B; ext i j; rfl
    rw [e1, e2, Matrix.det_submatrix_equiv_self] at hu
    exact hu

/-- **the scaling law on the model's solver output, no non-singularity hypothesis** -/
theorem rescale_solution' (s : Sol) (hd : Dims s) (OmS OmS' : QMat) (f : Rat)
    (h : lyapunov (TaStable s) (sigmaU s) = some OmS)
    (h' : lyapunov (TaStable (rescale s f)) (sigmaU (rescale s f)) = some OmS') :
    OmS' = QMat.smul (f * f) OmS :=
  rescale_solution s hd OmS OmS' f (lyapunov_isUnit_det _ _ _ _ rfl rfl h) h h'

/-- … and for every autocovariance matrix the model reports -/
theorem acov_rescale' (s : Sol) (hd : Dims s) (OmS OmS' : QMat) (f : Rat)
    (h : lyapunov (TaStable s) (sigmaU s) = some OmS)
    (h' : lyapunov (TaStable (rescale s f)) (sigmaU (rescale s f)) = some OmS') (j : Nat) :
    Scaled (f * f) (toSquare s (autocovTriangular s OmS j))
      (toSquare (rescale s f) (autocovTriangular (rescale s f) OmS' j)) :=
  acov_rescale s hd OmS OmS' f (lyapunov_isUnit_det _ _ _ _ rfl rfl h) h h' j

end C15

end IrisVerif.QMatSolveBridge
