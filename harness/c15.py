"""
C15 -- Model-implied autocovariances solve the solved model's Lyapunov equation.

Correspondence: the Lean model (IrisVerif/Model/Acov.lean, driver C15) takes the implementation's own
triangular solution (Ta, Pa, Za, Ua, H, number of unit roots; floats converted exactly to rationals), solves
the Lyapunov equation of the stable block exactly (Kronecker vectorisation + exact re-check of the matrix
equation), assembles, propagates, maps and masks as fords/covariances.py does, and is compared with
Simultaneous.get_acov / get_acorr / rescale_stds: NaN pattern exactly (class E), numbers within a tolerance on
generator-controlled stable instances (class T).  Certificate validation (V): the exact residual of the
second-moment fixed-point equation on the implementation's own cov_triangular_00.
Oracle (independent of the model): the Lyapunov / propagation equations in *square* form on the implementation's
T, P, Z, H, an independent numpy Kronecker solve, the s^2 law, acorr = acov / sqrt(d_i d_j) with the zero-variance
guard, and the NaN pattern against the set of non-stationary variables known from how the generator built the model.
Sample moments are never used.
"""
from __future__ import annotations
import json, os, glob, warnings

for _v in ("OMP_NUM_THREADS", "OPENBLAS_NUM_THREADS", "MKL_NUM_THREADS"):
    os.environ.setdefault(_v, "1")
from fractions import Fraction as Fr

import numpy as np
import irispie as ir
from irispie.fords import covariances as COV

from .common import Ctx, rat_of_float, VERIF

DRIVERS = ["C15"]
EXTRA_PROPS = ['BridgeC15', 'QMatSolveBridge', 'GenTieCore', 'GenTieC15', 'C15Compose']   # refinement bridge from the executable QMat model to the matrix-level theorems (audited with this check)
LEVEL = "proof"
MANIFEST = {
    "category": "proof",
    "text": ("Lean 4 theorems (Mathlib matrices, all sizes, all lags by induction): if Omega = T Omega T^T + P Sigma_u P^T then the assembled "
             "Gamma_0 = [[Omega, Omega Z^T], [Z Omega, Z Omega Z^T + H Sigma_w H^T]] is a fixed point of the second-moment propagation of the joint "
             "(alpha, y) system; zero-padding the stable-block solution solves the equation of the system with the unit-root rows and columns removed; "
             "Gamma_j = A^j Gamma_0 is the lag-j cross moment of every stationary second-moment process of that system; the triangular->square map is a "
             "similarity that preserves all of this; the Lyapunov equation is the Kronecker system (I - T(x)T) vec Omega = vec Sigma the model solves, its "
             "solution is unique when that matrix is non-singular and, for real matrices, under a contraction hypothesis (some power of T has operator "
             "norm product < 1); scaling every std by s scales every Gamma_j by s^2; the autocorrelation has unit diagonal, squares to "
             "gamma^2/(d_i d_j) and is 0 under the zero-variance guard; in the executable model a cell is NaN exactly when its row or its column variable "
             "loads on a unit-root column; the rows reported are exactly the zero-shift tokens of the joint vector in vector order; a solved variant is a state machine under rescale_stds(f, kind) call histories (kinds with an empty selection included): the solution matrices are never touched and every std^2 in force is the original times the squared cumulative factor of its own kind, so get_acov is a function of (solution, stds in force) only; the mask of a measurement variable depends on Za[:, :nu] and the tolerance only; the model refuses (none) exactly when its checked Lyapunov solve does. Props/C15Compose.lean composes the stages: an answer of the model on the zero-shift selection is the certified, unique (det(I - T(x)T) != 0) stationary covariance of the stable block, propagated as A^j Gamma_0, reported on exactly the zero-shift rows with NaN exactly on rows/columns loading on unit-root states. The executable model is tied to irispie on every run: exact NaN-pattern comparison and tolerance comparison "
             "of get_acov/get_acorr/rescale_stds against the exact rational Lyapunov solution computed from the implementation's own solution matrices, "
             "plus the exact fixed-point residual of the implementation's cov_triangular_00 (certificate validation per generated model)."),
    "design": "7/C15",
    "note": ("Schematic theorems + translation validation: QZ/Schur and solve_discrete_lyapunov are not modelled; the triangular solution is an input "
             "whose defining equations are validated per generated model (C01's concern); probability is not formalised - covariances are the "
             "second-moment recursion of the linear system; the contraction hypothesis of the uniqueness theorem is checked numerically per model."),
    "technique": "Lean 4 proof over Mathlib matrices + executable rational model + differential correspondence (exact NaN pattern / tolerance) + exact certificate residual",
}
ASSUMPTIONS = [
    "the triangular solution (Ta, Pa, Za, Ua, H, num_unit_roots) is taken from the implementation (QZ/Schur are not modelled)",
    "covariances are understood as the stationary solution of the second-moment recursion of the linear system (probability theory is not formalised)",
    "tolerance comparisons only on generated models whose stable roots are <= 0.9 in modulus",
]

TOL = 1e-7


# ---------------------------------------------------------------------------------------
# model generator: small linear models with known stationarity structure
# ---------------------------------------------------------------------------------------

def fmt(x):
    return repr(float(x))


def gen_case(rng):
    ns = rng.weighted([(1, 2), (2, 4), (3, 2)])          # stationary core variables
    names = [f"x{i}" for i in range(ns)]
    shocks = [f"e{i}" for i in range(ns)]
    eqs, nonstat = [], set()
    forward = rng.chance(0.2)
    # sum of |coefficients| (lead included) of every core equation < 1: no root on the unit circle
    budget = 0.7 if forward else 0.85
    for i, nm in enumerate(names):
        terms = []
        k = rng.randint(1, 3)
        weights = [rng.randint(1, 4) for _ in range(k)]
        tot = sum(weights)
        for w in weights:
            coef = (budget * w / tot) * rng.choice([1, 1, -1])
            coef = round(coef * 16) / 16.0
            if coef == 0:
                continue
            other = rng.choice(names)
            lag = rng.weighted([(1, 5), (2, 2)])
            terms.append(f"{fmt(coef)}*{other}{{-{lag}}}")
        if forward and i == 0:
            terms.append(f"0.125*{nm}{{+1}}")
        rhs = " + ".join(terms) if terms else "0"
        eqs.append(f"{nm} = {rhs} + {shocks[i]};")
    # unit-root block
    nur = rng.weighted([(0, 4), (1, 3), (2, 3), (3, 1)])
    ur_names = []
    for j in range(nur):
        nm = f"z{j}"
        ur_names.append(nm)
        kind = rng.choice(["rw", "cum", "rwshock"])
        if kind == "cum":
            eqs.append(f"{nm} = {nm}{{-1}} + {rng.choice(names)};")
        else:
            shocks.append(f"ez{j}")
            eqs.append(f"{nm} = {nm}{{-1}} + {shocks[-1]}" + (f" + 0.5*{rng.choice(names)}" if kind == "rw" else "") + ";")
        nonstat.add(nm)
    all_names = names + ur_names
    # a root NEAR the stability boundary (1 - 1e-5 ... 1 - 1e-3): stationary, far inside the default eigenvalue tolerance 1e-12
    # (only in models without unit roots: next to exact unit roots the Schur vectors of a root this close to 1 are ill conditioned
    #  and the implementation's 1e-12 loading test becomes a matter of round-off -- floating point, not demanded)
    if not ur_names and rng.chance(0.35):
        delta = rng.choice([1e-5, 5e-5, 2e-4, 1e-3])
        shocks.append("enb")
        eqs.append(f"nb = {fmt(1 - delta)}*nb{{-1}} + enb;")
        all_names.append("nb")
    # a variable with a TINY loading on a unit-root variable: non-stationary all the same
    if ur_names and rng.chance(0.15):
        eqs.append(f"tl = 0.5*tl{{-1}} + {fmt(rng.choice([1e-6, 1e-5]))}*{rng.choice(ur_names)} + {rng.choice(names)};")
        all_names.append("tl"); nonstat.add("tl")
    primary = list(ur_names)       # the unit-root variables themselves: one unit root each, so that NO non-zero linear
                                   # combination of them is stationary (they cannot cointegrate among themselves)

    mirror = []

    def combination(k):
        """a non-zero combination of k >= 2 primary unit-root variables, mostly with offsetting / equal weights (spread, sum);
        the same combination with the sign of its last weight flipped is remembered in `mirror` (which of the two has loadings
        that offset each other depends on the sign normalisation of the Schur vectors)"""
        zs = rng.sample(primary, k)
        ws = [rng.choice([1, -1]) for _ in zs] if rng.chance(0.7) else [rng.choice([1, -1, 2, -2, 0.5, -0.5]) for _ in zs]
        mirror.append(" + ".join(f"{fmt(w)}*{z}" for w, z in zip(ws[:-1] + [-ws[-1]], zs)))
        return " + ".join(f"{fmt(w)}*{z}" for w, z in zip(ws, zs))

    # a transition variable that is a static combination of several unit-root variables (e.g. the spread z1 - z0)
    if len(primary) >= 2 and rng.chance(0.5):
        nm = "s0"
        eqs.append(f"{nm} = {combination(rng.randint(2, len(primary)))}" + (f" + {rng.choice(names)}" if rng.chance(0.5) else "") + ";")
        all_names.append(nm); nonstat.add(nm)
    # a stationary variable depending on a unit-root one becomes non-stationary itself
    v0_root = None
    unknown = set()        # names whose stationarity is not known by construction (judged by the independent criterion only)
    if ur_names and rng.chance(0.4):
        nm = "v0"
        v0_root = rng.choice(ur_names)
        eqs.append(f"{nm} = 0.5*{nm}{{-1}} + 0.25*{v0_root} + {rng.choice(names)};")
        all_names.append(nm); nonstat.add(nm)
        # v0 and its unit-root variable are cointegrated: v0 - 0.5*z is stationary (w = 0.5 w{-1} - 0.25 (z - z{-1}) + x)
        if rng.chance(0.5):
            eqs.append(f"q0 = v0 - 0.5*{v0_root}" + (f" + {rng.choice(names)}" if rng.chance(0.5) else "") + ";")
            all_names.append("q0")
    # a stationary spread of a unit-root variable's difference
    if ur_names and rng.chance(0.4):
        nm = "d0"
        u = rng.choice(ur_names)
        eqs.append(f"{nm} = {u} - {u}{{-1}};")
        all_names.append(nm)
    # measurement block
    nm_ = rng.weighted([(0, 3), (1, 4), (2, 2)])
    if len(primary) >= 2:
        nm_ = max(nm_, rng.weighted([(0, 1), (2, 3)]))
    mnames, mshocks, meqs = [], [], []
    for j in range(nm_):
        nm = f"obs{j}"
        mnames.append(nm)
        terms = []
        has_ns = False
        if len(primary) >= 2 and (mirror and j == nm_ - 1 or rng.chance(0.5)):
            # several unit-root variables with offsetting or equal weights: loads on every one of their unit roots;
            # the last observable mirrors an earlier combination (sum <-> spread)
            terms.append(mirror[-1] if (mirror and j == nm_ - 1) else combination(rng.randint(2, len(primary))))
            has_ns = True
            nonstat.add(nm)
        for v in rng.sample(all_names, rng.randint(0 if has_ns else 1, min(2, len(all_names)))):
            if v in nonstat:
                if has_ns:
                    continue      # a dependant and its unit-root variable could cointegrate (e.g. 2*v0 - z0): stationarity would not be known by construction
                has_ns = True
                nonstat.add(nm)
            terms.append(f"{fmt(rng.choice([1, 2, -1, 0.5]))}*{v}")
        if rng.chance(0.6):
            mshocks.append(f"w{j}")
            terms.append(mshocks[-1])
        meqs.append(f"{nm} = " + " + ".join(terms) + ";")
    # observables that are STATIONARY combinations of non-stationary variables: a first difference (observed growth rate), a
    # cointegrating difference (observed ratio); and free combinations whose stationarity only the independent criterion decides
    if ur_names:
        for j in range(rng.weighted([(0, 2), (1, 3), (2, 2)])):
            nm = f"cobs{j}"
            kind = rng.choice(["diff", "coint", "free"] if v0_root else ["diff", "diff", "free"])
            if kind == "diff":
                z = rng.choice(ur_names)
                w = rng.choice([1, 2, -1, 0.5])
                terms = [f"{fmt(w)}*{z}", f"{fmt(-w)}*{z}{{-1}}"]
            elif kind == "coint":
                w = rng.choice([1, 2, -1])
                terms = [f"{fmt(w)}*v0", f"{fmt(-0.5 * w)}*{v0_root}"]
            else:
                terms = [f"{fmt(rng.choice([1, -1, 2, 0.5, -0.5]))}*{v}" + (rng.choice(["", "", "{-1}"])) for v in rng.sample(all_names, rng.randint(2, min(3, len(all_names))))]
                unknown.add(nm)
            if kind != "free" and rng.chance(0.5):
                terms.append(f"{fmt(rng.choice([1, -1, 0.5]))}*{rng.choice(names)}")
            if rng.chance(0.5):
                mshocks.append(f"cw{j}")
                terms.append(mshocks[-1])
            mnames.append(nm)
            meqs.append(f"{nm} = " + " + ".join(terms) + ";")
    # one measurement shock entering two measurement equations (a common measurement error): H is not "diagonal"
    if len(meqs) >= 2 and rng.chance(0.5):
        i1, i2 = rng.sample(list(range(len(meqs))), 2)
        mshocks.append("wcom")
        meqs[i1] = meqs[i1][:-1] + f" + {fmt(rng.choice([1, -1, 0.5]))}*wcom;"
        meqs[i2] = meqs[i2][:-1] + f" + {fmt(rng.choice([1, 2, -1]))}*wcom;"
    src = "!transition-variables\n    " + ", ".join(all_names) + "\n!transition-shocks\n    " + ", ".join(shocks) + "\n"
    if mnames:
        src += "!measurement-variables\n    " + ", ".join(mnames) + "\n"
    if mshocks:
        src += "!measurement-shocks\n    " + ", ".join(mshocks) + "\n"
    src += "!transition-equations\n    " + "\n    ".join(eqs) + "\n"
    if meqs:
        src += "!measurement-equations\n    " + "\n    ".join(meqs) + "\n"
    stds = {f"std_{s}": rng.choice([0.0, 0.5, 1.0, 1.0, 2.0, 3.0]) for s in shocks + mshocks}
    if stds.get("std_wcom") == 0.0:
        stds["std_wcom"] = 1.0
    if all(v == 0 for k, v in stds.items() if k[4:] in shocks):
        stds["std_" + shocks[0]] = 1.0
    nvar = 2 if rng.chance(0.2) else 1
    stds2 = {k: rng.choice([0.5, 1.0, 2.0]) for k in stds} if nvar == 2 else None
    # a sequence of rescale_stds calls with the `kind` option (kinds that select nothing included: many models have no
    # measurement shocks); mostly "kind by kind with one factor", which scales ALL stds by that factor
    f = rng.choice([0.5, 2.0, 3.0, 1.5])
    pat = rng.weighted([("tm", 3), ("mt", 3), ("random", 3), ("any", 1)])
    if pat == "tm":
        seq = [["transition", f], ["measurement", f]]
    elif pat == "mt":
        seq = [["measurement", f], ["transition", f]]
    elif pat == "any":
        seq = [["any", f]]
    else:
        seq = [[rng.choice(["all", "transition", "measurement", "any"]), rng.choice([0.5, 2.0, 3.0, 1.5])] for _ in range(rng.randint(1, 3))]
    return {"op": "acov", "source": src, "stds": stds, "stds2": stds2, "order": rng.randint(0, 3), "factor": rng.choice([0.5, 2.0, 3.0, 1.5]),
            "solve_history": rng.sample([1e-4, 1e-3, 1e-7, 1e-2], rng.randint(1, 2)) if rng.chance(0.6) else [],
            "nonstationary": sorted(nonstat), "unknown": sorted(unknown), "names": all_names + mnames, "rescale_seq": seq,
            "transition_shocks": list(shocks), "measurement_shocks": list(mshocks)}


# ---------------------------------------------------------------------------------------
# implementation side
# ---------------------------------------------------------------------------------------

def build_model(case, std_factors=None):
    """std_factors: {std name: factor} applied to the assigned values (the independent route to a rescaled model)"""
    m = ir.Simultaneous.from_string(case["source"], linear=True)
    fac = (lambda k: std_factors.get(k, 1.0)) if std_factors else (lambda k: 1.0)
    if case.get("stds2"):
        m.alter_num_variants(2)
        m.assign(**{k: [case["stds"][k] * fac(k), case["stds2"][k] * fac(k)] for k in case["stds"]})
    else:
        m.assign(**{k: v * fac(k) for k, v in case["stds"].items()})
    m.solve()
    return m


def kind_of(name):
    return {"all": None, "transition": ir.TRANSITION_STD, "measurement": ir.MEASUREMENT_STD,
            "any": ir.TRANSITION_STD | ir.MEASUREMENT_STD}[name]


def selected_stds(case, kind):
    t = ["std_" + x for x in case["transition_shocks"]]; w = ["std_" + x for x in case["measurement_shocks"]]
    return set(t if kind == "transition" else w if kind == "measurement" else t + w)


def run_rescale_sequence(case, m):
    """apply case['rescale_seq'] to a copy of the solved model; after every call record every stored level of every variant by name"""
    m3 = m.copy()
    q2n = m3.create_qid_to_name()
    snap = lambda: [{q2n.get(q, str(q)): v for q, v in var.levels.items()} for var in m3._variants]
    snaps = [snap()]
    for kind, f in case["rescale_seq"]:
        if kind == "all":
            m3.rescale_stds(f)
        else:
            m3.rescale_stds(f, kind=kind_of(kind))
        snaps.append(snap())
    acov = m3.get_acov(up_to_order=case["order"], unpack_singleton=False)
    # the same stds reached by plain assignment on a freshly built model
    fac = {}
    for kind, f in case["rescale_seq"]:
        for nm in selected_stds(case, kind):
            fac[nm] = fac.get(nm, 1.0) * f
    fresh = build_model(case, fac).get_acov(up_to_order=case["order"], unpack_singleton=False)
    return snaps, acov, fresh


def run_impl(case):
    m = build_model(case)
    k = case["order"]
    nvar = m.num_variants
    names = list(m.get_acov_dimension_names().rows)
    acov = m.get_acov(up_to_order=k, unpack_singleton=False)
    acorr = m.get_acorr(up_to_order=k, unpack_singleton=False)
    acorr_from = m.get_acorr(acov=acov if nvar > 1 else acov[0], unpack_singleton=False)
    m2 = m.copy()
    m2.rescale_stds(case["factor"])
    acov_scaled = m2.get_acov(up_to_order=k, unpack_singleton=False)
    seq = run_rescale_sequence(case, m) if case.get("rescale_seq") else None
    # a history on ONE model object: solve with a one-off non-default eigenvalue tolerance, then the plain solve -- the result
    # must be that of a freshly built model (the tolerance of one call must not leak into the next)
    acov_hist = None
    if case.get("solve_history"):
        mh = build_model(case)
        for t in case["solve_history"]:
            try:
                mh.solve(tolerance=t)
            except Exception:
                pass          # a coarse one-off tolerance may legitimately fail to solve; only the plain solve below is judged
        mh.solve()
        acov_hist = mh.get_acov(up_to_order=k, unpack_singleton=False)
    out = []
    for vid in range(nvar):
        variant = m._variants[vid]
        sol = variant.solution
        vec = m._get_dynamic_solution_vectors()
        cov_u = m.getv_cov_u(variant); cov_w = m.getv_cov_w(variant)
        zero_shift = [t.shift == 0 for t in vec.transition_variables] + [t.shift == 0 for t in vec.measurement_variables]
        shifts = [int(t.shift) for t in vec.transition_variables] + [int(t.shift) for t in vec.measurement_variables]
        out.append({"shifts": shifts, "sol": sol, "cov_u": np.array(cov_u), "cov_w": np.array(cov_w), "zero_shift": zero_shift,
                    "acov": [np.array(a) for a in acov[vid]], "acorr": [np.array(a) for a in acorr[vid]],
                    "acorr_from": [np.array(a) for a in acorr_from[vid]],
                    "acov_scaled": [np.array(a) for a in acov_scaled[vid]],
                    "full": [np.array(a) for a in COV.get_autocov_square(sol, cov_u, cov_w, k)],
                    "tri00": np.array(COV.get_cov_triangular_00(sol, cov_u, cov_w))})
        if acov_hist is not None:
            out[-1]["acov_hist"] = [np.array(a) for a in acov_hist[vid]]
        if seq is not None:
            out[-1]["seq_snaps"] = [sn[vid] for sn in seq[0]]
            out[-1]["seq_acov"] = [np.array(a) for a in seq[1][vid]]
            out[-1]["seq_fresh"] = [np.array(a) for a in seq[2][vid]]
    return names, out


def cumulative_factors(case):
    fu = fw = 1.0
    for kind, f in case["rescale_seq"]:
        if kind in ("all", "any", "transition"):
            fu *= f
        if kind in ("all", "any", "measurement"):
            fw *= f
    return fu, fw


# ---------------------------------------------------------------------------------------
# request lines
# ---------------------------------------------------------------------------------------

def rats(a):
    return [rat_of_float(x) for x in np.asarray(a, dtype=float).flatten()]


def acov_line(case, r, factor=1.0, factors=None, seq=None):
    sol = r["sol"]
    na, ny, nu = sol.num_alpha, sol.num_y, sol.num_unit_roots
    ne, nw = r["cov_u"].shape[0], r["cov_w"].shape[0]
    sel = [i for i, z in enumerate(r["zero_shift"]) if z]
    ftext = rat_of_float(factor) if factors is None else rat_of_float(factors[0]) + "," + rat_of_float(factors[1])
    if seq is not None:
        # the call history itself, replayed call by call on the model's state (kinds: t, m, a = all = both kinds)
        ftext = "seq:" + ";".join({"transition": "t", "measurement": "m", "all": "a", "any": "a"}[kd] + "*" + rat_of_float(f) for kd, f in seq)
    ws = ["acov", na, ny, nu, ne, nw, case["order"], "1/1000000000000", ftext]
    ws += rats(sol.Ta) + rats(sol.Pa) + rats(np.asarray(sol.Za).reshape(ny, na)) + rats(sol.Ua) + rats(np.asarray(sol.H).reshape(ny, nw))
    ws += rats(np.diag(r["cov_u"])) + rats(np.diag(r["cov_w"]))
    # the time shifts of the joint token vector: the model selects the current-dated rows itself
    ws += ["shifts", len(r["shifts"])] + r["shifts"]
    return " ".join(str(w) for w in ws)


def cert_line(r):
    sol = r["sol"]
    na, ny, nu = sol.num_alpha, sol.num_y, sol.num_unit_roots
    ne, nw = r["cov_u"].shape[0], r["cov_w"].shape[0]
    ws = ["cert", na, ny, nu, ne, nw]
    ws += rats(sol.Ta) + rats(sol.Pa) + rats(np.asarray(sol.Za).reshape(ny, na)) + rats(np.asarray(sol.H).reshape(ny, nw))
    ws += rats(np.diag(r["cov_u"])) + rats(np.diag(r["cov_w"])) + rats(r["tri00"])
    return " ".join(str(w) for w in ws)


def parse_cells(text):
    return [np.nan if w == "nan" else float(Fr(w)) for w in text.split()]


# ---------------------------------------------------------------------------------------
# oracle (independent of the Lean model)
# ---------------------------------------------------------------------------------------

def close(a, b, scale, tol=TOL):
    a = np.asarray(a, dtype=float); b = np.asarray(b, dtype=float)
    if a.shape != b.shape:
        return False
    na, nb = np.isnan(a), np.isnan(b)
    if not np.array_equal(na, nb):
        return False
    return bool(np.all(np.abs(a - b)[~na] <= tol * scale)) if a.size else True


def oracle(ctx: Ctx, case, names, r, vid):
    k = case["order"]
    sol = r["sol"]
    T, P, Z, H = np.array(sol.T), np.array(sol.P), np.array(sol.Z), np.array(sol.H)
    nxi, ny = T.shape[0], Z.shape[0]
    cu, cw = r["cov_u"], r["cov_w"]
    acov = r["acov"]
    nsel = len(names)
    nonstat = set(case["nonstationary"])
    tag = f"variant {vid}: "
    # the reported vector is exactly the current-dated transition and measurement variables, each once
    if sorted(names) != sorted(case["names"]):
        ctx.fail("dimension-names", case, tag + f"get_acov_dimension_names = {names}, the model's current-dated variables are {case['names']}")
        return
    # shapes and order count
    if len(acov) != k + 1 or any(a.shape != (nsel, nsel) for a in acov):
        ctx.fail("acov-shape", case, tag + f"{len(acov)} matrices of shapes {[a.shape for a in acov]} for order {k}, {nsel} variables")
        return
    # (1) NaN pattern: exactly the rows and columns of the variables that load on a unit root. Decided independently of the
    #     implementation's classification (Ua, Za, boolex): a variable loads on a unit root iff its response to the initial
    #     condition does not die out, i.e. its row of [T^h; Z T^h] does not vanish for large h (public square solution only);
    #     where the generator knows the answer by construction (no cancellation possible, or an exact cancellation built in:
    #     first differences, cointegrating differences) the two must agree as well
    M = np.array(T, dtype=float)
    for _ in range(26):
        M = M @ M                      # T^(2^26): stable roots, also those as close to 1 as 1 - 1e-5, are gone; unit roots stay or grow
        if not np.all(np.isfinite(M)):
            break
    if np.all(np.isfinite(M)):
        load = np.concatenate([np.max(np.abs(M), axis=1, initial=0.0), np.max(np.abs(Z @ M), axis=1, initial=0.0)])
        tscale = max(1.0, float(np.max(np.abs(M), initial=0.0)))
        indep_nan = (load > 1e-9 * tscale)[np.array(r["zero_shift"])]
    else:
        indep_nan = None
    unknown = set(case.get("unknown") or [])
    constr_nan = np.array([nm in nonstat for nm in names])
    known = np.array([nm not in unknown for nm in names])
    if indep_nan is not None and indep_nan.shape == constr_nan.shape and not np.array_equal(indep_nan[known], constr_nan[known]):
        # the two independent judgements disagree: a flaw of this oracle, not of the code -- nothing is demanded of this case
        ctx.count("oracle:construction-vs-impulse-criterion-differ")
        return
    want_nan = indep_nan if (indep_nan is not None and indep_nan.shape == constr_nan.shape) else constr_nan
    if indep_nan is None and unknown:
        return
    nonstat = {nm for nm, w in zip(names, want_nan) if w}
    want = want_nan[:, None] | want_nan[None, :]
    if np.any(want_nan & ~constr_nan) or np.any(~want_nan & np.array([("cobs" in nm or nm in ("d0", "q0")) for nm in names])):
        ctx.nontriv(("stationary-combination", int(np.sum(~want_nan)), int(np.sum(want_nan))))
    for j, a in enumerate(acov):
        if not np.array_equal(np.isnan(a), want):
            bad = [names[i] for i in range(nsel) if np.isnan(a[i, i]) != want_nan[i]]
            ctx.fail("nan-pattern", case, tag + f"order {j}: NaN cells do not coincide with the rows/columns of the variables that load on a unit root "
                     f"{sorted(nonstat)} (judged by whether the response to the initial condition dies out); differing variables {bad}")
            return
        if np.any(np.isinf(a)):
            ctx.fail("nan-pattern", case, tag + f"order {j}: infinite autocovariance")
            return
    # (2) the full square matrices restricted to the zero-shift tokens are what get_acov returns
    zs = np.array(r["zero_shift"])
    for j in range(k + 1):
        sub = r["full"][j][zs][:, zs]
        if not close(acov[j], sub, 1.0, tol=0):
            ctx.fail("zero-shift-selection", case, tag + f"order {j}: get_acov is not the zero-shift selection of the full autocovariance")
            return
    # (3) Lyapunov / propagation equations in square form on the stationary part
    stable_xi = ~np.isnan(np.diag(r["full"][0])[:nxi])
    stable_y = ~np.isnan(np.diag(r["full"][0])[nxi:])
    Tss = T[stable_xi][:, stable_xi]
    Tsu = T[stable_xi][:, ~stable_xi]
    rho = float(np.max(np.abs(np.linalg.eigvals(Tss)))) if Tss.size else 0.0
    decoupled = (np.max(np.abs(Tsu), initial=0.0) < 1e-10)
    if decoupled and rho < 0.97:
        Ps = P[stable_xi]
        Zs = Z[stable_y][:, stable_xi]
        Zsu = Z[stable_y][:, ~stable_xi]
        Hs = H[stable_y]
        G = [g[np.r_[stable_xi, stable_y]][:, np.r_[stable_xi, stable_y]] for g in r["full"]]
        ns = int(stable_xi.sum())
        C = G[0][:ns, :ns]
        scale = max(1.0, float(np.max(np.abs(G[0]), initial=0.0)))
        tol = 1e-8 / (1 - rho) ** 2
        if not close(C, Tss @ C @ Tss.T + Ps @ cu @ Ps.T, scale, tol):
            ctx.fail("lyapunov", case, tag + "order-0 covariance of the transition variables does not satisfy C = T C T' + P Su P' "
                     f"(max residual {np.max(np.abs(C - Tss @ C @ Tss.T - Ps @ cu @ Ps.T)):.3e})")
        elif not close(C, C.T, scale, 1e-10):
            ctx.fail("lyapunov", case, tag + "order-0 covariance is not symmetric")
        else:
            # uniqueness: the independent Kronecker solution
            if ns:
                ref = np.linalg.solve(np.eye(ns * ns) - np.kron(Tss, Tss), (Ps @ cu @ Ps.T).flatten()).reshape(ns, ns)
                if not close(C, ref, scale, tol):
                    ctx.fail("lyapunov-unique", case, tag + "order-0 covariance differs from the unique solution of the Lyapunov equation")
            if np.max(np.abs(Zsu), initial=0.0) < 1e-10:
                if not close(G[0][ns:, :ns], Zs @ C, scale, tol) or not close(G[0][ns:, ns:], Zs @ C @ Zs.T + Hs @ cw @ Hs.T, scale, tol):
                    ctx.fail("measurement-covariance", case, tag + "cov(y, xi) / cov(y, y) are not Z C and Z C Z' + H Sw H'")
                for j in range(k):
                    nxt = np.vstack([Tss @ G[j][:ns, :], Zs @ Tss @ G[j][:ns, :]])
                    if not close(G[j + 1], nxt, scale, tol):
                        ctx.fail("autocovariance-propagation", case, tag + f"order {j + 1} is not [T; Z T] applied to order {j}")
                        break
        key_lyap = (ns, int(stable_y.sum()), int((~stable_xi).sum()), rho > 0.5)
    else:
        key_lyap = None
        ctx.count("oracle:square-form-not-applicable")
    # (3b) the numbers of the stationary rows, by the MA(infinity) sum over the impulse responses of the public square solution
    #      Phi_h = [T^h P; Z T^h P]  (this is the only value oracle that also covers observables whose unit-root components cancel:
    #      first differences, cointegrating differences): C_j = sum_h Phi_{h+j} Su Phi_h' (+ H Sw H' on the y block at j = 0)
    if rho < 0.95 and np.any(~want_nan):
        sel_idx = np.flatnonzero(np.array(r["zero_shift"]))
        st = sel_idx[~want_nan]                       # positions in [xi; y] of the reported stationary variables
        F = np.array(P, dtype=float)
        Phi = []
        for h in range(2000):
            full = np.vstack([F, Z @ F])[st]
            Phi.append(full)
            F = T @ F
            # "died out" relative to the size of the (possibly non-decaying) responses it is a combination of: cancelling
            # unit-root components leave round-off of that size
            small_ = 1e-13 * max(1.0, float(np.max(np.abs(F), initial=0.0)))
            if h > k + 5 and np.max(np.abs(full), initial=0.0) < small_ and np.max(np.abs(Phi[-2]), initial=0.0) < small_:
                break
        if len(Phi) < 2000:
            Hfull = np.vstack([np.zeros((nxi, cw.shape[0])), H])[st]
            for j in range(k + 1):
                C = sum(Phi[h + j] @ cu @ Phi[h].T for h in range(len(Phi) - j))
                if j == 0:
                    C = C + Hfull @ cw @ Hfull.T
                got = acov[j][~want_nan][:, ~want_nan]
                sc = max(1.0, float(np.max(np.abs(C), initial=0.0)))
                if not close(got, C, sc, 1e-7 / (1 - rho) ** 2):
                    ctx.fail("ma-sum", case, tag + f"order {j}: autocovariances of the stationary variables {[n_ for n_, w in zip(names, want_nan) if not w]} "
                             f"differ from the MA(infinity) sum over the impulse responses (max diff {np.max(np.abs(got - C)):.3e})")
                    break
        else:
            ctx.count("oracle:ma-sum-not-converged")
    # (4) acorr = acov / sqrt(d_i d_j), zero-variance guard; both call forms agree
    d = np.diag(acov[0])
    for j in range(k + 1):
        with np.errstate(all="ignore"):
            inv = np.where(d > 0, 1.0 / np.sqrt(np.where(d > 0, d, 1.0)), 0.0)
            want_corr = acov[j] * inv[:, None] * inv[None, :]
        want_corr = np.where(np.isnan(acov[j]), np.nan, want_corr)
        if not close(r["acorr"][j], want_corr, 1.0, 1e-9) or not close(r["acorr_from"][j], want_corr, 1.0, 1e-9):
            ctx.fail("acorr", case, tag + f"order {j}: get_acorr is not acov scaled by the order-0 standard deviations")
            break
    key_zero = bool(np.any((d <= 0) & ~np.isnan(d)))
    # (5) scaling all std by s scales every autocovariance by s^2
    s = case["factor"]
    for j in range(k + 1):
        sc = max(1.0, float(np.nanmax(np.abs(acov[j]))) if np.any(~np.isnan(acov[j])) else 1.0) * s * s
        if not close(r["acov_scaled"][j], s * s * acov[j], sc, 1e-9 / max(1e-3, (1 - min(rho, 0.999)) ** 2)):
            ctx.fail("rescale-stds-variants" if vid > 0 else "rescale-stds", case, tag + f"order {j}: after rescale_stds({s}) the autocovariance is not {s * s} times the original")
            break
    # (5b) history independence of solve: after solve(tolerance=t) and a plain solve() the autocovariances are those of a fresh model
    if "acov_hist" in r:
        for j in range(k + 1):
            a0, a1 = acov[j], r["acov_hist"][j]
            fin = ~np.isnan(a0)
            sc = max(1.0, float(np.max(np.abs(a0[fin]))) if np.any(fin) else 1.0)
            if a0.shape != a1.shape or not np.array_equal(np.isnan(a0), np.isnan(a1)) or np.any(np.abs(a1[fin] - a0[fin]) > 1e-6 * sc):
                ctx.fail("solve-history", case, tag + f"order {j}: after solve(tolerance={case['solve_history']}) followed by a plain solve() "
                         f"get_acov differs from a freshly built and solved model (NaN variables {[n_ for n_, w in zip(names, np.isnan(np.diag(a1))) if w]} "
                         f"vs {[n_ for n_, w in zip(names, np.isnan(np.diag(a0))) if w]})")
                break
    # (6) rescale_stds with the `kind` option, in sequences: after every call the stored stds of the selected kind are
    #     multiplied by the factor and every other stored value is untouched; the autocovariances are those of a model
    #     whose stds were assigned the same values directly; when all stds end up scaled by one s they are s^2 times the original
    if "seq_snaps" in r:
        snaps = r["seq_snaps"]
        stored_ok = True
        for step, (kind, f) in enumerate(case["rescale_seq"]):
            sel = selected_stds(case, kind)
            before, after = snaps[step], snaps[step + 1]
            for nm, v0 in before.items():
                want = v0 * f if (nm in sel and v0 is not None) else v0
                got = after.get(nm)
                same = (got is None and want is None) or (got is not None and want is not None and (got == want or (got != got and want != want)))
                if not same:
                    ctx.fail("rescale-stds-kind-stored-values", case, tag + f"call {step + 1} rescale_stds({f}, kind={kind}): stored value of "
                             f"{nm} went from {v0} to {got}, expected {want} (selected stds: {sorted(sel)})")
                    stored_ok = False
                    break
            if not stored_ok:
                break
        sc = max(1.0, float(np.nanmax(np.abs(r["seq_fresh"][0]))) if np.any(~np.isnan(r["seq_fresh"][0])) else 1.0)
        tol6 = 1e-9 / max(1e-3, (1 - min(rho, 0.999)) ** 2)
        for j in range(k + 1):
            if not close(r["seq_acov"][j], r["seq_fresh"][j], sc, tol6):
                ctx.fail("rescale-stds-kind-acov", case, tag + f"order {j}: after {case['rescale_seq']} get_acov differs from a model whose stds "
                         "were assigned the rescaled values directly")
                break
        fu, fw = cumulative_factors(case)
        if fu == fw:
            for j in range(k + 1):
                sc2 = max(1.0, float(np.nanmax(np.abs(acov[j]))) if np.any(~np.isnan(acov[j])) else 1.0) * fu * fu
                if not close(r["seq_acov"][j], fu * fu * acov[j], sc2, tol6):
                    ctx.fail("rescale-stds-kind-s2", case, tag + f"order {j}: all stds were scaled by {fu} through {case['rescale_seq']} "
                             f"but the autocovariance is not {fu * fu} times the original")
                    break
    ctx.nontriv(("acov", nsel, int(want_nan.sum()), k, int(sol.num_unit_roots), ny, key_lyap, key_zero))


# ---------------------------------------------------------------------------------------
# correspondence
# ---------------------------------------------------------------------------------------

def compare(ctx: Ctx, case, names, r, vid, reply, reply_scaled, cert, reply_seq=None):
    ctx.streams_compared["acov"] = ctx.streams_compared.get("acov", 0) + 1
    k = case["order"]
    nsel = len(names)
    sol = r["sol"]
    if reply.startswith("err"):
        ctx.count("model:" + reply)
        if all(np.all(np.isfinite(a) | np.isnan(a)) for a in r["acov"]) and np.max(np.abs(np.linalg.eigvals(np.array(sol.Ta_stable))), initial=0.0) < 0.97:
            ctx.disagree("acov-status", case, "finite", reply)
        return
    q = dict(part.partition("=")[::2] for part in reply.split(";")[1:])
    # class E: stability bits and NaN pattern
    bits_impl = "".join("1" if b else "0" for b in list(sol.boolex_stable_transition_vector) + list(sol.boolex_stable_measurement_vector))
    if bits_impl != q["S"]:
        ctx.disagree("acov-stability-bits", case, bits_impl, q["S"])
        return
    impl = np.array(r["acov"])
    if len(q["G"].split()) != (k + 1) * nsel * nsel or impl.shape != (k + 1, nsel, nsel):
        ctx.disagree("acov-shape", case, list(impl.shape), f"{len(q['G'].split())} cells for order {k}")
        return
    G = np.array(parse_cells(q["G"])).reshape(k + 1, nsel, nsel)
    R = np.array(parse_cells(q["R"])).reshape(k + 1, nsel, nsel)
    if not np.array_equal(np.isnan(G), np.isnan(impl)):
        ctx.disagree("acov-nan-pattern", case, np.isnan(impl).astype(int).tolist(), np.isnan(G).astype(int).tolist())
        return
    rho = float(np.max(np.abs(np.linalg.eigvals(np.array(sol.Ta_stable))), initial=0.0))
    if rho > 0.97:
        ctx.count("acov:near-unit-root-not-compared")
        return
    scale = max(1.0, float(np.nanmax(np.abs(G))) if np.any(~np.isnan(G)) else 1.0)
    tol = 1e-8 / (1 - rho) ** 2
    if not close(impl, G, scale, tol):
        ctx.disagree("acov-values", case, impl.tolist(), G.tolist())
    # acorr: impl * |impl| against the model's signed squared correlation
    ac = np.array(r["acorr"])
    # a (numerically) zero variance makes the correlation a 0/0 of round-off: those rows/columns are not compared
    dg = np.diag(G[0])
    ref = max([float(np.nanmax(np.abs(dg))) if np.any(~np.isnan(dg)) else 0.0, float(np.max(r["cov_u"], initial=0.0)),
               float(np.max(r["cov_w"], initial=0.0)), 1e-300])
    tiny = ~np.isnan(dg) & (np.abs(dg) < 1e-9 * ref)
    if np.any(tiny):
        ctx.count("acorr:tiny-variance-rows-not-compared")
        ac = ac.copy(); R = R.copy()
        ac[:, tiny, :] = np.nan; ac[:, :, tiny] = np.nan; R[:, tiny, :] = np.nan; R[:, :, tiny] = np.nan
    if not close(ac * np.abs(ac), R, 1.0, max(tol, 1e-7)):
        ctx.disagree("acorr-values", case, (ac * np.abs(ac)).tolist(), R.tolist())
    if reply_scaled is not None and not reply_scaled.startswith("err"):
        q2 = dict(part.partition("=")[::2] for part in reply_scaled.split(";")[1:])
        G2 = np.array(parse_cells(q2["G"])).reshape(k + 1, nsel, nsel)
        if not close(np.array(r["acov_scaled"]), G2, scale * case["factor"] ** 2, tol):
            ctx.disagree("acov-rescaled", case, np.array(r["acov_scaled"]).tolist(), G2.tolist())
    if reply_seq is not None and not reply_seq.startswith("err") and "seq_acov" in r:
        ctx.streams_compared["acov-rescaled-by-kind"] = ctx.streams_compared.get("acov-rescaled-by-kind", 0) + 1
        q3 = dict(part.partition("=")[::2] for part in reply_seq.split(";")[1:])
        G3 = np.array(parse_cells(q3["G"])).reshape(k + 1, nsel, nsel)
        fu, fw = cumulative_factors(case)
        if not close(np.array(r["seq_acov"]), G3, scale * max(fu, fw, 1.0) ** 2, tol):
            ctx.disagree("acov-rescaled-by-kind", case, np.array(r["seq_acov"]).tolist(), G3.tolist())
    # V: exact fixed-point residual of the implementation's own cov_triangular_00
    if cert is not None:
        ctx.streams_compared["cert"] = ctx.streams_compared.get("cert", 0) + 1
        res = float(Fr(cert))
        sc = max(1.0, float(np.max(np.abs(r["tri00"]), initial=0.0)))
        ctx.extra["max_certificate_residual"] = max(ctx.extra.get("max_certificate_residual", 0.0), res / sc)
        if res > 1e-9 * sc / (1 - rho) ** 2:
            ctx.disagree("certificate-residual", case, f"exact residual {res:.3e} of cov_triangular_00", "0")


# ---------------------------------------------------------------------------------------
# entry points
# ---------------------------------------------------------------------------------------

MAX_STABLE = 5


def do_cases(ctx: Ctx, cases, with_model=True):
    impl = []
    lines, slots = [], []
    for ci, case in enumerate(cases):
        ctx.evaluations += 2 if case.get("stds2") else 1
        try:
            with warnings.catch_warnings():
                warnings.simplefilter("ignore")
                names, out = run_impl(case)
        except Exception as e:
            impl.append(None)
            ctx.fail("acov-raises", case, "solve/get_acov/get_acorr/rescale_stds raised " + repr(e)[:300])
            continue
        impl.append((names, out))
        sol0 = out[0]["sol"]
        ctx.count(f"unit_roots={sol0.num_unit_roots}"); ctx.count(f"num_alpha={sol0.num_alpha}"); ctx.count(f"num_y={sol0.num_y}")
        ctx.count(f"order={case['order']}"); ctx.count(f"variants={len(out)}")
        ctx.count("combination-of-unit-root-variables=" + str(any(l.count("*z") >= 2 for l in case["source"].split("\n") if l.strip().startswith(("obs", "s0")))))
        ctx.count("forward-looking=" + str("{+1}" in case["source"]))
        ctx.count("near-boundary-root=" + str("nb = " in case["source"])); ctx.count("tiny-unit-root-loading=" + str("tl = " in case["source"]))
        ctx.count("common-measurement-shock=" + str("wcom" in case["source"])); ctx.count("solve-history=" + str(bool(case.get("solve_history"))))
        ctx.count("stationary-combination-observables=" + str(case["source"].count("cobs") // 2))
        for kind, _ in case.get("rescale_seq") or []:
            ctx.count(f"rescale-kind={kind}" + (",empty-selection" if not selected_stds(case, kind) else ""))
        for vid, r in enumerate(out):
            oracle(ctx, case, names, r, vid)
            sol = r["sol"]
            if with_model and sol.num_alpha - sol.num_unit_roots <= MAX_STABLE:
                slots.append((ci, vid, len(lines)))
                lines += [acov_line(case, r), acov_line(case, r, case["factor"]), cert_line(r),
                          acov_line(case, r, seq=case["rescale_seq"]) if case.get("rescale_seq") else "noop"]
            elif with_model:
                ctx.count("model:too-large-not-compared")
        if ci < 2:
            ctx.sample({"case": case, "implementation": {"names": names, "acov0": np.round(out[0]["acov"][0], 6).tolist()}})
    if with_model and lines:
        replies = ctx.model("C15", lines)
        if replies is not None:
            for ci, vid, k in slots:
                names, out = impl[ci]
                compare(ctx, cases[ci], names, out[vid], vid, replies[k], replies[k + 1], replies[k + 2],
                        replies[k + 3] if cases[ci].get("rescale_seq") else None)


def all_cases(ctx: Ctx, scale=1):
    rng = ctx.rng.fork("acov")
    return [gen_case(rng.fork("m")) for _ in range(ctx.n(150, 2500) * scale)]


def corpus_cases():
    out = []
    for path in sorted(glob.glob(os.path.join(VERIF, "corpus", "C15", "*.json"))):
        out.append(json.load(open(path)))
    return out


def run(ctx: Ctx):
    ctx.rule = ("random small linear models built with Simultaneous.from_string: 1-3 stationary AR variables with lags 1-2 (optionally one lead), "
                "0-2 random-walk / cumulated variables, optional variables depending on them, 0-2 measurement variables with or without measurement "
                "shocks, std in {0, .5, 1, 2, 3}, order 0-3, 1-2 variants, rescale factor in {.5, 1.5, 2, 3}, a sequence of 1-3 rescale_stds(kind=...) calls "
                "(all / transition / measurement / both kinds, empty selections included). evaluations counts (model, variant) pairs; "
                "distinct_nontrivial counts distinct classes (number of variables, number of NaN variables, order, unit roots, measurement variables, "
                "(stable states, stable observables, unit-root states, rho > 0.5) when the square-form equations applied, has-a-zero-variance) among "
                "the pairs whose autocovariances were produced and passed the shape checks")
    do_cases(ctx, [p["case"] for p in corpus_cases() if isinstance(p.get("case"), dict)])
    do_cases(ctx, all_cases(ctx))


def search(ctx: Ctx, seeds):
    do_cases(ctx, [c for c in seeds if isinstance(c, dict) and "source" in c], with_model=False)
    do_cases(ctx, all_cases(ctx, scale=4 if ctx.quick else 1), with_model=False)


def replay(ctx: Ctx, payload):
    case = payload.get("case")
    if isinstance(case, dict) and "source" in case:
        do_cases(ctx, [case])
    else:
        for d in payload.get("disagreements", []):
            if isinstance(d.get("case"), dict):
                do_cases(ctx, [d["case"]])
