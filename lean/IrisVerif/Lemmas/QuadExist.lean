/-
Existence side of `Lemmas/QuadMin.lean` (kept separate because it needs determinants / inverses):
a definite quadratic form has a non-singular matrix, and the bordered (saddle-point) matrix
`[[A, Cᵀ], [C, 0]]` is non-singular when `A` is definite on the feasible directions and `C` has full row rank
(`Cᵀ μ = 0 ⇒ μ = 0`).  Over any field; no order is needed for these statements.
-/
import IrisVerif.Lemmas.QuadMin
import Mathlib.LinearAlgebra.Matrix.NonsingularInverse

namespace IrisVerif.QuadMin

open Matrix

variable {n p : Type} [Fintype n] [Fintype p] [DecidableEq n] [DecidableEq p]
variable {K : Type} [Field K]

omit [DecidableEq n] in
/-- `d·Ad = 0 ⇒ d = 0` makes `A` injective … -/
theorem mulVec_injective_of_definite (A : Matrix n n K) (hpd : ∀ d : n → K, d ⬝ᵥ A *ᵥ d = 0 → d = 0) :
    Function.Injective A.mulVec := by
  intro x y h
  have h0 : A *ᵥ (x - y) = 0 := by rw [Matrix.mulVec_sub]; exact sub_eq_zero.2 h
  exact sub_eq_zero.1 (hpd (x - y) (by rw [h0, dotProduct_zero]))

/-- … hence non-singular (square matrix over a field). -/
theorem isUnit_det_of_definite (A : Matrix n n K) (hpd : ∀ d : n → K, d ⬝ᵥ A *ᵥ d = 0 → d = 0) :
    IsUnit A.det :=
  (Matrix.isUnit_iff_isUnit_det A).1 (Matrix.mulVec_injective_iff_isUnit.1 (mulVec_injective_of_definite A hpd))

/-- a non-singular system has exactly one solution -/
theorem existsUnique_mulVec_eq (A : Matrix n n K) (hA : IsUnit A.det) (b : n → K) : ∃! x, A *ᵥ x = b := by
  refine ⟨A⁻¹ *ᵥ b, ?_, ?_⟩
  · show A *ᵥ (A⁻¹ *ᵥ b) = b
    rw [Matrix.mulVec_mulVec, Matrix.mul_nonsing_inv A hA, Matrix.one_mulVec]
  · intro x hx
    show x = A⁻¹ *ᵥ b
    rw [← hx, Matrix.mulVec_mulVec, Matrix.nonsing_inv_mul A hA, Matrix.one_mulVec]

/-- **The bordered matrix is injective** when the form is definite on the feasible directions and `C` has full
row rank. -/
theorem bordered_injective (A : Matrix n n K) (C : Matrix p n K)
    (hpd : ∀ d : n → K, C *ᵥ d = 0 → d ⬝ᵥ A *ᵥ d = 0 → d = 0)
    (hC : ∀ μ : p → K, Cᵀ *ᵥ μ = 0 → μ = 0) :
    Function.Injective (Matrix.fromBlocks A Cᵀ C 0).mulVec := by
  intro v w h
  have h0 : Matrix.fromBlocks A Cᵀ C 0 *ᵥ (v - w) = 0 := by rw [Matrix.mulVec_sub]; exact sub_eq_zero.2 h
  set x : n → K := (v - w) ∘ Sum.inl with hx
  set μ : p → K := (v - w) ∘ Sum.inr with hμ
  have hz : v - w = Sum.elim x μ := (Sum.elim_comp_inl_inr (v - w)).symm
  have hzero : (0 : n ⊕ p → K) = Sum.elim (0 : n → K) (0 : p → K) := by
    funext r; cases r <;> rfl
  rw [hz, hzero, bordered_iff] at h0
  obtain ⟨hstat, hfeas⟩ := h0
  have e : A *ᵥ x = - (Cᵀ *ᵥ μ) := eq_neg_of_add_eq_zero_left hstat
  have hq : x ⬝ᵥ A *ᵥ x = 0 := by
    rw [e, dotProduct_neg, dot_transpose_mulVec_of_feasible C μ x hfeas, neg_zero]
  have hx0 : x = 0 := hpd x hfeas hq
  have hμ0 : μ = 0 := by
    apply hC
    rw [hx0, Matrix.mulVec_zero, zero_add] at hstat
    exact hstat
  have : v - w = 0 := by rw [hz, hx0, hμ0, hzero]
  exact sub_eq_zero.1 this

theorem bordered_isUnit_det (A : Matrix n n K) (C : Matrix p n K)
    (hpd : ∀ d : n → K, C *ᵥ d = 0 → d ⬝ᵥ A *ᵥ d = 0 → d = 0)
    (hC : ∀ μ : p → K, Cᵀ *ᵥ μ = 0 → μ = 0) :
    IsUnit (Matrix.fromBlocks A Cᵀ C 0).det :=
  (Matrix.isUnit_iff_isUnit_det _).1 (Matrix.mulVec_injective_iff_isUnit.1 (bordered_injective A C hpd hC))

/-- **Existence of the KKT point**: under the same two conditions the saddle-point system has a solution for every
right-hand side `(b, c)`. -/
theorem kkt_exists (A : Matrix n n K) (C : Matrix p n K)
    (hpd : ∀ d : n → K, C *ᵥ d = 0 → d ⬝ᵥ A *ᵥ d = 0 → d = 0)
    (hC : ∀ μ : p → K, Cᵀ *ᵥ μ = 0 → μ = 0) (b : n → K) (c : p → K) :
    ∃ (x : n → K) (μ : p → K), A *ᵥ x + Cᵀ *ᵥ μ = b ∧ C *ᵥ x = c := by
  obtain ⟨v, hv, _⟩ := existsUnique_mulVec_eq _ (bordered_isUnit_det A C hpd hC) (Sum.elim b c)
  refine ⟨v ∘ Sum.inl, v ∘ Sum.inr, ?_⟩
  rw [← bordered_iff, Sum.elim_comp_inl_inr]
  exact hv

end IrisVerif.QuadMin
