"""
py2lean plugin for property C01 (first-order simulation), built on the numpy -> QMat engine of tools/gens/npmat.py:

* fords/simulators.py  the state recursion of `simulate_flat`: the statements of the loop over `t` that rebind `xi`
  (`xi = T @ xi + K`, `+= Pu[:, t]`, `+= all_v_impact[t]`, `+= exogenous_impact[:, t]`)   -> Generated/SimulateFlatGen.lean

The rest of `simulate_flat` (dataslate access, logarithmize, fancy-indexed write-back `data_array[qids, t] = xi[indexes]`)
is outside the subset.  The hand-written model (Model/FirstOrder.lean `simulateFrame`) is tied to the fragment in
Props/GenTieC01.lean.
"""
from __future__ import annotations
import importlib.util, os, sys


def _engine():
    name = "py2lean_npmat_engine"
    if name not in sys.modules:
        spec = importlib.util.spec_from_file_location(name, os.path.join(os.path.dirname(os.path.abspath(__file__)), "npmat.py"))
        mod = importlib.util.module_from_spec(spec)
        sys.modules[name] = mod
        spec.loader.exec_module(mod)
    return sys.modules[name]


def gen_simulate_flat(repo: str) -> str:
    E = _engine()
    unit = E.Unit(repo, "src/irispie/fords/simulators.py", "IrisVerif.Gen.SimulateFlat")
    unit.fragment("simulate_flat", "state_step", "xi", "xi",
                  {"T": E.MAT, "K": E.VEC, "Pu": E.TOpt(E.MAT), "all_v_impact": E.TOpt(E.TList(E.TOpt(E.VEC))),
                   "exogenous_impact": E.TOpt(E.MAT), "xi": E.VEC, "t": E.INT},
                  ["xi"], loop_var="t")
    return unit.render("The state recursion of `simulate_flat` (fords/simulators.py, property C01) as a definition over QMat "
                       "(1-D arrays are n × 1 columns).")


GENERATORS = {
    "SimulateFlatGen.lean": (gen_simulate_flat, {"C01"}),
}
