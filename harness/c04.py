"""
C04 -- Model source text is translated to equations without changing their meaning.

Streams (all against the real irispie in-process, the Lean model through the driver `C04`):
  model   a structured random model is rendered to source text with random choices among the syntactic alternatives
          (several renderings per model); `Simultaneous.from_string` output -- names per kind, descriptions, log status,
          number of equations, value of every dynamic and steady equation on random dyadic data -- is compared with
          (a) the Lean model's output for the structured model (correspondence) and (b) an independent evaluator of the
          UNEXPANDED structured equations (oracle); all renderings of one model must give the same model.
  prep    random well-nested directive forests (and malformed flat sequences) through `preparser.from_string`,
          against the Lean directive machine (correspondence) and a plain recursive reading of the forest (oracle).
  tables  pseudofunction spellings/default shifts, block keywords and aliases, lists.
"""
from __future__ import annotations
import json, os, glob, math
from fractions import Fraction

import numpy as np
import irispie as ir
from irispie.parsers import preparser as _pp
from irispie.parsers import _pseudofunctions as _pf
from irispie.quantities import QuantityKind as QK

from .common import Ctx, Rng, VERIF
from . import c04_lang as L

DRIVERS = ["C04"]
LEVEL = "proof"
MANIFEST = {
    "category": "proof",
    "text": ("PARTIAL (token level; characters by correspondence). Lean 4 theorems about an executable model of the model-language pipeline: "
             "shifting all names of any expression tree by k evaluates to the tree at t+k (function names untouched); each pseudofunction "
             "(12 spellings, default shifts -1/-4, an explicit 0 is not the default) expands to a tree that evaluates to its documented formula "
             "over any field for all data, periods and shifts; mov_sum/mov_avg/mov_prod for every NON-ZERO window of either sign (induction on "
             "the window; mov_sum also for 0; mov_avg/mov_prod of an empty window are not covered); `lhs = rhs` evaluates to rhs - lhs; "
             "`!!` steady-variant selection; anticipated-shock insertion; macro expansion succeeds exactly when every `$s$` is defined; for every "
             "well-nested !for/!if/!else forest of any depth the flat directive machine (level counting, matching !end/!else, control-name "
             "substitution with upper/lower forms) returns the denotation of the forest, misplaced/unclosed directives and failing `<...>` are "
             "rejected (the recursion budget is proved sufficient for well-nested input only); log status with !all-but is the complement; "
             "quantities are ordered by kind keeping declaration order; the keyword-alias normaliser maps the 31 documented spellings to their "
             "canonical keyword and never touches names or `!!...`; substitution resolution is a pure textual function of the source's own "
             "definitions (last definition wins); a recursive-descent parser reads back every FULLY PARENTHESISED printed expression/equation "
             "(`parse (print e) = e`) and the composed statement expand -> print -> parse -> -(lhs)+rhs -> evaluate = documented rhs - lhs "
             "has input-level hypotheses only; for minimally parenthesised text a precedence parser is modelled and its "
             "precedence/associativity table is proved on three-operand shapes for all names (`^` right-associative, unary minus vs `^`, "
             "`-(lhs)+a+b` reads ((-lhs)+a)+b) -- its general round trip is NOT proved, it is tied by correspondence; `<...>` stringification "
             "of integers and plain decimals prints every digit (text re-read = value). Not in the theorems, tied on every run by "
             "correspondence with an independent evaluator: regexes, Jinja2, PEG grammars, comments, continuation lines, bracket styles, the "
             "tokeniser, float repr (shortest round trip) and exponent forms, numerical meaning of function symbols."),
    "design": "7/C04",
    "note": "proof level is partial: token-level theorems, character-level parsing by correspondence only",
    "technique": "Lean 4 proof over executable token-level model + differential correspondence on rendered sources + independent evaluator",
}
ASSUMPTIONS = [
    "character-level regexes, Jinja2 and the parsimonious grammars are outside the Lean model (exercised by the differential run only)",
    "generated sources stay inside the documented limits: pseudofunction arguments with at most one level of parentheses and no "
    "nested pseudofunction, substitution or comma; prefix-free loop control names; ASCII names; substitutions written with their own parentheses",
    "descriptions avoid quotes, braces, angle brackets, '?', '!' and pseudofunction calls",
    "class-D equality relies on every intermediate of a polynomial tree being a dyadic rational below 2**50 (checked per equation)",
]

T0 = 12
KINDS = [("tv", QK.TRANSITION_VARIABLE), ("mv", QK.MEASUREMENT_VARIABLE), ("ts", QK.TRANSITION_SHOCK), ("ant", QK.ANTICIPATED_SHOCK_VALUE),
         ("ms", QK.MEASUREMENT_SHOCK), ("par", QK.PARAMETER), ("exo", QK.EXOGENOUS_VARIABLE), ("tstd", QK.TRANSITION_STD),
         ("mstd", QK.MEASUREMENT_STD)]
# rendering features that hit a defect found by this check (site keys); a failing case is attributed to the first one it has
DEFECT_FEATURES = ["shift_pf_nonatomic", "if_noelse_then_ifelse", "curly_after_paren_ctl", "shifted_shock"]
SITES = {"shift_pf_nonatomic": "pseudo-shift-unparenthesized", "if_noelse_then_ifelse": "if-without-else-before-if-else",
         "curly_after_paren_ctl": "curly-shift-after-control", "shifted_shock": "shifted-shock-anticipated"}


# a failure is attributed to one of those sites only when it also shows the signature that defect had
# (the four defects are repaired in /repo: nothing is attributed to their sites any more, the table is kept for the record)
SIGNATURE = {}


def site_for(features, default):
    for f in SIGNATURE.get(default, []):
        if f in features:
            return SITES[f]
    return default


# ---------------------------------------------------------------------------------------
# implementation side of the `model` stream
# ---------------------------------------------------------------------------------------

def impl_model(source, ctx_spec, data, t):
    """-> (discrete canonical line, dyn values, steady values) or ('err:bad', exception text)"""
    try:
        m = ir.Simultaneous.from_string(source, context=L.build_context(ctx_spec))
    except Exception as e:
        return "err:bad", f"{type(e).__name__}: {str(e)[:300]}", None
    inv = m._invariant
    names = ";".join(f"{c}=" + ",".join(m.get_names(kind=k)) for c, k in KINDS)
    descr = " ".join(f"{q.human}={L.enc_descr(q.description or '')}" for q in inv.quantities)
    ls = m.get_log_status()
    log = " ".join(f"{q.human}={'T' if ls[q.human] else 'F'}" for q in inv.quantities if q.human in ls)
    eqs = [e for e in inv.dynamic_equations]
    line = f"names {names} | descr {descr} | log {log} | neq {len(eqs)} " + " ".join(L.enc_descr(e.description or "") for e in eqs)
    n2q = m.create_name_to_qid()
    arr = np.ones((len(n2q), 2 * T0 + 1), dtype=float)
    for n, row in data.items():
        if n in n2q:
            for p, v in row.items():
                arr[n2q[n], p] = float(v)
    try:
        with np.errstate(all="ignore"):
            dyn = [float(v) for v in inv._plain_dynamic_equator.eval(arr, t)]
            std = [float(v) for v in inv._plain_steady_equator.eval(arr, t)]
    except Exception as e:
        return line, f"eval raises {type(e).__name__}: {str(e)[:200]}", None
    return line, dyn, std


def expected_discrete(sm):
    """what the property statement demands of the declared names: kinds, order, descriptions, log status, equation count"""
    by_kind = {k: [d[1] for d in sm["decls"] if d[0] == k] for k in L.KIND_CODES}
    descr = {d[1]: d[2] for d in sm["decls"]}
    log = {d[1]: (d[1] in sm["logset"]) for d in sm["decls"] if d[0] in ("tv", "mv", "exo")}
    return by_kind, descr, log, len(sm["eqs"])


def parse_discrete(line):
    secs = line.split(" | ")
    names = {}
    for part in secs[0][len("names "):].split(";"):
        k, v = part.split("=")
        names[k] = [x for x in v.split(",") if x]
    descr = {}
    for w in secs[1].split()[1:]:
        n, d = w.split("=", 1)
        descr[n] = d[1:].replace("~", " ")
    log = {}
    for w in secs[2].split()[1:]:
        n, v = w.split("=")
        log[n] = v == "T"
    neq = int(secs[3].split()[1])
    return names, descr, log, neq


import re as _re0
_re_sep = _re0.compile(r"!!(shocks|variables|equations)\b")


def is_int_power_finding(message: str, sm, subs, want=None) -> bool:
    """the known finding `integer-constant-to-negative-power`: numpy refuses `np.int64 ** negative int`; all three must hold:
    the implementation raises exactly that ValueError, the structured model contains an integer-valued constant subexpression
    through a numpy function (abs / maximum / minimum) raised to a constant negative integer power, and the independent evaluator
    has a value for every equation (the equation as written is fine)"""
    if "ValueError" not in message or "Integers to negative integer powers are not allowed" not in message:
        return False
    trees = [p for e in sm["eqs"] for v in (e["dyn"], e["steady"]) if v for p in v[1:]]
    if not any(L.has_int_const_to_negative_power(t, subs) for t in trees):
        return False
    if want is not None and any(cls == "skip" for row in want for cls, _, _ in row):
        return False
    return True


def check_model_case(ctx: Ctx, case, model_reply, value_site="equation-meaning"):
    """case: dict(sm, variants=[(source, ctx_spec, log_choice, features, used)], data, t)"""
    sm, data, t = case["sm"], case["data"], case["t"]
    subs = {n: e for n, e in sm["subs"]}
    tshocks = {d[1] for d in sm["decls"] if d[0] == "ts"}
    ordered = [e for e in sm["eqs"] if e["kind"] == "T"] + [e for e in sm["eqs"] if e["kind"] == "M"]
    # oracle values of the unexpanded structured equations
    want = []
    # arithmetic exceptions (division by an exact zero, overflow) that the oracle's own evaluation of the equations raises at
    # these data: the implementation raising the same exception class there is the meaning of the equation, not a failure
    oracle_raises = set()
    for ver in ("dyn", "std"):
        row = []
        for e in ordered:
            eqn = e["dyn"] if ver == "dyn" or not e["steady"] else e["steady"]
            sh = tshocks if (ver == "dyn" and e["kind"] == "T") else set()
            exact = L.eqn_is_exact(eqn, subs)
            try:
                if exact:
                    row.append(("D", L.ev_eqn(eqn, data, t, subs, sh, True), 0.0))
                elif all(L.float_exact_tree(p_, subs) for p_ in eqn[1:]) and (eqn[0] == "bare" or not L.additive_top(eqn[2])):
                    # same IEEE operations in the same order on both sides: the doubles must be identical
                    row.append(("F", L.ev_eqn(eqn, data, t, subs, sh, False), L.eqn_scale(eqn, data, t, subs, sh)))
                else:
                    row.append(("T", L.ev_eqn(eqn, data, t, subs, sh, False), L.eqn_scale(eqn, data, t, subs, sh)))
            except (L.NotExact, ZeroDivisionError, OverflowError, ValueError) as exc:
                row.append(("skip", None, 0.0))
                if not isinstance(exc, L.NotExact):
                    oracle_raises.add(type(exc).__name__)
        want.append(row)
    by_kind, descr, log, neq = expected_discrete(sm)
    first_line = None
    for vi, var in enumerate(case["variants"]):
        source, spec, log_choice, features, used = var
        payload = {"stream": "model", "lean": case.get("lean", True), "sm": sm, "source": source, "ctx_spec": spec, "log_choice": log_choice, "features": features, "value_site": value_site,
                   "data": {n: {str(p): str(v) for p, v in row.items()} for n, row in data.items()}, "t": t}
        line, dyn, std = impl_model(source, spec, data, t)
        ctx.evaluations += 1
        for u in used:
            ctx.count("alt:" + u)
        if line == "err:bad":
            m_ = _re_sep.search(source)
            if m_ and any(d[1] == m_.group(1) for d in sm["decls"]):
                # `!!shocks…`: the separator glued to a variable that is spelled like a shortcut keyword
                ctx.fail("steady-separator-shortcut-keyword", payload, f"from_string rejects `!!{m_.group(1)}`: {dyn}")
                continue
            ctx.fail(site_for(features, "source-rejected"), payload, f"from_string raises on a source of the documented language: {dyn}")
            continue
        if std is None:
            if any(name in str(dyn) for name in oracle_raises):
                ctx.count("both-raise-arithmetic-error")
                continue
            site = site_for(features, "equation-evaluation-raises")
            if is_int_power_finding(str(dyn), sm, subs, want):
                site = "integer-constant-to-negative-power"
                ctx.count("int-constant-to-negative-power")
            ctx.fail(site, payload, str(dyn))
            continue
        names_i, descr_i, log_i, neq_i = parse_discrete(line)
        bad = []
        for k in L.KIND_CODES:
            if names_i.get(k) != by_kind[k]:
                bad.append(f"names of kind {k}: {names_i.get(k)} expected {by_kind[k]}")
        extra = set(sum(names_i.values(), [])) - set(descr)
        if any(not (n.startswith("ant_") or n.startswith("std_")) for n in extra):
            bad.append(f"undeclared names exposed: {sorted(extra)}")
        for n, d in descr.items():
            if descr_i.get(n) != d:
                bad.append(f"description of {n}: {descr_i.get(n)!r} expected {d!r}")
        if log_i != log:
            bad.append(f"log status {log_i} expected {log}")
        if neq_i != neq:
            bad.append(f"{neq_i} equations, expected {neq}")
        if bad:
            ctx.fail(site_for(features, "names-kinds-log"), payload, "; ".join(bad[:3]))
        if first_line is None:
            first_line = (line, dyn, std)
        elif line != first_line[0]:
            ctx.fail(site_for(features, "variation-changes-model"), payload, f"discrete part differs from the first rendering: {line[:200]} vs {first_line[0][:200]}")
        # values: oracle
        for ver, got, row in (("dyn", dyn, want[0]), ("std", std, want[1])):
            if len(got) != len(row):
                ctx.fail(site_for(features, "names-kinds-log"), payload, f"{len(got)} {ver} values for {len(row)} equations")
                continue
            for i, (g, (cls, w, scale)) in enumerate(zip(got, row)):
                if cls == "skip" or not math.isfinite(g) and cls == "T" and not math.isfinite(w):
                    ctx.count("value-skipped")
                    continue
                ok = (Fraction(g) == w) if (cls == "D" and math.isfinite(g)) else (cls == "T" and abs(g - w) <= 1e-9 * scale) \
                    or (cls == "F" and (g == w or (g != g and w != w)))
                ctx.count("class-" + cls)
                if not ok:
                    ctx.fail(site_for(features, value_site), dict(payload, equation=i, version=ver),
                             f"{ver} equation {i} evaluates to {g!r}, the equation as written gives {str(w)} (class {cls})")
        # values: Lean model (one reply per variant)
        rep = model_reply[vi] if model_reply else None
        if rep is not None:
            msecs = rep.split(" | ")
            if len(msecs) != 6:
                ctx.disagree("model", payload, line, rep)
                continue
            ctx.streams_compared["model"] = ctx.streams_compared.get("model", 0) + 1
            if " | ".join(msecs[:4]) != line:
                ctx.disagree("model-discrete", {k: payload[k] for k in ("source", "sm", "features")}, line, " | ".join(msecs[:4]))
            for ver, got, sec, row in (("dyn", dyn, msecs[4], want[0]), ("std", std, msecs[5], want[1])):
                mv = sec.split()[1:]
                if len(mv) != len(got):
                    ctx.disagree("model-values", payload, str(got), sec); continue
                for i, (g, m, (cls, _, scale)) in enumerate(zip(got, mv, row)):
                    if cls == "skip":
                        continue
                    if m.startswith("q:"):
                        q = Fraction(m[2:])
                        ok = (Fraction(g) == q) if (cls == "D" and math.isfinite(g)) else abs(g - float(q)) <= 1e-9 * max(scale, 1.0)
                    elif m.startswith("f:"):
                        import struct
                        f = struct.unpack("<d", struct.pack("<Q", int(m[2:])))[0]
                        ok = cls != "D" and (abs(g - f) <= 1e-9 * max(scale, 1.0))
                    else:
                        ok = False
                    if not ok:
                        ctx.disagree("model-values", dict(payload, equation=i, version=ver), repr(g), m)


def gen_model_case(rng: Rng, nvariants: int, shifted_shock: bool):
    sm = L.gen_model(rng.fork("sm"), shifted_shock=shifted_shock)
    data = L.gen_data(rng.fork("data"), sm, T0, T0 - 1)
    variants = []
    for v in range(nvariants):
        R = L.Renderer(rng.fork(f"render{v}"), sm, plain=(v == 0))
        variants.append(R.render())
    return {"sm": sm, "data": data, "t": T0, "variants": variants}


def model_lines(case):
    out = []
    for source, spec, log_choice, features, used in case["variants"]:
        sm2 = dict(case["sm"], log=log_choice)
        out.append(L.enc_model(sm2, case["data"], case["t"]))
    return out


def run_model_stream(ctx: Ctx, n: int, with_model=True):
    rng = ctx.rng.fork("model")
    cases = []
    for i in range(n):
        c = gen_model_case(rng.fork(i), 3 if ctx.quick else 4, shifted_shock=(i % 12 == 7))
        cases.append(c)
    lines = [l for c in cases for l in model_lines(c)]
    replies = ctx.model("C04", lines) if with_model else None
    k = 0
    for c in cases:
        nv = len(c["variants"])
        rep = replies[k:k + nv] if replies is not None else None
        k += nv
        check_model_case(ctx, c, rep)
        sm = c["sm"]
        ctx.count("models")
        ctx.count(f"n_transition_variables={sum(1 for d in sm['decls'] if d[0] == 'tv')}")
        ctx.count("with-family" if sm["family_tokens"] else "no-family")
        pfs = sorted({w for v in c["variants"] for w in v[4] if w.startswith("pf-")})
        ctx.nontriv(("model", len(sm["decls"]), len(sm["eqs"]), tuple(pfs), bool(sm["subs"]), bool(sm["logset"])))
    if cases:
        c = cases[0]
        ctx.sample({"stream": "model", "source": c["variants"][1][0][:600], "features": c["variants"][1][3]})


# ---------------------------------------------------------------------------------------
# the `prep` stream: directive forests
# ---------------------------------------------------------------------------------------
# forest (JSON): list of nodes: ["text", [word...]] | ["for", ctl, toks, body] | ["if", cond, then, else|None]
# word: list of pieces ["lit", s] | ["ctl", name, mode];  toks: ["words", [word...]] | ["ctx", word];  cond: ["eq", w, w] | ["flag", w]

LITS = ["x", "y1", "=", "+", "ab_", "Z", "q;", "_t", "k2", "v_"]
CTLS = ["a", "b", "(c)", "(d1)", "i"]
TOKENS = ["a", "b", "Hh", "s1", "c2", "Q", "x9", "T_1"]


def gen_word(rng, scope):
    ps = []
    for _ in range(rng.randint(1, 3)):
        if scope and rng.chance(0.45):
            c = rng.choice(scope)
            mode = rng.choice(["plain", "plain", "upper", "lower"]) if c.startswith("(") else "plain"
            ps.append(["ctl", c, mode])
        else:
            ps.append(["lit", rng.choice(LITS)])
    # a bare control name followed by a word character would read as a longer control name: keep a separator
    out = []
    for p in ps:
        if out and out[-1][0] == "ctl" and not out[-1][1].startswith("(") and out[-1][2] == "plain" and p[0] == "lit" and (p[1][0].isalnum() or p[1][0] == "_"):
            out.append(["lit", "="])
        if out and out[-1][0] == "ctl" and out[-1][2] != "plain" and p[0] == "lit" and False:
            pass
        out.append(p)
    return out


def gen_forest(rng, depth, scope, ctxspec):
    nodes = []
    for _ in range(rng.randint(1, 3 if depth else 2)):
        c = rng.weighted([("text", 4), ("for", 3 if depth else 0), ("if", 3 if depth else 0)])
        if c == "text":
            nodes.append(["text", [gen_word(rng, scope) for _ in range(rng.randint(1, 3))]])
        elif c == "for":
            free = [x for x in CTLS if x not in scope] + ([""] if not scope and depth == 1 else [])
            if not free:
                continue
            ctl = rng.choice(free)
            if rng.chance(0.3):
                key = f"L{len(ctxspec['lists'])}"
                ctxspec["lists"][key] = rng.sample(TOKENS, rng.randint(0, 3))
                toks = ["ctx", [["lit", key]]]
                if scope and rng.chance(0.4):
                    # a list chosen by the enclosing control: <G_?(c)>
                    outer = rng.choice(scope)
                    toks = ["ctx", [["lit", "G_"], ["ctl", outer, "plain"]]]
                    for tk in TOKENS:
                        ctxspec["lists"].setdefault("G_" + tk, rng.sample(TOKENS, rng.randint(1, 2)))
            else:
                toks = ["words", [[["lit", t]] for t in rng.sample(TOKENS, rng.randint(1, 3))]]
            inner_scope = scope + [ctl] if ctl != "" else scope + [""]
            nodes.append(["for", ctl, toks, gen_forest(rng, depth - 1, inner_scope, ctxspec)])
        else:
            if scope and rng.chance(0.5):
                cond = ["eq", [["ctl", rng.choice(scope), "plain"]], [["lit", rng.choice(TOKENS)]]]
            else:
                key = f"F{len(ctxspec['flags'])}"
                ctxspec["flags"][key] = rng.chance(0.5)
                cond = ["flag", [["lit", key]]]
            th = gen_forest(rng, depth - 1, scope, ctxspec)
            el = gen_forest(rng, depth - 1, scope, ctxspec) if rng.chance(0.55) else None
            nodes.append(["if", cond, th, el])
    return nodes


def flatten(forest):
    out = []
    for n in forest:
        if n[0] == "text":
            out.append(["T", n[1]])
        elif n[0] == "for":
            out.append(["F", n[1], n[2]]); out += flatten(n[3]); out.append(["EN"])
        else:
            out.append(["I", n[1]]); out += flatten(n[2])
            if n[3] is not None:
                out.append(["EL"]); out += flatten(n[3])
            out.append(["EN"])
    return out


def piece_src(p):
    if p[0] == "lit":
        return p[1]
    name, mode = p[1], p[2]
    if mode == "plain":
        return "?" + name
    bare = name[1:-1]
    if mode == "upper":
        return "?{" + bare + "}" if len(bare) % 2 else "?" + name + "|upper"
    return "?[" + bare + "]" if len(bare) % 2 else "?" + name + "|lower"


def word_src(w):
    return "".join(piece_src(p) for p in w)


def piece_enc(p):
    return "L" + p[1] if p[0] == "lit" else "C" + p[2][0] + p[1]


def word_enc(w):
    return ",".join(piece_enc(p) for p in w)


def items_src(items, rng):
    out = []
    for it in items:
        if it[0] == "T":
            out.append(" ".join(word_src(w) for w in it[1]))
        elif it[0] == "F":
            toks = it[2]
            t = ", ".join(word_src(w) for w in toks[1]) if toks[0] == "words" else "<" + word_src(toks[1]) + ">"
            head = f"!for ?{it[1]} = {t} !do" if it[1] != "" or rng.chance(0.5) else f"!for {t} !do"
            out.append(head)
        elif it[0] == "I":
            c = it[1]
            cond = f'"{word_src(c[1])}" == "{word_src(c[2])}"' if c[0] == "eq" else word_src(c[1])
            out.append(f"!if {cond} !then")
        elif it[0] == "EL":
            out.append("!else")
        else:
            out.append("!end")
    return "\n".join(("  " if rng.chance(0.5) else "") + x for x in out) + "\n"


def items_enc(items, ctxspec):
    parts = []
    for it in items:
        if it[0] == "T":
            parts.append("T " + " ".join(word_enc(w) for w in it[1]))
        elif it[0] == "F":
            toks = it[2]
            if toks[0] == "words":
                parts.append(f"F ?{it[1]} W " + " ".join(word_enc(w) for w in toks[1]))
            else:
                parts.append(f"F ?{it[1]} X " + word_enc(toks[1]))
        elif it[0] == "I":
            c = it[1]
            parts.append("I E " + word_enc(c[1]) + " " + word_enc(c[2]) if c[0] == "eq" else "I G " + word_enc(c[1]))
        else:
            parts.append(it[0])
    lists = " ".join(f"{k}={','.join(v)}" for k, v in sorted(ctxspec["lists"].items()))
    flags = " ".join(f"{k}={'T' if v else 'F'}" for k, v in sorted(ctxspec["flags"].items()))
    return "prep " + " / ".join(parts) + " | lists " + lists + " | flags " + flags


def denote(forest, env, ctxspec):
    """plain reading of a directive forest (the oracle): a loop is its body once per token, an if/else selects a branch"""
    def word(w):
        s = ""
        for p in w:
            if p[0] == "lit":
                s += p[1]
            elif p[1] in env:
                tok = env[p[1]]
                s += {"plain": tok, "upper": tok.upper(), "lower": tok.lower()}[p[2]]
            else:
                s += piece_src(p)
        return s
    out = []
    for n in forest:
        if n[0] == "text":
            out += [word(w) for w in n[1]]
        elif n[0] == "for":
            toks = [word(w) for w in n[2][1]] if n[2][0] == "words" else ctxspec["lists"][word(n[2][1])]
            for tk in toks:
                out += denote(n[3], dict(env, **{n[1]: tk}), ctxspec)
        else:
            c = n[1]
            v = (word(c[1]) == word(c[2])) if c[0] == "eq" else ctxspec["flags"][word(c[1])]
            if v:
                out += denote(n[2], env, ctxspec)
            elif n[3] is not None:
                out += denote(n[3], env, ctxspec)
    return out


def impl_prep(src, ctxspec):
    context = {k: list(v) for k, v in ctxspec["lists"].items()}
    context.update(ctxspec["flags"])
    try:
        out, _ = _pp.from_string(src, context=context)
    except Exception as e:
        return "err:bad"
    return " ".join(["ok"] + out.split())


def has_noelse_then_ifelse(forest) -> bool:
    """does the forest contain an `!if` without `!else` and also an `!if ... !else`? (a loop repeats its body, so the two need
    not be written in this order to end up one after the other)"""
    kinds = set()
    def walk(f):
        for n in f:
            if n[0] == "if":
                kinds.add("noelse" if n[3] is None else "ifelse")
                walk(n[2])
                if n[3] is not None: walk(n[3])
            elif n[0] == "for":
                walk(n[3])
    walk(forest)
    return kinds == {"noelse", "ifelse"}


def run_prep_stream(ctx: Ctx, n: int, with_model=True):
    rng = ctx.rng.fork("prep")
    cases, lines, impl = [], [], []
    for i in range(n):
        r = rng.fork(i)
        spec = {"lists": {}, "flags": {}}
        malformed = (i % 5 == 4)
        forest = gen_forest(r, r.randint(1, 3), [], spec)
        items = flatten(forest)
        if malformed and items:
            # break the nesting: drop / duplicate / insert a directive
            j = r.randint(0, len(items) - 1)
            c = r.choice(["drop", "end", "else", "dup"])
            if c == "drop": items.pop(j)
            elif c == "end": items.insert(j, ["EN"])
            elif c == "else": items.insert(j, ["EL"])
            else: items.insert(j, items[j])
        src = items_src(items, r)
        line = items_enc(items, spec)
        out = impl_prep(src, spec)
        case = {"stream": "prep", "source": src, "request": line, "ctx_spec": spec, "forest": None if malformed else forest}
        cases.append(case); lines.append(line); impl.append(out)
        ctx.evaluations += 1
        ctx.count("prep-malformed" if malformed else "prep-wellnested")
        if not malformed:
            want = " ".join(["ok"] + denote(forest, {}, spec))
            depth = max([0] + [s.count("  ") for s in []])
            if out != want:
                site = "if-without-else-before-if-else" if has_noelse_then_ifelse(forest) else "preparser-directives"
                ctx.fail(site, case, f"preparser gives {out[:200]!r}, the directive tree denotes {want[:200]!r}")
            ctx.nontriv(("prep", len(items), sum(1 for it in items if it[0] == "F"), sum(1 for it in items if it[0] == "I"), want.count(" ") > 3))
    if with_model:
        ctx.compare("prep", cases, impl, ctx.model("C04", lines))
    if cases:
        ctx.sample({"stream": "prep", "source": cases[0]["source"], "implementation": impl[0]})


# ---------------------------------------------------------------------------------------
# tables: pseudofunction spellings, keywords, lists
# ---------------------------------------------------------------------------------------

PF_CANON = {"_pseudo_shift": "shift", "_pseudo_diff": "diff", "_pseudo_diff_log": "diffLog", "_pseudo_pct": "pct", "_pseudo_roc": "roc",
            "_pseudo_mov_sum": "movSum", "_pseudo_mov_avg": "movAvg", "_pseudo_mov_prod": "movProd"}


def run_tables(ctx: Ctx, with_model=True):
    names = sorted(set(_pf._PSEUDOFUNC_RESOLUTION) | set(L.PF_SPELLINGS) | {"diflog", "mov", "movmax", "log", "Diff"})
    lines, impl = [], []
    for n in names:
        lines.append(f"pf {n}")
        if n in _pf._PSEUDOFUNC_RESOLUTION:
            f, d = _pf._PSEUDOFUNC_RESOLUTION[n]
            impl.append(f"{PF_CANON.get(f.__name__, f.__name__)} {d}")
        else:
            impl.append("none")
    # keywords: does a block introduced by this keyword declare names of this kind?
    kws = sorted({k for v in L.KEYWORDS.values() for k in v} | {"!variable", "!transition-variable", "!equation", "!exogenous", "!measurement"})
    for kw in kws:
        lines.append(f"kw {kw}")
        impl.append(impl_keyword(kw))
    # lists
    rng = ctx.rng.fork("lists")
    for i in range(ctx.n(40, 400)):
        ws = []
        for _ in range(rng.randint(1, 8)):
            c = rng.weighted([("P", 2), ("T", 4), ("L", 2)])
            if c == "P": ws.append("P" + rng.choice(["x", "yy", "q1"]))
            elif c == "T": ws.append("T" + rng.choice(["a", "b", "cc", "d_1", "e"]) + "`" + rng.choice(["n", "m", "k2"]))
            else: ws.append("L" + rng.choice(["n", "m", "k2", "zz"]))
        lines.append("lists " + " ".join(ws))
        src = "\n".join((w[1:] if w[0] in "PT" else f"!list(`{w[1:]})") for w in ws)
        try:
            out = _pp.from_string(src)[0]
            # the members of a list come out of a set: compare them sorted, line by line
            impl.append("ok " + " ".join(" ".join(sorted(x.strip() for x in ln.split(",") if x.strip())) for ln in out.split("\n")))
        except Exception:
            impl.append("err:bad")
    model = ctx.model("C04", lines) if with_model else None
    if model is not None:
        # the model lists members in order of first appearance: sort each `lists` reply the same way (per source line)
        fixed = []
        for l, m in zip(lines, model):
            if l.startswith("lists ") and m.startswith("ok"):
                ws = l.split()[1:]
                toks = m.split()[1:]
                out, k = [], 0
                # regroup the model's flat reply per request word
                types = {}
                for w in ws:
                    if w[0] == "T":
                        n, t = w[1:].split("`")
                        types.setdefault(t, [])
                        if n not in types[t]: types[t].append(n)
                for w in ws:
                    cnt = 1 if (w[0] in "PT" or not types) else len(types.get(w[1:], []))
                    out.append(" ".join(sorted(toks[k:k + cnt]))); k += cnt
                fixed.append(" ".join(["ok"] + [x for x in out if x]))
            else:
                fixed.append(m)
        ctx.compare("tables", lines, [" ".join(x.split()) for x in impl], fixed)
    ctx.evaluations += len(lines)
    # oracle for lists: every list reference is replaced by exactly the names carrying that type
    # (checked through the correspondence only: the statement has no separate observable for lists)


def impl_keyword(kw):
    """which kind of block does this keyword open in the real parser?"""
    from irispie.parsers import models as _pm
    q = {"transition-variables": "q:tv", "transition-shocks": "q:ts", "measurement-variables": "q:mv", "measurement-shocks": "q:ms",
         "parameters": "q:par", "exogenous-variables": "q:exo"}
    e = {"transition-equations": "e:T", "measurement-equations": "e:M"}
    for src, table in ((f"{kw}\n  qq\n", q), (f"{kw}\n  qq = 1;\n", e)):
        try:
            parsed = _pm.from_string(_pp.from_string(src)[0])
        except Exception:
            continue
        for k, v in table.items():
            if parsed.get(k):
                return v
    return "none"


# ---------------------------------------------------------------------------------------
# the `functions` stream: every function the language offers inside equations, in every documented arity
# ---------------------------------------------------------------------------------------

def live_function_table():
    """names that irispie injects into the globals of every compiled equation (read from the implementation, so that a new
    entry without a documented meaning in the oracle is reported, not silently skipped)"""
    from irispie.aldi import adaptations as _ad
    return sorted(_ad.add_function_adaptations_to_context({}).keys())


def gen_function_case(rng: Rng, fname: str, arity: int):
    """x = <expression around one call of fname with `arity` arguments>; arguments are names, parameters, literals,
    shifted names, expressions and nested calls; arguments that must be positive (log/sqrt argument, standard deviation) are"""
    decls = [["tv", "x", ""], ["tv", "y", ""], ["par", "mu", ""], ["par", "sigma", ""], ["par", "w8", ""], ["exo", "z", ""]]
    pools = {"tv": [("name", "x"), ("name", "y")], "par": [("name", "mu"), ("name", "sigma"), ("name", "w8")], "exo": [("name", "z")]}
    g = L.TreeGen(rng, pools, [], False)
    roles = ["tv", "par", "exo"]
    pos_idx = L.POSITIVE_ARGS.get(fname, ())

    def arg(i):
        if i in pos_idx:
            c = rng.weighted([("par", 3), ("lit", 2), ("pos", 2)])
            if c == "par": return ["name", rng.choice(["sigma", "w8", "mu"]), 0]
            if c == "lit": return ["num", rng.choice(["5/2", "2", "1/2", "3", "5/4", "1/4", "1"])]
            return g.pos(roles, 1)
        c = rng.weighted([("name", 3), ("par", 2), ("lit", 1.5), ("expr", 2), ("call", 1)])
        if c == "name": return g.leaf_name(["tv", "exo"])
        if c == "par": return ["name", rng.choice(["mu", "sigma", "w8"]), 0]
        if c == "lit": return ["num", rng.choice(L.CONSTS)] if rng.chance(0.7) else ["neg", ["num", rng.choice(L.POS_CONSTS)]]
        if c == "expr": return ["bin", rng.choice(["-", "+", "*"]), g.leaf_name(roles), g.leaf_name(roles)]
        return ["fn", rng.choice(["logistic", "abs", "exp"]), [["bin", "-", g.leaf_name(["tv"]), ["name", "mu", 0]]]]
    call = ["fn", fname, [arg(i) for i in range(arity)]]
    if fname == "exp":
        call = ["fn", "exp", [["bin", "-", g.leaf_name(["tv"]), g.leaf_name(["par"])]]]
    wrap = rng.weighted([("bare", 3), ("scaled", 2), ("sum", 2), ("pf", 1)])
    if wrap == "scaled": rhs = ["bin", "*", ["num", rng.choice(L.POS_CONSTS)], call]
    elif wrap == "sum": rhs = ["bin", rng.choice(["+", "-"]), call, g.leaf_name(roles)]
    elif wrap == "pf": rhs = ["bin", "+", call, ["pf", "diff", None, ["name", "y", 0]]]
    else: rhs = call
    eqs = [{"kind": "T", "descr": "", "dyn": ["eq", ["name", "x", 0], rhs], "steady": None},
           {"kind": "T", "descr": "", "dyn": ["eq", ["name", "y", 0], ["bin", "*", ["name", "w8", 0], ["name", "y", -1]]], "steady": None}]
    sm = {"decls": decls, "decl_groups": [], "family_tokens": [], "eqs": eqs, "eq_groups": [], "subs": [], "logset": [], "features": []}
    data = L.gen_data(rng.fork("data"), sm, T0, T0 - 1)
    variants = [L.Renderer(rng.fork(f"render{v}"), sm, plain=(v == 0)).render() for v in range(2)]
    return {"sm": sm, "data": data, "t": T0, "variants": variants, "lean": False}


def run_functions_stream(ctx: Ctx, reps: int):
    rng = ctx.rng.fork("functions")
    live = live_function_table() + sorted(L.context_functions())
    for fname in live:
        if fname not in L.DOCUMENTED_FUNCTIONS:
            ctx.count("function-without-documented-meaning:" + fname)     # new table entry: the oracle has to learn it
            continue
    for fname, (arities, _) in sorted(L.DOCUMENTED_FUNCTIONS.items()):
        for arity in arities:
            for i in range(reps):
                case = gen_function_case(rng.fork(f"{fname}/{arity}/{i}"), fname, arity)
                check_model_case(ctx, {**case}, None, value_site="equation-function-meaning")
                ctx.count(f"function:{fname}/{arity}")
                ctx.nontriv(("function", fname, arity, case["sm"]["eqs"][0]["dyn"][2][0]))


# ---------------------------------------------------------------------------------------
# the `context-values` stream: values that reach the equation text through `<...>`
# ---------------------------------------------------------------------------------------

CONTEXT_FLOATS = [math.exp(-0.2), 1 / 3, 1234.56789, math.pi * 1e-7, 6.02214076e23, 2.5e-11, 0.1 + 0.2, 2 / 3, 1e6 / 7, 0.95 ** 0.25,
                  123456.789e3, 1 - 1e-9, 7.0, 1e16, 1.5e-5, 0.30102999566398120, 9007199254740993.0, 5e-324 * 2 ** 60, 0.5, 17.25]


def gen_context_case(rng: Rng):
    """x = <expression over names and constants that come from `<...>`>: a float of the context, an arithmetic expression
    inside the brackets, an element of a tuple, a numpy scalar, a tuple spliced into a call"""
    decls = [["tv", "x", ""], ["tv", "y", ""], ["par", "a", ""], ["exo", "z", ""]]
    floats, tuples = {}, {}

    def cnum():
        c = rng.weighted([("name", 4), ("expr", 2), ("lit", 2), ("elem", 2)])
        v = rng.choice(CONTEXT_FLOATS)
        if rng.chance(0.2):
            v = rng.random() * 10 ** rng.randint(-9, 9)
        if c == "name":
            key = f"c{len(floats)}"; floats[key] = v.hex(); return ["cnum", key, v.hex()]
        if c == "expr":
            key = f"c{len(floats)}"; floats[key] = v.hex()
            form = rng.choice(["2*{k}", "{k}/3", "{k}**2", "1-{k}", "{k}*{k}/7"])
            val = eval(form.format(k=repr(v)))
            return ["cnum", form.format(k=key), float(val).hex()]
        if c == "lit":
            n, d = rng.randint(1, 99), rng.choice([3, 7, 9, 11, 13, 17, 300, 7e5])
            return ["cnum", f"{n}/{d!r}", float(n / d).hex()]
        key = f"t{len(tuples)}"
        vals = [rng.choice(CONTEXT_FLOATS) for _ in range(rng.randint(2, 4))]
        tuples[key] = [x.hex() for x in vals]
        i = rng.randint(0, len(vals) - 1)
        return ["cnum", f"{key}[{i}]", vals[i].hex()]

    def name():
        return ["name", rng.choice(["x", "y", "a", "z"]), rng.choice([0, 0, -1, 1, -2])]

    def tup():
        f, n = rng.choice([("avg2", 2), ("maximum", 2), ("minimum", 2), ("mix3", 3)])
        key = f"t{len(tuples)}"
        vals = [rng.choice(CONTEXT_FLOATS) if rng.chance(0.8) else rng.random() * 10 ** rng.randint(-6, 6) for _ in range(n)]
        tuples[key] = [x.hex() for x in vals]
        return ["fntuple", f, key, [x.hex() for x in vals]]

    def tree(d):
        if d == 0:
            return rng.weighted([(cnum, 4), (name, 3), (tup, 1)])()
        c = rng.weighted([("+", 3), ("-", 2), ("*", 4), ("/", 1.5), ("neg", 0.5), ("leaf", 2)])
        if c == "leaf": return tree(0)
        if c == "neg": return ["neg", tree(d - 1)]
        if c == "/": return ["bin", "/", tree(d - 1), cnum() if rng.chance(0.6) else name()]
        return ["bin", c, tree(d - 1), tree(d - 1)]
    rhs = tree(rng.randint(0, 2))
    if rng.chance(0.7):
        # a product / quotient on top: `-(lhs)+rhs` then performs exactly the operations of `rhs - lhs` (class F, bit-exact)
        rhs = ["bin", rng.choice(["*", "*", "/"]), rhs, cnum()] if rng.chance(0.5) else ["bin", "*", cnum(), rhs]
    if rhs[0] not in ("cnum",) and "cnum" not in json.dumps(rhs) and "fntuple" not in json.dumps(rhs):
        rhs = ["bin", "*", cnum(), rhs]
    eqs = [{"kind": "T", "descr": "", "dyn": ["eq", ["name", "x", 0], rhs], "steady": None if rng.chance(0.7) else ["eq", ["name", "x", 0], cnum()]},
           {"kind": "T", "descr": "", "dyn": ["eq", ["name", "y", 0], ["bin", "*", ["name", "a", 0], ["name", "y", -1]]], "steady": None}]
    sm = {"decls": decls, "decl_groups": [], "family_tokens": [], "eqs": eqs, "eq_groups": [], "subs": [], "logset": [], "features": []}
    data = L.gen_data(rng.fork("data"), sm, T0, T0 - 1)
    variants = []
    for v in range(2):
        src, spec, lc, feats, used = L.Renderer(rng.fork(f"render{v}"), sm, plain=(v == 0)).render()
        spec = dict(spec, floats=dict(floats), tuples=dict(tuples), numpy_scalars=(v == 1))
        variants.append((src, spec, lc, feats, used))
    return {"sm": sm, "data": data, "t": T0, "variants": variants, "lean": False}


def run_context_values_stream(ctx: Ctx, n: int):
    rng = ctx.rng.fork("context-values")
    for i in range(n):
        case = gen_context_case(rng.fork(i))
        check_model_case(ctx, case, None, value_site="contextual-expression-value")
        ctx.count("context-value-models")
        ctx.nontriv(("ctxval", json.dumps(case["sm"]["eqs"][0]["dyn"][2])[:40]))


# ---------------------------------------------------------------------------------------
# round 4: keyword normaliser, substitution resolver, token parser (each modelled in Lean: Model/ModelLangTok.lean)
# ---------------------------------------------------------------------------------------

def run_kwnorm_stream(ctx: Ctx, n: int):
    """source words through `_expand_shortcut_keywords` + `_replace_underscores_by_hyphens` vs `normaliseKeywords`"""
    from irispie.parsers import models as _pm
    rng = ctx.rng.fork("kwnorm")
    fixed = sorted({k for v in L.KEYWORDS.values() for k in v}) + ["!!", "!!k_ss", "!!x_1", "k_ss", "x_1_2", "!k_ss", "!foo_bar", "!ab__c", "!a1_b",
             "!_x", "!ab_", "!for", "!if", "!end", "!list", "!steady_autovalues", "!autoswaps_simulate", "!autoswaps_steady", "!preprocessor",
             "!postprocessor", "!substitutions", "!!shocks", "!!variables", "!!equations", "!!shocks_1", "!Transition_variables", "!transition_Variables", "!!transition_variables", "a!!b_c", "=", "x{-1}"]
    words = list(fixed)
    for _ in range(n):
        w = rng.choice(["", "", "!", "!", "!!"]) + "".join(rng.choice("abzq_-1A") for _ in range(rng.randint(0, 8)))
        if w:
            words.append(w)
    lines, impl = [], []
    for i in range(0, len(words), 6):
        ws = words[i:i + 6]
        lines.append("kwnorm " + " ".join(ws))
        impl.append(" ".join(["ok"] + [_pm._replace_underscores_by_hyphens(_pm._expand_shortcut_keywords(w)) for w in ws]))
    ctx.compare("kwnorm", lines, impl, ctx.model("C04", lines))
    ctx.evaluations += len(words)
    # oracle (from the statement: aliases are the same keyword; names and the `!!` separator are not keywords)
    canon = {}
    for kind, alts in L.KEYWORDS.items():
        for a in alts:
            got = _pm._replace_underscores_by_hyphens(_pm._expand_shortcut_keywords(a))
            canon.setdefault(kind, set()).add(got)
    for kind, outs in canon.items():
        if len(outs) != 1:
            ctx.fail("keyword-aliases", {"stream": "kwnorm", "kind": kind}, f"aliases of one keyword normalise to different keywords: {sorted(outs)}")
    for w in ["!!k_ss", "k_ss", "!!", "x_1_2", "!!x_1", "a!!b_c", "!!shocks", "!!variables", "!!equations", "!!shocks_1", "x=1!!equations"]:
        got = _pm._replace_underscores_by_hyphens(_pm._expand_shortcut_keywords(w))
        if got != w:
            site = "steady-separator-shortcut-keyword" if any(k in w for k in ("!!shocks", "!!variables", "!!equations")) else "keyword-normaliser-touches-names"
            ctx.fail(site, {"stream": "kwnorm", "word": w}, f"{w!r} became {got!r}")


def run_subs_stream(ctx: Ctx, n: int):
    """`resolve_substitutions` on consecutive sources of one process that reuse the same substitution names with different
    bodies, vs `resolveSubstitutions` (a function of this source's definitions only)"""
    from irispie.parsers import _substitutions as _sb
    rng = ctx.rng.fork("subs")
    words = ["a", "x{-1}", "+", "*", "(", ")", "b_1", "2.5", "-", "log(y)", "^", "c"]
    lines, impl, cases = [], [], []
    for i in range(n):
        names = [rng.choice(["s0", "s1", "s2", "drift"]) for _ in range(rng.randint(0, 3))]
        defs = [(nm, [rng.choice(words) for _ in range(rng.randint(1, 4))]) for nm in names]
        eq = [rng.choice(words) if rng.chance(0.6) else "$" + rng.choice(["s0", "s1", "s2", "drift", "s9"]) + "$" for _ in range(rng.randint(1, 7))]
        lines.append("subs " + " ".join(f"{nm}={','.join(b)}" for nm, b in defs) + " | " + " ".join(eq))
        parsed = {"transition-equations": [("", (" ".join(eq), " ".join(reversed(eq))), ())]}
        if defs:
            parsed["substitutions"] = [("", (nm + rng.choice(["=", ":="]) + " ".join(b), ""), ()) for nm, b in defs]
        try:
            out = _sb.resolve_substitutions(parsed, ["transition-equations", "measurement-equations"])
            dyn, std = out["transition-equations"][0][1]
            got = "ok " + " ".join(dyn.split())
            # oracle: plain textual replacement with this source's own (last) definitions
            d = {}
            for nm, b in defs:
                d[nm] = " ".join(b)
            want = " ".join((d.get(t[1:-1], t) if t.startswith("$") else t) for t in eq)
            if " ".join(dyn.split()) != " ".join(want.split()):
                ctx.fail("substitution-resolver", {"stream": "subs", "request": lines[-1], "history": lines[-500:-1]},
                         f"resolved to {dyn!r}, this source's definitions give {want!r}")
        except Exception as e:
            got = "err:bad"
        impl.append(got)
        ctx.evaluations += 1
    ctx.compare("subs", lines, impl, ctx.model("C04", lines))


import re as _re
_TOKEN_RE = _re.compile(r"\s*(?:(\d+\.?\d*(?:e[+-]?\d+)?|\.\d+)|([A-Za-z]\w*)((?:\{[^}]*\}|\[[^\]]*\])?)|(\*\*|:=|[-+*/^(),=]))")


def tokenise(text: str):
    """character level -> tokens of the Lean parser (trusted harness code): numbers, names with their shift, function names
    (a name followed by `(`), operators with `**` -> `^` and `:=` -> `=`"""
    out, i = [], 0
    text = text.strip()
    while i < len(text):
        m = _TOKEN_RE.match(text, i)
        if not m:
            raise ValueError(text[i:i + 20])
        i = m.end()
        if m.group(1):
            out.append("#" + L.rat_text(Fraction(m.group(1))))
        elif m.group(2):
            if text[i:].lstrip().startswith("(") and not m.group(3):
                out.append("F:" + m.group(2))
            else:
                k = int(m.group(3)[1:-1].replace(" ", "")) if m.group(3) else 0
                out.append(f"n:{m.group(2)}:{k}")
        else:
            out.append({"**": "^", ":=": "="}.get(m.group(4), m.group(4)))
    return out


def full_text(tree, rng):
    """the fully parenthesised spelling (`printFull` of the Lean model) with the free choices of the language"""
    k = tree[0]
    sp = lambda: rng.choice(["", " ", " "])
    if k == "num":
        q = Fraction(tree[1])
        return str(q.numerator) if q.denominator == 1 else repr(float(q))
    if k == "name":
        if tree[2] == 0: return tree[1]
        b = rng.choice(["%d", "%+d", " %+d "]) % tree[2]
        return tree[1] + (("{" + b + "}") if rng.chance(0.5) else ("[" + b + "]"))
    if k == "neg": return "(" + sp() + "-" + sp() + full_text(tree[1], rng) + sp() + ")"
    if k == "bin":
        op = tree[1] if tree[1] != "^" else rng.choice(["^", "**"])
        return "(" + sp() + full_text(tree[2], rng) + sp() + op + sp() + full_text(tree[3], rng) + sp() + ")"
    if k == "f1": return tree[1] + "(" + sp() + full_text(tree[2], rng) + sp() + ")"
    if k == "f2": return tree[1] + "(" + full_text(tree[2], rng) + sp() + "," + sp() + full_text(tree[3], rng) + ")"
    raise ValueError(tree)


_PREC = {"+": 1, "-": 1, "*": 2, "/": 2, "neg": 3, "^": 4}


def min_text(tree, rng, need=0):
    """minimally parenthesised spelling by Python's precedence rules (a parenthesis only where the tree shape needs one, plus
    a few redundant ones): left-associative `+ - * /`, right-associative `^` whose exponent may carry a unary minus,
    unary minus looser than `^` on its left and tighter than `* /`"""
    k = tree[0]
    sp = lambda: rng.choice(["", " "])
    if k in ("num", "name"):
        return full_text(tree, rng)
    if k == "f1":
        return tree[1] + "(" + sp() + min_text(tree[2], rng) + sp() + ")"
    if k == "f2":
        return tree[1] + "(" + min_text(tree[2], rng) + sp() + "," + sp() + min_text(tree[3], rng) + ")"
    if k == "neg":
        txt, p = "-" + sp() + min_text(tree[1], rng, 3), 3
    else:
        op = tree[1]
        p = _PREC[op]
        if op == "^":
            txt = min_text(tree[2], rng, 5) + sp() + rng.choice(["^", "**"]) + sp() + min_text(tree[3], rng, 3)
        else:
            txt = min_text(tree[2], rng, p) + sp() + op + sp() + min_text(tree[3], rng, p + 1)
    if p < need or rng.chance(0.05):
        txt = "(" + sp() + txt + sp() + ")"
    return txt


JINJA_KEYS_V = ["n1", "n2", "sector"]
JINJA_KEYS_F = ["f1", "f2", "open_economy"]


def jinja_exec(ctx: Ctx, case, history):
    """one templated source through the real preparser with its own context; oracle = the single-call meaning of the template
    (an undefined variable prints nothing, an undefined flag is false), whatever was rendered before in this process"""
    pieces, cvars, cflags, use_none = case["pieces"], case["vars"], case["flags"], case["none"]
    src, want = [], []
    for p in pieces:
        if p[0] == "T":
            src.append(p[1]); want.append(p[1])
        elif p[0] == "V":
            src.append("{{ " + p[1] + " }}" if len(p[1]) % 2 else "{{" + p[1] + "}}")
            if p[1] in cvars: want.append(str(cvars[p[1]]))
        else:
            _, f, neg, th, el = p
            cond = ("not " if neg else "") + f
            src.append("{% if " + cond + " %} " + " ".join(th) + (" {% else %} " + " ".join(el) if el else "") + " {% endif %}")
            want += th if (bool(cflags.get(f, False)) != neg) else el
    source = "\n".join(src) + "\n"
    context = None if use_none else {**cvars, **cflags}
    try:
        out = _pp.from_string(source, context=context)[0].split()
    except Exception as e:
        out = ["err:", type(e).__name__]
    ctx.evaluations += 1
    if out != want:
        ctx.fail("jinja-context-leaks-between-calls" if history else "jinja-rendering",
                 {"stream": "jinja", "case": case, "history": history},
                 f"preparsed text {' '.join(out)!r}, this call's own context gives {' '.join(want)!r}")
    return " ".join(["ok"] + out)


def jinja_line(case):
    enc = []
    for p in case["pieces"]:
        if p[0] == "T": enc.append("T:" + p[1])
        elif p[0] == "V": enc.append("V:" + p[1])
        else: enc.append(f"I:{p[1]}:{1 if p[2] else 0}:{','.join(p[3])}:{','.join(p[4])}")
    return ("jinja vars " + " ".join(f"{k}={v}" for k, v in sorted(case["vars"].items())) + " | flags "
            + " ".join(f"{k}={'T' if v else 'F'}" for k, v in sorted(case["flags"].items())) + " | " + " ".join(enc))


def run_jinja_stream(ctx: Ctx, n: int):
    """consecutive `from_string` calls in one process with templated sources whose contexts define / omit the same keys"""
    rng = ctx.rng.fork("jinja")
    words = ["x1", "=", "a_b", "+", "y", ";", "k2"]
    templates = []
    for _ in range(6):
        ps = []
        for _ in range(rng.randint(2, 6)):
            c = rng.weighted([("T", 3), ("V", 2), ("I", 2)])
            if c == "T": ps.append(["T", rng.choice(words)])
            elif c == "V": ps.append(["V", rng.choice(JINJA_KEYS_V)])
            else:
                ps.append(["I", rng.choice(JINJA_KEYS_F), rng.chance(0.3), [rng.choice(words) for _ in range(rng.randint(1, 2))],
                           [rng.choice(words) for _ in range(rng.randint(0, 2))]])
        templates.append(ps)
    lines, impl, hist = [], [], []
    for i in range(n):
        cvars = {k: rng.choice(["alpha", "b2", 7, "zz"]) for k in JINJA_KEYS_V if rng.chance(0.4)}
        cflags = {k: rng.chance(0.6) for k in JINJA_KEYS_F if rng.chance(0.4)}
        use_none = (not cvars and not cflags) and rng.chance(0.5)
        case = {"pieces": rng.choice(templates), "vars": cvars, "flags": cflags, "none": use_none}
        impl.append(jinja_exec(ctx, case, hist[-40:]))
        lines.append(jinja_line(case))
        hist.append(case)
    ctx.compare("jinja", lines, impl, ctx.model("C04", lines))


def run_stringify_stream(ctx: Ctx, n: int):
    """`preparser._stringify` on ints, floats given by at most 15 significant decimal digits, and tuples/lists of them, vs the
    Lean `stringifyList` (text) -- and the oracle: the text re-read as a number is the value (no digit is dropped)"""
    rng = ctx.rng.fork("stringify")
    lines, impl, cases = [], [], []
    for i in range(n):
        vals = []
        for _ in range(rng.weighted([(1, 5), (2, 2), (3, 1), (4, 1)])):
            c = rng.weighted([("int", 2), ("whole", 1), ("dec", 6)])
            if c == "int":
                vals.append((rng.randint(-10 ** rng.randint(0, 12), 10 ** rng.randint(0, 12)), 0, int))
            elif c == "whole":
                vals.append((rng.randint(-9999, 9999) * 10, 1, float))
            else:
                k = rng.randint(1, 12)
                digs = rng.randint(1, min(15, k + 4))
                m = rng.randint(1, 10 ** digs - 1)
                if m % 10 == 0: m += 1
                if len(str(m)) <= k and k > 4:
                    # python prints 1e-05 and smaller in exponent form: stay with plain decimals
                    m += 10 ** (k - 1) * rng.randint(1, 9) if k <= 15 else 0
                    if len(str(m)) > 15: continue
                vals.append((m * (-1 if rng.chance(0.3) else 1), k, float))
        if not vals:
            continue
        pyvals = [(n_ if ty is int else float(Fraction(n_, 10 ** k))) for n_, k, ty in vals]
        obj = pyvals[0] if len(pyvals) == 1 else (tuple(pyvals) if rng.chance(0.5) else list(pyvals))
        text = _pp._stringify(obj)
        # oracle: every element re-read gives the value back exactly
        back = [Fraction(t) for t in text.split(",")]
        want = [Fraction(n_, 10 ** k) for n_, k, ty in vals]
        ctx.evaluations += 1
        if back != want:
            ctx.fail("contextual-expression-value", {"stream": "stringify", "values": [str(w) for w in want]},
                     f"_stringify gives {text!r}: re-read {[str(b) for b in back]}, the values are {[str(w) for w in want]}")
        lines.append("strfy " + " ".join(f"{Fraction(n_, 10 ** k).numerator}/{Fraction(n_, 10 ** k).denominator}@{k}" for n_, k, ty in vals))
        impl.append("ok " + text + " | " + " ".join(L.rat_text(b) for b in back))
    ctx.compare("stringify", lines, impl, ctx.model("C04", lines))


def run_parse_stream(ctx: Ctx, n: int, prec=False):
    """print -> text -> tokens -> Lean `parseEqn` -> translate -> evaluate, against irispie on the same text and the structure"""
    rng = ctx.rng.fork("pparse" if prec else "parse")
    printer = min_text if prec else full_text
    opname = "pparse" if prec else "parse"
    decls = [["tv", "x", ""], ["tv", "y", ""], ["par", "a", ""], ["par", "b", ""], ["exo", "z", ""]]
    pools = {"tv": [("name", "x"), ("name", "y")], "par": [("name", "a"), ("name", "b")], "exo": [("name", "z")]}
    lines, cases = [], []
    for i in range(n):
        r = rng.fork(i)
        g = L.TreeGen(r, pools, [], False)
        for _ in range(20):
            tr = g.tree(["tv", "par", "exo"], r.randint(1, 3), r.chance(0.6))
            if not any(w in json.dumps(tr) for w in ('"pf"', '"subs"', '"forsum"')):
                break
        else:
            tr = ["name", "y", -1]
        lhs = ["name", "x", 0] if r.chance(0.8) else ["bin", "*", ["name", "x", 0], ["name", "a", 0]]
        eqn = ["eq", lhs, tr] if r.chance(0.9) else ["bare", ["bin", "-", lhs, tr]]
        text = (printer(eqn[1], r) + r.choice([" = ", ":=", "="]) + printer(eqn[2], r)) if eqn[0] == "eq" else printer(eqn[1], r)
        eqs = [{"kind": "T", "descr": "", "dyn": eqn, "steady": None},
               {"kind": "T", "descr": "", "dyn": ["eq", ["name", "y", 0], ["bin", "*", ["name", "a", 0], ["name", "y", -1]]], "steady": None}]
        sm = {"decls": decls, "decl_groups": [], "family_tokens": [], "eqs": eqs, "eq_groups": [], "subs": [], "logset": [], "features": []}
        data = L.gen_data(r.fork("data"), sm, T0, T0 - 1)
        source = f"!variables\n  x, y\n!parameters\n  a, b\n!exogenous-variables\n  z\n!equations\n  {text};\n  y = a*y{{-1}};\n"
        spec = {"vals": {}, "strs": {}, "lists": {}, "flags": {}, "ints": {}}
        case = {"sm": sm, "data": data, "t": T0, "variants": [(source, spec, {"allbut": False, "listed": []}, [], [])], "lean": False}
        check_model_case(ctx, case, None)
        rows = " ".join(f"{nm}={min(data[nm])}:" + ",".join(L.rat_text(data[nm][p]) for p in sorted(data[nm])) for nm in sorted(data))
        lines.append(f"{opname} {T0} " + " ".join(tokenise(text)) + " | " + rows)
        cases.append((eqn, source, spec, data, text))
    replies = ctx.model("C04", lines)
    if replies is None:
        return
    for (eqn, source, spec, data, text), rep in zip(cases, replies):
        ctx.streams_compared[opname] = ctx.streams_compared.get(opname, 0) + 1
        case = {"stream": opname, "text": text}
        parts = rep.split(" | ")
        if prec and len(parts) == 2:
            parts = [parts[0], "T", parts[1]]
        if len(parts) != 3 or parts[0] != "ok " + L.enc_eqn(eqn) or parts[1] != "T":
            ctx.disagree(opname, case, "ok " + L.enc_eqn(eqn) + " | T", rep)
            continue
        line, dyn, std = impl_model(source, spec, data, T0)
        if std is None and is_int_power_finding(str(dyn), {"eqs": [{"dyn": eqn, "steady": None}]}, {}):
            continue          # reported by check_model_case above under its own site; nothing to compare
        if std is None or not parts[2].startswith(("q:", "f:")):
            ctx.disagree("parse", case, str(dyn), rep); continue
        g = dyn[0]
        if parts[2].startswith("q:"):
            q = Fraction(parts[2][2:])
            ok = (Fraction(g) == q) if (L.eqn_is_exact(eqn, {}) and math.isfinite(g)) else abs(g - float(q)) <= 1e-9 * max(1.0, abs(float(q)), L.eqn_scale(eqn, data, T0, {}, set()))
        else:
            import struct
            f = struct.unpack("<d", struct.pack("<Q", int(parts[2][2:])))[0]
            ok = abs(g - f) <= 1e-9 * max(1.0, L.eqn_scale(eqn, data, T0, {}, set())) or (g != g and f != f)
        if not ok:
            ctx.disagree("parse-values", case, repr(g), parts[2])


# ---------------------------------------------------------------------------------------
# entry points
# ---------------------------------------------------------------------------------------

def subs_exec(ctx: Ctx, line: str, history):
    """one `subs` request line on the real resolver + the oracle (used by replays)"""
    from irispie.parsers import _substitutions as _sb
    dpart, epart = line[len("subs "):].split(" | ") if " | " in line else ("", line[len("subs | "):])
    defs = [(w.split("=", 1)[0], w.split("=", 1)[1].split(",")) for w in dpart.split()]
    eq = epart.split()
    parsed = {"transition-equations": [("", (" ".join(eq), ""), ())]}
    if defs:
        parsed["substitutions"] = [("", (nm + "=" + " ".join(b), ""), ()) for nm, b in defs]
    dyn = _sb.resolve_substitutions(parsed, ["transition-equations"])["transition-equations"][0][1][0]
    d = {}
    for nm, b in defs:
        d[nm] = " ".join(b)
    want = " ".join((d.get(t[1:-1], t) if t.startswith("$") else t) for t in eq)
    ctx.evaluations += 1
    if " ".join(dyn.split()) != " ".join(want.split()):
        ctx.fail("substitution-resolver", {"stream": "subs", "request": line, "history": history},
                 f"resolved to {dyn!r}, this source's definitions give {want!r}")


def replay_payload(ctx: Ctx, p, with_model=True):
    if p.get("stream") == "jinja":
        hist = list(p.get("history", []))
        for i, c in enumerate(hist):
            jinja_exec(ctx, c, hist[:i])
        jinja_exec(ctx, p["case"], hist)
        return
    if p.get("stream") == "stringify":
        run_stringify_stream(ctx, 400)
        return
    if p.get("stream") == "kwnorm":
        run_kwnorm_stream(ctx, 0)
        return
    if p.get("stream") == "subs":
        hist = list(p.get("history", []))
        for i, l in enumerate(hist + [p["request"]]):
            subs_exec(ctx, l, hist[:i])
        return
    if p.get("stream") == "prep":
        out = impl_prep(p["source"], p["ctx_spec"])
        ctx.evaluations += 1
        if p.get("forest") is not None:
            want = " ".join(["ok"] + denote(p["forest"], {}, p["ctx_spec"]))
            if out != want:
                site = "if-without-else-before-if-else" if has_noelse_then_ifelse(p["forest"]) else "preparser-directives"
                ctx.fail(site, p, f"preparser gives {out[:200]!r}, the directive tree denotes {want[:200]!r}")
        if with_model:
            ctx.compare("prep", [p], [out], ctx.model("C04", [p["request"]]))
        return
    if p.get("stream") == "model":
        data = {n: {int(k): Fraction(v) for k, v in row.items()} for n, row in p["data"].items()}
        case = {"sm": p["sm"], "data": data, "t": p["t"],
                "variants": [(p["source"], p["ctx_spec"], p["log_choice"], p.get("features", []), [])]}
        rep = ctx.model("C04", model_lines(case)) if (with_model and p.get("lean", True)) else None
        case["lean"] = p.get("lean", True)
        check_model_case(ctx, case, rep, p.get("value_site", "equation-meaning"))


def run_corpus(ctx: Ctx):
    for f in sorted(glob.glob(os.path.join(VERIF, "corpus", "C04", "*.json"))):
        p = json.load(open(f))
        replay_payload(ctx, p.get("case", p))
        ctx.count("corpus")


def run(ctx: Ctx):
    ctx.rule = ("model stream: a structured model (1-7 transition variables incl. a sector family, shocks, parameters, exogenous and "
                "measurement blocks, substitutions, log-variables) rendered 3-4 times with random syntactic alternatives; distinct_nontrivial "
                "counts distinct (number of declarations, number of equations, set of pseudofunctions used, substitutions?, log-variables?) "
                "and, for the prep stream, distinct (items, #for, #if, non-trivial output) shapes of directive sequences")
    run_corpus(ctx)
    run_tables(ctx)
    run_kwnorm_stream(ctx, ctx.n(600, 20000))
    run_subs_stream(ctx, ctx.n(400, 10000))
    run_parse_stream(ctx, ctx.n(150, 3000))
    run_parse_stream(ctx, ctx.n(250, 5000), prec=True)
    run_stringify_stream(ctx, ctx.n(400, 8000))
    run_jinja_stream(ctx, ctx.n(300, 6000))
    run_functions_stream(ctx, ctx.n(8, 120))
    run_context_values_stream(ctx, ctx.n(150, 3000))
    run_prep_stream(ctx, ctx.n(2500, 60000))
    run_model_stream(ctx, ctx.n(450, 14000))


def search(ctx: Ctx, seeds):
    """failing-input search on the real code (oracles only), seeded by the disagreeing cases"""
    for c in seeds:
        if isinstance(c, dict) and c.get("stream") in ("model", "prep"):
            try:
                replay_payload(ctx, c, with_model=False)
            except Exception:
                pass
        elif isinstance(c, dict) and "source" in c and "sm" in c:
            pass
    run_functions_stream(ctx, 40)
    run_context_values_stream(ctx, 1500)
    run_prep_stream(ctx, 6000, with_model=False)
    run_model_stream(ctx, 1200, with_model=False)


def replay(ctx: Ctx, payload):
    replay_payload(ctx, payload.get("case", payload))
