/-
Lemmas for the CSV round-trip theorem of property C19 (IrisVerif/Props/C19.lean: `csv_roundtrip`).
-/
import IrisVerif.Lemmas.GridCodec

namespace IrisVerif.Grid
open IrisVerif.Databox
open IrisVerif.Dates (Err R)

/-! ### 2. generic list facts -/

theorem map_getElem?_range {α β : Type} (l : List α) (h : Option α → β) :
    (List.range l.length).map (fun i => h l[i]?) = l.map (fun t => h (some t)) := by
  induction l with
  | nil => rfl
  | cons a l ih =>
    simp only [List.length_cons, List.range_succ_eq_map, List.map_cons, List.map_map]
    simp only [List.getElem?_cons_zero, List.cons.injEq, true_and]
    rw [← ih]
    apply List.map_congr_left
    intro i _
    simp

theorem range_split (n k : Nat) : List.range (n + k) = List.range n ++ List.range' n k := by
  rw [List.range_eq_range', List.range_eq_range', ← List.range'_append_1]
  simp

theorem filter_lt_range (n T : Nat) (h : n ≤ T) : (List.range T).filter (fun i => decide (i < n)) = List.range n := by
  obtain ⟨k, rfl⟩ : ∃ k, T = n + k := ⟨T - n, by omega⟩
  rw [range_split, List.filter_append]
  have h1 : (List.range n).filter (fun i => decide (i < n)) = List.range n := by
    apply List.filter_eq_self.mpr
    intro i hi
    simpa using List.mem_range.mp hi
  have h2 : (List.range' n k).filter (fun i => decide (i < n)) = [] := by
    apply List.filter_eq_nil_iff.mpr
    intro i hi
    have := (List.mem_range'_1.mp hi).1
    simp; omega
  rw [h1, h2, List.append_nil]

theorem mapM_ok {α β : Type} (f : α → R β) (g : α → β) (l : List α) (h : ∀ x ∈ l, f x = .ok (g x)) :
    l.mapM f = .ok (l.map g) := by
  induction l with
  | nil => rfl
  | cons a l ih =>
    rw [List.mapM_cons, h a (by simp), ih (fun x hx => h x (List.mem_cons_of_mem _ hx))]
    rfl

section
variable {V : Type}

/-! ### 3. the grid row by row -/

def widths (Bs : List (Block V)) : Nat := (Bs.map Block.width).sum

theorem flatMap_seg_length (seg : Block V → List String) (Bs : List (Block V)) (h : ∀ x ∈ Bs, (seg x).length = x.width) :
    (Bs.flatMap seg).length = widths Bs := by
  induction Bs with
  | nil => rfl
  | cons b bs ih =>
    simp only [List.flatMap_cons, List.length_append, widths, List.map_cons, List.sum_cons]
    rw [h b (by simp), ih (fun x hx => h x (List.mem_cons_of_mem _ hx))]
    rfl

/-- the cells of a block in a row that is the concatenation of one segment per block -/
theorem seg_slice (seg : Block V → List String) (B1 B2 : List (Block V)) (b : Block V)
    (h : ∀ x ∈ B1, (seg x).length = x.width) (x0 : String) (body : List String) (hb : seg b = x0 :: body)
    (hw : body.length = b.width - 1) :
    sliceRow ⟨b.freq, widths B1, b.width - 1⟩ ((B1 ++ b :: B2).flatMap seg) = body
      ∧ dateCell ⟨b.freq, widths B1, b.width - 1⟩ ((B1 ++ b :: B2).flatMap seg) = x0 := by
  have := slice_at b.freq (B1.flatMap seg) x0 body (B2.flatMap seg)
  rw [flatMap_seg_length seg B1 h, hw] at this
  simpa [List.flatMap_append, hb] using this

/-- data row `i` of a block as it stands in the file: the row of its `i`-th period, or the empty padding row -/
def Block.gridRow (c : Codec V) (b : Block V) (i : Nat) : List String :=
  match b.periods[i]? with
  | some t => b.dataRow c t
  | none => b.emptyRow

theorem dataPart_eq (c : Codec V) (b : Block V) (total : Nat) (h : b.periods.length ≤ total) :
    b.periods.map (b.dataRow c) ++ List.replicate (total - b.periods.length) b.emptyRow
      = (List.range total).map (b.gridRow c) := by
  obtain ⟨k, rfl⟩ : ∃ k, total = b.periods.length + k := ⟨total - b.periods.length, by omega⟩
  rw [range_split, List.map_append]
  congr 1
  · have := map_getElem?_range b.periods (fun o => match o with | some t => b.dataRow c t | none => b.emptyRow)
    exact this.symm
  · have hk : b.periods.length + k - b.periods.length = k := by omega
    rw [hk]
    symm
    have e : List.replicate k b.emptyRow = List.replicate (List.range' b.periods.length k).length b.emptyRow := by simp
    rw [e, List.map_eq_replicate_iff]
    intro i hi
    have := (List.mem_range'_1.mp hi).1
    simp only [Block.gridRow]
    rw [List.getElem?_eq_none (by omega)]

theorem zipRowsN_range (T : Nat) (g : Block V → Nat → List String) (Bs : List (Block V)) :
    zipRowsN T (Bs.map (fun b => (List.range T).map (g b))) = (List.range T).map (fun i => Bs.flatMap (fun b => g b i)) := by
  induction Bs with
  | nil =>
    simp only [List.map_nil, zipRowsN, List.flatMap_nil]
    rw [List.map_const', List.length_range]
  | cons b bs ih =>
    simp only [List.map_cons, zipRowsN, ih, List.flatMap_cons]
    rw [List.zipWith_map, List.zipWith_self]

end

/-! ### 1. column iterator with arbitrary cells under the continuation marks -/

theorem colScan_starsG (cs : ColSpec) (l : List (String × String)) (hl : ∀ q ∈ l, q.1 = "*") (i : Nat)
    (tl : List (String × String)) :
    colScan (some cs) i (l ++ tl) = colScan (some { cs with count := cs.count + l.length }) (i + l.length) tl := by
  induction l generalizing cs i with
  | nil => simp
  | cons q rest ih =>
    obtain ⟨n, d⟩ := q
    have hn : n = "*" := hl (n, d) (by simp)
    subst hn
    simp only [List.cons_append, colScan]
    simp only [ne_eq, not_true_eq_false, if_false, if_true, List.nil_append]
    rw [ih _ (fun q hq => hl q (List.mem_cons_of_mem _ hq))]
    simp only [List.length_cons, Nat.add_assoc, Nat.add_comm 1 rest.length]

section
variable {V : Type}

/-- the (name, description) pairs the column iterator sees for one series: `dh` is the cell under the name, `dc` the
cell under every continuation mark -/
def pairCellsG (dh : String × Ser V → String) (dc : String) (p : String × Ser V) : List (String × String) :=
  (p.1, dh p) :: List.replicate (p.2.nv - 1) ("*", dc)

def colsOfG (dh : String × Ser V → String) (off : Nat) : List (String × Ser V) → List ColSpec
  | [] => []
  | p :: ps => ⟨off, p.2.nv, p.1, dh p⟩ :: colsOfG dh (off + p.2.nv) ps

theorem pairG_head_not_star (dh : String × Ser V → String) (dc : String) (ps : List (String × Ser V)) (h : GoodNames ps)
    (e : String) (z : List (String × String)) :
    ∃ n d tl, ps.flatMap (pairCellsG dh dc) ++ ("", e) :: z = (n, d) :: tl ∧ n ≠ "*" := by
  cases ps with
  | nil => exact ⟨"", e, z, rfl, by decide⟩
  | cons q rest =>
    exact ⟨q.1, dh q, List.replicate (q.2.nv - 1) ("*", dc) ++ (rest.flatMap (pairCellsG dh dc) ++ ("", e) :: z),
      by simp [List.flatMap_cons, pairCellsG], (h q (by simp)).2.2.1⟩

theorem colScan_exportG (dh : String × Ser V → String) (dc e1 e2 : String) (m : List (String × Ser V)) (h : GoodNames m)
    (off : Nat) :
    colScan none off (m.flatMap (pairCellsG dh dc) ++ [("", e1), ("", e2)]) = colsOfG dh off m := by
  induction m generalizing off with
  | nil => simp [colScan, colsOfG]
  | cons p ps ih =>
    have hp := h p (by simp)
    have hps : GoodNames ps := fun q hq => h q (List.mem_cons_of_mem _ hq)
    obtain ⟨n, d, tl, htl, hn⟩ := pairG_head_not_star dh dc ps hps e1 [("", e2)]
    simp only [List.flatMap_cons, pairCellsG, List.cons_append, List.append_assoc]
    rw [colScan_open _ _ _ hp.2.1 hp.2.2.1,
      colScan_starsG _ _ (by intro q hq; rw [(List.mem_replicate.mp hq).2]), htl, colScan_close _ _ _ _ hn, ← htl, colsOfG]
    have e1' : off + 1 + (List.replicate (p.2.nv - 1) ("*", dc)).length = off + p.2.nv := by
      have := hp.2.2.2; simp; omega
    rw [e1', ih hps]
    congr 1
    simp
    have := hp.2.2.2; omega

/-- the description cells written under one block's names: `dh p` under the name, `dc` under the marks -/
def descCellsG (dh : String × Ser V → String) (dc : String) (m : List (String × Ser V)) : List String :=
  m.flatMap (fun p => dh p :: List.replicate (p.2.nv - 1) dc)

theorem zip_flatMapG (dh : String × Ser V → String) (dc : String) (m : List (String × Ser V)) (a b : List String) :
    (m.flatMap (fun p => starCont p.1 p.2.nv) ++ a).zip (descCellsG dh dc m ++ b)
      = m.flatMap (pairCellsG dh dc) ++ a.zip b := by
  induction m with
  | nil => simp [descCellsG]
  | cons p ps ih =>
    simp only [descCellsG] at ih ⊢
    simp only [List.flatMap_cons, List.append_assoc]
    rw [List.zip_append (by simp [starCont]), ih]
    simp [starCont, pairCellsG, List.zip_replicate']

theorem columnIterator_exportG (dh : String × Ser V → String) (dc e : String) (m : List (String × Ser V)) (h : GoodNames m) :
    columnIterator (m.flatMap (fun p => starCont p.1 p.2.nv) ++ [""]) (descCellsG dh dc m ++ [e]) = colsOfG dh 0 m := by
  unfold columnIterator
  rw [List.append_assoc, List.append_assoc, zip_flatMapG]
  exact colScan_exportG dh dc e "" m h 0

/-- a blank description row (no description row in the file) under one block -/
theorem blank_descCells (m : List (String × Ser V)) (h : GoodNames m) :
    List.replicate ((m.map (fun p => p.2.nv)).sum) "" = descCellsG (fun _ => "") "" m := by
  induction m with
  | nil => rfl
  | cons p ps ih =>
    have hp := (h p (by simp)).2.2.2
    have hps : GoodNames ps := fun q hq => h q (List.mem_cons_of_mem _ hq)
    simp only [descCellsG] at ih ⊢
    simp only [List.map_cons, List.sum_cons, List.flatMap_cons, ← ih hps]
    rw [← List.replicate_append_replicate]
    congr 1
    obtain ⟨k, hk⟩ : ∃ k, p.2.nv = k + 1 := ⟨p.2.nv - 1, by omega⟩
    rw [hk]; simp [List.replicate_succ]

end

/-! ### 4. `set_data` on consecutive periods -/

theorem foldl_min_ge (a : Int) (l : List Int) (h : ∀ x ∈ l, a ≤ x) : l.foldl min a = a := by
  induction l with
  | nil => rfl
  | cons x l ih =>
    have hx := h x (by simp)
    simp only [List.foldl_cons]
    rw [Int.min_eq_left hx]
    exact ih (fun y hy => h y (List.mem_cons_of_mem _ hy))

theorem foldl_max_last (a hi : Int) (l : List Int) (h1 : ∀ x ∈ l, x ≤ hi) (h2 : a ≤ hi) (h3 : a = hi ∨ hi ∈ l) :
    l.foldl max a = hi := by
  induction l generalizing a with
  | nil => simpa using h3
  | cons x l ih =>
    have hx := h1 x (by simp)
    simp only [List.foldl_cons]
    apply ih _ (fun y hy => h1 y (List.mem_cons_of_mem _ hy))
    · exact Int.max_le.mpr ⟨h2, hx⟩
    · rcases h3 with rfl | h3
      · left; exact Int.max_eq_left hx
      · rcases List.mem_cons.mp h3 with rfl | h3
        · left; exact Int.max_eq_right h2
        · right; exact h3

theorem fill_range' {α : Type} (rows : List α) (k : Nat) (acc : List α) (h : acc.length = k + rows.length) :
    ((List.range' k rows.length).zip rows).foldl (fun acc pr => acc.set pr.1 pr.2) acc = acc.take k ++ rows := by
  induction rows generalizing k acc with
  | nil => simp at h ⊢; rw [List.take_of_length_le (by omega)]
  | cons r rs ih =>
    simp only [List.length_cons, List.range'_succ, List.zip_cons_cons, List.foldl_cons]
    rw [ih (k + 1) (acc.set k r) (by simp at h ⊢; omega)]
    have hk : k < acc.length := by simp at h; omega
    rw [List.take_add_one, List.take_set_of_le (Nat.le_refl k)]
    simp [hk]

section
variable {V : Type}

theorem setData_consecutive (f : BFreq) (nv : Nat) (desc : String) (lo hi : Int) (h : lo ≤ hi)
    (rows : List (List (Option V))) (hr : rows.length = (hi - lo + 1).toNat) :
    setData f nv desc (periodsOf lo hi) rows = Ser.trim ⟨f, lo, nv, rows, desc⟩ := by
  obtain ⟨m, hm⟩ : ∃ m : Nat, hi = lo + (m : Int) := ⟨(hi - lo).toNat, by omega⟩
  subst hm
  have hn : (lo + (m : Int) - lo + 1).toNat = m + 1 := by omega
  have hper : periodsOf lo (lo + (m : Int)) = lo :: ((List.range m).map Nat.succ).map (fun (i : Nat) => lo + (i : Int)) := by
    simp [periodsOf, hn, List.range_succ_eq_map]
  have hper' : periodsOf lo (lo + (m : Int)) = (List.range (m + 1)).map (fun (i : Nat) => lo + (i : Int)) := by
    simp [periodsOf, hn]
  have hmin : (((List.range m).map Nat.succ).map (fun (i : Nat) => lo + (i : Int))).foldl min lo = lo := by
    apply foldl_min_ge
    intro x hx
    simp only [List.mem_map] at hx
    obtain ⟨i, _, rfl⟩ := hx
    omega
  have hmax : (((List.range m).map Nat.succ).map (fun (i : Nat) => lo + (i : Int))).foldl max lo = lo + (m : Int) := by
    apply foldl_max_last
    · intro x hx
      simp only [List.mem_map, List.mem_range] at hx
      obtain ⟨i, ⟨j, hj, rfl⟩, rfl⟩ := hx
      simp; omega
    · omega
    · cases m with
      | zero => left; simp
      | succ k =>
        right
        simp only [List.mem_map, List.mem_range]
        exact ⟨k + 1, ⟨k, by omega, rfl⟩, by simp⟩
  rw [hn] at hr
  have hfill : ((periodsOf lo (lo + (m : Int))).zip rows).foldl (fun acc pr => acc.set (pr.1 - lo).toNat pr.2)
      (List.replicate (m + 1) (nanRow nv)) = rows := by
    rw [hper', List.zip_map_left, List.foldl_map]
    have hfun : (fun (acc : List (List (Option V))) (pr : Nat × List (Option V)) =>
        acc.set ((Prod.map (fun (i : Nat) => lo + (i : Int)) id pr).1 - lo).toNat (Prod.map (fun (i : Nat) => lo + (i : Int)) id pr).2)
        = (fun acc pr => acc.set pr.1 pr.2) := by
      funext acc pr
      simp only [Prod.map_fst, Prod.map_snd, id]
      congr 1
      omega
    rw [hfun, List.range_eq_range', ← hr, fill_range' rows 0 _ (by simp [hr])]
    simp
  unfold setData
  rw [hper]
  simp only [hmin, hmax, hn]
  rw [← hper, hfill]

end

section
variable {V : Type}

/-! ### 5. the rows of a series over the span of its block -/

theorem map_rowAt_pad (s : Ser V) (lo hi : Int) (h1 : lo ≤ s.start) (h2 : s.stop ≤ hi) (hne : s.rows ≠ []) :
    (periodsOf lo hi).map s.rowAt
      = List.replicate (s.start - lo).toNat (nanRow s.nv) ++ s.rows ++ List.replicate (hi - s.stop).toNat (nanRow s.nv) := by
  have hL : 0 < s.rows.length := List.length_pos_iff.mpr hne
  obtain ⟨a, ha⟩ : ∃ a : Nat, s.start = lo + (a : Int) := ⟨(s.start - lo).toNat, by omega⟩
  obtain ⟨b, hb⟩ : ∃ b : Nat, hi = s.stop + (b : Int) := ⟨(hi - s.stop).toNat, by omega⟩
  have hstop : s.stop = lo + (a : Int) + (s.rows.length : Int) - 1 := by simp [Ser.stop, ha]
  have hn : (hi - lo + 1).toNat = a + s.rows.length + b := by omega
  have e1 : (s.start - lo).toNat = a := by omega
  have e2 : (hi - s.stop).toNat = b := by omega
  rw [e1, e2]
  unfold periodsOf
  rw [hn, range_split, range_split, List.map_append, List.map_append, List.map_append, List.map_append]
  congr 1
  congr 1
  · -- before the series
    rw [List.map_map]
    have e : List.replicate a (nanRow s.nv) = List.replicate (List.range a).length (nanRow s.nv : List (Option V)) := by simp
    rw [e, List.map_eq_replicate_iff]
    intro i hi'
    have := List.mem_range.mp hi'
    simp only [Function.comp, Ser.rowAt]
    rw [if_neg (by omega)]
  · -- the series' own rows
    rw [List.map_map, List.range'_eq_map_range, List.map_map]
    have := map_getElem?_range s.rows (fun o => o.getD (nanRow s.nv))
    simp only [Option.getD_some, List.map_id'] at this
    refine Eq.trans ?_ this
    apply List.map_congr_left
    intro j _
    simp only [Function.comp, Ser.rowAt]
    rw [if_pos (by omega)]
    congr 2
    omega
  · -- after the series
    rw [List.map_map]
    have e : List.replicate b (nanRow s.nv) = List.replicate (List.range' (a + s.rows.length) b).length (nanRow s.nv : List (Option V)) := by simp
    rw [e, List.map_eq_replicate_iff]
    intro i hi'
    have := (List.mem_range'_1.mp hi').1
    simp only [Function.comp, Ser.rowAt]
    rw [if_pos (by omega), List.getElem?_eq_none (by omega)]
    rfl

theorem rowAt_length (s : Ser V) (hrows : ∀ r ∈ s.rows, r.length = s.nv) (t : Int) : (s.rowAt t).length = s.nv := by
  unfold Ser.rowAt
  split
  · cases hq : s.rows[(t - s.start).toNat]? with
    | none => simp [nanRow]
    | some r => simp only [Option.getD_some]; exact hrows r (List.mem_of_getElem? hq)
  · simp [nanRow]

/-! ### 6. the cells of one series in a data row -/

theorem cells_slice {α : Type} (g : String × Ser V → List α) (m1 m2 : List (String × Ser V)) (p : String × Ser V) (tl : List α)
    (h1 : ∀ q ∈ m1, (g q).length = q.2.nv) (hp : (g p).length = p.2.nv) :
    ((((m1 ++ p :: m2).flatMap g) ++ tl).drop ((m1.map (fun q => q.2.nv)).sum)).take p.2.nv = g p := by
  have hlen : (m1.flatMap g).length = (m1.map (fun q => q.2.nv)).sum := by
    induction m1 with
    | nil => rfl
    | cons q qs ih =>
      simp only [List.flatMap_cons, List.length_append, List.map_cons, List.sum_cons]
      rw [h1 q (by simp), ih (fun x hx => h1 x (List.mem_cons_of_mem _ hx))]
  simp only [List.flatMap_append, List.flatMap_cons, List.append_assoc]
  rw [← hlen, List.drop_left, ← hp, List.take_left]

end


theorem mapM_map_ok {α β γ : Type} (F : α → β) (f : β → R γ) (g : α → γ) (l : List α)
    (h : ∀ x ∈ l, f (F x) = .ok (g x)) : (l.map F).mapM f = .ok (l.map g) := by
  induction l with
  | nil => rfl
  | cons a l ih =>
    rw [List.map_cons, List.mapM_cons, h a (by simp), ih (fun x hx => h x (List.mem_cons_of_mem _ hx))]
    rfl

section
variable {V : Type}

theorem trim_pad_lemma (s : Ser V) (h : Trimmed s) (a b : Nat) :
    Ser.trim ⟨s.freq, s.start - a, s.nv, List.replicate a (nanRow s.nv) ++ s.rows ++ List.replicate b (nanRow s.nv), s.desc⟩
      = s := by
  obtain ⟨⟨r, hr, h1⟩, ⟨l, hl, h2⟩⟩ := h
  obtain ⟨f, st, nv, rows, d⟩ := s
  simp only at hr hl ⊢
  have hrev : rows.reverse.head? = some l := by rw [List.head?_reverse]; exact hl
  have hne : rows ≠ [] := by intro e; subst e; simp at hr
  have hr' : (rows ++ List.replicate b (nanRow nv)).head? = some r := by
    cases rows with
    | nil => simp at hr
    | cons x t => simpa using hr
  unfold Ser.trim
  simp only [List.append_assoc, takeWhile_replicate_append _ _ (allNan_nanRow nv), dropWhile_replicate_append _ _ (allNan_nanRow nv),
    takeWhile_of_head _ _ _ hr' h1, dropWhile_of_head _ _ _ hr' h1, List.reverse_append, List.reverse_replicate,
    dropWhile_of_head _ _ _ hrev h2, List.reverse_reverse, List.append_nil, List.length_replicate]
  simp [hne]

/-- what the codec has to satisfy: parsing inverts printing, and a printed period is never the empty cell -/
structure CodecLaw (c : Codec V) : Prop where
  date : ∀ f n, f ≠ .U → f ≠ .W → c.parseDate f (c.fmtDate f n) = some n ∧ c.fmtDate f n ≠ ""
  cell : ∀ x, c.parseCell (c.fmtCell x) = x

/-- a block as the exporter builds it from well-formed series -/
structure GoodBlock (b : Block V) : Prop where
  names : GoodNames b.members
  sers : ∀ p ∈ b.members, p.2.freq = b.freq ∧ ∀ r ∈ p.2.rows, r.length = p.2.nv
  shape : (b.freq = .U ∧ b.periods = [] ∧ ∀ p ∈ b.members, p.2.rows = [] ∧ p.2.start = 0)
    ∨ (b.freq ≠ .U ∧ b.freq ≠ .W ∧ ∃ lo hi, lo ≤ hi ∧ b.periods = periodsOf lo hi
        ∧ ∀ p ∈ b.members, Trimmed p.2 ∧ lo ≤ p.2.start ∧ p.2.stop ≤ hi)

def withDesc (dh : String × Ser V → String) (p : String × Ser V) : String × Ser V := (p.1, { p.2 with desc := dh p })

def dataCells (c : Codec V) (b : Block V) (t : Int) : List String :=
  b.members.flatMap (fun p => (p.2.rowAt t).map c.fmtCell) ++ [""]

/-- the series set up from one column group of a block -/
theorem series_of_columns (c : Codec V) (hc : CodecLaw c) (b : Block V) (hb : GoodBlock b) (dh : String × Ser V → String)
    (lo hi : Int) (hlh : lo ≤ hi) (hper : b.periods = periodsOf lo hi)
    (hm : ∀ p ∈ b.members, Trimmed p.2 ∧ lo ≤ p.2.start ∧ p.2.stop ≤ hi)
    (m1 m2 : List (String × Ser V)) (p : String × Ser V) (hsplit : b.members = m1 ++ p :: m2) :
    setData b.freq p.2.nv (dh p) b.periods
        ((b.periods.map (fun t => (dataCells c b t).map c.parseCell)).map
          (fun r => (r.drop ((m1.map (fun q => q.2.nv)).sum)).take p.2.nv))
      = (withDesc dh p).2 := by
  have hpm : p ∈ b.members := by rw [hsplit]; simp
  obtain ⟨htr, hlo, hhi⟩ := hm p hpm
  have hfreq := (hb.sers p hpm).1
  have hrows : ∀ q ∈ b.members, ∀ t, (q.2.rowAt t).length = q.2.nv := fun q hq t => rowAt_length q.2 (hb.sers q hq).2 t
  have hcells : (b.periods.map (fun t => (dataCells c b t).map c.parseCell)).map
      (fun r => (r.drop ((m1.map (fun q => q.2.nv)).sum)).take p.2.nv) = b.periods.map p.2.rowAt := by
    rw [List.map_map]
    apply List.map_congr_left
    intro t _
    simp only [Function.comp, dataCells, List.map_append, List.map_flatMap, List.map_map]
    have hid : ∀ q : String × Ser V, List.map (c.parseCell ∘ c.fmtCell) (q.2.rowAt t) = q.2.rowAt t := by
      intro q
      have : List.map (c.parseCell ∘ c.fmtCell) (q.2.rowAt t) = List.map id (q.2.rowAt t) :=
        List.map_congr_left (fun x _ => hc.cell x)
      rw [this, List.map_id]
    simp only [hid, hsplit]
    exact cells_slice (fun q => q.2.rowAt t) m1 m2 p _
      (fun q hq => hrows q (by rw [hsplit]; simp [hq]) t) (hrows p hpm t)
  have hne : p.2.rows ≠ [] := by
    obtain ⟨⟨r, hr, _⟩, _⟩ := htr
    intro e; rw [e] at hr; simp at hr
  rw [hcells, hper, setData_consecutive _ _ _ lo hi hlh _ (by simp [periodsOf]), map_rowAt_pad p.2 lo hi hlo hhi hne]
  have htr' : Trimmed ({ p.2 with desc := dh p } : Ser V) := htr
  have := trim_pad_lemma ({ p.2 with desc := dh p } : Ser V) htr' (p.2.start - lo).toNat (hi - p.2.stop).toNat
  simp only [withDesc]
  rw [← this]
  congr 1
  simp only [Ser.mk.injEq, and_true, true_and]
  exact ⟨hfreq.symm, by omega⟩

theorem map_colsOfG {β : Type} (dh : String × Ser V → String) (F : ColSpec → β) (G : String × Ser V → β)
    (m : List (String × Ser V)) (off : Nat)
    (h : ∀ m1 p m2, m = m1 ++ p :: m2 → F ⟨off + (m1.map (fun q => q.2.nv)).sum, p.2.nv, p.1, dh p⟩ = G p) :
    (colsOfG dh off m).map F = m.map G := by
  induction m generalizing off with
  | nil => rfl
  | cons p ps ih =>
    simp only [colsOfG, List.map_cons]
    congr 1
    · simpa using h [] p ps rfl
    · apply ih
      intro m1 q m2 hq
      have := h (p :: m1) q m2 (by rw [hq]; rfl)
      simpa [Nat.add_assoc] using this

theorem decodeBlock_eq (c : Codec V) (N D : List String) (dataRows : List (List String)) (raw : RawBlock) (r0 : List String)
    (h : dataRows.head? = some r0) :
    decodeBlock c N D dataRows raw = decodeBody c N D dataRows raw r0 := by
  cases dataRows with
  | nil => simp at h
  | cons r rs => simp at h; subst h; rfl

/-- **decoding one block** from any grid in which the block's own cells sit where the raw block says -/
theorem decode_block_view (c : Codec V) (hc : CodecLaw c) (b : Block V) (hb : GoodBlock b) (raw : RawBlock)
    (hraw : raw.freq = b.freq) (dh : String × Ser V → String) (dc e : String) (nameRow descRow : List String)
    (T : Nat) (hT : 1 ≤ T) (hfit : b.periods.length ≤ T) (F : Nat → List String)
    (hN : sliceRow raw nameRow = b.members.flatMap (fun p => starCont p.1 p.2.nv) ++ [""])
    (hD : sliceRow raw descRow = descCellsG dh dc b.members ++ [e])
    (hdate : ∀ i, dateCell raw (F i) = match b.periods[i]? with | some t => c.fmtDate b.freq t | none => "")
    (hcell : ∀ i t, b.periods[i]? = some t → sliceRow raw (F i) = dataCells c b t) :
    decodeBlock c nameRow descRow ((List.range T).map F) raw = .ok (b.members.map (withDesc dh)) := by
  obtain ⟨T', rfl⟩ : ∃ T', T = T' + 1 := ⟨T - 1, by omega⟩
  have hhead : ((List.range (T' + 1)).map F).head? = some (F 0) := by simp [List.range_succ_eq_map]
  rw [decodeBlock_eq c _ _ _ raw (F 0) hhead]
  unfold decodeBody
  -- printed periods are never empty cells
  have hne : ∀ t ∈ b.periods, c.fmtDate b.freq t ≠ "" := by
    intro t ht
    rcases hb.shape with ⟨_, hp, _⟩ | ⟨h1, h2, _⟩
    · rw [hp] at ht; simp at ht
    · exact (hc.date b.freq t h1 h2).2
  -- the dated rows are the first `n`
  have hdated : ((List.range (T' + 1)).map F).filter (fun r => dateCell raw r ≠ "") = (List.range b.periods.length).map F := by
    rw [List.filter_map, ← filter_lt_range b.periods.length (T' + 1) hfit]
    congr 1
    apply List.filter_congr
    intro i _
    simp only [Function.comp, hdate]
    by_cases hi : i < b.periods.length
    · have : b.periods[i]? = some b.periods[i] := List.getElem?_eq_getElem hi
      simp [this, hi, hne _ (List.getElem_mem hi)]
    · have : b.periods[i]? = none := List.getElem?_eq_none (by omega)
      simp [this, hi]
  have hcols : columnIterator (sliceRow raw nameRow) (sliceRow raw descRow) = colsOfG dh 0 b.members := by
    rw [hN, hD]; exact columnIterator_exportG dh dc e b.members hb.names
  have harr : ((List.range b.periods.length).map F).map (fun r => (sliceRow raw r).map c.parseCell)
      = b.periods.map (fun t => (dataCells c b t).map c.parseCell) := by
    rw [List.map_map]
    refine Eq.trans ?_ (map_getElem?_range b.periods
      (fun o => match o with | some t => (dataCells c b t).map c.parseCell | none => []))
    apply List.map_congr_left
    intro i hi
    have hi' := List.mem_range.mp hi
    have : b.periods[i]? = some b.periods[i] := List.getElem?_eq_getElem hi'
    simp only [Function.comp, this, hcell i _ this]
  simp only [hdated, hcols, harr]
  rcases hb.shape with ⟨hU, hp, hm⟩ | ⟨h1, h2, lo, hi, hlh, hper, hm⟩
  · -- the block of the empty series
    have hrU : raw.freq = .U := hraw.trans hU
    simp only [hrU, ne_eq, not_true_eq_false, false_and, if_false, if_true, hp, List.length_nil, List.range_zero,
      List.map_nil, List.isEmpty_nil, pure, Except.pure]
    congr 1
    apply map_colsOfG
    intro m1 p m2 hsplit
    have hpm : p ∈ b.members := by rw [hsplit]; simp
    obtain ⟨hr, hs⟩ := hm p hpm
    have hf := (hb.sers p hpm).1
    obtain ⟨n, s⟩ := p
    obtain ⟨f, st, nv, rows, d⟩ := s
    simp only at hr hs hf
    simp [withDesc, Ser.empty, hr, hs, hf, hU]
  · -- a block of dated series
    have hrf : raw.freq ≠ .U := by rw [hraw]; exact h1
    have h0 : c.parseDate raw.freq (dateCell raw (F 0)) ≠ none := by
      have hlen : 0 < b.periods.length := by rw [hper]; simp [periodsOf]; omega
      have : b.periods[0]? = some b.periods[0] := List.getElem?_eq_getElem hlen
      rw [hdate 0, this, hraw, (hc.date b.freq _ h1 h2).1]
      simp
    have hperiods : ((List.range b.periods.length).map F).mapM (fun r => parsePeriod c raw.freq (dateCell raw r))
        = .ok b.periods := by
      rw [mapM_map_ok F _ (fun i => (b.periods[i]?).getD 0)]
      · rw [map_getElem?_range b.periods (fun o => o.getD 0)]
        simp
      · intro i hi
        have hi' := List.mem_range.mp hi
        have : b.periods[i]? = some b.periods[i] := List.getElem?_eq_getElem hi'
        simp only [parsePeriod, hdate i, this, hraw, (hc.date b.freq _ h1 h2).1, Option.getD_some]
        rfl
    simp only [hrf, ne_eq, not_false_eq_true, true_and, h0, if_false, hperiods, bind, Except.bind, pure, Except.pure]
    congr 1
    apply map_colsOfG
    intro m1 p m2 hsplit
    simp only [withDesc, Nat.zero_add, hraw]
    congr 1
    exact series_of_columns c hc b hb dh lo hi hlh hper hm m1 m2 p hsplit

end


/-! ### 8. `dictOfList` on distinct names -/

theorem setKey_of_not_mem {α : Type} (db : List (String × α)) (k : String) (v : α) (h : k ∉ keys db) :
    setKey db k v = db ++ [(k, v)] := by
  induction db with
  | nil => rfl
  | cons p rest ih =>
    obtain ⟨k', v'⟩ := p
    simp only [keys, List.map_cons, List.mem_cons, not_or] at h
    unfold setKey
    rw [if_neg (fun e => h.1 e.symm)]
    rw [ih (by simpa [keys] using h.2)]
    rfl

theorem foldl_setKey_nodup {α : Type} (l acc : List (String × α)) (h : (keys acc ++ keys l).Nodup) :
    l.foldl (fun acc p => setKey acc p.1 p.2) acc = acc ++ l := by
  induction l generalizing acc with
  | nil => simp
  | cons p rest ih =>
    have hk : p.1 ∉ keys acc := by
      intro hm
      have := List.nodup_append.mp h
      exact this.2.2 p.1 hm p.1 (by simp [keys]) rfl
    simp only [List.foldl_cons]
    rw [setKey_of_not_mem acc p.1 p.2 hk, ih]
    · simp
    · simp only [keys, List.map_append, List.map_cons, List.map_nil, List.append_assoc, List.cons_append, List.nil_append] at h ⊢
      exact h

theorem dictOfList_nodup {α : Type} (l : List (String × α)) (h : (keys l).Nodup) : dictOfList l = l := by
  unfold dictOfList
  rw [foldl_setKey_nodup l [] (by simpa [keys] using h)]
  rfl

section
variable {V : Type}

theorem zipRows_peel (R : Nat) (hd : Block V → List String) (tl : Block V → List (List String)) (Bs : List (Block V)) :
    zipRowsN (R + 1) (Bs.map (fun b => hd b :: tl b)) = Bs.flatMap hd :: zipRowsN R (Bs.map tl) := by
  induction Bs with
  | nil => simp [zipRowsN, List.replicate_succ]
  | cons b bs ih => simp [zipRowsN, ih]

theorem mapM_rawOf {β : Type} (f : RawBlock → R β) (g : Block V → β) (B1 B2 : List (Block V))
    (h : ∀ B2a b B2b, B2 = B2a ++ b :: B2b → f ⟨b.freq, widths (B1 ++ B2a), b.width - 1⟩ = .ok (g b)) :
    (rawOf (widths B1) B2).mapM f = .ok (B2.map g) := by
  induction B2 generalizing B1 with
  | nil => rfl
  | cons b bs ih =>
    have h0 := h [] b bs rfl
    simp only [List.append_nil] at h0
    have hw : widths B1 + b.width = widths (B1 ++ [b]) := by simp [widths]
    rw [rawOf, List.mapM_cons, h0, hw, ih (B1 ++ [b])]
    · rfl
    · intro B2a x B2b hx
      have := h (b :: B2a) x B2b (by rw [hx]; rfl)
      simpa using this

theorem gridRow_length (c : Codec V) (x : Block V) (hx : GoodBlock x) (i : Nat) : (x.gridRow c i).length = x.width := by
  unfold Block.gridRow
  split
  · rename_i t _
    have : (x.members.flatMap (fun p => (p.2.rowAt t).map c.fmtCell)).length = (x.members.map (fun p => p.2.nv)).sum := by
      have hs := hx.sers
      generalize x.members = m at hs
      induction m with
      | nil => rfl
      | cons p ps ih =>
        simp only [List.flatMap_cons, List.length_append, List.length_map, List.map_cons, List.sum_cons]
        rw [rowAt_length p.2 (hs p (by simp)).2 t, ih (fun q hq => hs q (List.mem_cons_of_mem _ hq))]
    simp [Block.dataRow, Block.width, this]; omega
  · simp [Block.emptyRow]

end


section
variable {V : Type}

/-- the description the importer attaches: the written one when the description row is on, none otherwise -/
def descOf (d : Bool) (p : String × Ser V) : String := if d then p.2.desc else ""

/-- the description row as `from_csv_file` sees it -/
def descRowOf (d : Bool) (Bs : List (Block V)) : List String :=
  if d then Bs.flatMap Block.descRow else List.replicate (Bs.flatMap Block.nameRow).length ""

def dataRowsOf (c : Codec V) (T : Nat) (Bs : List (Block V)) : List (List String) :=
  (List.range T).map (fun i => Bs.flatMap (fun x => x.gridRow c i))

theorem decode_in_context (c : Codec V) (hc : CodecLaw c) (d : Bool) (T : Nat) (hT : 1 ≤ T)
    (B1 B2 : List (Block V)) (b : Block V) (hg : ∀ x ∈ B1 ++ b :: B2, GoodBlock x ∧ x.periods.length ≤ T) :
    decodeBlock c ((B1 ++ b :: B2).flatMap Block.nameRow) (descRowOf d (B1 ++ b :: B2)) (dataRowsOf c T (B1 ++ b :: B2))
        ⟨b.freq, widths B1, b.width - 1⟩
      = .ok (b.members.map (withDesc (descOf d))) := by
  have hb := (hg b (by simp)).1
  have hfit := (hg b (by simp)).2
  have hB1 : ∀ x ∈ B1, GoodBlock x := fun x hx => (hg x (by simp [hx])).1
  have hnames : ∀ x ∈ B1 ++ b :: B2, GoodNames x.members := fun x hx => (hg x hx).1.names
  have hwb : (b.members.flatMap (fun p => starCont p.1 p.2.nv) ++ [""]).length = b.width - 1 := by
    simp [nameCells_length _ hb.names, Block.width]; omega
  have hN := (seg_slice Block.nameRow B1 B2 b (fun x hx => nameRow_length x (hB1 x hx).names) (mark b.freq)
      (b.members.flatMap (fun p => starCont p.1 p.2.nv) ++ [""]) rfl hwb).1
  -- the data rows
  have hdata : ∀ i, dateCell ⟨b.freq, widths B1, b.width - 1⟩ ((B1 ++ b :: B2).flatMap (fun x => x.gridRow c i))
        = (match b.periods[i]? with | some t => c.fmtDate b.freq t | none => "")
      ∧ ∀ t, b.periods[i]? = some t →
        sliceRow ⟨b.freq, widths B1, b.width - 1⟩ ((B1 ++ b :: B2).flatMap (fun x => x.gridRow c i)) = dataCells c b t := by
    intro i
    have hlenB1 : ∀ x ∈ B1, (x.gridRow c i).length = x.width := fun x hx => gridRow_length c x (hB1 x hx) i
    have hlenb := gridRow_length c b hb i
    cases hp : b.periods[i]? with
    | none =>
      have hrow : b.gridRow c i = "" :: List.replicate (b.width - 1) "" := by
        simp only [Block.gridRow, hp, Block.emptyRow]
        have : b.width = (b.width - 1) + 1 := by simp [Block.width]
        conv => lhs; rw [this]
        rfl
      have := seg_slice (fun x => x.gridRow c i) B1 B2 b hlenB1 "" _ hrow (by simp)
      exact ⟨this.2, fun t ht => by simp at ht⟩
    | some t =>
      have hrow : b.gridRow c i = c.fmtDate b.freq t :: dataCells c b t := by
        simp only [Block.gridRow, hp, Block.dataRow, dataCells]
      have hl : (dataCells c b t).length = b.width - 1 := by
        have := hlenb; rw [hrow] at this; simp at this; omega
      have := seg_slice (fun x => x.gridRow c i) B1 B2 b hlenB1 _ _ hrow hl
      exact ⟨this.2, fun t' ht' => by cases ht'; exact this.1⟩
  cases d with
  | true =>
    have hwd : (b.members.flatMap (fun p => starCont p.2.desc p.2.nv) ++ [""]).length = b.width - 1 := by
      simp [descCells_length _ hb.names, Block.width]; omega
    have hD := (seg_slice Block.descRow B1 B2 b (fun x hx => descRow_length x (hB1 x hx).names) ""
      (b.members.flatMap (fun p => starCont p.2.desc p.2.nv) ++ [""]) rfl hwd).1
    exact decode_block_view c hc b hb _ rfl (descOf true) "*" "" _ _ T hT hfit _ hN
      (by simpa [descRowOf, descCellsG, starCont, descOf] using hD) (fun i => (hdata i).1) (fun i t ht => (hdata i).2 t ht)
  | false =>
    have hlenN : ((B1 ++ b :: B2).flatMap Block.nameRow).length = widths B1 + b.width + widths B2 := by
      rw [flatMap_seg_length Block.nameRow _ (fun x hx => nameRow_length x (hnames x hx))]
      simp [widths]; omega
    have hD : sliceRow ⟨b.freq, widths B1, b.width - 1⟩ (descRowOf false (B1 ++ b :: B2))
        = descCellsG (descOf false) "" b.members ++ [""] := by
      have hw : 1 ≤ b.width := by simp [Block.width]
      have e : descCellsG (descOf (V := V) false) "" b.members = descCellsG (fun _ => "") "" b.members := rfl
      rw [e, ← blank_descCells b.members hb.names]
      simp only [descRowOf, Bool.false_eq_true, if_false, hlenN, sliceRow, List.drop_replicate, List.take_replicate]
      have : min (b.width - 1) (widths B1 + b.width + widths B2 - (widths B1 + 1)) = (b.members.map (fun p => p.2.nv)).sum + 1 := by
        simp [Block.width]; omega
      rw [this, List.replicate_succ']
    exact decode_block_view c hc b hb _ rfl (descOf false) "" "" _ _ T hT hfit _ hN hD
      (fun i => (hdata i).1) (fun i t ht => (hdata i).2 t ht)

end


section
variable {V : Type}

theorem grid_eq (c : Codec V) (d : Bool) (T : Nat) (Bs : List (Block V)) (hfit : ∀ x ∈ Bs, x.periods.length ≤ T) :
    zipRowsN (headerRows d + T) (Bs.map (Block.rows c d T))
      = Bs.flatMap Block.nameRow :: ((if d then [Bs.flatMap Block.descRow] else []) ++ dataRowsOf c T Bs) := by
  cases d with
  | true =>
    have e : Bs.map (Block.rows c true T)
        = Bs.map (fun b => b.nameRow :: (fun b => b.descRow :: (fun b => (List.range T).map (b.gridRow c)) b) b) := by
      apply List.map_congr_left
      intro b hb
      simp [Block.rows, dataPart_eq c b T (hfit b hb)]
    have hR : headerRows true + T = (T + 1) + 1 := by simp [headerRows]; omega
    rw [e, hR, zipRows_peel, zipRows_peel, zipRowsN_range]
    simp [dataRowsOf]
  | false =>
    have e : Bs.map (Block.rows c false T)
        = Bs.map (fun b => b.nameRow :: (fun b => (List.range T).map (b.gridRow c)) b) := by
      apply List.map_congr_left
      intro b hb
      simp [Block.rows, dataPart_eq c b T (hfit b hb)]
    have hR : headerRows false + T = T + 1 := by simp [headerRows]; omega
    rw [e, hR, zipRows_peel, zipRowsN_range]
    simp [dataRowsOf]

theorem flatten_map_map {α β : Type} (f : α → β) (g : Block V → List α) (Bs : List (Block V)) :
    (Bs.map (fun b => (g b).map f)).flatten = (Bs.flatMap g).map f := by
  induction Bs with
  | nil => rfl
  | cons b bs ih => simp [ih]

theorem keys_map_withDesc (dh : String × Ser V → String) (l : List (String × Ser V)) : keys (l.map (withDesc dh)) = keys l := by
  simp [keys, withDesc, Function.comp]

/-- **import of the exported blocks**, any number of blocks, series, variants and rows -/
theorem import_of_blocks (c : Codec V) (hc : CodecLaw c) (d : Bool) (T : Nat) (hT : 1 ≤ T) (Bs : List (Block V))
    (hg : ∀ x ∈ Bs, GoodBlock x ∧ x.periods.length ≤ T) (hnd : (keys (Bs.flatMap (·.members))).Nodup) :
    importGrid c d (zipRowsN (headerRows d + T) (Bs.map (Block.rows c d T)))
      = .ok ((Bs.flatMap (·.members)).map (withDesc (descOf d))) := by
  have hnames : ∀ x ∈ Bs, GoodNames x.members := fun x hx => (hg x hx).1.names
  have hparts : (blockIterator (Bs.flatMap Block.nameRow)).mapM
      (decodeBlock c (Bs.flatMap Block.nameRow) (descRowOf d Bs) (dataRowsOf c T Bs))
        = .ok (Bs.map (fun b => b.members.map (withDesc (descOf d)))) := by
    rw [blockIterator, scan_export Bs hnames 0]
    have := mapM_rawOf (decodeBlock c (Bs.flatMap Block.nameRow) (descRowOf d Bs) (dataRowsOf c T Bs))
      (fun b => b.members.map (withDesc (descOf d))) [] Bs
    simp only [widths, List.map_nil, List.sum_nil, List.nil_append] at this
    apply this
    intro B2a b B2b hsplit
    have := decode_in_context c hc d T hT B2a B2b b (by rw [← hsplit]; exact hg)
    rw [← hsplit] at this
    exact this
  have hlenN : (Bs.flatMap Block.nameRow).length = widths Bs :=
    flatMap_seg_length Block.nameRow Bs (fun x hx => nameRow_length x (hnames x hx))
  have hdataLen : ∀ r ∈ dataRowsOf c T Bs, r.length = (Bs.flatMap Block.nameRow).length := by
    intro r hr
    simp only [dataRowsOf, List.mem_map] at hr
    obtain ⟨i, _, rfl⟩ := hr
    rw [hlenN, flatMap_seg_length (fun x => x.gridRow c i) Bs (fun x hx => gridRow_length c x (hg x hx).1 i)]
  have hfinal : dictOfList ((Bs.map (fun b => b.members.map (withDesc (descOf d)))).flatten)
      = (Bs.flatMap (·.members)).map (withDesc (descOf d)) := by
    rw [flatten_map_map]
    exact dictOfList_nodup _ (by rw [keys_map_withDesc]; exact hnd)
  rw [grid_eq c d T Bs (fun x hx => (hg x hx).2)]
  cases d with
  | true =>
    have hrect : (([Bs.flatMap Block.descRow] ++ dataRowsOf c T Bs).all
        (fun r => r.length == (Bs.flatMap Block.nameRow).length)) = true := by
      rw [List.all_eq_true]
      intro r hr
      simp only [List.cons_append, List.nil_append, List.mem_cons] at hr
      rcases hr with rfl | hr
      · simp [flatMap_rows_length Bs hnames]
      · simp [hdataLen r hr]
    simp only [importGrid, if_true, hrect, Bool.not_true, Bool.false_eq_true, if_false, List.cons_append, List.nil_append]
    have hd : descRowOf true Bs = Bs.flatMap Block.descRow := by simp [descRowOf]
    rw [hd] at hparts
    simp only [hparts, bind, Except.bind, pure, Except.pure, hfinal]
    rw [if_neg (by simpa using hrect)]
  | false =>
    have hrect : (([] ++ dataRowsOf c T Bs).all
        (fun r => r.length == (Bs.flatMap Block.nameRow).length)) = true := by
      rw [List.all_eq_true]
      intro r hr
      simp only [List.nil_append] at hr
      simp [hdataLen r hr]
    simp only [importGrid, Bool.false_eq_true, if_false, hrect, Bool.not_true, List.nil_append]
    have hd : descRowOf false Bs = List.replicate (Bs.flatMap Block.nameRow).length "" := by simp [descRowOf]
    rw [hd] at hparts
    simp only [List.nil_append] at hrect
    simp only [hparts, bind, Except.bind, pure, Except.pure, hfinal]
    rw [if_neg (by rw [hrect]; simp)]

end


section
variable {V : Type}

theorem minStart_le (l : List (String × Ser V)) : ∀ q ∈ l, minStart l ≤ q.2.start := by
  induction l with
  | nil => intro q hq; simp at hq
  | cons p ps ih =>
    intro q hq
    unfold minStart
    cases ps with
    | nil => simp at hq; subst hq; simp
    | cons r rs =>
      simp only [List.isEmpty_cons, Bool.false_eq_true, if_false]
      rcases List.mem_cons.mp hq with rfl | hq
      · exact Int.min_le_left _ _
      · exact Int.le_trans (Int.min_le_right _ _) (ih q hq)

theorem le_maxStop (l : List (String × Ser V)) : ∀ q ∈ l, q.2.stop ≤ maxStop l := by
  induction l with
  | nil => intro q hq; simp at hq
  | cons p ps ih =>
    intro q hq
    unfold maxStop
    cases ps with
    | nil => simp at hq; subst hq; simp
    | cons r rs =>
      simp only [List.isEmpty_cons, Bool.false_eq_true, if_false]
      rcases List.mem_cons.mp hq with rfl | hq
      · exact Int.le_max_left _ _
      · exact Int.le_trans (ih q hq) (Int.le_max_right _ _)

theorem le_maxLen (l : List Nat) : ∀ x ∈ l, x ≤ maxLen l := by
  induction l with
  | nil => intro x hx; simp at hx
  | cons a l ih =>
    intro x hx
    unfold maxLen
    rcases List.mem_cons.mp hx with rfl | hx
    · exact Nat.le_max_left _ _
    · exact Nat.le_trans (ih x hx) (Nat.le_max_right _ _)

theorem periodsOf_length (lo hi : Int) : (periodsOf lo hi).length = (hi - lo + 1).toNat := by simp [periodsOf]

theorem trimmed_start_le_stop (s : Ser V) (h : Trimmed s) : s.start ≤ s.stop := by
  obtain ⟨⟨r, hr, _⟩, _⟩ := h
  have : 0 < s.rows.length := by
    cases hrows : s.rows with
    | nil => rw [hrows] at hr; simp at hr
    | cons a t => simp
  unfold Ser.stop; omega

/-- the members of the exported blocks are the series grouped by frequency, in block order -/
theorem members_exportBlocksWith (fs : FSpan) (ss : List (String × Ser V)) :
    (exportBlocksWith fs ss).flatMap (·.members) = fs.flatMap (fun e => withFreq ss e.1) := by
  induction fs with
  | nil => rfl
  | cons e rest ih =>
    unfold exportBlocksWith at ih ⊢
    simp only [List.filterMap_cons, List.flatMap_cons]
    by_cases hm : (withFreq ss e.1).isEmpty = true
    · simp only [hm, if_true]
      rw [ih, List.isEmpty_iff.mp hm]
      rfl
    · simp only [hm, Bool.false_eq_true, if_false, List.flatMap_cons]
      rw [ih]

theorem unique_value {α : Type} (l : List (String × α)) (h : (keys l).Nodup) (n : String) (a b : α)
    (ha : (n, a) ∈ l) (hb : (n, b) ∈ l) : a = b := by
  induction l with
  | nil => simp at ha
  | cons p rest ih =>
    simp only [keys, List.map_cons, List.nodup_cons] at h
    rcases List.mem_cons.mp ha with ha | ha <;> rcases List.mem_cons.mp hb with hb | hb
    · rw [← ha] at hb; exact (Prod.mk.inj hb).2.symm
    · exfalso; apply h.1; rw [← ha]; exact List.mem_map_of_mem (f := (·.1)) hb
    · exfalso; apply h.1; rw [← hb]; exact List.mem_map_of_mem (f := (·.1)) ha
    · exact ih h.2 ha hb

theorem keys_withFreq_nodup (ss : List (String × Ser V)) (h : (keys ss).Nodup) (f : BFreq) : (keys (withFreq ss f)).Nodup := by
  unfold keys withFreq
  exact List.Nodup.sublist (List.Sublist.map _ List.filter_sublist) h

theorem keys_grouped_nodup (ss : List (String × Ser V)) (h : (keys ss).Nodup) (fl : List BFreq) (hfl : fl.Nodup) :
    (keys (fl.flatMap (withFreq ss))).Nodup := by
  induction fl with
  | nil => simp [keys]
  | cons f rest ih =>
    simp only [List.nodup_cons] at hfl
    simp only [List.flatMap_cons, keys, List.map_append]
    rw [List.nodup_append]
    refine ⟨keys_withFreq_nodup ss h f, ih hfl.2, ?_⟩
    intro a ha b hb hab
    subst hab
    simp only [List.mem_map] at ha hb
    obtain ⟨⟨n1, s1⟩, h1, rfl⟩ := ha
    obtain ⟨⟨n2, s2⟩, h2, hn⟩ := hb
    simp only at hn
    subst hn
    simp only [List.mem_flatMap] at h2
    obtain ⟨g, hg, h2⟩ := h2
    have m1 := List.mem_filter.mp h1
    have m2 := List.mem_filter.mp h2
    have := unique_value ss h n2 s1 s2 m1.1 m2.1
    subst this
    have e1 : s1.freq = f := by simpa using m1.2
    have e2 : s1.freq = g := by simpa using m2.2
    exact hfl.1 (by rw [← e1, e2]; exact hg)

end


section
variable {V : Type}

/-- what a databox has to satisfy for the CSV format to carry it: exactly what the format reserves (names non-empty,
not the continuation mark `*`, not starting with the block mark `__`), what a `dict` and a `Series` guarantee anyway
(distinct names; at least one variant; rows as wide as the number of variants; a frequency with a period class; data
trimmed, or no data, no start and frequency UNKNOWN), and at least one series with data when there is an empty one
(`from_csv_file` raises on a file without data rows) -/
structure WellFormedDatabox (db : Box (Ser V) V) : Prop where
  distinct : (keys (seriesOf db)).Nodup
  names : GoodNames (seriesOf db)
  rows : ∀ p ∈ seriesOf db, ∀ r ∈ p.2.rows, r.length = p.2.nv
  freq : ∀ p ∈ seriesOf db, p.2.freq ∈ blockOrder
  shape : ∀ p ∈ seriesOf db, (p.2.freq = .U ∧ p.2.rows = [] ∧ p.2.start = 0) ∨ (p.2.freq ≠ .U ∧ Trimmed p.2)
  hasData : seriesOf db = [] ∨ ∃ p ∈ seriesOf db, p.2.freq ≠ .U

theorem goodBlock_export (db : Box (Ser V) V) (hwf : WellFormedDatabox db) :
    ∀ x ∈ exportBlocksWith defaultFSpan (seriesOf db),
      GoodBlock x ∧ x.periods.length ≤ totalRowsWith defaultFSpan (seriesOf db) := by
  intro x hx
  unfold exportBlocksWith at hx
  obtain ⟨e, he, hxe⟩ := List.mem_filterMap.mp hx
  dsimp only at hxe
  have hef : e.2 = none ∧ e.1 ∈ blockOrder := by
    simp only [defaultFSpan, List.mem_map] at he
    obtain ⟨f, hf, rfl⟩ := he
    exact ⟨rfl, hf⟩
  by_cases hm : (withFreq (seriesOf db) e.1).isEmpty = true
  · simp [hm] at hxe
  · simp only [hm, Bool.false_eq_true, if_false, Option.some.injEq, hef.1, Option.getD_none] at hxe
    subst hxe
    have hmem : ∀ p ∈ withFreq (seriesOf db) e.1, p ∈ seriesOf db ∧ p.2.freq = e.1 := by
      intro p hp
      have := List.mem_filter.mp hp
      exact ⟨this.1, by simpa using this.2⟩
    obtain ⟨p0, hp0⟩ : ∃ p0, p0 ∈ withFreq (seriesOf db) e.1 := by
      cases hq : withFreq (seriesOf db) e.1 with
      | nil => simp [hq] at hm
      | cons a t => exact ⟨a, by simp⟩
    constructor
    · refine ⟨goodNames_withFreq _ hwf.names e.1, fun p hp => ⟨(hmem p hp).2, hwf.rows p (hmem p hp).1⟩, ?_⟩
      by_cases hU : e.1 = .U
      · left
        refine ⟨hU, by simp [blockPeriods, hU], ?_⟩
        intro p hp
        rcases hwf.shape p (hmem p hp).1 with h | h
        · exact ⟨h.2.1, h.2.2⟩
        · exact absurd ((hmem p hp).2.trans hU) h.1
      · right
        have hW : e.1 ≠ .W := by
          intro hw
          have := hef.2
          rw [hw] at this
          simp [blockOrder] at this
        have htr : ∀ p ∈ withFreq (seriesOf db) e.1, Trimmed p.2 := by
          intro p hp
          rcases hwf.shape p (hmem p hp).1 with h | h
          · exact absurd ((hmem p hp).2.symm.trans h.1) hU
          · exact h.2
        refine ⟨hU, hW, minStart (withFreq (seriesOf db) e.1), maxStop (withFreq (seriesOf db) e.1), ?_, by simp [blockPeriods, hU], ?_⟩
        · have h1 := minStart_le _ p0 hp0
          have h2 := le_maxStop _ p0 hp0
          have h3 := trimmed_start_le_stop p0.2 (htr p0 hp0)
          omega
        · intro p hp
          exact ⟨htr p hp, minStart_le _ p hp, le_maxStop _ p hp⟩
    · apply le_maxLen
      simp only [totalRowsWith, List.mem_map]
      refine ⟨e, he, ?_⟩
      simp [hef.1, hm]

theorem blockOrder_nodup : blockOrder.Nodup := by decide

end

end IrisVerif.Grid
