/-
C02 — the abstract carrier of the generated AD rules (`Generated/AtomGen.lean`).

The rules of `irispie.aldi.differentiators.Atom` are translated over a type `α` that has the core
arithmetic classes (`Add Sub Mul Div Neg NatCast`) and the symbols below.  Three instances are used:

* `ℝ` (in `Lemmas/ADRules.lean`, with `Real.log`, `Real.exp`, `Real.sqrt`, `x ^ y` = `Real.rpow`): the theorems;
* `XRat` = `Option Rat` (here): exact evaluation of polynomial / rational trees in the driver (class D);
  `none` = "not representable exactly" (a transcendental function, a non-integer power, a division by zero);
* `Float` (here): evaluation with the same scalar operation order as the code (class T).

No Mathlib import: this file is loaded by the interpreted driver.
-/
namespace IrisVerif

/-- the non-arithmetic symbols the generated rules use -/
class ADFun (α : Type) where
  log : α → α
  exp : α → α
  sqrt : α → α
  /-- `scipy.special.expit`, the logistic function `1/(1+exp(-x))` -/
  expit : α → α
  /-- Python/numpy `**` -/
  pw : α → α → α
  /-- numpy `<` on scalars -/
  ltb : α → α → Bool
  /-- numpy `==` on scalars -/
  eqb : α → α → Bool

/-! ### exact rationals with an explicit "not representable" value -/

abbrev XRat := Option Rat

namespace XRat

def lift2 (f : Rat → Rat → Rat) : XRat → XRat → XRat
  | some a, some b => some (f a b)
  | _, _ => none

def div : XRat → XRat → XRat
  | some a, some b => if b = 0 then none else some (a / b)
  | _, _ => none

def ratPowNat (a : Rat) : Nat → Rat
  | 0 => 1
  | n + 1 => ratPowNat a n * a

/-- `a ** b` exactly when `b` is an integer (and `a ≠ 0` for a negative one); `none` otherwise -/
def pw : XRat → XRat → XRat
  | some a, some b =>
    if b.den = 1 then
      if 0 ≤ b.num then some (ratPowNat a b.num.toNat)
      else if a = 0 then none else some (1 / ratPowNat a (-b.num).toNat)
    else none
  | _, _ => none

instance : Add XRat := ⟨lift2 (· + ·)⟩
instance : Sub XRat := ⟨lift2 (· - ·)⟩
instance : Mul XRat := ⟨lift2 (· * ·)⟩
instance : Div XRat := ⟨div⟩
instance : Neg XRat := ⟨fun a => a.map (fun x => -x)⟩
instance : NatCast XRat := ⟨fun n => some (n : Rat)⟩

instance : ADFun XRat where
  log _ := none
  exp _ := none
  sqrt _ := none
  expit _ := none
  pw := pw
  ltb a b := match a, b with
    | some x, some y => decide (x < y)
    | _, _ => false
  eqb a b := match a, b with
    | some x, some y => decide (x = y)
    | _, _ => false

end XRat

/-! ### IEEE doubles (class-T correspondence only; no theorem mentions `Float`) -/

namespace FloatCarrier

scoped instance : NatCast Float := ⟨Nat.toFloat⟩

scoped instance : ADFun Float where
  log := Float.log
  exp := Float.exp
  sqrt := Float.sqrt
  expit x := 1.0 / (1.0 + Float.exp (-x))
  pw := Float.pow
  ltb a b := a < b
  eqb a b := a == b

end FloatCarrier

end IrisVerif
