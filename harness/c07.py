"""
C07 -- Simulation plans hit exogenized points exactly; swaps invert a simulation.

Streams
  plan    random op sequences on a real `SimulationPlan` (exogenize/endogenize x anticipated/unanticipated, status
          True/False, invalid names and out-of-span periods) against the Lean register model: boolean arrays,
          is_empty, any_endogenized_anticipated_except_start and `_get_wrt_spots` compared exactly (class E).
  cond    random small solvable linear models, random exactly identified plans, round trip
          simulate -> exogenize/endogenize -> simulate(plan=...).  The Lean model receives the implementation's
          solution matrices (exact rationals of the floats), builds the impact matrix M exactly, solves
          M e = target - x0 exactly and also runs its transcription of the Kalman-based algorithm; both must agree
          exactly with each other and, within a tolerance tied to the measured cond(M), with the implementation.
Oracle (independent of the Lean model, straight from the property statement): exogenized cells equal their inputs,
no shock cell other than the endogenized ones moves, the output re-simulates to itself with the plain simulator
(and satisfies the generated equations directly when no expectation error is involved), the round trip returns
the original shocks and the whole path.
"""
from __future__ import annotations
import contextlib, io, os, json, fractions, math, zlib

import numpy as np
import irispie as ir

from .common import Ctx, Rng, rat_of_float, VERIF

DRIVERS = ["C07"]
EXTRA_PROPS = ['BridgeC07', 'C07Frames', 'QMatSolveBridge']   # refinement bridge from the executable QMat model to the matrix-level theorems (audited with this check)
LEVEL = "proof"
MANIFEST = {
    "category": "proof",
    "text": ("Lean 4 theorems (Mathlib matrices over any field / commutative ring, any dimensions, any number of periods) about the conditional "
             "simulation of fords/simulators.py as the code performs it -- Kalman predict/smooth with the exogenized points as noiseless "
             "observations (H = 0), unit-scale variance on endogenized shocks, state augmentation for endogenized anticipated shocks: "
             "(1) the smoothed state reproduces every exogenized point exactly (measurement identity, also at the last observation period); "
             "(2) a shock whose variance entry is 0 is returned unchanged, so only endogenized shocks at endogenized dates move, and only "
             "endogenized anticipated cells are written back; (3) the smoothed states and shocks satisfy the transition recursion in every "
             "period, the initial condition is kept and the augmented block is constant, so the output is a simulation; (4) the simulation is "
             "affine in the shocks (induction over periods), hence exogenized cells = x0 + M e, and if M is non-singular the conditional "
             "problem has exactly one solution and the original shocks are it: shocks and whole path are recovered; (5) stacked time: the "
             "unknown cells are exactly (default cells minus exogenized) plus endogenized, their number equals the number of stacked equations "
             "for exactly identified plans, and exactly the exogenized cells are overwritten with input data.  Register semantics "
             "(write/read/is_empty) are theorems about the executable register model.  Partial in the sense of DESIGN section 8: the theorems "
             "are schematic in the matrices; the tie to the code is per run: the executable QMat model of the algorithm and the exact stacked "
             "solve M e = target - x0 are run on the implementation's own solution matrices (floats converted exactly to rationals), must agree "
             "exactly with each other and within a conditioning-controlled tolerance with Simultaneous.simulate(plan=...), for methods "
             "first_order and stacked_time, anticipated and unanticipated plans with 1-4 targets; plan registers and _get_wrt_spots are compared "
             "exactly on random op sequences.  An independent oracle on the real code (round trip, re-simulation, cell comparisons) supplies replays.  "
             "Part 2 (Model/PlanFrames, Props/C07Frames): the expansion memo of the solution object as a state machine with invariant memo[k] = -X J^k Ru "
             "and refinement, by induction over call histories, to the stateless formula (stream `memo`: histories of expand_square_solution on one "
             "object); the loop over frames as a fold on an immutable input (locality of write-back, every frame sees the original input "
             "logarithmized exactly once, composition of per-frame statements into the whole-span statement); plan dates handed over as "
             "collections in any order or as stepped / backward / context-dependent Spans register exactly the grid dates (the plan stream sends "
             "the form actually used to the model); the inverse used by the model's filter is a checked inverse; "
             "method spellings resolve through one table (aliases are one request) and output variant k of a multi-variant run reads model "
             "variant k and data variant min(k, last) (variant locality; multi-variant planned simulations are judged variant by variant)."),
    "design": "7/C07",
    "note": ("Not covered by theorems: IEEE rounding, numpy.linalg.inv, the first-order solution itself (C01), Newton convergence of stacked_time "
             "(the harness sets step_tolerance=inf so that the residual norm alone decides). Mixed anticipated+unanticipated plans and frames "
             "beyond the first are exercised by the oracle only."),
    "technique": "Lean 4 proof of schematic matrix theorems + executable exact-rational model + differential correspondence and independent round-trip oracle",
}
ASSUMPTIONS = [
    "the first-order solution matrices T,K,P,X,J,Ru returned by the implementation are taken as given (their correctness is property C01)",
    "floating point: implementation and exact model are compared within 1e-7*scale on instances whose measured cond(M) <= 1e4",
    "stacked_time: Newton convergence is a runtime matter; solver_settings step_tolerance=inf so that only the residual norm decides",
    "plans are generated in one mode (as the property statement quantifies) or, for a quarter of the cases, mixed with the instrument of every pair at the date of its target; mixed plans under stacked_time are judged on 'exogenized points hit' and 'only endogenized shocks move' only (frames revise anticipated shocks); integer statuses of plan cells are not modelled",
    "log-variables enter models that are linear in the logarithms (first order exact); exp/log themselves are not modelled in Lean (abstract inverse pair)",
]

TOL = 1e-7
COND_MAX = 1e4
VARS = ["x", "y", "z", "w"]


# ---------------------------------------------------------------------------------------
# model programs
# ---------------------------------------------------------------------------------------

def dy(rng: Rng, lo, hi, bits=3):
    """non-zero dyadic"""
    while True:
        v = rng.randint(lo * (1 << bits), hi * (1 << bits)) / float(1 << bits)
        if v != 0:
            return v


def gen_model_spec(rng: Rng):
    """a small linear model: per equation a list of (coef, var, shift) terms, a constant, one shock per equation"""
    n = rng.randint(2, 4)
    names = VARS[:n]
    want_lead = rng.chance(0.6)
    want_lag2 = rng.chance(0.35)
    eqs = []
    for i, v in enumerate(names):
        terms = [(rng.choice([0.5, 0.25, 0.375, 0.625, -0.25, 0.75]), v, -1)]
        for j, o in enumerate(names):
            if o != v and rng.chance(0.45):
                terms.append((rng.choice([0.125, 0.25, -0.125, -0.25, 0.375]), o, -1))
        for j in range(i):
            if rng.chance(0.5):
                terms.append((rng.choice([0.25, -0.25, 0.5, -0.5, 0.125]), names[j], 0))
        if want_lead and rng.chance(0.6):
            terms.append((rng.choice([0.125, 0.25, 0.1875, -0.125]), rng.choice(names), +1))
        if want_lag2 and rng.chance(0.5):
            terms.append((rng.choice([0.125, -0.125, 0.0625]), rng.choice(names), -2))
        const = rng.choice([0.0, 0.5, 1.0, -0.25]) if rng.chance(0.6) else 0.0
        eqs.append({"lhs": v, "terms": terms, "const": const})
    stds = [rng.choice([1.0, 0.5, 2.0, 1.0]) for _ in names]
    # log-variables: the equation of v is written for log(v) and v enters the others as log(v): the model is linear in the logarithms, so
    # the first-order solution is exact, but every simulator has to logarithmise / delogarithmise the data of v
    logs = [v for v in names if rng.chance(0.5)] if rng.chance(0.35) else []
    deterministic = rng.chance(0.15)
    if deterministic:
        stds = [1.0 for _ in names]
    # measurement block: observables that are linear in the (logarithms of the) transition variables plus a measurement shock each
    meas = []
    if rng.chance(0.4):
        for j in range(rng.randint(1, 2)):
            terms = [[rng.choice([1.0, 0.5, -0.5, 0.25, 2.0]), v] for v in rng.sample(names, rng.randint(1, min(2, n)))]
            meas.append({"terms": terms, "const": rng.choice([0.0, 0.5, -1.0])})
    return {"names": names, "eqs": eqs, "stds": stds, "logs": logs, "deterministic": deterministic, "meas": meas}


def meas_names(spec):
    k = len(spec.get("meas") or [])
    return ["m" + "ab"[j] for j in range(k)], ["w" + "ab"[j] for j in range(k)]


def is_log(spec, v) -> bool:
    return v in (spec.get("logs") or [])


def lv(spec, v, x):
    """value on the scale in which the model is linear"""
    return math.log(x) if is_log(spec, v) and x > 0 else (float("nan") if is_log(spec, v) else x)


def variant_spec(spec, k):
    """the singleton model of parameter variant k: the parameterised coefficient written out as a number"""
    out = json.loads(json.dumps(spec))
    pv = out.pop("pvar", None)
    if pv:
        t = out["eqs"][pv["eq"]]["terms"][pv["term"]]
        out["eqs"][pv["eq"]]["terms"][pv["term"]] = [pv["values"][k], t[1], t[2]]
    return out


def model_source(spec, multi=False) -> str:
    logs = spec.get("logs") or []
    pv = spec.get("pvar") if multi else None
    def ref(v, s):
        sh = "" if s == 0 else "{%+d}" % s
        return f"log({v}{sh})" if v in logs else f"{v}{sh}"
    def term(c, v, s):
        return f"{c!r}*{ref(v, s)}"
    lines = ["!transition_variables", "    " + ", ".join(spec["names"])]
    if logs:
        lines += ["!log-variables", "    " + ", ".join(logs)]
    lines += ["!transition_shocks", "    " + ", ".join("e" + v for v in spec["names"])]
    if pv:
        lines += ["!parameters", "    p0"]
    lines += ["!transition_equations"]
    for ei, e in enumerate(spec["eqs"]):
        rhs = " + ".join((f"p0*{ref(t[1], t[2])}" if pv and ei == pv["eq"] and ti == pv["term"] else term(*t)) for ti, t in enumerate(e["terms"])) \
            + f" + e{e['lhs']}" + (f" + {e['const']!r}" if e["const"] else "")
        lines.append(f"    {ref(e['lhs'], 0)} = {rhs};")
    mv, mw = meas_names(spec)
    if mv:
        lines += ["!measurement_variables", "    " + ", ".join(mv), "!measurement_shocks", "    " + ", ".join(mw), "!measurement_equations"]
        for nm, sh, e in zip(mv, mw, spec["meas"]):
            rhs = " + ".join(f"{c!r}*{ref(v, 0)}" for c, v in e["terms"]) + f" + {sh}" + (f" + {e['const']!r}" if e["const"] else "")
            lines.append(f"    {nm} = {rhs};")
    return "\n".join(lines) + "\n"


def build_multi(spec):
    """one model object with one parameter variant per value of the parameterised coefficient"""
    key = "multi:" + json.dumps(spec, sort_keys=True)
    if key in _MODEL_CACHE:
        return _MODEL_CACHE[key]
    logs = spec.get("logs") or []
    kw = {"deterministic": True} if spec.get("deterministic") else {}
    m = ir.Simultaneous.from_string(model_source(spec, multi=True), linear=not logs, **kw)
    m.alter_num_variants(len(spec["pvar"]["values"]))
    m.assign(p0=list(spec["pvar"]["values"]))
    if not spec.get("deterministic"):
        m.assign(**{f"std_e{v}": sd for v, sd in zip(spec["names"], spec["stds"])})
    if logs:
        m.assign(**{v: (1.0 if v in logs else 0.0) for v in spec["names"]})
    with contextlib.redirect_stdout(io.StringIO()):
        m.steady()
    m.solve()
    _MODEL_CACHE[key] = m
    return m


_MODEL_CACHE: dict = {}


def build_model(spec):
    key = json.dumps(spec, sort_keys=True)
    if key in _MODEL_CACHE:
        return _MODEL_CACHE[key]
    logs = spec.get("logs") or []
    kw = {"deterministic": True} if spec.get("deterministic") else {}
    m = ir.Simultaneous.from_string(model_source(spec), linear=not logs, **kw)
    if not spec.get("deterministic"):
        m.assign(**{f"std_e{v}": s for v, s in zip(spec["names"], spec["stds"])})
    if logs:
        m.assign(**{v: (1.0 if v in logs else 0.0) for v in spec["names"]})
    buf = io.StringIO()
    with contextlib.redirect_stdout(buf):
        m.steady()
    m.solve()
    sol = m._gets_solution()
    ok = str(sol.system_stability).upper().endswith("STABLE") and "NO_" not in str(sol.system_stability).upper() \
        and "MULTIPLE" not in str(sol.system_stability).upper()
    ev = np.abs(np.linalg.eigvals(sol.T))
    ok = ok and np.all(np.isfinite(sol.T)) and (ev.max() < 0.97 if ev.size else True)
    _MODEL_CACHE[key] = (m, ok)
    return m, ok


START = ir.qq(2020, 1)


def S(values):
    return ir.Series(start=START, values=np.array(values, dtype=float))


def set_cell(db, name, t, value):
    s = db[name].copy()
    s[START + t] = value
    db[name] = s


def get_cell(db, name, t) -> float:
    return float(db[name].get_data(START + t).ravel()[0])


def values(db, name, N) -> np.ndarray:
    return np.asarray(db[name].get_data(START >> START + (N - 1)), dtype=float).ravel()


METHOD_SPELLINGS = {"first_order": ["first_order", None], "stacked_time": ["stacked_time", "stacked"],
                    "period_by_period": ["period_by_period", "period"]}     # None = the keyword is left out (the documented default)
PLAN_CLASSES = ["SimulationPlan", "PlanSimulate", "Plan"]                     # documented aliases of one class


def resolve_method(spelling):
    """the harness's own resolution of a method spelling (from the documentation of Simultaneous.simulate), not the implementation's table"""
    for canonical, sp in METHOD_SPELLINGS.items():
        if spelling in sp:
            return canonical
    raise KeyError(spelling)


def sim_kwargs(method, key=None):
    """keyword arguments for `simulate`; `method` is the canonical name, `key` (None = canonical spelling) picks one of its spellings"""
    sp = METHOD_SPELLINGS[method]
    spelling = sp[0] if key is None else sp[key % len(sp)]
    kw = {} if spelling is None else {"method": spelling}
    if method == "stacked_time":
        kw["solver_settings"] = {"step_tolerance": float("inf")}
    return kw, spelling


def simulate(m, db, N, method, plan=None, key=None, dev=False):
    span = START >> START + (N - 1)
    buf = io.StringIO()
    kw, _ = sim_kwargs(method, key)
    if dev:
        kw["deviation"] = True      # data are deviations from the steady state: x - xbar, x / xbar for a log-variable
    with contextlib.redirect_stdout(buf):
        return m.simulate(db, span, plan=plan, **kw)


def plan_condition(m, spec, N, targets, instruments) -> float:
    """cond of the impact matrix, by unit perturbations of the plain first-order simulator around the steady state"""
    span = START >> START + (N - 1)
    db = ir.Databox.steady(m, span)
    base = simulate(m, db, N, "first_order")
    cols = []
    for (sh, t) in instruments:
        d = db.copy()
        set_cell(d, sh, t, 1.0)
        s = simulate(m, d, N, "first_order")
        cols.append([lv(spec, v, get_cell(s, v, tt)) - lv(spec, v, get_cell(base, v, tt)) for v, tt in targets])
    return cond_of(np.array(cols, dtype=float).T)


def cond_of(M) -> float:
    """conditioning of an impact matrix whose entries are responses to unit shocks (natural scale 1): max(sigma_max, 1) / sigma_min,
    so that a 1 x 1 matrix holding rounding noise does not pass for well conditioned"""
    try:
        sv = np.linalg.svd(np.asarray(M, dtype=float), compute_uv=False)
    except Exception:
        return float("inf")
    if sv.size == 0 or not np.all(np.isfinite(sv)) or sv.min() == 0:
        return float("inf")
    return float(max(sv.max(), 1.0) / sv.min())

# ---------------------------------------------------------------------------------------
# one conditional-simulation case
# ---------------------------------------------------------------------------------------

def gen_case(rng: Rng, force=None):
    """a single- or (one case in five) multi-variant case"""
    case = _gen_case_single(rng, force)
    if case is None or not rng.chance(0.22) or case["mode"] == "mixed":
        return case
    return attach_variants(rng, case) or case


def attach_variants(rng: Rng, case):
    """turn the own-lag coefficient of one equation into a parameter with 2-3 variant values: one model object with that many parameter
    variants, one plan, input data (targets, shocks) that differ across variants; every variant must itself be stable and identified"""
    spec = json.loads(json.dumps(case["spec"]))
    ei = rng.randint(0, len(spec["names"]) - 1)
    c = spec["eqs"][ei]["terms"][0][0]
    K = rng.choice([2, 2, 3])
    spec["pvar"] = {"eq": ei, "term": 0, "values": [c, c / 2, -c / 4][:K]}
    for k in range(1, K):
        try:
            mk, ok = build_model(variant_spec(spec, k))
        except Exception:
            ok = False
        if not ok or plan_condition(mk, variant_spec(spec, k), case["N"], [tuple(c_) for c_ in case["targets"]],
                                    [tuple(c_) for c_ in case["instruments"]]) > 1e3:
            return None
    try:
        build_multi(spec)
    except Exception:
        return None
    return dict(case, spec=spec, stages=None, stage_methods=None, deviation=False, zero_targets=[])


def _gen_case_single(rng: Rng, force=None):
    """a JSON-able case: model spec, horizon, mode, method, background shocks, instruments with their true values, targets"""
    force = force or {}
    for _attempt in range(40):
        spec = gen_model_spec(rng)
        try:
            m, ok = build_model(spec)
        except Exception:
            ok = False
        if ok:
            break
    else:
        return None
    names = spec["names"]
    n = len(names)
    N = rng.randint(3, 7)
    mode = force.get("mode") or rng.weighted([("unant", 3), ("ant", 3), ("mixed", 2)])
    method = force.get("method") or rng.weighted([("first_order", 3), ("stacked_time", 2)])
    k = rng.randint(1, min(4, n * 2))
    if mode == "mixed":
        return gen_mixed_case(rng, spec, m, N, method, max(k, 2))
    pre = "ant_" if mode == "ant" else ""
    cells = [(v, t) for v in names for t in range(N)]
    has_lead = any(sh > 0 for e in spec["eqs"] for _, _, sh in e["terms"])
    best = None
    stepped = rng.chance(0.3)
    cluster = (not stepped) and n >= 2 and rng.chance(0.25)
    for _try in range(8):
        targets = rng.sample(cells, k)
        instruments = []
        if cluster:
            # two or three variables swapped with their own shocks at ONE date (handed to the plan as one swap_* call with a list of pairs)
            t = rng.randint(0, N - 1)
            targets = [(v, t) for v in rng.sample(names, rng.randint(2, min(3, n)))]
            instruments = [(pre + "e" + v, t) for v, _ in targets]
        if stepped:
            # one variable swapped with its own shock on a grid of dates with step 2 or 3 (handed to the plan as one stepped Span)
            v, d = rng.choice(names), rng.choice([2, 2, 3])
            cnt = rng.randint(2, max(2, min(3, (N - 1) // d + 1)))
            t0 = rng.randint(0, max(0, N - 1 - d * (cnt - 1)))
            targets = [(v, t0 + j * d) for j in range(cnt) if t0 + j * d < N]
            instruments = [(pre + "e" + v, t) for _, t in targets]
            others = [c for c in cells if c[0] != v]
            if others and rng.chance(0.5):
                o = rng.choice(others)
                targets.append(o)
                instruments.append((pre + "e" + o[0], o[1]))
        for (v, t) in ([] if (stepped or cluster) else targets):
            if (method == "stacked_time" and mode == "unant") or rng.chance(0.5):
                # stacked time treats every unanticipated date as a frame of its own: identification must hold date by date
                dates = [t]
            elif mode == "ant" and has_lead:
                dates = list(range(N))
            else:
                dates = list(range(t + 1))
            pool = [(pre + "e" + s, d) for s in names for d in dates if (pre + "e" + s, d) not in instruments]
            if rng.chance(0.5) and (pre + "e" + v, t) in pool:
                instruments.append((pre + "e" + v, t))
            elif pool:
                instruments.append(rng.choice(pool))
        if len(instruments) != len(targets):
            continue
        cond = plan_condition(m, spec, N, targets, instruments)
        if best is None or cond < best[0]:
            best = (cond, targets, instruments)
        if cond <= 1e3:
            break
    if best is None:
        return None
    _, targets, instruments = best
    k = len(targets)
    # background shocks (not endogenized); unanticipated ones after the first period would split an anticipated plan into frames
    background = []
    for _ in range(rng.randint(0, 3)):
        kind = rng.choice(["", "ant_"])
        t = rng.randint(0, N - 1)
        if kind == "" and mode == "ant":
            t = 0
        cell = (kind + "e" + rng.choice(names), t)
        if cell not in instruments and cell not in [c for c, _ in background]:
            background.append((cell, dy(rng, -2, 2)))
    last_planned = max([t for _, t in targets] + [t for _, t in instruments])
    if mode == "ant" and last_planned < N - 1 and rng.chance(0.4):
        # an unanticipated shock after every planned date: first order and stacked time split the run into two frames there
        cell = ("e" + rng.choice(names), rng.randint(last_planned + 1, N - 1))
        if cell not in [c for c, _ in background]:
            background.append((cell, dy(rng, -2, 2)))
    truth = [dy(rng, -2, 2) for _ in instruments]
    prior = [rng.choice([0.0, 0.0, dy(rng, -1, 1)]) for _ in instruments]
    init = {v: [dy(rng, -1, 1, 2), dy(rng, -1, 1, 2)] for v in names} if rng.chance(0.7) else {}
    stages, stage_methods = None, None
    if k >= 2 and rng.chance(0.45):
        # one plan object used for several simulations: points are added (or switched off with status=False) in between
        every = list(range(k))
        stages = []
        for _ in range(rng.randint(2, 3)):
            sub = sorted(rng.sample(every, rng.randint(1, k)))
            if not stages or sub != stages[-1]:
                stages.append(sub)
        if len(stages) < 2:
            stages = [sorted(rng.sample(every, k - 1)), every]
        other = {"first_order": "stacked_time", "stacked_time": "first_order"}[method]
        may_switch = not (method == "first_order" and mode == "unant")
        stage_methods = [other if (may_switch and rng.chance(0.25)) else method for _ in stages]
    deviation = method == "first_order" and rng.chance(0.3)
    if deviation and stage_methods:
        stage_methods = ["first_order"] * len(stage_methods)     # deviation mode is a first-order feature
    zero_targets = sorted(rng.sample(list(range(k)), rng.randint(1, k))) if rng.chance(0.3) else []
    return {"stages": stages, "stage_methods": stage_methods, "deviation": deviation, "zero_targets": zero_targets,
            "spec": spec, "N": N, "mode": mode, "method": method, "targets": [list(c) for c in targets],
            "instruments": [list(c) for c in instruments], "truth": truth, "prior": prior,
            "background": [[list(c), v] for c, v in background], "init": init, "scramble": rng.chance(0.5),
            "scramble_seed": rng.randint(0, 10**6)}


def gen_mixed_case(rng: Rng, spec, m, N, method, k):
    """ONE plan holding anticipated and unanticipated swaps side by side.  Every pair has its instrument at the date of its target, so that
    the sub-plan from any date onwards is exactly identified as well (the simulators split a mixed run into frames at the unanticipated
    dates and solve each frame from its start to the end); no known unanticipated shock after the first period."""
    names = spec["names"]
    cells = [(v, t) for v in names for t in range(N)]
    best = None
    for _try in range(8):
        targets = rng.sample(cells, k)
        modes = [rng.choice(["ant", "unant"]) for _ in targets]
        if len(set(modes)) < 2:
            modes[0], modes[1] = "unant", "ant"
        instruments = []
        for (v, t), md in zip(targets, modes):
            pre = "ant_" if md == "ant" else ""
            # from the start of a frame an anticipated and an unanticipated shock of the same name and date are the same instrument
            other = "" if md == "ant" else "ant_"
            pool = [(pre + "e" + s, t) for s in names if (pre + "e" + s, t) not in instruments and (other + "e" + s, t) not in instruments]
            if (method == "stacked_time" or rng.chance(0.5)) and (pre + "e" + v, t) in pool:
                # stacked time solves other sub-plans per frame (anticipated pairs from the frame start on, unanticipated pairs of the
                # first column only): the own shock of the target keeps every sub-plan identified
                instruments.append((pre + "e" + v, t))
            elif pool and method != "stacked_time":
                instruments.append(rng.choice(pool))
        if len(instruments) != k:
            continue
        # identification from every date onwards
        cond = 0.0
        for b in sorted({t for _, t in targets}):
            idx = [i for i, (_, t) in enumerate(targets) if t >= b]
            # as seen from the start of the frame that begins at b (the model is time invariant: shift the dates)
            cond = max(cond, plan_condition(m, spec, N - b, [(targets[i][0], targets[i][1] - b) for i in idx],
                                            [(instruments[i][0], instruments[i][1] - b) for i in idx]))
        if best is None or cond < best[0]:
            best = (cond, targets, instruments, modes)
        if cond <= 1e2:
            break
    if best is None or best[0] > 1e3:
        return None
    _, targets, instruments, modes = best
    background = []
    for _ in range(rng.randint(0, 2)):
        cell = (rng.choice(["", "ant_"]) + "e" + rng.choice(names), 0)
        if cell[0].startswith("ant_"):
            cell = (cell[0], rng.randint(0, N - 1))
        if cell not in instruments and cell not in [c for c, _ in background]:
            background.append((cell, dy(rng, -2, 2)))
    stages = None
    if rng.chance(0.3):
        # staged: the unanticipated pairs are always active (an inactive one would stay in the input as a known unanticipated shock at a
        # later date and split the run into frames that revise the anticipated instruments); anticipated pairs are added in the second stage
        every = list(range(k))
        ants = [i for i in every if modes[i] == "ant"]
        drop = set(rng.sample(ants, rng.randint(1, len(ants))))
        stages = [[i for i in every if i not in drop], every]
    return {"stages": stages, "stage_methods": None, "modes": modes, "deviation": method == "first_order" and rng.chance(0.3),
            "zero_targets": sorted(rng.sample(list(range(k)), rng.randint(1, k))) if rng.chance(0.3) else [],
            "spec": spec, "N": N, "mode": "mixed", "method": method, "targets": [list(c) for c in targets],
            "instruments": [list(c) for c in instruments], "truth": [dy(rng, -2, 2) for _ in instruments],
            "prior": [0.0 for _ in instruments], "background": [[list(c), v] for c, v in background],
            "init": {v: [dy(rng, -1, 1, 2), dy(rng, -1, 1, 2)] for v in names} if rng.chance(0.7) else {},
            "scramble": rng.chance(0.5), "scramble_seed": rng.randint(0, 10**6)}


def _date_forms(offs, NP, key):
    """(name, maker of the Python object, text of the form in the Lean line protocol) -- see `dates_arg`"""
    offs = [int(t) for t in offs]
    per = [START + t for t in offs]
    csv = lambda l: ",".join(str(t) for t in l)
    forms = [("tuple", lambda: tuple(per), csv(offs)), ("list", lambda: list(per), csv(offs)),
             ("reversed", lambda: tuple(reversed(per)), csv(offs[::-1])),
             ("rotated", lambda: tuple(per[1:] + per[:1]), csv(offs[1:] + offs[:1]))]
    srt = sorted(set(offs))
    d = None
    if len(srt) == len(offs) and len(srt) >= 2 and len({b - a for a, b in zip(srt, srt[1:])}) == 1:
        d = srt[1] - srt[0]
    elif len(offs) == 1:
        d = 1 + key // 7 % 3
        forms.append(("period", lambda: per[0], csv(offs)))
    if d is not None:
        a, b = srt[0], srt[-1]
        span_forms = [("span", lambda: ir.Span(START + a, START + b, d), f"s/{a}/{b}/{d}"),
                      ("backspan", lambda: ir.Span(START + b, START + a, -d), f"s/{b}/{a}/{-d}")]
        if 0 <= a and b < NP:
            c = NP - 1 - b
            span_forms += [("ctxspan", lambda: ir.Span(ir.start + a, ir.end - c, d), f"s/cs:{a}/ce:{-c}/{d}"),
                           ("ctxback", lambda: ir.Span(ir.end - c, ir.start + a, -d), f"s/ce:{-c}/cs:{a}/{-d}")]
        forms = span_forms * 2 + forms      # spans are the interesting forms: twice the weight
    name, make, proto = forms[key % len(forms)]
    return name + (f"(step {d})" if "span" in name or "ctx" in name else ""), make, proto


def dates_arg(offs, NP, key):
    """one of the ways a user can hand the intended plan dates `START + t, t in offs` to exogenize_*/endogenize_*: a tuple or list of
    periods in the given, reversed or rotated order, a single Period, and -- when the offsets are an arithmetic progression -- a `Span`
    with that step, forward or backward (negative step), with resolved or context-dependent (`ir.start + a`, `ir.end - c`) end points.
    The intended set is `offs` whatever the form; `key` picks the form deterministically (so that a replay picks the same)."""
    name, make, _ = _date_forms(offs, NP, key)
    return make(), name


def dates_proto(offs, NP, key) -> str:
    """the same form as text for the Lean driver (`t1,t2,…` in the order handed over, or `s/<e1>/<e2>/<step>` for a Span): the model
    normalises the form itself (`periodIndexes`), the oracles work from the intended set"""
    return _date_forms(offs, NP, key)[2]


def lean_plan_line(line: str) -> str:
    """a plan-stream request with every op's dates in the form in which the implementation receives them"""
    secs = [s.strip() for s in line.split("|")]
    NP = int(secs[0].split()[1])
    ops = []
    for opj, op in enumerate([o.strip() for o in secs[1].split(";") if o.strip()]):
        w, k, stt, per, nm = op.split()
        ops.append(" ".join([w, k, stt, dates_proto([int(t) for t in per.split(",")], NP, form_key(op, opj)), nm]))
    return " | ".join([secs[0], ";".join(ops)] + secs[2:])


def form_key(*parts) -> int:
    return zlib.crc32("|".join(str(x) for x in parts).encode())


def stages_of(case):
    """the sequence of (active pair indices, method) simulated with ONE plan object; an unstaged case is one stage with every pair"""
    k = len(case["targets"])
    st = case.get("stages") or [list(range(k))]
    ms = case.get("stage_methods") or [case["method"]] * len(st)
    return list(zip(st, ms))


def variant_db(db, k, N, names):
    """variant k of a multi-variant databox as a singleton databox (the series of `names`, presample included)"""
    out = ir.Databox()
    win = START - 3 >> START + (N - 1)
    for nm in names:
        a = np.asarray(db[nm].get_data(win), dtype=float).reshape(N + 3, -1)
        out[nm] = ir.Series(start=START - 3, values=np.array(a[:, min(k, a.shape[1] - 1)]))
    return out


def merge_variants(base, dbs, N, names):
    """a multi-variant databox whose variant k is `dbs[k]` (series of `names`); everything else from `base`"""
    out = base.copy()
    win = START - 3 >> START + (N - 1)
    for nm in names:
        cols = [np.asarray(d[nm].get_data(win), dtype=float).reshape(N + 3, -1)[:, 0] for d in dbs]
        out[nm] = ir.Series(start=START - 3, values=np.column_stack(cols))
    return out


def run_impl_multi(case):
    """a model with several PARAMETER variants and input data that differ across variants, simulated with ONE plan in ONE call; judged
    variant by variant against the singleton model of that variant (its own first leg, targets, shocks).  Returns (subcase, result) per
    variant, the result holding variant k of the multi-variant planned simulation as `sim2`."""
    spec, N = case["spec"], case["N"]
    K = len(spec["pvar"]["values"])
    names, us, vs = all_names(spec)
    singles = []
    for k in range(K):
        ck = dict(case, spec=variant_spec(spec, k), truth=[t + 0.5 * k for t in case["truth"]], stages=None, stage_methods=None)
        sub, out = run_impl(ck)[0]
        sub = dict(sub, variant=k, full=case)
        singles.append((sub, out))
    mm = build_multi(spec)
    span = START >> START + (N - 1)
    skey = case["scramble_seed"]
    plan = getattr(ir, PLAN_CLASSES[form_key(skey, "class") % len(PLAN_CLASSES)])(mm, span)
    for i, ((v, t), (sh, ts)) in enumerate(zip(case["targets"], case["instruments"])):
        md = case["modes"][i] if case.get("modes") else case["mode"]
        suf = "anticipated" if md == "ant" else "unanticipated"
        if t == ts and form_key(skey, i, "mswap") % 2 == 0:
            getattr(plan, "swap_" + suf)(dates_arg([t], N, form_key(skey, "m", i))[0], (v, sh))
        else:
            getattr(plan, "exogenize_" + suf)(dates_arg([t], N, form_key(skey, "mx", i))[0], v)
            getattr(plan, "endogenize_" + suf)(dates_arg([ts], N, form_key(skey, "mn", i))[0], sh)
    db2 = merge_variants(ir.Databox.steady(mm, span), [o["db2"] for _, o in singles], N, every_name(spec))
    results = []
    try:
        sim2 = simulate(mm, db2, N, case["method"], plan=plan, key=form_key(skey, "mmethod"))
        err = None
    except Exception as e:
        sim2, err = None, f"{type(e).__name__}: {str(e)[:120]}"
    for k, (sub, out) in enumerate(singles):
        o = {kk: vv for kk, vv in out.items() if kk not in ("sim2", "error", "canon", "canon_error")}
        o["spellings"] = [f"variants:{K}"]
        if err:
            o["error"] = err
        else:
            o["sim2"] = variant_db(sim2, k, N, every_name(spec))
            if "sim2" in out:
                # variant locality: variant k of the multi-variant run = the singleton run of variant k
                o["canon"], o["canon_site"] = out["sim2"], "variant-locality"
        results.append((sub, o))
    return results


def run_impl(case):
    """the round trip on the implementation: one first leg, then one planned simulation per stage, all stages on the same
    `SimulationPlan` object (points added with status=True, removed with status=False between the simulations).
    Returns a list of (subcase, result) per stage; result has 'sim2' or 'error'."""
    spec, N, mode, method = case["spec"], case["N"], case["mode"], case["method"]
    if spec.get("pvar"):
        return run_impl_multi(case)
    m, ok = build_model(spec)
    names = spec["names"]
    span = START >> START + (N - 1)
    dev = bool(case.get("deviation"))
    db = ir.Databox.steady(m, span, deviation=dev)
    for v, (a, b) in case["init"].items():
        # presample deviations from steady state (two periods back; unused ones are ignored by the simulator)
        for lag, d in ((1, a), (2, b)):
            s = db[v].copy()
            try:
                base = float(s.get_data(START - lag).ravel()[0])
            except Exception:
                continue
            if math.isfinite(base):
                s[START - lag] = base * math.exp(d / 2) if is_log(spec, v) else base + d
                db[v] = s
    for (cell, val) in case["background"]:
        set_cell(db, cell[0], cell[1], val)
    for (sh, t), val in zip(case["instruments"], case["truth"]):
        set_cell(db, sh, t, val)
    mrng = Rng(case["scramble_seed"] + 7007)
    for sh in meas_names(spec)[1]:
        for t in mrng.sample(list(range(N)), mrng.randint(1, min(3, N))):
            set_cell(db, sh, t, dy(mrng, -2, 2))       # NON-ZERO measurement shocks in the input of every planned simulation
    sim1 = simulate(m, db, N, method, key=form_key(case["scramble_seed"], "first-leg"), dev=dev)
    skey = case["scramble_seed"]
    plan_class = PLAN_CLASSES[form_key(skey, "class") % len(PLAN_CLASSES)]
    plan = getattr(ir, plan_class)(m, span)
    spellings: list = [f"class:{plan_class}"]
    def suffix(i):
        # a mixed plan holds anticipated and unanticipated swaps side by side: the mode is a property of the pair
        md = case["modes"][i] if case.get("modes") else mode
        return "anticipated" if md == "ant" else "unanticipated"
    active: set = set()
    forms_used: list = []
    results = []
    staged = len(stages_of(case)) > 1
    for si, (want, stage_method) in enumerate(stages_of(case)):
        want = set(want)
        for idxs, status in ((sorted(want - active), True), (sorted(active - want), False)):
            # the dates of one name are handed over in one call, as a tuple/list in some order or as a (stepped, backward, contextual) Span
            groups: dict = {}
            same_date: dict = {}
            for i in idxs:
                (v, t), (sh, ts) = case["targets"][i], case["instruments"][i]
                if t == ts:
                    same_date.setdefault((suffix(i), t), []).append(i)
            swaps: dict = {}
            for i in idxs:
                (v, t), (sh, ts) = case["targets"][i], case["instruments"][i]
                # the documented one-call spelling of "exogenize v and endogenize sh at the same dates"; pairs that share mode and date go
                # into ONE swap_* call as a list of pairs (two thirds of them), a lone pair is written as a swap one time in three
                shared = t == ts and len(same_date[(suffix(i), t)]) >= 2
                if t == ts and form_key(skey, si, i, "swap") % 3 < (2 if shared else 1):
                    swaps.setdefault((suffix(i), t), []).append(i)
                    continue
                groups.setdefault(("exogenize_" + suffix(i), v), []).append(t)
                groups.setdefault(("endogenize_" + suffix(i), sh), []).append(ts)
            for (suf, t), members in swaps.items():
                obj, form = dates_arg([t], N, form_key(skey, si, "swap", suf, t))
                forms_used.append(form.split("(")[0])
                pairs = [(case["targets"][i][0], case["instruments"][i][0]) for i in members]
                how = form_key(skey, si, "pairs", suf, t) % 2
                arg = pairs[0] if len(pairs) == 1 and how == 0 else (tuple(pairs) if how == 0 else list(pairs))
                spellings.append("swap_*(one pair)" if len(pairs) == 1 else f"swap_*({len(pairs)} pairs in one call)")
                getattr(plan, "swap_" + suf)(obj, arg, **({} if status else {"status": False}))
            for (meth, nm), ts_ in groups.items():
                obj, form = dates_arg(ts_, N, form_key(skey, si, meth, nm, ts_))
                forms_used.append(form.split("(")[0])
                how = form_key(skey, si, meth, nm, "kw") % 3
                if how == 0:
                    spellings.append("keywords")
                    getattr(plan, meth)(dates=obj, names=nm, status=status)
                elif how == 1 and status:
                    spellings.append("status-omitted")
                    getattr(plan, meth)(obj, nm)
                else:
                    spellings.append("positional")
                    getattr(plan, meth)(obj, nm, status=status)
        active = want
        idx = sorted(active)
        sub = dict(case, targets=[case["targets"][i] for i in idx], instruments=[case["instruments"][i] for i in idx],
                   truth=[case["truth"][i] for i in idx], prior=[case["prior"][i] for i in idx], method=stage_method)
        if case.get("modes"):
            sub["modes"] = [case["modes"][i] for i in idx]
        if staged:
            sub["stage"] = si
            sub["full"] = case
            sub.pop("stages", None)
            sub.pop("stage_methods", None)
        # second leg: targets from sim1, active instruments reset to a prior value (the others stay as known shocks)
        db2 = sim1.copy()
        for (sh, t), p in zip(sub["instruments"], sub["prior"]):
            set_cell(db2, sh, t, p)
        zeroed = [i for i in (case.get("zero_targets") or []) if i in active]
        for i in zeroed:
            # a target of EXACTLY zero on the solution scale ("hold the gap at zero"; 1.0 for a log-variable, whose logarithm is zero):
            # not taken from the first leg, so the round trip is not demanded of this stage, everything else is
            v, t = case["targets"][i]
            set_cell(db2, v, t, 1.0 if is_log(spec, v) else 0.0)
        if zeroed:
            sub["zeroed"] = True
        if case["scramble"]:
            r = Rng(case["scramble_seed"] + si)
            tset = {(v, t) for v, t in sub["targets"]}
            for v in names:
                for t in range(N):
                    if (v, t) not in tset:
                        d = r.dyadic(-2, 2)
                        set_cell(db2, v, t, get_cell(db2, v, t) * math.exp(d / 2) if is_log(spec, v) else get_cell(db2, v, t) + d)
        mkey = form_key(skey, si, "method")
        out = {"m": m, "db1": db, "sim1": sim1, "db2": db2, "plan": plan, "forms": list(forms_used),
               "spellings": list(spellings) + [f"method:{sim_kwargs(stage_method, mkey)[1]}"]}
        try:
            out["sim2"] = simulate(m, db2, N, stage_method, plan=plan, key=mkey, dev=dev)
        except Exception as e:
            out["error"] = f"{type(e).__name__}: {str(e)[:120]}"
        if "sim2" in out and form_key(skey, si, "equiv") % 2 == 0:
            # the same request in the canonical spelling: a fresh plan of the canonical class, one exogenize_/endogenize_ call per point with
            # positional arguments and a tuple of one period, the full method name
            try:
                canon = ir.SimulationPlan(m, span)
                for i in idx:
                    (v, t), (sh, ts) = case["targets"][i], case["instruments"][i]
                    getattr(canon, "exogenize_" + suffix(i))((START + t,), v, status=True)
                    getattr(canon, "endogenize_" + suffix(i))((START + ts,), sh, status=True)
                out["canon"] = simulate(m, db2, N, stage_method, plan=canon, dev=dev)
            except Exception as e:
                out["canon_error"] = f"{type(e).__name__}: {str(e)[:120]}"
        results.append((sub, out))
    return results


def every_name(spec):
    names, us, vs = all_names(spec)
    mv, mw = meas_names(spec)
    return names + us + vs + mv + mw


def all_names(spec):
    names = spec["names"]
    return names, ["e" + v for v in names], ["ant_e" + v for v in names]


def impact_numeric(case, r):
    """M by unit perturbations of the plain simulator (independent of the plan code): rows targets, columns instruments"""
    m, N = r["m"], case["N"]
    dev = bool(case.get("deviation"))
    base = simulate(m, r["db2"], N, "first_order", dev=dev)
    cols = []
    for (sh, t) in case["instruments"]:
        d = r["db2"].copy()
        set_cell(d, sh, t, get_cell(d, sh, t) + 1.0)
        s = simulate(m, d, N, "first_order", dev=dev)
        cols.append([lv(case["spec"], v, get_cell(s, v, tt)) - lv(case["spec"], v, get_cell(base, v, tt)) for v, tt in case["targets"]])
    return np.array(cols, dtype=float).T


def scale_of(case, r):
    names, us, vs = all_names(case["spec"])
    mx = 1.0
    for key in ("sim1", "sim2"):
        # the magnitude of the numbers involved: the first leg and the planned output (a zeroed target of a log-variable with a large steady
        # level moves the output by many orders of magnitude; rounding is relative to that)
        if key not in r:
            continue
        for nm in names + us + vs:
            a = values(r[key], nm, case["N"])
            if a.size and np.all(np.isfinite(a)):
                mx = max(mx, float(np.max(np.abs(a))))
    return mx


def weak_case(case) -> bool:
    """a mixed plan under stacked time is solved frame by frame (one frame per unanticipated date), each frame imposing only its own
    unanticipated points: the anticipated shocks estimated in an early frame are revised in the later ones, so the final databox is by
    construction not one perfect-foresight simulation and the round trip is not exact.  What the property can demand there: the
    exogenized points are hit and only endogenized shock cells move."""
    return case["mode"] == "mixed" and case["method"] == "stacked_time"


def oracle_spelling(ctx: Ctx, case, r) -> bool:
    """API equivalence: the same request written with aliases (method="stacked", the keyword left out for the default method, the plan
    class aliases, swap_* for an exogenize/endogenize pair, keyword arguments, Span / list forms of the dates) and written canonically
    must give the same databox"""
    if "canon_error" in r:
        ctx.fail(f"{r.get('canon_site', 'spelling-equivalence')}-{case['method']}", case,
                 f"runs as {r.get('spellings')} but the canonical spelling raises {r['canon_error']}")
        return False
    if "canon" not in r:
        return True
    N = case["N"]
    names, us, vs = all_names(case["spec"])
    scale = scale_of(case, r)
    for nm in every_name(case["spec"]):
        a, b = values(r["sim2"], nm, N), values(r["canon"], nm, N)
        if not np.all((np.abs(a - b) <= (1e-9 if r.get("canon_site") else 1e-12) * scale) | (np.isnan(a) & np.isnan(b))):
            t = int(np.nanargmax(np.abs(a - b)))
            ctx.fail(f"{r.get('canon_site', 'spelling-equivalence')}-{case['method']}", case,
                     f"{nm}[{t}]: {a[t]!r} under {r.get('spellings')}, {b[t]!r} under the canonical spelling / the singleton run of the same request")
            return False
    return True


def oracle_case(ctx: Ctx, case, r, cond) -> bool:
    """the property on the implementation; True when everything demanded holds"""
    spec, N = case["spec"], case["N"]
    names, us, vs = all_names(spec)
    sim1, sim2, db2 = r["sim1"], r["sim2"], r["db2"]
    scale = scale_of(case, r)
    tol = TOL * scale
    good = True
    # (1) exogenized cells equal their inputs
    for v, t in case["targets"]:
        a, b = get_cell(sim2, v, t), get_cell(db2, v, t)
        if not abs(a - b) <= tol:
            ctx.fail(f"exogenized-not-hit-{case['method']}-{case['mode']}", case, f"{v}[{t}]: output {a!r} input {b!r}")
            return False
    # (2) only endogenized shock cells move
    inst = {(s, t) for s, t in case["instruments"]}
    mv, mw = meas_names(spec)
    for s in us + vs + mw:
        a, b = values(sim2, s, N), values(db2, s, N)
        for t in range(N):
            if (s, t) not in inst and not abs(a[t] - b[t]) <= 1e-12 * scale:
                ctx.fail(f"non-endogenized-shock-moved-{case['method']}-{case['mode']}", case, f"{s}[{t}]: output {a[t]!r} input {b[t]!r}")
                return False
    if weak_case(case):
        return good
    # (3) the output is a simulation: the plain simulator, fed with the output's shocks and initial condition, returns the output
    try:
        dev = bool(case.get("deviation"))
        again = simulate(r["m"], sim2, N, "first_order", dev=dev)
        if case["method"] == "first_order":
            # (3m) every measurement variable satisfies its equation with the measurement shock as it came in (stacked_time leaves the
            # measurement block alone: there only "the shock is returned unchanged" is demanded, clause (2))
            for nm, sh, e in zip(mv, mw, spec.get("meas") or []):
                rhs = sum(c * np.array([lv(spec, v, float(x)) for x in values(sim2, v, N)]) for c, v in e["terms"]) + values(db2, sh, N) + (0.0 if dev else e["const"])
                a = values(sim2, nm, N)
                if not np.all(np.abs(a - rhs) <= tol):
                    t = int(np.argmax(np.abs(a - rhs)))
                    ctx.fail(f"measurement-equation-{case['method']}-{case['mode']}", case,
                             f"{nm}[{t}] = {a[t]!r}, its equation with the input measurement shock {sh}[{t}] = {values(db2, sh, N)[t]!r} gives {rhs[t]!r}")
                    return False
        for v in names + (mv if case["method"] == "first_order" else []):
            a, b = values(again, v, N), values(sim2, v, N)
            if not np.all(np.abs(a - b) <= tol):
                t = int(np.argmax(np.abs(a - b)))
                ctx.fail(f"output-not-a-simulation-{case['method']}-{case['mode']}", case,
                         f"{v}[{t}]: plan output {b[t]!r}, plain simulation of the output shocks {a[t]!r}")
                return False
    except Exception as e:
        ctx.fail("resimulation-raises", case, repr(e))
        return False
    # (3b) direct residuals of the generated equations when every lead is realised as expected (no unanticipated shock after period 0)
    no_surprise = all(np.all(values(sim2, s, N)[1:] == 0) for s in us)
    has_lead = any(sh > 0 for e in spec["eqs"] for _, _, sh in e["terms"])
    if no_surprise or not has_lead:
        X = {v: [lv(spec, v, float(x)) for x in values(sim2, v, N)] for v in names}
        pre = {v: [lv(spec, v, float(x)) for x in np.asarray(sim2[v].get_data(START - 2 >> START - 1), dtype=float).ravel()] for v in names}
        def val(v, t):
            return X[v][t] if t >= 0 else pre[v][2 + t]
        for e in spec["eqs"]:
            for t in range(N - 1 if has_lead else N):
                rhs = sum(c * val(v, t + sh) for c, v, sh in e["terms"]) + (0.0 if case.get("deviation") else e["const"]) \
                    + values(sim2, "e" + e["lhs"], N)[t] + values(sim2, "ant_e" + e["lhs"], N)[t]
                if not abs(X[e["lhs"]][t] - rhs) <= tol:
                    ctx.fail(f"equation-residual-{case['method']}-{case['mode']}", case, f"equation of {e['lhs']} at t={t}: {X[e['lhs']][t] - rhs!r}")
                    return False
    # (4) the round trip recovers shocks and path (tolerance only where the measured conditioning allows)
    if cond <= COND_MAX and not case.get("zeroed"):
        for nm in names + us + vs + mw:
            a, b = values(sim1, nm, N), values(sim2, nm, N)
            if not np.all(np.abs(a - b) <= tol):
                t = int(np.argmax(np.abs(a - b)))
                kind = "path" if nm in names else "shocks"
                ctx.fail(f"round-trip-{kind}-not-recovered-{case['method']}-{case['mode']}", case,
                         f"{nm}[{t}]: original {a[t]!r}, after exogenize/endogenize {b[t]!r} (cond M = {cond:.3g})")
                good = False
                break
    return good


# ---------------------------------------------------------------------------------------
# Lean request for a case
# ---------------------------------------------------------------------------------------

def mat_text(a) -> str:
    a = np.asarray(a, dtype=float)
    if a.ndim == 1:
        a = a.reshape(-1, 1)
    r, c = a.shape
    return " ".join([str(r), str(c)] + [rat_of_float(0.0 if x != x else x) for x in a.ravel()])


def bits_text(tbl) -> str:
    return ",".join("".join("1" if b else "0" for b in row) for row in tbl) if len(tbl) else "-"


def lean_request(case, r, order="col") -> str:
    m, N, spec = r["m"], case["N"], case["spec"]
    names, us, vs = all_names(spec)
    sol = m._gets_solution(deviation=bool(case.get("deviation")))
    vec = m._get_dynamic_solution_vectors()
    qid_to_name = m.create_qid_to_name()
    _, curr_idx = vec.get_curr_transition_indexes()
    curr_names = [qid_to_name[q] for q in vec.get_curr_transition_indexes()[0]]
    db2 = r["db2"]
    init = []
    for tok in vec.transition_variables:
        try:
            init.append(lv(spec, qid_to_name[tok.qid], float(db2[qid_to_name[tok.qid]].get_data(START - 1 + tok.shift).ravel()[0])))
        except Exception:
            init.append(float("nan"))
    true_init = [bool(b) for b in vec.true_initials]
    u0 = np.array([values(db2, s, N) for s in us])
    v0 = np.array([values(db2, s, N) for s in vs])
    std = np.array([[sd] * N for sd in spec["stds"]])
    exo = [[(v, t) in {tuple(c) for c in case["targets"]} for t in range(N)] for v in curr_names]
    tgt = np.array([[lv(spec, v, get_cell(db2, v, t)) if exo[i][t] else 0.0 for t in range(N)] for i, v in enumerate(curr_names)])
    inst = {tuple(c) for c in case["instruments"]}
    endo_u = [[(s, t) in inst for t in range(N)] for s in us]
    endo_v = [[(s, t) in inst for t in range(N)] for s in vs]
    secs = [f"cond {order}", mat_text(sol.T), mat_text(sol.K), mat_text(sol.P), mat_text(sol.X), mat_text(sol.J), mat_text(sol.Ru),
            ",".join(str(int(i)) for i in curr_idx), mat_text(init), bits_text([true_init]), str(N),
            mat_text(u0), mat_text(v0), mat_text(std), mat_text(std), bits_text(exo), mat_text(tgt), bits_text(endo_u), bits_text(endo_v)]
    return " | ".join(secs)


def parse_mat(s: str):
    ws = s.split()
    if not ws or ws[0] == "-":
        return None
    r, c = int(ws[0]), int(ws[1])
    vals = [float(fractions.Fraction(w)) for w in ws[2:2 + r * c]]
    return np.array(vals, dtype=float).reshape(r, c)


def parse_reply(reply: str):
    secs = [s.strip() for s in reply.split("|")]
    if len(secs) != 9:
        return None
    out = {"agree": secs[0].split("=")[1]}
    for key, off in (("kalman", 1), ("stacked", 5)):
        head = secs[off].split()
        out[key] = {"status": head[1], "flags": dict(w.split("=") for w in head[2:]),
                    "xi": parse_mat(secs[off + 1]), "u": parse_mat(secs[off + 2]), "v": parse_mat(secs[off + 3])}
    return out


def compare_case(ctx: Ctx, case, r, reply, cond):
    """model vs implementation (class T) and the model's own exact checks"""
    if reply is None:
        return
    ctx.streams_compared["cond"] = ctx.streams_compared.get("cond", 0) + 1
    p = parse_reply(reply)
    short = {k: case[k] for k in ("mode", "method", "targets", "instruments", "N")}
    if p is None:
        ctx.disagree("cond", case, "implementation ran", reply[:200])
        return
    if "error" in r:
        # the implementation refused an exactly identified, well-conditioned plan that the model solves
        if p["stacked"]["status"] == "ok" and cond <= COND_MAX:
            ctx.disagree("cond", case, r["error"], "model: solvable")
        return
    for key in ("kalman", "stacked"):
        if p[key]["status"] != "ok":
            if cond <= COND_MAX:
                ctx.disagree("cond", case, "implementation ran", f"model {key}: {p[key]['status']}")
            return
        fl = p[key]["flags"]
        if not (fl.get("hit") == "T" and fl.get("moved") == "T" and fl.get("sim") == "T"):
            ctx.disagree("model-exact", case, "-", f"{key} output violates the property inside the model: {fl}")
            return
    if p["agree"] != "T":
        ctx.disagree("model-exact", case, "-", "Kalman transcription and stacked solve differ in exact arithmetic")
        return
    if cond > COND_MAX:
        return
    m, N, spec = r["m"], case["N"], case["spec"]
    names, us, vs = all_names(spec)
    vec = m._get_dynamic_solution_vectors()
    qid_to_name = m.create_qid_to_name()
    qids, idx = vec.get_curr_transition_indexes()
    tol = TOL * scale_of(case, r)
    mod = p["stacked"]
    for q, i in zip(qids, idx):
        a = np.array([lv(spec, qid_to_name[q], float(x)) for x in values(r["sim2"], qid_to_name[q], N)])
        b = mod["xi"][int(i), :]
        if not np.all(np.abs(a - b) <= tol):
            t = int(np.argmax(np.abs(a - b)))
            ctx.disagree("cond", short | {"spec": spec, "full": case}, f"{qid_to_name[q]}[{t}]={a[t]!r}", f"{b[t]!r}")
            return
    for arr, nms in ((mod["u"], us), (mod["v"], vs)):
        for i, s in enumerate(nms):
            a = values(r["sim2"], s, N)
            if not np.all(np.abs(a - arr[i, :]) <= tol):
                t = int(np.argmax(np.abs(a - arr[i, :])))
                note = ""
                if case["mode"] == "ant" and case["method"] == "first_order":
                    # diagnostic: does the transcription with the mask-order write-back of the anticipated cells give what the code gives?
                    try:
                        alt = parse_reply(ctx.model("C07", [lean_request(case, r, "row")])[0])["kalman"]
                        same = all(np.all(np.abs(values(r["sim2"], nm, N) - alt["v"][k, :]) <= tol) for k, nm in enumerate(vs))
                        note = (" (the model with row-major write-back of the endogenized anticipated cells "
                                + ("reproduces" if same else "does not reproduce") + " the implementation)")
                    except Exception:
                        pass
                ctx.disagree("cond", short | {"spec": spec, "full": case}, f"{s}[{t}]={a[t]!r}", f"{arr[i, t]!r}" + note)
                return


def run_cases(ctx: Ctx, cases, with_model=True):
    reqs, kept = [], []
    for full in cases:
        try:
            staged = run_impl(full)
        except Exception as e:
            ctx.count("impl_first_leg_raises")
            continue
        if full["spec"].get("pvar"):
            ctx.count(f"multi_variant_cases({len(staged)} parameter variants, data differ across variants)")
        elif len(staged) > 1:
            ctx.count(f"staged_cases(one plan object, {len(staged)} simulations)")
        for f in (staged[-1][1].get("forms") or []):
            ctx.count(f"cond_plan_dates_as:{f}")
        for sp in (staged[-1][1].get("spellings") or []):
            ctx.count(f"spelling:{sp}")
        ctx.count("spelling_equivalence_twins", sum(1 for _, rr in staged if "canon" in rr or "canon_error" in rr))
        for case, r in staged:
            ctx.evaluations += 1
            tag = "stage>0:" if case.get("stage", 0) > 0 else ""
            ctx.count(f"{tag}cond_{case['method']}_{case['mode']}")
            ctx.count(f"{tag}targets_{len(case['targets'])}")
            if case.get("deviation"):
                ctx.count("deviation=True" + (" with log-variable target" if any(is_log(case["spec"], v) for v, _ in case["targets"]) else ""))
            if case.get("zeroed"):
                ctx.count("stages_with_exact_zero_targets(1.0 for log-variables)")
            if case["spec"].get("meas"):
                ctx.count(f"with_measurement_block_and_nonzero_measurement_shocks:{case['method']}")
            if case["mode"] == "ant" and any(not c[0].startswith("ant_") and c[1] > 0 for c, _ in case["background"]):
                ctx.count("two_frames(ant plan + later unanticipated shock)")
            try:
                cond = cond_of(impact_numeric(case, r))
            except Exception:
                cond = float("inf")
            if not math.isfinite(cond):
                cond = float("inf")
            ctx.count("cond_M<=1e2" if cond <= 1e2 else "cond_M<=1e4" if cond <= COND_MAX else "cond_M>1e4(no tolerance comparison)")
            if cond > COND_MAX:
                continue
            if "error" in r and weak_case(case):
                ctx.count(f"impl_rejects(mixed plan under stacked time, not judged):{r['error'].split(':')[0]}")
            elif "error" in r:
                ctx.count(f"impl_rejects:{r['error'].split(':')[0]}")
                ctx.fail(f"identified-plan-rejected-{case['method']}-{case['mode']}", case,
                         f"exactly identified plan with cond(M)={cond:.3g} raises {r['error']}")
            else:
                if oracle_case(ctx, case, r, cond) and oracle_spelling(ctx, case, r):
                    ctx.nontriv((case["method"], case["mode"], len(case["targets"]), len(case["spec"]["names"]),
                                 tuple(sorted(t for _, t in case["targets"])), tuple(sorted(t for _, t in case["instruments"])),
                                 case.get("stage", 0), case.get("variant", 0)))
            ctx.sample({"stream": "cond", "mode": case["mode"], "method": case["method"], "targets": case["targets"],
                        "instruments": case["instruments"], "model": model_source(case["spec"]), "cond_M": cond,
                        "stage": case.get("stage", 0), "stages": full.get("stages")})
            if with_model and not weak_case(case):
                try:
                    reqs.append(lean_request(case, r))
                    kept.append((case, r, cond))
                except Exception as e:
                    ctx.count("request_build_failed")
    if with_model and reqs:
        replies = ctx.model("C07", reqs)
        if replies is not None:
            for (case, r, cond), rep in zip(kept, replies):
                compare_case(ctx, case, r, rep, cond)


# ---------------------------------------------------------------------------------------
# plan registers and stacked-time spots (exact)
# ---------------------------------------------------------------------------------------

PLAN_SRC = """
!transition_variables
    x, y, z
!transition_shocks
    ex, ey, ez
!transition_equations
    x = 0.5*x{-1} + 0.25*y{+1} + ex;
    y = 0.25*y{-1} + 0.25*x + ey;
    z = 0.5*z{-1} + x{-1} - y + ez;
"""
_PLAN_MODEL = None
KINDS = {"ea": "exogenized_anticipated", "na": "endogenized_anticipated", "eu": "exogenized_unanticipated", "nu": "endogenized_unanticipated"}


def plan_model():
    global _PLAN_MODEL
    if _PLAN_MODEL is None:
        _PLAN_MODEL = ir.Simultaneous.from_string(PLAN_SRC, linear=True)
    return _PLAN_MODEL


def gen_plan_line(rng: Rng) -> str:
    NP = rng.randint(1, 6)
    ops = []
    for _ in range(rng.randint(0, 7)):
        k = rng.choice(["ea", "na", "eu", "nu"])
        st = "T" if rng.chance(0.8) else "F"
        per = sorted(set(rng.randint(0, NP - 1) for _ in range(rng.randint(1, 3))))
        if rng.chance(0.45):
            # a grid of dates with step 1, 2 or 3 (handed to the plan as a stepped / backward / contextual Span, see `dates_arg`)
            d, a = rng.choice([1, 2, 2, 3]), rng.randint(0, NP - 1)
            per = [a + j * d for j in range(rng.randint(2, 3)) if a + j * d < NP] or [a]
        if rng.chance(0.08):
            per.append(rng.choice([-1, -1, -2, -NP, NP, NP + 2]))
        nm = sorted(set(rng.randint(0, 2) for _ in range(rng.randint(1, 2))))
        if rng.chance(0.06):
            nm.append(3)
        ops.append(f"w {k} {st} {','.join(map(str, per))} {','.join(map(str, nm))}")
    qper = [rng.randint(-2, NP + 1) for _ in range(rng.randint(1, 6))]
    first = rng.randint(0, NP - 1)
    ncols = rng.randint(1, NP - first + (1 if rng.chance(0.2) else 0))
    col0 = rng.randint(1, 3)
    cols = [col0 + i for i in range(ncols)]
    return (f"plan {NP} 3 3 | {';'.join(ops)} | {','.join(map(str, qper))} | {','.join(map(str, cols))} | {first} | 0,1,2 | 0,1,2 | 6,7,8 | 3,4,5")


def prefix_lines(line: str) -> list[str]:
    """the request with its first 0, 1, …, all ops: the model is a pure function of the op sequence, the implementation's plan
    object is read after every op (a read must reflect every write made so far, whatever was read before)"""
    secs = [s.strip() for s in line.split("|")]
    ops = [o.strip() for o in secs[1].split(";") if o.strip()]
    return [" | ".join([secs[0], ";".join(ops[:j])] + secs[2:]) for j in range(len(ops) + 1)]


def impl_plan_prefixes(line: str) -> list[str]:
    """one `SimulationPlan` object, read after every op; one reply per prefix of the op sequence"""
    from irispie.stacked_time import simulators as st
    from irispie.wrongdoings import IrisPieCritical, IrisPieError
    m = plan_model()
    secs = [s.strip() for s in line.split("|")]
    NP = int(secs[0].split()[1])
    span = START >> START + (NP - 1)
    plan = ir.SimulationPlan(m, span)
    qper = tuple(START + int(t) for t in secs[2].split(","))
    cols = tuple(int(c) for c in secs[3].split(","))
    first = int(secs[4])
    periods_to_run = tuple(START + first + i for i in range(len(cols)))
    show = lambda l: ";".join(f"{q}:{c}" for q, c in l)

    def snapshot(outs):
        def arr(k):
            return bits_text(plan.get_register_as_bool_array(KINDS[k], periods=qper).tolist())
        wrt, exo = st._get_wrt_spots(plan=plan, endogenous_qids=(0, 1, 2), columns_to_run=cols, periods_to_run=periods_to_run,
                                     name_to_qid=m.create_name_to_qid())
        return (",".join(outs) + f" | ea={arr('ea')} na={arr('na')} eu={arr('eu')} nu={arr('nu')} | empty={'T' if plan.is_empty else 'F'} "
                f"antx={'T' if plan.any_endogenized_anticipated_except_start else 'F'} | wrt={show(wrt)} | exo={show(sorted(exo))}")

    outs = []
    replies = [snapshot(outs)]
    for opj, op in enumerate([o.strip() for o in secs[1].split(";") if o.strip()]):
        _, k, stt, per, nm = op.split()
        reg = KINDS[k]
        rownames = list(getattr(plan, "can_be_" + reg))
        nms = [rownames[int(i)] if int(i) < len(rownames) else "nope" for i in nm.split(",")]
        pers, _form = dates_arg([int(t) for t in per.split(",")], NP, form_key(op, opj))
        try:
            getattr(plan, ("exogenize_" if k[0] == "e" else "endogenize_") + reg.split("_")[1])(pers, nms, status=(stt == "T"))
            outs.append("ok")
        except IrisPieCritical:
            outs.append("err:name")
        except IrisPieError:
            outs.append("err:period")
        replies.append(snapshot(outs))
    return replies


def oracle_plan_reads(ctx: Ctx, line: str, replies: list[str]):
    """independent of the model: what one plan object reports after a sequence of writes equals what a FRESH plan object
    reports after the same writes (no state other than the registers may influence a read)"""
    secs = [s.strip() for s in line.split("|")]
    ops = [o.strip() for o in secs[1].split(";") if o.strip()]
    if not ops:
        return
    once = impl_plan_once(line)
    if once != replies[-1]:
        ctx.fail("plan-read-depends-on-earlier-reads", {"line": line},
                 f"after the same writes: plan read after every write reports {replies[-1][:300]} / plan read once reports {once[:300]}")


def oracle_plan_writes(ctx: Ctx, line: str):
    """from the statement, independent of the model: a plan call naming a period outside the plan span (or an unknown name) must raise
    and leave all four registers as they were; an accepted call sets exactly the requested (name, period) cells of its own register
    and nothing else -- no other cell of any register may be swapped"""
    m = plan_model()
    secs = [s.strip() for s in line.split("|")]
    NP = int(secs[0].split()[1])
    plan = ir.SimulationPlan(m, START >> START + (NP - 1))
    read = lambda: {k: plan.get_register_as_bool_array(reg).tolist() for k, reg in KINDS.items()}
    before = read()
    done = []
    for opj, op in enumerate([o.strip() for o in secs[1].split(";") if o.strip()]):
        _, k, stt, per, nm = op.split()
        reg = KINDS[k]
        rownames = list(getattr(plan, "can_be_" + reg))
        idx = [int(i) for i in nm.split(",")]
        offs = [int(t) for t in per.split(",")]
        nms = [rownames[i] if i < len(rownames) else "nope" for i in idx]
        must_reject = any(i >= len(rownames) for i in idx) or any(t < 0 or t >= NP for t in offs)
        form = dates_arg(offs, NP, form_key(op, opj))[1]
        ctx.count(f"plan_dates_as:{form.split('(')[0]}")
        raised = False
        try:
            getattr(plan, ("exogenize_" if k[0] == "e" else "endogenize_") + reg.split("_")[1])(dates_arg(offs, NP, form_key(op, opj))[0], nms, status=(stt == "T"))
        except Exception:
            raised = True
        done.append(op)
        after = read()
        case = {"line": " | ".join([secs[0], ";".join(done)] + secs[2:])}
        if must_reject:
            if not raised:
                ctx.fail("plan-out-of-span-or-unknown-name-accepted", case, f"`{op}` (dates handed over as {form}) on a plan of {NP} periods did not raise")
                return
            if after != before:
                ctx.fail("plan-rejected-call-changed-registers", case, f"`{op}` raised but the registers changed")
                return
        else:
            want = {kk: [row[:] for row in tbl] for kk, tbl in before.items()}
            for i in idx:
                for t in offs:
                    want[k][i][t] = (stt == "T")
            if raised or after != want:
                diff = [(kk, i, t) for kk in want for i, row in enumerate(want[kk]) for t, b in enumerate(row) if after[kk][i][t] != b]
                ctx.fail("plan-write-touches-other-cells" if not raised else "plan-valid-call-rejected", case,
                         f"`{op}` (dates handed over as {form}): cells differing from 'requested cells = status, everything else unchanged': {diff[:6]}")
                return
        before = after


def impl_plan_once(line: str) -> str:
    """all ops on a fresh plan, then a single read"""
    from irispie.stacked_time import simulators as st
    from irispie.wrongdoings import IrisPieCritical, IrisPieError
    m = plan_model()
    secs = [s.strip() for s in line.split("|")]
    NP = int(secs[0].split()[1])
    plan = ir.SimulationPlan(m, START >> START + (NP - 1))
    outs = []
    for opj, op in enumerate([o.strip() for o in secs[1].split(";") if o.strip()]):
        _, k, stt, per, nm = op.split()
        reg = KINDS[k]
        rownames = list(getattr(plan, "can_be_" + reg))
        nms = [rownames[int(i)] if int(i) < len(rownames) else "nope" for i in nm.split(",")]
        pers, _form = dates_arg([int(t) for t in per.split(",")], NP, form_key(op, opj))
        try:
            getattr(plan, ("exogenize_" if k[0] == "e" else "endogenize_") + reg.split("_")[1])(pers, nms, status=(stt == "T"))
            outs.append("ok")
        except IrisPieCritical:
            outs.append("err:name")
        except IrisPieError:
            outs.append("err:period")
    qper = tuple(START + int(t) for t in secs[2].split(","))
    cols = tuple(int(c) for c in secs[3].split(","))
    first = int(secs[4])
    periods_to_run = tuple(START + first + i for i in range(len(cols)))
    show = lambda l: ";".join(f"{q}:{c}" for q, c in l)
    arr = lambda k: bits_text(plan.get_register_as_bool_array(KINDS[k], periods=qper).tolist())
    wrt, exo = st._get_wrt_spots(plan=plan, endogenous_qids=(0, 1, 2), columns_to_run=cols, periods_to_run=periods_to_run,
                                 name_to_qid=m.create_name_to_qid())
    return (",".join(outs) + f" | ea={arr('ea')} na={arr('na')} eu={arr('eu')} nu={arr('nu')} | empty={'T' if plan.is_empty else 'F'} "
            f"antx={'T' if plan.any_endogenized_anticipated_except_start else 'F'} | wrt={show(wrt)} | exo={show(sorted(exo))}")


def impl_plan_line(line: str) -> str:
    return impl_plan_once(line)


def oracle_plan_line(ctx: Ctx, line: str, impl: str):
    """stacked time, from the property statement: the unknown cells are the default ones minus the exogenized plus the endogenized
    ones, so that an exactly identified plan leaves as many unknowns as stacked equations"""
    secs = [s.strip() for s in impl.split("|")]
    if len(secs) != 5:
        return
    req = [s.strip() for s in line.split("|")]
    cols = [int(c) for c in req[3].split(",")]
    parse = lambda s: [tuple(int(x) for x in w.split(":")) for w in s.split("=", 1)[1].split(";") if w]
    wrt, exo = parse(secs[3]), parse(secs[4])
    default = {(q, c) for c in cols for q in (0, 1, 2)}
    endo = set(wrt) - default
    if len(set(wrt)) != len(wrt) or set(wrt) != (default - set(exo)) | endo or not set(exo) <= default:
        ctx.fail("stacked-wrt-spots", {"line": line}, f"wrt={wrt} exo={exo}")
    if len(exo) == len(endo) and len(wrt) != 3 * len(cols):
        ctx.fail("stacked-wrt-count", {"line": line}, f"{len(wrt)} unknowns for {3 * len(cols)} equations")
    if exo and endo:
        ctx.nontriv(("plan", len(exo), len(endo), len(cols)))


def run_plan_stream(ctx: Ctx, n):
    rng = ctx.rng.fork("plan")
    seqs = [gen_plan_line(rng) for _ in range(n)]
    lines, impl = [], []
    for l in seqs:
        pre = prefix_lines(l)
        try:
            rep = impl_plan_prefixes(l)
        except Exception as e:
            rep = ["raises:" + type(e).__name__] * len(pre)
        lines += pre
        impl += rep
        try:
            oracle_plan_reads(ctx, l, rep)
            oracle_plan_writes(ctx, l)
        except Exception as e:
            ctx.count("plan_read_oracle_raises")
    ctx.compare("plan", lines, impl, ctx.model("C07", [lean_plan_line(l) for l in lines]))
    for l, o in zip(lines, impl):
        oracle_plan_line(ctx, l, o)
    ctx.evaluations += len(lines)
    ctx.count("plan_sequences", len(seqs))
    ctx.count("plan_reads(one object, read after every op)", len(lines))
    if seqs:
        ctx.sample({"stream": "plan", "request": seqs[0], "implementation_after_every_op": impl[:len(prefix_lines(seqs[0]))][-2:]})


# ---------------------------------------------------------------------------------------
# the expansion memo on the solution object: histories of expand_square_solution(forward)
# ---------------------------------------------------------------------------------------

def gen_memo_case(rng: Rng):
    for _ in range(30):
        spec = gen_model_spec(rng)
        if not any(sh > 0 for e in spec["eqs"] for _, _, sh in e["terms"]):
            continue
        try:
            m, ok = build_model(spec)
        except Exception:
            ok = False
        if ok:
            return {"memo_spec": spec, "forwards": [rng.randint(0, 6) for _ in range(rng.randint(3, 7))]}
    return None


def run_memo_cases(ctx: Ctx, cases, with_model=True):
    """one solution object, a history of calls: every call must return [P, -X Ru, -X J Ru, …, -X J^(forward-1) Ru] whatever was asked
    before (oracle: numpy, formula by formula, evaluated after the whole history so that a later call must not have altered an earlier
    result); the Lean state machine `Sol.expandHistory` is run on the same history"""
    reqs, kept = [], []
    for case in cases:
        m, ok = build_model(case["memo_spec"])
        sol = m._gets_solution()
        P, X, J, Ru = (np.array(getattr(sol, k), dtype=float) for k in ("P", "X", "J", "Ru"))
        try:
            outs = [sol.expand_square_solution(int(f)) for f in case["forwards"]]
        except Exception as e:
            ctx.fail("expansion-raises", case, repr(e))
            continue
        ctx.evaluations += 1
        ctx.count("memo_histories")
        ctx.count("memo_calls", len(outs))
        scale = max(1.0, float(np.max(np.abs(P))) if P.size else 1.0)
        bad = None
        for ci, (f, out) in enumerate(zip(case["forwards"], outs)):
            want = [P] + [-X @ np.linalg.matrix_power(J, k) @ Ru for k in range(f)]
            if out is None or len(out) != len(want):
                bad = f"call {ci} (forward={f}) returned {None if out is None else len(out)} matrices, expected {len(want)}"
                break
            for k, (a, b) in enumerate(zip(out, want)):
                if np.shape(a) != b.shape or not np.all(np.abs(np.asarray(a) - b) <= 1e-10 * scale):
                    bad = f"call {ci} (forward={f}) of history {case['forwards']}: R_{k} differs from {'P' if k == 0 else f'-X J^{k-1} Ru'} by {float(np.max(np.abs(np.asarray(a) - b))) if np.shape(a) == b.shape else 'shape'}"
                    break
            if bad:
                break
        if bad:
            ctx.fail("expansion-depends-on-call-history", case, bad)
        elif len(set(case["forwards"])) > 1:
            ctx.nontriv(("memo", tuple(case["forwards"])[:4], X.shape))
        if with_model:
            reqs.append(" | ".join(["memo", mat_text(P), mat_text(X), mat_text(J), mat_text(Ru), ",".join(str(f) for f in case["forwards"])]))
            kept.append((case, outs, scale))
    if with_model and reqs:
        replies = ctx.model("C07", reqs)
        if replies is not None:
            for (case, outs, scale), rep in zip(kept, replies):
                ctx.streams_compared["memo"] = ctx.streams_compared.get("memo", 0) + 1
                calls = [[parse_mat(mt) for mt in call.split("&")] for call in rep.split("||")] if rep != "bad-op" else None
                ok = calls is not None and len(calls) == len(outs)
                if ok:
                    for a_call, b_call in zip(outs, calls):
                        ok = ok and a_call is not None and len(a_call) == len(b_call) and all(
                            np.shape(a) == b.shape and np.all(np.abs(np.asarray(a) - b) <= 1e-9 * scale) for a, b in zip(a_call, b_call))
                if not ok:
                    ctx.disagree("memo", case, "implementation history " + str([None if o is None else len(o) for o in outs]), rep[:200])
    if cases:
        ctx.sample({"stream": "memo", "forwards": cases[0]["forwards"], "model": model_source(cases[0]["memo_spec"])})


def run_spelling_stream(ctx: Ctx):
    """the method table of Simultaneous.simulate against the Lean `resolveMethod` (exact), and against the harness's own reading of the
    documentation (oracle): every documented spelling resolves to its module, the default is first_order, anything else is refused"""
    import inspect
    from irispie.simultaneous import _simulate as sm
    documented = sorted(x for sp in METHOD_SPELLINGS.values() for x in sp if x is not None)
    probes = documented + ["-", "Stacked", "stack", "stacked-time", "firstorder", "periods", "FIRST_ORDER"]
    impl = []
    for sp in probes:
        try:
            key = inspect.signature(ir.Simultaneous.simulate).parameters["method"].default if sp == "-" else sp
            impl.append(sm._SIMULATOR_MODULE[key].METHOD_NAME)
        except KeyError:
            impl.append("err:bad")
    lines = [f"method {sp}" for sp in probes]
    ctx.compare("spelling", lines, impl, ctx.model("C07", lines))
    for sp, got in zip(probes, impl):
        try:
            want = resolve_method(None if sp == "-" else sp)
        except KeyError:
            want = "err:bad"
        if got != want:
            ctx.fail("method-spelling-resolution", {"method_spelling": sp}, f"method={sp!r} resolves to {got}, documented: {want}")
    ctx.evaluations += len(probes)
    ctx.count("method_spellings_probed", len(probes))


# ---------------------------------------------------------------------------------------
# entry points
# ---------------------------------------------------------------------------------------

def unwrap(case):
    """the full (possibly staged) case behind a reported stage"""
    while isinstance(case, dict) and "full" in case:
        case = case["full"]
    return case


def corpus_cases():
    d = os.path.join(VERIF, "corpus", "C07")
    out = []
    if os.path.isdir(d):
        for f in sorted(os.listdir(d)):
            if f.endswith(".json"):
                p = json.load(open(os.path.join(d, f)))
                c = unwrap(p.get("case", p))
                if isinstance(c, dict) and "spec" in c:
                    out.append(c)
    return out


def run(ctx: Ctx):
    ctx.rule = ("cond: random stable linear models (2-4 variables, lags to 2, leads, constants, random stds and initial conditions), random "
                "exactly identified plans in one mode with 1-4 targets, both methods; a case is non-trivial when the implementation ran, every "
                "oracle clause held and it is distinct in (method, mode, #targets, #variables, target dates, instrument dates). "
                "plan: random register op sequences; non-trivial when both exogenized and endogenized cells fall into the columns to run, "
                "distinct in (#exogenized, #endogenized, #columns)")
    run_cases(ctx, corpus_cases())
    rng = ctx.rng.fork("cond")
    cases = []
    for i in range(ctx.n(90, 700)):
        c = gen_case(rng.fork(i))
        if c is not None:
            cases.append(c)
    run_cases(ctx, cases)
    run_plan_stream(ctx, ctx.n(250, 3000))
    run_spelling_stream(ctx)
    mrng = ctx.rng.fork("memo")
    run_memo_cases(ctx, [c for c in (gen_memo_case(mrng.fork(i)) for i in range(ctx.n(30, 300))) if c])


def search(ctx: Ctx, seeds):
    """failing-input search on the real code (oracles only): the disagreeing cases first, then the generator with a bigger budget"""
    seeds = [unwrap(s) for s in seeds if isinstance(s, dict)]
    run_cases(ctx, [s for s in seeds if "spec" in s], with_model=False)
    rng = ctx.rng.fork("search")
    cases = []
    for i in range(300):
        c = gen_case(rng.fork(i))
        if c is not None:
            cases.append(c)
    run_cases(ctx, cases, with_model=False)
    run_memo_cases(ctx, [s for s in seeds if "memo_spec" in s] + [c for c in (gen_memo_case(rng.fork(("m", i).__repr__())) for i in range(200)) if c],
                   with_model=False)
    lines = [gen_plan_line(rng) for _ in range(1500)]
    for l in lines:
        try:
            rep = impl_plan_prefixes(l)
            oracle_plan_reads(ctx, l, rep)
            oracle_plan_writes(ctx, l)
            oracle_plan_line(ctx, l, rep[-1])
        except Exception:
            pass


def replay(ctx: Ctx, payload):
    case = unwrap(payload.get("case", payload))
    if isinstance(case, dict) and "spec" in case:
        run_cases(ctx, [case])
    elif isinstance(case, dict) and "memo_spec" in case:
        run_memo_cases(ctx, [case])
    elif isinstance(case, dict) and "method_spelling" in case or (isinstance(case, str) and case.startswith("method ")):
        run_spelling_stream(ctx)
    elif isinstance(case, dict) and "line" in case or isinstance(case, str):
        line = case["line"] if isinstance(case, dict) else case
        pre, rep = prefix_lines(line), impl_plan_prefixes(line)
        ctx.compare("plan", pre, rep, ctx.model("C07", [lean_plan_line(l) for l in pre]))
        oracle_plan_reads(ctx, line, rep)
        oracle_plan_writes(ctx, line)
        oracle_plan_line(ctx, line, rep[-1])
        ctx.evaluations += len(pre)
