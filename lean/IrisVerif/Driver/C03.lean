/-
Line-protocol driver for the Kalman model (properties C03 and C08).

  kfv <rescale 0|1> <nv> { T P K Z H D a Q <nper> {period}* }*   (variant loop, see runKfv)
  kf|kfr <rescale 0|1> <hasXi 0|1> T P K Z H D a Q [Xi] <nper> { <mask> y stdU stdW u0 w0 }*
      matrices as `r c x11 … xrc` (entries `num/den`), mask as a 0/1 word of length ny
  -> ok <mid> <tid> <sim> <csum> N vs sq lsc nper [delta] { numObs detFi peFiPe a0 Q0 F y0 pe Q1 a1 u1 w1 a2 Q2 u2 w2 }*
     or err:singular / err:shape / err:zeroScale
  initmed T K          -> ok x        ((I-T)⁻¹K)
  lyap T P stdU Q      -> ok R        (Q - T Q Tᵀ - P Σ Pᵀ)
-/
import IrisVerif.Model.Kalman
import IrisVerif.Model.KalmanObject
import IrisVerif.Driver.Util

open IrisVerif IrisVerif.Driver IrisVerif.Kalman

namespace IrisVerif.Driver.C03

def showErr : Err → String
  | .singular => "err:singular"
  | .shape => "err:shape"
  | .zeroScale => "err:zeroScale"

abbrev P := StateT (List String) Option

def mat : P QMat := fun ws => QMat.parse? ws
def word : P String := fun ws => match ws with | w :: r => some (w, r) | [] => none
def nat : P Nat := do let w ← word; match w.toNat? with | some n => pure n | none => failure

def mask (ny : Nat) : P (List Nat) := do
  let w ← word
  let cs := w.toList
  if cs.length != ny || cs.any (fun c => c != '0' && c != '1') then failure
  pure ((cs.zipIdx.filter (fun ci => ci.1 == '1')).map (·.2))

def period (ny : Nat) : P PeriodIn := do
  let obs ← mask ny
  let y ← mat; let stdU ← mat; let stdW ← mat; let u0 ← mat; let w0 ← mat
  pure { obs, y, stdU, stdW, u0, w0 }

def rep {α} (p : P α) : Nat → P (List α)
  | 0 => pure []
  | n + 1 => do let a ← p; let r ← rep p n; pure (a :: r)

structure Req where
  rescale : Bool
  sys : Sys
  a : QMat
  Q : QMat
  xi : Option QMat
  periods : List PeriodIn

def req : P Req := do
  let r ← nat; let hx ← nat
  let T ← mat; let Pm ← mat; let K ← mat; let Z ← mat; let H ← mat; let D ← mat
  let a ← mat; let Q ← mat
  let xi ← if hx = 1 then (do let x ← mat; pure (some x)) else pure none
  let n ← nat
  let ps ← rep (period Z.rows) n
  pure { rescale := r = 1, sys := { T, P := Pm, K, Z, H, D }, a, Q, xi, periods := ps }

/-- replies are rounded down to the grid 2⁻¹⁶⁰ when the exact denominator is larger (the comparison with the
floating-point implementation is a tolerance comparison; the exact identity flags are computed before rounding) -/
def rnd (q : Rat) : Rat :=
  if q.den ≤ 2 ^ 160 then q else mkRat (Int.fdiv (q.num * (2 ^ 160 : Int)) (q.den : Int)) (2 ^ 160)

def sr (q : Rat) : String := QMat.showRat (rnd q)
def sm (a : QMat) : String :=
  " ".intercalate (toString a.rows :: toString a.cols :: (a.data.toList.flatMap (fun r => r.toList.map sr)))

/-- contributions sum to the total in their rational parts (the `log` parts are sums of the same terms) -/
def contribSumOk (cs : List PeriodCache) (lk : Lik) : Bool :=
  let parts := cs.filterMap (contribRat lk.varScale)
  (parts.foldl (fun acc p => acc + p.1) 0 == lk.sumPeFiPe) &&
  (parts.foldl (fun acc p => acc + p.2) 0 == lk.sumNumObs) &&
  ((cs.zip lk.detFi).all (fun cd => cd.1.numObs != 0 || cd.2 == 1))

def rndMat (a : QMat) : QMat := QMat.ofFn a.rows a.cols (fun i j => rnd (a.get i j))

/-- forward loop calling the model's exact `predictStep` per period, with the state handed to the next period rounded to
the grid 2⁻¹⁶⁰ (op `kfr`, used for full-precision float inputs where exact rationals grow exponentially with the period) -/
def predictRounded (s : Sys) (a Q : QMat) : List PeriodIn → R (List PeriodCache)
  | [] => pure []
  | p :: rest => do
    let c ← predictStep s a Q p
    let cs ← predictRounded s (rndMat c.a1) (rndMat c.Q1) rest
    pure (c :: cs)

def smoothRounded (s : Sys) (lo : Int) : Nat → List PeriodCache → List Back × Option (QMat × QMat)
  | _, [] => ([], none)
  | t, c :: rest =>
    let (bs, st) := smoothRounded s lo (t + 1) rest
    let b := oneStepBack s c (decide ((t : Int) ≤ lo)) (st.map (fun nr => (rndMat nr.1, rndMat nr.2)))
    (b :: bs, b.Nr)

def runKf (rounded : Bool) (q : Req) : R String := do
  if !shapesOk q.sys q.a q.Q then throw .shape
  let cs0 ← if rounded then predictRounded q.sys q.a q.Q q.periods else predict q.sys q.a q.Q q.periods
  let (cs, delta) ← match q.xi with
    | none => pure (cs0, none)
    | some xi => do
      if xi.rows != q.sys.T.rows then throw .shape
      let (d, xis, ms) ← estimateUnknownInit q.sys xi cs0
      pure (correctForUnknownInit d xis ms cs0, some d)
  let up := update q.sys cs
  let sb := if rounded then (smoothRounded q.sys (lastObs cs) 0 cs).1 else smooth q.sys cs
  let lk ← likelihood cs q.rescale
  let mid := allMeasurement cs sb
  let tid := allTransition q.sys sb
  let simOk := match sb with
    | b0 :: rest => (simulate q.sys b0.a (rest.map (·.u))) == rest.map (·.a) ||
        ((simulate q.sys b0.a (rest.map (·.u))).zip (rest.map (·.a))).all (fun xy => QMat.eqv xy.1 xy.2)
    | [] => true
  let head := ["ok", showBool mid, (if rounded then "-" else showBool tid), (if rounded then "-" else showBool simOk), showBool (contribSumOk cs lk),
    toString lk.sumNumObs, sr lk.varScale, sr lk.sumPeFiPe, toString lk.logScaleCount, toString cs.length]
  let dl := match delta with | some d => [sm d] | none => []
  let per := (cs.zip (up.zip sb)).zip (lk.detFi.zip lk.peFiPe) |>.map (fun x =>
    let c := x.1.1; let u := x.1.2.1; let b := x.1.2.2
    " ".intercalate [toString c.numObs, sr x.2.1, sr x.2.2, sm c.a0, sm c.Q0, sm c.F, sm c.y0, sm c.pe, sm c.Q1,
      sm u.a, sm u.u, sm u.w, sm b.a, sm b.Q, sm b.u, sm b.w])
  pure (" ".intercalate (head ++ dl ++ per))

/-- one variant of a `kfv` request: `T P K Z H D a Q nper {period}*` -/
def variantReq : P VariantIn := do
  let T ← mat; let Pm ← mat; let K ← mat; let Z ← mat; let H ← mat; let D ← mat
  let a ← mat; let Q ← mat
  let n ← nat
  let ps ← rep (period Z.rows) n
  pure { sys := { T, P := Pm, K, Z, H, D }, a, Q, periods := ps }

/-- `kfv <rescale> <nv> {variant}*`: the model's variant loop (`filterVariants`, hand-over rounding as in `kfr`);
reply `ok nv { varScale nper {predictVar updateVar smoothVar}* }*` -/
def runKfv (rescale : Bool) (vs : List VariantIn) : R String := do
  let outs ← filterVariants rndMat rescale vs
  let per := outs.map (fun o =>
    " ".intercalate ([sr o.lik.varScale, toString o.caches.length] ++
      ((o.predictVar.zip (o.updateVar.zip o.smoothVar)).map (fun x => " ".intercalate [sm x.1, sm x.2.1, sm x.2.2]))))
  pure (" ".intercalate (["ok", toString outs.length] ++ per))

/-! `obj X Xa J Ru <nE> e… <nW> w… <nops> {op}*` — the model object state machine (`Model/KalmanObject.lean`);
ops `aE n v…`, `aW n v…`, `rs f`, `cp`, `fl`, `xs fwd`, `xt fwd`; reply per op `-` | `S nE e… nW w…` | `M n mat…` -/

def ratP : P Rat := do let w ← word; match QMat.parseRat? w with | some q => pure q | none => failure
def ratList : P (List Rat) := do let n ← nat; rep ratP n

def objOp : P KalmanObject.Op := do
  let w ← word
  match w with
  | "aE" => do let v ← ratList; pure (.assignE v)
  | "aW" => do let v ← ratList; pure (.assignW v)
  | "rs" => do let f ← ratP; pure (.rescale f)
  | "cp" => pure .copy
  | "fl" => pure .filter
  | "xs" => do let n ← nat; pure (.expandSq n)
  | "xt" => do let n ← nat; pure (.expandTri n)
  | _ => failure

def showOut : KalmanObject.Out → String
  | .none => "-"
  | .stds p => " ".intercalate (["S", toString p.stdE.length] ++ p.stdE.map QMat.showRat ++ [toString p.stdW.length] ++ p.stdW.map QMat.showRat)
  | .mats l => " ".intercalate (["M", toString l.length] ++ l.map sm)

def runObj : P String := do
  let X ← mat; let Xa ← mat; let J ← mat; let Ru ← mat
  let e ← ratList; let wv ← ratList
  let n ← nat
  let ops ← rep objOp n
  let o : KalmanObject.Obj := { params := ⟨e, wv⟩, X, Xa, J, Ru, cacheSq := [], cacheTri := [] }
  pure (" ".intercalate ("ok" :: (KalmanObject.run o ops).map showOut))

def step (line : String) : String :=
  match words line with
  | "kf" :: rest =>
    match req rest with
    | some (q, []) => (match runKf false q with | .ok s => s | .error e => showErr e)
    | _ => "bad-op"
  | "kfr" :: rest =>
    match req rest with
    | some (q, []) => (match runKf true q with | .ok s => s | .error e => showErr e)
    | _ => "bad-op"
  | "obj" :: rest =>
    match runObj rest with
    | some (s, []) => s
    | _ => "bad-op"
  | "kfv" :: rest =>
    match (do let r ← nat; let nv ← nat; let vs ← rep variantReq nv; pure (r, vs) : P _) rest with
    | some ((r, vs), []) => (match runKfv (r = 1) vs with | .ok s => s | .error e => showErr e)
    | _ => "bad-op"
  | "initmed" :: rest =>
    match (do let T ← mat; let K ← mat; pure (T, K) : P _) rest with
    | some ((T, K), []) =>
      (match initMed { T, P := QMat.zero T.rows 0, K, Z := QMat.zero 0 T.rows, H := QMat.zero 0 0, D := QMat.zero 0 1 } with
        | .ok x => "ok " ++ sm x | .error e => showErr e)
    | _ => "bad-op"
  | "lyap" :: rest =>
    match (do let T ← mat; let Pm ← mat; let s ← mat; let Q ← mat; pure (T, Pm, s, Q) : P _) rest with
    | some ((T, Pm, s, Q), []) =>
      "ok " ++ sm (lyapResidual { T, P := Pm, K := QMat.zero T.rows 1, Z := QMat.zero 0 T.rows, H := QMat.zero 0 0, D := QMat.zero 0 1 }
        (covOfStd s) Q)
    | _ => "bad-op"
  | _ => "bad-op"

end IrisVerif.Driver.C03

def main : IO Unit := IrisVerif.Driver.runMain IrisVerif.Driver.C03.step
