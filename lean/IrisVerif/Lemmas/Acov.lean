/-
Helper lemmas for property C15: reading an `ofFn` cell matrix of the executable autocovariance model, and the
iteration of the homogeneous Lyapunov equation.
-/
import Mathlib.Data.Matrix.Mul
import IrisVerif.Model.Acov

open Matrix

namespace IrisVerif.Acov
open IrisVerif

theorem cmat_get_ofFn (r c : Nat) (f : Nat → Nat → Cell) (i j : Nat) :
    (CMat.ofFn r c f).get i j = if i < r ∧ j < c then f i j else none := by
  unfold CMat.get CMat.ofFn
  simp only [Array.getD_eq_getD_getElem?, Array.getElem?_map, Array.getElem?_range]
  by_cases hi : i < r <;> by_cases hj : j < c <;> simp [hi, hj]


/-- iterating the homogeneous equation -/
theorem homogeneous_iterate {n : Type} [Fintype n] [DecidableEq n] {K : Type} [CommRing K] (T D : Matrix n n K) (h : D = T * D * Tᵀ) :
    ∀ m : ℕ, D = T ^ m * D * (Tᵀ) ^ m := by
  intro m
  induction m with
  | zero => simp
  | succ m ih =>
    have : T ^ (m + 1) * D * (Tᵀ) ^ (m + 1) = T ^ m * (T * D * Tᵀ) * (Tᵀ) ^ m := by
      rw [pow_succ, pow_succ']
      simp only [Matrix.mul_assoc]
    rw [this, ← h, ← ih]


theorem qget_ofFn (r c : Nat) (f : Nat → Nat → Rat) (i j : Nat) :
    (QMat.ofFn r c f).get i j = if i < r ∧ j < c then f i j else 0 := by
  unfold QMat.get QMat.ofFn
  simp only [Array.getD_eq_getD_getElem?, Array.getElem?_map, Array.getElem?_range]
  by_cases hi : i < r <;> by_cases hj : j < c <;> simp [hi, hj]


end IrisVerif.Acov
