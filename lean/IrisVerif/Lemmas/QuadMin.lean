/-
Shared lemma file (used by C12, C14, C18): "KKT / normal equations ⇒ (constrained) minimiser of a
positive-semidefinite quadratic", over Mathlib matrices on a linearly ordered commutative ring
(in particular any linearly ordered field).

The pattern is the one of DESIGN.md Appendix A.2 (orthogonality + expanding the square):

* `quad A b x = x·Ax − 2 b·x`;  `quad_add` expands `quad A b (x + d)` for symmetric `A`.
* `kkt_excess`:   `A x + Cᵀ μ = b`, `C d = 0`  ⇒  `quad (x + d) = quad x + d·Ad`        (exact excess)
* `kkt_min`:      … and `d·Ad ≥ 0` on feasible directions ⇒ `x` minimises `quad` on `{C x' = c}`
* `kkt_unique`, `kkt_strict`: uniqueness when `d·Ad = 0 ∧ C d = 0 ⇒ d = 0`
* `bordered_iff`: the bordered system `[[A, Cᵀ], [C, 0]] (x, μ) = (b, c)` is exactly the two KKT equations
* weighted least squares with a PSD penalty:  `wlsObj w y lam P τ = Σ wᵢ (yᵢ − τᵢ)² + lam ‖P τ‖²`
  with `wlsA = diag w + lam PᵀP`:  `wls_kkt_excess`, `wls_kkt_min`, `wls_kkt_unique`
* unconstrained special cases `ls_min`, `ls_unique` (ordinary least squares `‖y − X b‖²`).
-/
import Mathlib.Data.Matrix.Mul
import Mathlib.Data.Matrix.Block
import Mathlib.Algebra.Order.Ring.Defs
import Mathlib.Algebra.Order.BigOperators.Ring.Finset
import Mathlib.Tactic.Linarith
import Mathlib.Tactic.Ring
import Mathlib.Tactic.Abel

namespace IrisVerif.QuadMin

open Matrix

variable {n p m : Type} [Fintype n] [Fintype p] [Fintype m]
variable {K : Type} [CommRing K]

/-! ### Algebra (any commutative ring) -/

/-- the quadratic `x·Ax − 2 b·x` -/
def quad (A : Matrix n n K) (b x : n → K) : K := x ⬝ᵥ A *ᵥ x - 2 * (b ⬝ᵥ x)

theorem dot_mulVec_symm (A : Matrix n n K) (hA : Aᵀ = A) (u v : n → K) :
    u ⬝ᵥ A *ᵥ v = v ⬝ᵥ A *ᵥ u := by
  rw [Matrix.dotProduct_mulVec, ← Matrix.mulVec_transpose, hA, dotProduct_comm]

theorem quad_add (A : Matrix n n K) (hA : Aᵀ = A) (b x d : n → K) :
    quad A b (x + d) = quad A b x + 2 * (d ⬝ᵥ (A *ᵥ x - b)) + d ⬝ᵥ A *ᵥ d := by
  unfold quad
  simp only [Matrix.mulVec_add, add_dotProduct, dotProduct_add, dotProduct_sub]
  rw [dot_mulVec_symm A hA x d, dotProduct_comm b d]
  ring

/-- a multiplier term is orthogonal to every feasible direction -/
theorem dot_transpose_mulVec_of_feasible (C : Matrix p n K) (μ : p → K) (d : n → K) (hd : C *ᵥ d = 0) :
    d ⬝ᵥ Cᵀ *ᵥ μ = 0 := by
  rw [Matrix.mulVec_transpose, dotProduct_comm, ← Matrix.dotProduct_mulVec, hd, dotProduct_zero]

/-- **Exact excess.** At a KKT point the quadratic grows along a feasible direction `d` by exactly `d·Ad`. -/
theorem kkt_excess (A : Matrix n n K) (hA : Aᵀ = A) (C : Matrix p n K) (b x : n → K) (μ : p → K)
    (hstat : A *ᵥ x + Cᵀ *ᵥ μ = b) (d : n → K) (hd : C *ᵥ d = 0) :
    quad A b (x + d) = quad A b x + d ⬝ᵥ A *ᵥ d := by
  have e : A *ᵥ x - b = - (Cᵀ *ᵥ μ) := by rw [← hstat]; abel
  rw [quad_add A hA, e, dotProduct_neg, dot_transpose_mulVec_of_feasible C μ d hd]
  ring

/-- the bordered (saddle-point) system is exactly stationarity plus feasibility -/
theorem bordered_iff [DecidableEq n] [DecidableEq p] (A : Matrix n n K) (C : Matrix p n K) (b x : n → K) (c μ : p → K) :
    Matrix.fromBlocks A Cᵀ C 0 *ᵥ Sum.elim x μ = Sum.elim b c ↔ (A *ᵥ x + Cᵀ *ᵥ μ = b ∧ C *ᵥ x = c) := by
  rw [Matrix.fromBlocks_mulVec]
  constructor
  · intro h
    have h1 := congrArg (fun f => f ∘ Sum.inl) h
    have h2 := congrArg (fun f => f ∘ Sum.inr) h
    simp only [Sum.elim_comp_inl, Sum.elim_comp_inr, Matrix.zero_mulVec, add_zero] at h1 h2
    exact ⟨h1, h2⟩
  · rintro ⟨h1, h2⟩
    simp only [Sum.elim_comp_inl, Sum.elim_comp_inr, Matrix.zero_mulVec, add_zero, h1, h2]

section Ordered

variable [LinearOrder K] [IsStrictOrderedRing K]

theorem dot_self_nonneg (v : m → K) : 0 ≤ v ⬝ᵥ v := by
  unfold dotProduct
  exact Finset.sum_nonneg (fun i _ => mul_self_nonneg (v i))

theorem dot_self_eq_zero {v : m → K} (h : v ⬝ᵥ v = 0) : v = 0 := by
  unfold dotProduct at h
  have := (Finset.sum_eq_zero_iff_of_nonneg (fun i _ => mul_self_nonneg (v i))).1 h
  funext i
  exact mul_self_eq_zero.1 (this i (Finset.mem_univ i))

/-- **KKT ⇒ constrained minimiser** of a quadratic that is positive semidefinite on the feasible directions. -/
theorem kkt_min (A : Matrix n n K) (hA : Aᵀ = A) (C : Matrix p n K) (b x : n → K) (c μ : p → K)
    (hpsd : ∀ d : n → K, C *ᵥ d = 0 → 0 ≤ d ⬝ᵥ A *ᵥ d)
    (hstat : A *ᵥ x + Cᵀ *ᵥ μ = b) (hfeas : C *ᵥ x = c)
    (x' : n → K) (hfeas' : C *ᵥ x' = c) :
    quad A b x ≤ quad A b x' := by
  have hd : C *ᵥ (x' - x) = 0 := by rw [Matrix.mulVec_sub, hfeas, hfeas', sub_self]
  have e : x' = x + (x' - x) := by abel
  rw [e, kkt_excess A hA C b x μ hstat _ hd]
  linarith [hpsd _ hd]

/-- **Strictness**: when the form is positive definite on the feasible directions, every other feasible point
is strictly worse. -/
theorem kkt_strict (A : Matrix n n K) (hA : Aᵀ = A) (C : Matrix p n K) (b x : n → K) (c μ : p → K)
    (hpsd : ∀ d : n → K, C *ᵥ d = 0 → 0 ≤ d ⬝ᵥ A *ᵥ d)
    (hpd : ∀ d : n → K, C *ᵥ d = 0 → d ⬝ᵥ A *ᵥ d = 0 → d = 0)
    (hstat : A *ᵥ x + Cᵀ *ᵥ μ = b) (hfeas : C *ᵥ x = c)
    (x' : n → K) (hfeas' : C *ᵥ x' = c) (hne : x' ≠ x) :
    quad A b x < quad A b x' := by
  have hd : C *ᵥ (x' - x) = 0 := by rw [Matrix.mulVec_sub, hfeas, hfeas', sub_self]
  have e : x' = x + (x' - x) := by abel
  rw [e, kkt_excess A hA C b x μ hstat _ hd]
  have h0 : 0 ≤ (x' - x) ⬝ᵥ A *ᵥ (x' - x) := hpsd _ hd
  rcases h0.lt_or_eq with h | h
  · linarith
  · exact absurd (sub_eq_zero.1 (hpd _ hd h.symm)) hne

/-- **Uniqueness** of the constrained minimiser. -/
theorem kkt_unique (A : Matrix n n K) (hA : Aᵀ = A) (C : Matrix p n K) (b x : n → K) (c μ : p → K)
    (hpsd : ∀ d : n → K, C *ᵥ d = 0 → 0 ≤ d ⬝ᵥ A *ᵥ d)
    (hpd : ∀ d : n → K, C *ᵥ d = 0 → d ⬝ᵥ A *ᵥ d = 0 → d = 0)
    (hstat : A *ᵥ x + Cᵀ *ᵥ μ = b) (hfeas : C *ᵥ x = c)
    (x' : n → K) (hfeas' : C *ᵥ x' = c) (hle : quad A b x' ≤ quad A b x) :
    x' = x := by
  by_contra hne
  exact absurd (kkt_strict A hA C b x c μ hpsd hpd hstat hfeas x' hfeas' hne) (not_lt.2 hle)

/-- two KKT points of the same problem coincide (so the bordered system has at most one `x`-solution) -/
theorem kkt_point_unique (A : Matrix n n K) (hA : Aᵀ = A) (C : Matrix p n K) (b x x' : n → K) (c μ μ' : p → K)
    (hpsd : ∀ d : n → K, C *ᵥ d = 0 → 0 ≤ d ⬝ᵥ A *ᵥ d)
    (hpd : ∀ d : n → K, C *ᵥ d = 0 → d ⬝ᵥ A *ᵥ d = 0 → d = 0)
    (hstat : A *ᵥ x + Cᵀ *ᵥ μ = b) (hfeas : C *ᵥ x = c)
    (hstat' : A *ᵥ x' + Cᵀ *ᵥ μ' = b) (hfeas' : C *ᵥ x' = c) : x' = x :=
  kkt_unique A hA C b x c μ hpsd hpd hstat hfeas x' hfeas'
    (kkt_min A hA C b x' c μ' hpsd hstat' hfeas' x hfeas)

end Ordered

/-! ### Weighted least squares with a positive-semidefinite penalty -/

section WLS

variable [DecidableEq n]

/-- `Σ wᵢ (yᵢ − τᵢ)² + lam ‖P τ‖²` -/
def wlsObj (w y : n → K) (lam : K) (P : Matrix m n K) (τ : n → K) : K :=
  ∑ i, w i * (y i - τ i) ^ 2 + lam * (P *ᵥ τ ⬝ᵥ P *ᵥ τ)

/-- the matrix of the normal equations, `diag w + lam PᵀP` -/
def wlsA (w : n → K) (lam : K) (P : Matrix m n K) : Matrix n n K :=
  Matrix.diagonal w + lam • (Pᵀ * P)

omit [Fintype n] in
theorem wlsA_symm (w : n → K) (lam : K) (P : Matrix m n K) : (wlsA w lam P)ᵀ = wlsA w lam P := by
  unfold wlsA
  simp only [Matrix.transpose_add, Matrix.diagonal_transpose, Matrix.transpose_smul, Matrix.transpose_mul,
    Matrix.transpose_transpose]

/-- the quadratic form of `wlsA`:  `d·(diag w + lam PᵀP) d = Σ wᵢ dᵢ² + lam ‖P d‖²` -/
theorem wlsA_form (w : n → K) (lam : K) (P : Matrix m n K) (d : n → K) :
    d ⬝ᵥ wlsA w lam P *ᵥ d = ∑ i, w i * d i ^ 2 + lam * (P *ᵥ d ⬝ᵥ P *ᵥ d) := by
  unfold wlsA
  rw [Matrix.add_mulVec, dotProduct_add, Matrix.smul_mulVec, dotProduct_smul, smul_eq_mul]
  congr 1
  · unfold dotProduct
    refine Finset.sum_congr rfl (fun i _ => ?_)
    rw [Matrix.mulVec_diagonal]; ring
  · rw [← Matrix.mulVec_mulVec, Matrix.dotProduct_mulVec, ← Matrix.mulVec_transpose, Matrix.transpose_transpose]

/-- the objective is the quadratic of `wlsA` up to the constant `Σ wᵢ yᵢ²` -/
theorem wlsObj_eq_quad (w y : n → K) (lam : K) (P : Matrix m n K) (τ : n → K) :
    wlsObj w y lam P τ = quad (wlsA w lam P) (fun i => w i * y i) τ + ∑ i, w i * y i ^ 2 := by
  unfold wlsObj quad
  rw [wlsA_form]
  unfold dotProduct
  simp only [Finset.mul_sum]
  have : ∑ i, w i * (y i - τ i) ^ 2 = ∑ i, w i * τ i ^ 2 - ∑ i, 2 * (w i * y i * τ i) + ∑ i, w i * y i ^ 2 := by
    rw [← Finset.sum_sub_distrib, ← Finset.sum_add_distrib]
    exact Finset.sum_congr rfl (fun i _ => by ring)
  rw [this]; ring

/-- **Exact excess** for weighted least squares with penalty and equality constraints `C τ = c`. -/
theorem wls_kkt_excess (w y : n → K) (lam : K) (P : Matrix m n K) (C : Matrix p n K) (τ : n → K) (μ : p → K)
    (hstat : wlsA w lam P *ᵥ τ + Cᵀ *ᵥ μ = fun i => w i * y i) (d : n → K) (hd : C *ᵥ d = 0) :
    wlsObj w y lam P (τ + d) = wlsObj w y lam P τ + (∑ i, w i * d i ^ 2 + lam * (P *ᵥ d ⬝ᵥ P *ᵥ d)) := by
  rw [wlsObj_eq_quad, wlsObj_eq_quad, kkt_excess _ (wlsA_symm w lam P) C _ τ μ hstat d hd, wlsA_form]
  ring

variable [LinearOrder K] [IsStrictOrderedRing K]

omit [DecidableEq n] in
theorem wls_form_nonneg (w : n → K) (hw : ∀ i, 0 ≤ w i) (lam : K) (hlam : 0 ≤ lam) (P : Matrix m n K) (d : n → K) :
    0 ≤ ∑ i, w i * d i ^ 2 + lam * (P *ᵥ d ⬝ᵥ P *ᵥ d) :=
  add_nonneg (Finset.sum_nonneg (fun i _ => mul_nonneg (hw i) (sq_nonneg _)))
    (mul_nonneg hlam (dot_self_nonneg _))

/-- **Normal equations with multipliers ⇒ constrained minimiser** of `Σ wᵢ (yᵢ − τᵢ)² + lam ‖P τ‖²`. -/
theorem wls_kkt_min (w y : n → K) (hw : ∀ i, 0 ≤ w i) (lam : K) (hlam : 0 ≤ lam) (P : Matrix m n K)
    (C : Matrix p n K) (c : p → K) (τ : n → K) (μ : p → K)
    (hstat : wlsA w lam P *ᵥ τ + Cᵀ *ᵥ μ = fun i => w i * y i) (hfeas : C *ᵥ τ = c)
    (τ' : n → K) (hfeas' : C *ᵥ τ' = c) :
    wlsObj w y lam P τ ≤ wlsObj w y lam P τ' := by
  have hd : C *ᵥ (τ' - τ) = 0 := by rw [Matrix.mulVec_sub, hfeas, hfeas', sub_self]
  have e : τ' = τ + (τ' - τ) := by abel
  rw [e, wls_kkt_excess w y lam P C τ μ hstat _ hd]
  linarith [wls_form_nonneg w hw lam hlam P (τ' - τ)]

/-- **Uniqueness**: if `lam > 0` and the only feasible direction that is invisible to the weights (`wᵢ dᵢ² = 0`) and
to the penalty (`P d = 0`) is `0`, every feasible `τ'` that is not worse than the KKT point equals it. -/
theorem wls_kkt_unique (w y : n → K) (hw : ∀ i, 0 ≤ w i) (lam : K) (hlam : 0 < lam) (P : Matrix m n K)
    (C : Matrix p n K) (c : p → K) (τ : n → K) (μ : p → K)
    (hpin : ∀ d : n → K, C *ᵥ d = 0 → (∀ i, w i * d i ^ 2 = 0) → P *ᵥ d = 0 → d = 0)
    (hstat : wlsA w lam P *ᵥ τ + Cᵀ *ᵥ μ = fun i => w i * y i) (hfeas : C *ᵥ τ = c)
    (τ' : n → K) (hfeas' : C *ᵥ τ' = c) (hle : wlsObj w y lam P τ' ≤ wlsObj w y lam P τ) :
    τ' = τ := by
  have hd : C *ᵥ (τ' - τ) = 0 := by rw [Matrix.mulVec_sub, hfeas, hfeas', sub_self]
  have e : τ' = τ + (τ' - τ) := by abel
  rw [e, wls_kkt_excess w y lam P C τ μ hstat _ hd] at hle
  set d := τ' - τ with hdd
  have h1 : 0 ≤ ∑ i, w i * d i ^ 2 := Finset.sum_nonneg (fun i _ => mul_nonneg (hw i) (sq_nonneg _))
  have h2 : 0 ≤ P *ᵥ d ⬝ᵥ P *ᵥ d := dot_self_nonneg _
  have h3 : 0 ≤ lam * (P *ᵥ d ⬝ᵥ P *ᵥ d) := mul_nonneg hlam.le h2
  have s1 : ∑ i, w i * d i ^ 2 = 0 := by linarith
  have s2 : lam * (P *ᵥ d ⬝ᵥ P *ᵥ d) = 0 := by linarith
  have s3 : P *ᵥ d ⬝ᵥ P *ᵥ d = 0 := by
    rcases mul_eq_zero.1 s2 with h | h
    · exact absurd h hlam.ne'
    · exact h
  have s4 : ∀ i, w i * d i ^ 2 = 0 := fun i =>
    (Finset.sum_eq_zero_iff_of_nonneg (fun i _ => mul_nonneg (hw i) (sq_nonneg _))).1 s1 i (Finset.mem_univ i)
  have : d = 0 := hpin d hd s4 (dot_self_eq_zero s3)
  exact sub_eq_zero.1 this

end WLS

/-! ### Ordinary least squares (DESIGN.md A.2) -/

section OLS

variable [LinearOrder K] [IsStrictOrderedRing K]

omit [LinearOrder K] [IsStrictOrderedRing K] in
/-- normal equations `Xᵀ (y − X b) = 0` ⇒ `b` minimises `‖y − X b‖²`; the excess is `‖X (b' − b)‖²`. -/
theorem ls_excess (X : Matrix m n K) (y : m → K) (b : n → K)
    (h : Xᵀ *ᵥ (y - X *ᵥ b) = 0) (b' : n → K) :
    (y - X *ᵥ b') ⬝ᵥ (y - X *ᵥ b') =
      (y - X *ᵥ b) ⬝ᵥ (y - X *ᵥ b) + (X *ᵥ (b' - b)) ⬝ᵥ (X *ᵥ (b' - b)) := by
  set r := y - X *ᵥ b with hr
  set d := b' - b with hd
  have e1 : y - X *ᵥ b' = r - X *ᵥ d := by
    simp only [hr, hd, Matrix.mulVec_sub]; abel
  have e2 : r ⬝ᵥ (X *ᵥ d) = 0 := by
    rw [Matrix.dotProduct_mulVec, ← Matrix.mulVec_transpose, h, zero_dotProduct]
  rw [e1]
  simp only [sub_dotProduct, dotProduct_sub]
  rw [dotProduct_comm (X *ᵥ d) r, e2]; ring

theorem ls_min (X : Matrix m n K) (y : m → K) (b : n → K)
    (h : Xᵀ *ᵥ (y - X *ᵥ b) = 0) (b' : n → K) :
    (y - X *ᵥ b) ⬝ᵥ (y - X *ᵥ b) ≤ (y - X *ᵥ b') ⬝ᵥ (y - X *ᵥ b') := by
  rw [ls_excess X y b h b']
  linarith [dot_self_nonneg (X *ᵥ (b' - b))]

/-- with a trivial kernel (`X d = 0 ⇒ d = 0`, i.e. full column rank) the least-squares solution is unique -/
theorem ls_unique (X : Matrix m n K) (hX : ∀ d : n → K, X *ᵥ d = 0 → d = 0) (y : m → K) (b : n → K)
    (h : Xᵀ *ᵥ (y - X *ᵥ b) = 0) (b' : n → K)
    (hle : (y - X *ᵥ b') ⬝ᵥ (y - X *ᵥ b') ≤ (y - X *ᵥ b) ⬝ᵥ (y - X *ᵥ b)) : b' = b := by
  rw [ls_excess X y b h b'] at hle
  have h0 : (X *ᵥ (b' - b)) ⬝ᵥ (X *ᵥ (b' - b)) = 0 :=
    le_antisymm (by linarith) (dot_self_nonneg _)
  exact sub_eq_zero.1 (hX _ (dot_self_eq_zero h0))

end OLS

end IrisVerif.QuadMin
