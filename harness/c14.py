"""
C14 -- Trend filters return the optimum of their problem; trend plus gap is the data.

Correspondence (class T on instances whose condition number is measured and kept <= 1e8; classes E/D for the
stages): the Lean model IrisVerif/Model/HP.lean (driver C14) against irispie.hpf / hpf_trend / hpf_gap and the
anchored internals of series/_hp.py:
  setup : encompassing span, _prepare_constraints, _remove_first_date_change          exact
  sys   : the bordered system matrix of _ConstrainedHodrickPrescottFilter              exact (integer entries)
  hpf   : trend and gap against the exact rational optimum                            1e-6 * scale
  cert  : residual of the implementation's trend in the exact normal equations (V)     bound stated below
  l1    : dual certificate of lonf's output (range of D', box, duality gap) (V)        bound stated below
  dmat  : the difference matrices of _ell_one.py                                       exact
Oracle (independent of the model, written from the property statement, numpy + exact Fractions): trend+gap=data,
constraints met, perturbation test of the objective along feasible directions (random ones and the one pointing to
an independently computed least-squares optimum), straight line unchanged, log=True == exp(hpf(log)), span only
clips, variants filtered independently, hpf_trend/hpf_gap == hpf; for lonf: trend+gap=data for every variant,
perturbation test of the l1 objective, affine (order 2) / constant (order 1) data unchanged.
"""
from __future__ import annotations
import os, json, glob, math
from fractions import Fraction as Fr

import numpy as np
import irispie as ir
from irispie import dates as D
from irispie.series import _hp as HPMOD
from irispie.series import _ell_one as L1MOD

from .common import Ctx, err_kind, rat_of_float, VERIF

DRIVERS = ["C14"]
EXTRA_PROPS = ['BridgeC14', 'C14Span', 'QMatSolveBridge', 'C14Compose', 'GenTieCore', 'GenTieC14']   # refinement bridge from the executable QMat model to the matrix-level theorems (audited with this check)
LEVEL = "proof"
MANIFEST = {
    "category": "proof",
    "text": ("Lean 4 theorems. (A) Mathlib matrices over any linearly ordered field, all sizes, data, observation patterns and "
             "constraint positions: a solution (tau, mu) of the bordered system F(tau,mu) = (W y, c), F = [[lam K'K + W, C'],[C, 0]], meets "
             "every level and change constraint exactly and, for lam >= 0, minimises sum_obs (y-tau)^2 + lam sum (second differences)^2 among "
             "the sequences meeting them (exact excess J(tau') - J(tau) = J0(tau' - tau)); for lam > 0 and two observations it is the only "
             "minimiser; ker K = affine sequences, so a fully observed straight line (with constraints on it) is returned unchanged; values "
             "at missing observations enter neither objective nor right-hand side. For lam > 0 and two observations F is non-singular IFF "
             "the constraints are independent (distinct levels, distinct changes >= 1, no level-changes-level cycle), so the unique "
             "constrained minimiser exists exactly then. (B) About the executable exact-rational model of series/_hp.py: its system matrix "
             "equals F entrywise; the rows of its bordered right-hand side are log(data) with zeros at missing observations, then the level "
             "values, then the change values (each logged once); with the proved completeness of QMat.solve (Lemmas/QMatSolve.lean, not "
             "mine) the model RETURNS a trend iff the constraints are independent (lam > 0, two observations), and what it returns meets "
             "the constraints, minimises the objective and is the only such sequence (Props/C14Compose.lean: model_returns_the_minimiser, "
             "filterData_isSome_iff_independent, dataHpf_answers; hypotheses on the input only, except that independence is stated on the "
             "positions setup prepares); trend+gap=data where data exist; log=True equals exp . hpf . log as a function, and under "
             "log(exp z) = z trend and gap add up to the data in logarithms; the span argument in any form (.../None, Span with open ends, "
             "any step, either direction, any iterable) is reduced to (min, max) of the requested periods, the filter span is the hull of "
             "data, constraints and request, the output is the slice [min-lo : max-lo+1] of the unclipped result with max-min+1 periods; "
             "an empty selection or a zero step is rejected and nothing else is (dataHpfReq_none_iff); filter_data leaves the filter object "
             "unchanged, the variant loop is a map of the stateless filter with the same unlogged constraint values for every variant. "
             "(C) lonf (PARTIAL, certificate validation): for any difference matrix, |nu| <= lam, tau = y - D'nu and complementarity imply "
             "optimality and uniqueness; with missing observations (fidelity weights) optimality only; any dual-feasible nu bounds the "
             "sub-optimality by its duality gap; instantiated on lonf's own first/second-order matrices, whose entry formulas are proved. "
             "TIE, every run: staged exact correspondence (encompassing span and constraint preparation, system matrix, the arguments of "
             "numpy.linalg.solve per variant captured in flight, self._F before/after the variant loop, lonf difference matrices, rejected "
             "requests), trend/gap at 1e-6 relative on instances with numpy-measured cond <= 1e8, exact-arithmetic certificates on the "
             "implementation's own output (normal-equation residual; lonf dual certificate), and an independent oracle (perturbation test "
             "of the exact objective, least-squares reference, constraints, straight lines, spans, variants alone = variants together for "
             "hpf and lonf, log, missing observations, history re-runs). NOT PROVED: anything about daqp, floating point, LAPACK; that the "
             "positions setup prepares are distinct (true by construction, compared exactly with the code on every case)."),
    "design": "7/C14",
    "note": ("Tolerances apply only to generator-controlled instances (integer data, n <= 46, cond(F) <= 1e8 measured with numpy). "
             "lonf part is partial: optimality is validated per output through the proved duality-gap bound, not derived from daqp. "
             "lonf with missing observations is checked (30 % of the lonf cases) since the fix C14-lonf-missing-observations."),
    "technique": "Lean 4 proof of schematic optimality theorems + exact rational model + differential correspondence + certificate validation",
}
ASSUMPTIONS = [
    "QMat.solve: soundness and completeness are proved in Lemmas/QMatSolve.lean (shared file); the model additionally re-checks every answer exactly (F x = b)",
    "tolerance comparisons only on instances with numpy-measured cond(F) <= 1e8; floating-point rounding and LAPACK are not modelled",
    "lonf: only the returned (trend, gap) is validated (dual certificate in exact arithmetic, also with missing observations); daqp itself is not modelled",
    "log=True: numpy log/exp are treated as abstract mutually inverse functions (the model is run on the logged data)",
    "periods of one frequency are integer serials in the model (frequency mixing is C09's subject)",
]

CLS = {"I": D.IntegerPeriod, "Y": D.YearlyPeriod, "H": D.HalfyearlyPeriod, "Q": D.QuarterlyPeriod,
       "M": D.MonthlyPeriod, "D": D.DailyPeriod}
BASE = {"I": 0, "Y": 2000, "H": 4040, "Q": 8080, "M": 24240, "D": 737425}
LAMS = [1, 100, 1600, 14400]
LAMS_OTHER = ["1/2", "25/4", 10, 400, 129600]
TOL = 1e-6
NAN = float("nan")


def P(f, s):
    return CLS[f](int(s))


def lam_float(lam):
    return float(Fr(str(lam)))


# ---------------------------------------------------------------------------------------
# building the irispie objects of a case
# ---------------------------------------------------------------------------------------

def to_arr(cols):
    """list of variants (lists with None for NaN) -> (len, nv) float array"""
    return np.array([[NAN if v is None else float(v) for v in col] for col in cols], dtype=float).T


def make_series(f, start, cols):
    return ir.Series(start=P(f, start), values=to_arr(cols))


def objects(case):
    f = case["freq"]
    x = make_series(f, case["dstart"], case["data"])
    lev = make_series(f, case["level"]["start"], [case["level"]["vals"]]) if case.get("level") else None
    chg = make_series(f, case["change"]["start"], [case["change"]["vals"]]) if case.get("change") else None
    return x, lev, chg


def own_span(case, span):
    return span is not None and case.get("span") is not None and tuple(case["span"]) == tuple(span)


def span_arg(case, span):
    """the `span=` argument; the case's own span is given in the form the case prescribes (forward/backward/stepped Span, open
    ends, shuffled list, tuple), whose smallest and largest period are `span` by construction of the generator"""
    f = case["freq"]
    if span is None:
        return ... if case.get("span_none", "dots") == "dots" else None
    lo, hi = span
    form = case.get("span_form", "span") if own_span(case, span) else "span"
    if form == "list":
        return [P(f, q) for q in case.get("span_list") or ([hi, lo] if hi != lo else [lo])]
    if form == "tuple_all":
        return tuple(P(f, q) for q in range(lo, hi + 1))
    if form == "bwd":
        return ir.Span(P(f, hi), P(f, lo), -1)
    if form == "step":
        return ir.Span(P(f, lo), P(f, case["span_nominal"]), case["span_step"])
    if form == "bwd_step":
        return ir.Span(P(f, hi), P(f, case["span_nominal"]), -case["span_step"])
    if form == "open_start":
        return ir.Span(None, P(f, hi))
    if form == "open_end":
        return ir.Span(P(f, lo), None)
    return ir.Span(P(f, lo), P(f, hi))


def spanreq_words(case, span):
    """the same argument for the model's `hpfq`: the form, not the hull"""
    if span is None:
        return ["dots"]
    lo, hi = span
    form = case.get("span_form", "span") if own_span(case, span) else "span"
    if form == "list":
        l = case.get("span_list") or ([hi, lo] if hi != lo else [lo])
        return ["list", str(len(l))] + [str(q) for q in l]
    if form == "tuple_all":
        return ["list", str(hi - lo + 1)] + [str(q) for q in range(lo, hi + 1)]
    if form == "bwd":
        return ["range", str(hi), str(lo), "-1"]
    if form == "step":
        return ["range", str(lo), str(case["span_nominal"]), str(case["span_step"])]
    if form == "bwd_step":
        return ["range", str(hi), str(case["span_nominal"]), str(-case["span_step"])]
    if form == "open_start":
        return ["range", "-", str(hi), "1"]
    if form == "open_end":
        return ["range", str(lo), "-", "1"]
    return ["range", str(lo), str(hi), "1"]


def call_hpf(case, x, lev, chg, span, log=None, which="hpf"):
    """returns (start serial, trend (len, nv), gap (len, nv)) aligned with the requested span (NaN padded)"""
    kw = dict(smooth=lam_float(case["lam"]), span=span_arg(case, span), log=case["log"] if log is None else log)
    if lev is not None:
        kw["level"] = lev
    if chg is not None:
        kw["change"] = chg
    if which == "hpf":
        t, g = ir.hpf(x, **kw)
    elif which == "func":
        t, g = ir.hpf_trend(x, **kw), ir.hpf_gap(x, **kw)
    else:
        t, g = x.copy(), x.copy()
        t.hpf_trend(**kw)
        g.hpf_gap(**kw)
    return t, g


def grid(s, f, lo, hi):
    """values of a series on lo..hi as (len, nv) array"""
    if s.start is None:
        return np.full((hi - lo + 1, s.data.shape[1] if s.data.ndim == 2 else 1), NAN)
    return np.array(s.get_data_from_until((P(f, lo), P(f, hi))), dtype=float)


def ranges(case, x, lev, chg, span):
    """(slo, shi, lo, hi): requested output range and encompassing range, from the objects themselves"""
    dlo, dhi = x.start.serial, x.start.serial + x.data.shape[0] - 1
    slo, shi = (dlo, dhi) if span is None else span
    los, his = [dlo, slo], [dhi, shi]
    for c in (lev, chg):
        if c is not None:
            los.append(c.start.serial)
            his.append(c.start.serial + c.data.shape[0] - 1)
    return slo, shi, min(los), max(his)


# ---------------------------------------------------------------------------------------
# request lines
# ---------------------------------------------------------------------------------------

def rtxt(v, logged):
    v = float(v)
    if v != v:
        return "nan"
    return rat_of_float(float(np.log(v))) if logged else rat_of_float(v)


def ser_words(tag, s, logged):
    if s is None:
        return [tag, "-"]
    col = s.data[:, 0]
    return [tag, str(s.start.serial), str(len(col))] + [rtxt(v, logged) for v in col]


def req_words(case, x, lev, chg, span, logged):
    lo, hi = ("-", "-") if span is None else span
    dat = x.data
    w = [str(case["lam"]), str(lo), str(hi), str(x.start.serial), str(dat.shape[0]), str(dat.shape[1])]
    for k in range(dat.shape[1]):
        w += [rtxt(v, logged) for v in dat[:, k]]
    return w + ser_words("lev", lev, logged) + ser_words("chg", chg, logged)


def parse_hpf_reply(r):
    """-> (start, len, nv, trend (len, nv) of Fraction, gap (len, nv) of Fraction|None)"""
    ws = r.split()
    if ws[0] != "ok":
        return None
    start, ln, nv = int(ws[1]), int(ws[2]), int(ws[3])
    vals = ws[4:]
    t = [[Fr(vals[k * ln + i]) for i in range(ln)] for k in range(nv)]
    off = ln * nv
    g = [[None if vals[off + k * ln + i] == "nan" else Fr(vals[off + k * ln + i]) for i in range(ln)] for k in range(nv)]
    return start, ln, nv, t, g


# ---------------------------------------------------------------------------------------
# independent reference from the statement (numpy): constraints as a forest, null-space least squares
# ---------------------------------------------------------------------------------------

def second_diff(n):
    K = np.zeros((max(n - 2, 0), n))
    for i in range(n - 2):
        K[i, i], K[i, i + 1], K[i, i + 2] = 1.0, -2.0, 1.0
    return K


def constraint_lists(lo, hi, levg, chgg):
    """positions/values of the constraints the problem has: levels anywhere, changes where a predecessor exists"""
    lw = [(i, float(v)) for i, v in enumerate(levg) if v == v]
    cw = [(i, float(v)) for i, v in enumerate(chgg) if v == v and i >= 1]
    return lw, cw


class Forest:
    """feasible set of {tau_j = l, tau_j - tau_{j-1} = c}: components with offsets; `ok` False when there is a cycle"""

    def __init__(self, n, lw, cw):
        self.n = n
        self.adj = {i: [] for i in range(n + 1)}      # node n = ground (value 0)
        self.ok = True
        parent = list(range(n + 1))

        def find(a):
            while parent[a] != a:
                parent[a] = parent[parent[a]]
                a = parent[a]
            return a
        for j, v in lw:
            a, b = find(j), find(n)
            if a == b:
                self.ok = False
            parent[a] = b
            self.adj[n].append((j, v)); self.adj[j].append((n, -v))
        for j, v in cw:
            a, b = find(j), find(j - 1)
            if a == b:
                self.ok = False
            parent[a] = b
            self.adj[j - 1].append((j, v)); self.adj[j].append((j - 1, -v))
        # components and offsets (value of node = value of root + offset)
        self.comp = [-1] * (n + 1)
        self.off = [0.0] * (n + 1)
        self.ncomp = 0
        order = [n] + list(range(n))
        for r in order:
            if self.comp[r] >= 0:
                continue
            cid = self.ncomp
            self.ncomp += 1
            self.comp[r] = cid
            stack = [r]
            while stack:
                a = stack.pop()
                for b, v in self.adj[a]:
                    if self.comp[b] < 0:
                        self.comp[b] = cid
                        self.off[b] = self.off[a] + v
                        stack.append(b)
        # component 0 is the ground component (fixed)

    def particular(self):
        return np.array(self.off[: self.n])

    def Z(self):
        """0/1 basis of the feasible directions: one column per free component"""
        Z = np.zeros((self.n, self.ncomp - 1))
        for j in range(self.n):
            if self.comp[j] > 0:
                Z[j, self.comp[j] - 1] = 1.0
        return Z


def reference_optimum(lam, y, forest):
    """min sum_obs (y - tau)^2 + lam |K tau|^2 over the feasible set, by QR/SVD least squares on the null-space
    parametrisation (no normal equations, no bordered matrix)"""
    n = len(y)
    obs = ~np.isnan(y)
    tp, Z = forest.particular(), forest.Z()
    K = second_diff(n)
    Wh = np.diag(obs.astype(float))
    y0 = np.where(obs, y, 0.0)
    M = np.vstack([Wh @ Z, math.sqrt(lam) * (K @ Z)])
    b = np.concatenate([Wh @ (y0 - tp), -math.sqrt(lam) * (K @ tp)])
    u = np.linalg.lstsq(M, b, rcond=None)[0]
    return tp + Z @ u


def bordered(lam, obs, lw, cw):
    n = len(obs)
    K = second_diff(n)
    A = lam * (K.T @ K) + np.diag(obs.astype(float))
    C = np.zeros((len(lw) + len(cw), n))
    for i, (j, _) in enumerate(lw):
        C[i, j] = 1.0
    for i, (j, _) in enumerate(cw):
        C[len(lw) + i, j] = 1.0
        C[len(lw) + i, j - 1] = -1.0
    k = C.shape[0]
    return np.block([[A, C.T], [C, np.zeros((k, k))]]), A, C


def objective_exact(lam, y, tau):
    """sum_obs (y - tau)^2 + lam sum (tau[t-1] - 2 tau[t] + tau[t+1])^2 in exact rationals; y entries None when missing"""
    s = Fr(0)
    for a, b in zip(y, tau):
        if a is not None:
            s += (a - b) ** 2
    p = Fr(0)
    for t in range(1, len(tau) - 1):
        p += (tau[t - 1] - 2 * tau[t] + tau[t + 1]) ** 2
    return s + lam * p


def frs(v):
    return [None if (x is None or x != x) else Fr(float(x)) for x in v]


def perturbation_test(rng, lam, y, tau, forest, ref, tolJ):
    """objective must not decrease by more than tolJ along feasible directions; returns a failure text or None.
    Directions: random integer vectors per free component, single components, and the direction towards `ref`."""
    n = len(tau)
    if any(float(v) != float(v) or abs(float(v)) == float("inf") for v in tau):
        return "trend contains NaN/inf: the objective is undefined (no minimiser returned)"
    lamq = Fr(str(lam))
    yq, tq = frs(y), [Fr(float(v)) for v in tau]
    J0 = objective_exact(lamq, yq, tq)
    ncomp = forest.ncomp - 1
    if ncomp == 0:
        return None
    dirs = []
    for _ in range(4):
        u = [Fr(rng.randint(-5, 5)) for _ in range(ncomp)]
        dirs.append(("random", u))
    c = rng.randint(0, ncomp - 1)
    dirs.append(("component", [Fr(1) if i == c else Fr(0) for i in range(ncomp)]))
    # towards the independent reference: component means of ref - tau
    sums, cnt = [0.0] * ncomp, [0] * ncomp
    for j in range(n):
        cj = forest.comp[j]
        if cj > 0:
            sums[cj - 1] += float(ref[j] - tau[j]); cnt[cj - 1] += 1
    dirs.append(("to-reference", [Fr(sums[i] / max(cnt[i], 1)) for i in range(ncomp)]))
    for name, u in dirs:
        d = [u[forest.comp[j] - 1] if forest.comp[j] > 0 else Fr(0) for j in range(n)]
        if all(v == 0 for v in d):
            continue
        Jp = objective_exact(lamq, yq, [a + b for a, b in zip(tq, d)])
        Jm = objective_exact(lamq, yq, [a - b for a, b in zip(tq, d)])
        a2 = (Jp + Jm - 2 * J0) / 2          # curvature along d  (>= 0)
        b1 = (Jp - Jm) / 2                   # slope along d
        steps = [Fr(1), Fr(-1), Fr(1, 1000), Fr(-1, 1000)]
        if a2 > 0:
            steps.append(-b1 / (2 * a2))     # the exact line minimiser, found from three objective values
        for e in steps:
            Je = objective_exact(lamq, yq, [a + e * b for a, b in zip(tq, d)])
            if J0 - Je > tolJ:
                return f"objective decreases by {float(J0 - Je):.3e} (> {tolJ:.3e}) along feasible direction `{name}` step {float(e):.3e}; J={float(J0):.6e}"
    return None


# ---------------------------------------------------------------------------------------
# generator
# ---------------------------------------------------------------------------------------

def gen_constraint(rng, dstart, n, lo_val, hi_val, kmax, ratio=False):
    """a constraint series with k in 1..kmax values; first and last entries present (a Series trims its edges)"""
    k = rng.randint(1, kmax)
    length = 1 if k == 1 else rng.randint(k, k + 3)
    start = dstart + rng.randint(-3, n + 2)
    pos = {0, length - 1}
    while len(pos) < k:
        pos.add(rng.randint(0, length - 1))
    vals = [None] * length
    for p in sorted(pos):
        vals[p] = rng.choice([0.5, 0.75, 0.875, 1.0, 1.125, 1.25, 1.5, 2.0]) if ratio else rng.randint(lo_val, hi_val)
    return {"start": start, "vals": vals}


def gen_hpf_case(rng, quick=True):
    f = rng.weighted([("Q", 4), ("M", 2), ("Y", 2), ("I", 1), ("H", 1), ("D", 1)])
    n = rng.weighted([(rng.randint(3, 8), 3), (rng.randint(9, 25), 4), (rng.randint(26, 40), 2)])
    log = rng.chance(0.2)
    nv = (2 if rng.chance(0.7) else 3) if rng.chance(0.45 if log else 0.25) else 1
    lam = rng.choice(LAMS) if rng.chance(0.8) else rng.choice(LAMS_OTHER)
    dstart = BASE[f] + rng.randint(-30, 30)
    pnan = rng.choice([0.0, 0.1, 0.25])
    data = []
    for k in range(nv):
        slope = rng.randint(-3, 3)
        col = []
        for i in range(n):
            v = rng.randint(1, 100) if log else (slope * i + rng.randint(-20, 20))
            col.append(v)
        for i in range(1, n - 1):
            if rng.chance(pnan):
                col[i] = None
        if k > 0 and rng.chance(0.3):
            col[0] = None
        if k > 0 and rng.chance(0.3):
            col[-1] = None
        # at least two observations
        obs = [i for i, v in enumerate(col) if v is not None]
        while len(obs) < 2:
            i = rng.randint(0, n - 1)
            if col[i] is None:
                col[i] = rng.randint(1, 50)
                obs.append(i)
        data.append(col)
    case = {"kind": "hpf", "freq": f, "lam": lam, "log": log, "dstart": dstart, "data": data, "level": None, "change": None,
            "span": None, "span_form": "span"}
    both = rng.chance(0.2)        # level AND change constraints together (bordered right-hand side: two blocks)
    if both or rng.chance(0.4):
        case["level"] = gen_constraint(rng, dstart, n, 1 if log else -30, 100 if log else 30, 3)
    if both or rng.chance(0.4):
        case["change"] = gen_constraint(rng, dstart, n, -3, 3, 3, ratio=log)
    sp = rng.weighted([("none", 3), ("inside", 3), ("beyond", 3), ("left", 1), ("right", 1), ("single", 1)])
    dlo, dhi = dstart, dstart + n - 1
    if sp == "inside":
        a = rng.randint(dlo, dhi)
        case["span"] = [a, rng.randint(a, dhi)]
    elif sp == "beyond":
        case["span"] = [dlo - rng.randint(1, 4), dhi + rng.randint(1, 4)]
    elif sp == "left":
        case["span"] = [dlo - rng.randint(1, 4), rng.randint(dlo, dhi)]
    elif sp == "right":
        case["span"] = [rng.randint(dlo, dhi), dhi + rng.randint(1, 4)]
    elif sp == "single":
        a = rng.randint(dlo - 2, dhi + 2)
        case["span"] = [a, a]
    if case["span"] is not None:
        lo, hi = case["span"]
        forms = [("span", 4), ("bwd", 2), ("step", 2), ("bwd_step", 2), ("list", 2), ("tuple_all", 1)]
        if lo == dlo:
            forms.append(("open_start", 2))
        if hi == dhi:
            forms.append(("open_end", 2))
        form = rng.weighted(forms)
        if form in ("step", "bwd_step"):
            k = rng.choice([2, 3, 5])
            m = (hi - lo) // k
            case["span_step"] = k
            if form == "step":       # lo, lo+k, ... : the nominal end `hi` need not be reached
                case["span_nominal"] = hi
                case["span"] = [lo, lo + k * m]
            else:                    # hi, hi-k, ... down to the nominal end `lo`
                case["span_nominal"] = lo
                case["span"] = [hi - k * m, hi]
        elif form == "list":
            inner = [q for q in range(lo + 1, hi) if rng.chance(0.4)]
            l = [lo, hi] + inner + ([rng.choice([lo, hi])] if rng.chance(0.3) else [])
            if lo == hi:
                l = [lo]
            rng.shuffle(l)
            case["span_list"] = l
        case["span_form"] = form
    else:
        case["span_none"] = rng.choice(["dots", "none"])
    case["span_kind"] = sp
    return case


def gen_line_case(rng):
    """a fully observed straight line, optionally with constraints that lie on the line"""
    f = rng.choice(["Q", "M", "Y", "I"])
    n = rng.randint(3, 40)
    a, b = rng.randint(-40, 40), rng.randint(-5, 5)
    dstart = BASE[f] + rng.randint(-20, 20)
    nv = 2 if rng.chance(0.2) else 1
    data = [[a + b * i for i in range(n)]]
    if nv == 2:
        data.append(list(data[0]))
    case = {"kind": "line", "freq": f, "lam": rng.choice(LAMS + LAMS_OTHER), "log": False, "dstart": dstart, "data": data,
            "level": None, "change": None, "span": None, "span_form": "span", "span_kind": "none"}
    if rng.chance(0.4):
        j = rng.randint(-3, n + 2)
        case["level"] = {"start": dstart + j, "vals": [a + b * j]}
    if rng.chance(0.4):
        j = rng.randint(-2, n + 2)
        case["change"] = {"start": dstart + j, "vals": [b]}
    if rng.chance(0.4):
        case["span"] = [dstart - rng.randint(0, 3), dstart + n - 1 + rng.randint(0, 3)]
        case["span_kind"] = "beyond"
    return case


def gen_lonf_case(rng):
    f = rng.choice(["Q", "M", "Y", "I"])
    order = rng.choice([1, 2])
    n = rng.randint(order + 2, 40)
    nv = 2 if rng.chance(0.3) else 1
    kind = rng.weighted([("random", 6), ("line", 1), ("kink", 2)])
    data = []
    for k in range(nv):
        if kind == "line":
            a, b = rng.randint(-20, 20), (rng.randint(-4, 4) if order == 2 else 0)
            col = [a + b * i for i in range(n)]
        elif kind == "kink":
            m = rng.randint(1, n - 1)
            b1, b2 = rng.randint(-4, 4), rng.randint(-4, 4)
            col = [b1 * min(i, m) + b2 * max(i - m, 0) + rng.randint(-2, 2) for i in range(n)]
        else:
            col = [rng.randint(-30, 30) for _ in range(n)]
        data.append(col)
    lam = rng.choice(["1/2", 1, 3, 5, 20, 100])
    case = {"kind": "lonf", "freq": f, "order": order, "lam": lam, "dstart": BASE[f] + rng.randint(-20, 20), "data": data,
            "span": None, "data_kind": kind}
    if rng.chance(0.3) and n >= 5:
        # interior missing observations (no fidelity term there)
        for col in data:
            idx = [i for i in range(1, n - 1) if rng.chance(0.15)] or [rng.randint(1, n - 2)]
            for i in idx:
                col[i] = None
        case["missing"] = True
    if rng.chance(0.25) and n >= order + 4:
        a = rng.randint(0, n - order - 2)
        case["span"] = [case["dstart"] + a, case["dstart"] + rng.randint(a + order + 1, n - 1)]
    return case


# ---------------------------------------------------------------------------------------
# one hpf case: implementation, stages, oracle; returns the model request lines and what to compare them with
# ---------------------------------------------------------------------------------------

def measure(case, x, lev, chg, span):
    """numpy view of the problem on the encompassing range: per variant cond(F); None when not admissible"""
    f = case["freq"]
    slo, shi, lo, hi = ranges(case, x, lev, chg, span)
    n = hi - lo + 1
    levg = grid(lev, f, lo, hi)[:, 0] if lev is not None else np.full(n, NAN)
    chgg = grid(chg, f, lo, hi)[:, 0] if chg is not None else np.full(n, NAN)
    if case["log"]:
        levg, chgg = np.log(levg), np.log(chgg)
    lw, cw = constraint_lists(lo, hi, levg, chgg)
    forest = Forest(n, lw, cw)
    yg = grid(x, f, lo, hi)
    if case["log"]:
        yg = np.log(yg)
    lam = lam_float(case["lam"])
    conds = []
    if forest.ok:
        for k in range(yg.shape[1]):
            Fm, _, _ = bordered(lam, ~np.isnan(yg[:, k]), lw, cw)
            conds.append(float(np.linalg.cond(Fm)))
    return {"slo": slo, "shi": shi, "lo": lo, "hi": hi, "n": n, "lw": lw, "cw": cw, "forest": forest, "y": yg, "lam": lam,
            "conds": conds}


def admissible(m):
    return m["forest"].ok and all(c <= 1e8 for c in m["conds"]) and m["n"] >= 3


def impl_setup_line(case, x, lev, chg, span):
    """the same quantities as the model's `setup`, from the implementation's own helper functions"""
    sp = x.resolve_periods(span_arg(case, span))
    _, *fu = D.get_encompassing_span(x, lev, chg, sp)
    ld, lw = HPMOD._prepare_constraints(lev, fu)
    cd, cw = HPMOD._prepare_constraints(chg, fu)
    cd, cw = HPMOD._remove_first_date_change(cd, cw)
    logged = case["log"]

    def rl(a):
        return "[" + ",".join(rtxt(v, logged) for v in ([] if a is None else np.asarray(a).reshape(-1))) + "]"

    def il(a):
        return "[" + ",".join(str(int(v)) for v in (a or [])) + "]"
    return (f"{fu[0].serial} {fu[1].serial} {fu[1].serial - fu[0].serial + 1} {min(sp).serial} {max(sp).serial} "
            f"lw={il(lw)} cw={il(cw)} ld={rl(ld)} cd={rl(cd)}"), (lw or []), (cw or []), fu


def mat_text(M):
    out = [str(M.shape[0]), str(M.shape[1])]
    for v in M.reshape(-1):
        out.append(rat_of_float(v))
    return " ".join(out)


def scale_of(*arrs):
    s = 1.0
    for a in arrs:
        a = np.asarray(a, dtype=float)
        if a.size and np.any(~np.isnan(a)):
            s = max(s, float(np.nanmax(np.abs(a))))
    return s


def run_hpf_case(ctx: Ctx, case, rng, collect):
    """runs the implementation and the oracle on one case; appends (stream, line, expectation) to `collect`"""
    f = case["freq"]
    x, lev, chg = objects(case)
    span = tuple(case["span"]) if case.get("span") else None
    m = measure(case, x, lev, chg, span)
    if not admissible(m):
        return False
    slo, shi, lo, hi, n, lam = m["slo"], m["shi"], m["lo"], m["hi"], m["n"], m["lam"]
    wide = (lo, hi)
    log = case["log"]
    site_prefix = "hpf-log" if log else "hpf"
    try:
        t, g = call_hpf(case, x, lev, chg, span)
        captured = []
        orig_solve = np.linalg.solve

        def recording_solve(a, b, *args, **kw):
            captured.append((np.array(a, dtype=float), np.array(b, dtype=float)))
            return orig_solve(a, b, *args, **kw)
        np.linalg.solve = recording_solve
        try:
            tw, gw = call_hpf(case, x, lev, chg, wide)
        finally:
            np.linalg.solve = orig_solve
    except Exception as e:
        ctx.fail(site_prefix + "-raises", case, repr(e))
        return True
    T, G = grid(t, f, slo, shi), grid(g, f, slo, shi)
    TW, GW = grid(tw, f, lo, hi), grid(gw, f, lo, hi)
    Y = grid(x, f, slo, shi)
    YW = grid(x, f, lo, hi)
    nv = YW.shape[1]
    ctx.evaluations += 1
    # ---- a trend must exist wherever data exist (requested span and encompassing span); NaN / empty output is an oracle
    #      failure of the property itself, never an exception further down
    for name, ser, arr, yarr in (("requested span", t, T, Y), ("encompassing span", tw, TW, YW)):
        if ser.start is None or arr.shape[1] != nv or np.isnan(arr)[~np.isnan(yarr)].any():
            ctx.fail(site_prefix + "-trend-missing-where-data-exist", case,
                     f"{name}: trend is empty or NaN at {int(np.isnan(arr)[~np.isnan(yarr)].sum()) if arr.shape == yarr.shape else 'all'} "
                     f"of the {int((~np.isnan(yarr)).sum())} periods where data exist (trend start={ser.start}, shape={ser.data.shape})")
            return True
    if np.isnan(TW).any():
        ctx.fail(site_prefix + "-trend-missing-where-data-exist", case, f"encompassing span: trend has {int(np.isnan(TW).sum())} NaN (missing observations must be bridged)")
        return True
    # ---- shape: the requested span only clips (start and length of the output)
    if t.start is None or t.start.serial != slo or t.data.shape[0] != shi - slo + 1 or np.isnan(T).any() or T.shape[1] != nv:
        ctx.fail(site_prefix + "-output-span", case, f"trend start={t.start} shape={t.data.shape}, requested {slo}..{shi}, {nv} variants")
        return True
    if (np.isnan(G) != np.isnan(Y)).any():
        ctx.fail(site_prefix + "-gap-mask", case, "gap is not defined exactly where the data exist")
        return True
    # ---- trend + gap = data
    obs = ~np.isnan(Y)
    if log:
        bad = np.abs(T * G - Y)[obs] > 1e-12 * np.abs(Y)[obs]
    else:
        sc = scale_of(Y, T)
        bad = np.abs(T + G - Y)[obs] > 1e-12 * sc
    if bad.any():
        ctx.fail(site_prefix + "-trend-plus-gap", case, f"trend (+|*) gap differs from the data at {int(bad.sum())} points")
    # work on the scale on which the problem is quadratic
    LT = np.log(TW) if log else TW
    y = m["y"]
    sc = scale_of(y, LT, [v for _, v in m["lw"]])
    # ---- constraints met (on the unclipped result)
    for j, v in m["lw"]:
        for k in range(nv):
            if abs(LT[j, k] - v) > TOL * sc:
                ctx.fail(site_prefix + "-level-constraint", case, f"variant {k}: trend at position {j} is {LT[j, k]!r}, level constraint {v!r}")
    for j, v in m["cw"]:
        for k in range(nv):
            if abs((LT[j, k] - LT[j - 1, k]) - v) > TOL * sc:
                ctx.fail(site_prefix + "-change-constraint", case, f"variant {k}: change at position {j} is {LT[j, k] - LT[j - 1, k]!r}, constraint {v!r}")
    # ---- optimality: independent reference and perturbation test
    forest = m["forest"]
    for k in range(nv):
        ref = reference_optimum(lam, y[:, k], forest)
        err = float(np.max(np.abs(ref - LT[:, k])))
        if err > TOL * sc:
            ctx.fail(site_prefix + "-not-the-minimiser", case, f"variant {k}: trend differs from the least-squares optimum of the stated problem by {err:.3e} (scale {sc:.3g})")
        tolJ = Fr((16 * lam + 1) * n * (TOL * sc) ** 2)
        msg = perturbation_test(rng, case["lam"], [None if v != v else v for v in y[:, k]], LT[:, k], forest, ref, tolJ)
        if msg:
            ctx.fail(site_prefix + "-perturbation", case, f"variant {k}: {msg}")
    # ---- the span only clips
    a, b = slo - lo, shi - lo + 1
    if np.max(np.abs(TW[a:b] - T)) > 1e-9 * scale_of(T) or np.nanmax(np.abs(np.nan_to_num(GW[a:b] - G))) > 1e-9 * scale_of(T, Y):
        ctx.fail(site_prefix + "-span-clips", case, "result on the requested span is not the restriction of the result on the encompassing span")
    if span is not None:
        try:
            td, gd = call_hpf(case, x, lev, chg, None)
            dlo, dhi = x.start.serial, x.start.serial + x.data.shape[0] - 1
            a, b = max(dlo, slo), min(dhi, shi)
            # a change constraint at the first period of the (smaller) default problem has no predecessor there and is
            # dropped by design (_remove_first_date_change); with a wider span it binds: then the problems differ
            _, _, lo0, _ = ranges(case, x, lev, chg, None)
            dropped = chg is not None and lo < lo0 and not np.isnan(grid(chg, f, lo0, lo0)[0, 0])
            if a <= b and not dropped:
                d1, d2 = grid(td, f, a, b), grid(t, f, a, b)
                if np.max(np.abs((np.log(d1) - np.log(d2)) if log else (d1 - d2))) > TOL * sc:
                    ctx.fail(site_prefix + "-span-changes-trend", case, "trend on the common periods depends on the requested span")
        except Exception as e:
            ctx.fail(site_prefix + "-raises", case, "default span: " + repr(e))
    # ---- variants are filtered independently; functional / in-place forms
    if nv > 1:
        for k in range(nv):
            c1 = dict(case, data=[case["data"][k]])
            x1, _, _ = objects(c1)
            t1, g1 = call_hpf(c1, x1, lev, chg, wide)
            if np.max(np.abs(grid(t1, f, lo, hi)[:, 0] - TW[:, k])) > 1e-9 * scale_of(TW):
                ctx.fail(site_prefix + "-variants", case, f"variant {k} filtered alone gives a different trend")
    if rng.chance(0.3):
        for which in ("func", "inplace"):
            t2, g2 = call_hpf(case, x, lev, chg, span, which=which)
            if not (np.array_equal(grid(t2, f, slo, shi), T) and np.array_equal(grid(g2, f, slo, shi), G, equal_nan=True)):
                ctx.fail(site_prefix + "-trend-gap-forms", case, f"hpf_trend/hpf_gap ({which}) differ from hpf")
    # ---- log=True filters logarithms (metamorphic, two runs of the implementation)
    if log:
        c2 = dict(case, log=False)
        xl, ll, cl = x.copy(), (lev.copy() if lev is not None else None), (chg.copy() if chg is not None else None)
        for s in (xl, ll, cl):
            if s is not None:
                s.data = np.log(s.data)
        t3, g3 = call_hpf(c2, xl, ll, cl, span)
        if (np.max(np.abs(np.exp(grid(t3, f, slo, shi)) - T)) > 1e-9 * scale_of(T)
                or np.nanmax(np.abs(np.nan_to_num(np.exp(grid(g3, f, slo, shi)) - G))) > 1e-9 * scale_of(G)):
            ctx.fail("hpf-log-is-exp-hpf-log", case, "hpf(log=True) differs from exp(hpf(log(data), log(level), log(change)))")
    # ---- straight line unchanged
    if case["kind"] == "line":
        if np.max(np.abs(T - Y)[obs]) > TOL * sc:
            ctx.fail("hpf-straight-line", case, f"a fully observed straight line is changed by {np.max(np.abs(T - Y)[obs]):.3e}")
    # ---- model requests
    if collect is not None:
        sline, ilw, icw, fu = impl_setup_line(case, x, lev, chg, span)
        words = req_words(case, x, lev, chg, span, log)
        collect.append(("setup", "setup " + " ".join(words), sline, case))
        wwide = req_words(case, x, lev, chg, wide, log)
        LTs = np.log(T) if log else T
        LGs = np.log(G) if log else G
        qwords = [words[0]] + spanreq_words(case, span) + words[3:]
        collect.append(("hpf", "hpfq " + " ".join(qwords), {"start": slo, "T": LTs, "G": LGs, "scale": sc}, case))
        ctx.count(f"hpf:span_form={case.get('span_form') if span is not None else case.get('span_none', 'dots')}")
        tau_words = []
        for k in range(nv):
            tau_words += [rat_of_float(v) for v in LT[:, k]]
        collect.append(("cert", "cert " + " ".join(wwide) + " tau " + " ".join(tau_words),
                        {"scale": sc, "lam": lam, "nv": nv}, case))
        # system matrix of the first variant, straight from the class
        hp = HPMOD._ConstrainedHodrickPrescottFilter(n, lam, level_where=list(ilw) or None, change_where=list(icw) or None)
        Fm = hp._add_eye_for_observations(YW[:, 0].reshape(-1, 1))
        mask = ["0" if v != v else "1" for v in YW[:, 0]]
        collect.append(("sys", f"sys {n} {case['lam']} {len(ilw)} {' '.join(str(int(v)) for v in ilw)} {len(icw)} "
                        f"{' '.join(str(int(v)) for v in icw)} {' '.join(mask)}".replace("  ", " "), mat_text(Fm), case))
        # the filter object across the variant loop: self._F before and after filter_data on every variant (in order)
        impl_ld, _ = HPMOD._prepare_constraints(lev, fu)
        impl_cd, impl_cw0 = HPMOD._prepare_constraints(chg, fu)
        impl_cd, _ = HPMOD._remove_first_date_change(impl_cd, impl_cw0)
        hp2 = HPMOD._ConstrainedHodrickPrescottFilter(n, lam, level_where=list(ilw) or None, change_where=list(icw) or None, log=log)
        before = mat_text(np.array(hp2._F, dtype=float))
        answered = 0
        for k in range(nv):
            try:
                hp2.filter_data(YW[:, k].copy(), level_data=impl_ld, change_data=impl_cd)
                answered += 1
            except Exception:
                pass
        after = mat_text(np.array(hp2._F, dtype=float))
        # the arguments of the linear solve, per variant, as the implementation passed them (captured above)
        collect.append(("args", "args " + " ".join(wwide), {"captured": captured, "log": log}, case))
        collect.append(("obj", "obj " + " ".join(wwide), f"before {before} after {after} answered {answered}", case))
    # ---- history: the first cases of a run are kept and run again at the end (output must be a pure function of the arguments)
    hist = ctx.extra.setdefault("_history", [])
    if len(hist) < 8 and collect is not None:
        hist.append(("hpf", case, T.copy(), G.copy()))
    # ---- distribution
    ctx.count(f"hpf:freq={f}")
    ctx.count(f"hpf:lam={case['lam']}")
    ctx.count(f"hpf:span={case.get('span_kind')}")
    ctx.count(f"hpf:levels={len(m['lw'])}")
    ctx.count(f"hpf:changes={len(m['cw'])}")
    ctx.count(f"hpf:variants={nv}")
    ctx.count(f"hpf:log={log}")
    ctx.count(f"hpf:n={'3-8' if n <= 8 else '9-25' if n <= 25 else '26+'}")
    nmiss = int(np.isnan(YW[:, 0]).sum() - (n - x.data.shape[0]))
    ctx.count(f"hpf:interior_missing={'0' if nmiss == 0 else '1-3' if nmiss <= 3 else '4+'}")
    for c in m["conds"]:
        ctx.count(f"hpf:log10cond={int(math.floor(math.log10(max(c, 1.0))))}")
    if nmiss > 0 or m["lw"] or m["cw"] or span is not None:
        ctx.nontriv(("hpf", f, str(case["lam"]), n, len(m["lw"]), len(m["cw"]), nmiss, case.get("span_kind"), log, nv))
    return True


# ---------------------------------------------------------------------------------------
# lonf
# ---------------------------------------------------------------------------------------

def diff_matrix(order, n):
    Dm = np.zeros((n - order, n))
    for i in range(n - order):
        if order == 1:
            Dm[i, i], Dm[i, i + 1] = 1.0, -1.0
        else:
            Dm[i, i], Dm[i, i + 1], Dm[i, i + 2] = 1.0, -2.0, 1.0
    return Dm


def l1_objective_exact(order, lam, y, tau):
    s = sum(((a - b) ** 2 for a, b in zip(y, tau) if a is not None), Fr(0)) / 2
    p = Fr(0)
    for i in range(len(tau) - order):
        z = (tau[i] - tau[i + 1]) if order == 1 else (tau[i] - 2 * tau[i + 1] + tau[i + 2])
        p += abs(z)
    return s + lam * p


def l1_reference(order, lam, y):
    """independent solution of the dual box-constrained least squares by scipy's BVLS"""
    from scipy.optimize import lsq_linear
    n = len(y)
    Dm = diff_matrix(order, n)
    r = lsq_linear(Dm.T, y, bounds=(-lam, lam), method="bvls", tol=1e-14, max_iter=2000)
    return y - Dm.T @ r.x


def run_lonf_case(ctx: Ctx, case, rng, collect):
    f, order = case["freq"], case["order"]
    lam = lam_float(case["lam"])
    x = make_series(f, case["dstart"], case["data"])
    span = tuple(case["span"]) if case.get("span") else None
    lo, hi = span if span else (x.start.serial, x.start.serial + x.data.shape[0] - 1)
    ctx.evaluations += 1
    try:
        t, g = ir.lonf(x, order, lam, span=(ir.Span(P(f, lo), P(f, hi)) if span else None))
    except Exception as e:
        ctx.fail("lonf-raises", case, repr(e))
        return
    Y = grid(x, f, lo, hi)
    T, G = grid(t, f, lo, hi), grid(g, f, lo, hi)
    nv = Y.shape[1]
    if T.shape[1] != nv or G.shape[1] != nv:
        ctx.fail("lonf-variants-dropped", case, f"data have {nv} variants, lonf returned {T.shape[1]} (trend) / {G.shape[1]} (gap): trend+gap cannot equal the data")
        nv = min(nv, T.shape[1], G.shape[1])
    n = hi - lo + 1
    for k in range(nv):
        y, tt, gg = Y[:, k], T[:, k], G[:, k]
        sc = scale_of(y)
        obs = ~np.isnan(y)
        if obs.all():
            if np.isnan(tt).any() or np.isnan(gg).any():
                ctx.fail("lonf-missing-output", case, f"variant {k}: NaN in the output for fully observed data")
                continue
        elif np.isnan(tt).any() or (np.isnan(gg) != ~obs).any():
            ctx.fail("lonf-missing-observations", case, f"variant {k}: data with interior missing values: trend has {int(np.isnan(tt).sum())} NaN of {n}, "
                     f"gap is defined at {int((~np.isnan(gg)).sum())} of the {int(obs.sum())} observed periods: trend+gap does not equal the data where data exist")
            continue
        if np.max(np.abs(tt + gg - y)[obs]) > 1e-12 * sc:
            ctx.fail("lonf-trend-plus-gap", case, f"variant {k}: trend+gap differs from the data by {np.max(np.abs(tt + gg - y)[obs]):.3e}")
        # perturbation test of the l1 objective (exact rationals; no fidelity term at missing observations)
        lamq = Fr(str(case["lam"]))
        yq, tq = [Fr(float(v)) if v == v else None for v in y], [Fr(float(v)) for v in tt]
        P0 = l1_objective_exact(order, lamq, yq, tq)
        tolP = Fr(1e-7 * (1.0 + float(np.nansum(y * y)) + lam * n * sc))
        dirs = []
        if obs.all():
            ref = l1_reference(order, lam, y)
            dirs.append(("to-reference", [Fr(float(v)) for v in (ref - tt)]))
        else:
            for jm in [int(i) for i in np.where(~obs)[0]][:6]:
                dirs.append(("missing-period", [Fr(1) if i == jm else Fr(0) for i in range(n)]))
        for _ in range(3):
            dirs.append(("random", [Fr(rng.randint(-3, 3)) for _ in range(n)]))
        a, b = rng.randint(-3, 3), rng.randint(-3, 3)
        dirs.append(("affine", [Fr(a + b * i) for i in range(n)]))
        j = rng.randint(0, n - 1)
        dirs.append(("kink", [Fr(max(i - j, 0)) for i in range(n)]))
        failed = False
        for name, d in dirs:
            steps = [Fr(1), Fr(1, 2)] if name == "to-reference" else [Fr(s, q) for q in (1, 10, 100, 1000, 100000) for s in (1, -1)]
            for e in steps:
                Pe = l1_objective_exact(order, lamq, yq, [u + e * v for u, v in zip(tq, d)])
                if P0 - Pe > tolP:
                    ctx.fail("lonf-not-optimal", case, f"variant {k}: l1 objective decreases by {float(P0 - Pe):.3e} (> {float(tolP):.3e}) along `{name}` step {float(e):.1e}")
                    failed = True
                    break
            if failed:
                break
        if case.get("data_kind") == "line" and np.max(np.abs(tt - y)[obs]) > 1e-6 * sc:
            ctx.fail("lonf-straight-line", case, f"variant {k}: affine/constant data changed by {np.max(np.abs(tt - y)[obs]):.3e}")
        if collect is not None:
            if k == 0:
                collect.append(("dmat", f"dmat {order} {n}", mat_text(np.asarray(L1MOD._MATRIX_SETUP_DISPATCH[order](n)[1], dtype=float)), case))
            words = [str(order), str(case["lam"]), str(n)] + [rat_of_float(v) for v in y] + [rat_of_float(v) for v in tt] + [rat_of_float(v) for v in gg]
            collect.append(("l1", "l1 " + " ".join(words), {"scale": sc, "lam": lam, "n": n, "sumsq": float(np.nansum(y * y))}, case))
        z = diff_matrix(order, n) @ tt
        nk = int((np.abs(z) > 1e-7 * sc).sum())
        ctx.count(f"lonf:kinks={'0' if nk == 0 else '1-3' if nk <= 3 else '4+'}")
        if nk > 0 and nk < n - order:
            ctx.nontriv(("lonf", f, order, str(case["lam"]), n, nk, k))
    # variant locality: each variant filtered on its own gives the same trend and gap
    if Y.shape[1] > 1 and T.shape[1] == Y.shape[1]:
        for k in range(Y.shape[1]):
            try:
                x1 = make_series(f, case["dstart"], [case["data"][k]])
                t1, g1 = ir.lonf(x1, order, lam, span=(ir.Span(P(f, lo), P(f, hi)) if span else None))
                T1, G1 = grid(t1, f, lo, hi)[:, 0], grid(g1, f, lo, hi)[:, 0]
                if not (np.allclose(T1, T[:, k], rtol=0, atol=1e-9 * scale_of(Y), equal_nan=True)
                        and np.allclose(G1, G[:, k], rtol=0, atol=1e-9 * scale_of(Y), equal_nan=True)):
                    ctx.fail("lonf-variants", case, f"variant {k} filtered alone gives a different trend or gap")
            except Exception as e:
                ctx.fail("lonf-variants", case, f"variant {k} alone: {e!r}")
    hist = ctx.extra.setdefault("_history", [])
    if sum(1 for h in hist if h[0] == "lonf") < 6 and collect is not None:
        hist.append(("lonf", case, T.copy(), G.copy()))
    ctx.count(f"lonf:order={order}")
    ctx.count(f"lonf:lam={case['lam']}")
    ctx.count(f"lonf:variants={Y.shape[1]}")
    ctx.count(f"lonf:missing={bool(np.isnan(Y).any())}")


# ---------------------------------------------------------------------------------------
# comparison with the model
# ---------------------------------------------------------------------------------------

def compare_with_model(ctx: Ctx, collect):
    if not collect:
        return
    lines = [c[1] for c in collect]
    replies = ctx.model("C14", lines)
    if replies is None:
        return
    for (stream, line, want, case), rep in zip(collect, replies):
        ctx.streams_compared[stream] = ctx.streams_compared.get(stream, 0) + 1
        short = {"case": case, "request": line[:400]}
        if stream in ("setup", "sys", "dmat", "obj", "malformed"):
            if rep != want:
                ctx.disagree(stream, short, want[:600], rep[:600])
        elif stream == "args":
            parts = rep.split(" | ")
            cap = want["captured"]
            if len(parts) != len(cap):
                ctx.disagree(stream, short, f"{len(cap)} linear solves (one per variant)", f"{len(parts)} variants in the model")
                continue
            for k, (part, (Fm, bm)) in enumerate(zip(parts, cap)):
                ftxt, btxt = part.split(" b ")
                fw, bw = ftxt.split(), btxt.split()
                rws, cls = int(fw[0]), int(fw[1])
                bad = None
                if Fm.shape != (rws, cls) or bm.reshape(-1).shape[0] != int(bw[0]):
                    bad = f"shapes F {Fm.shape} rhs {bm.shape} vs model {(rws, cls)} / {bw[0]}"
                elif [Fr(w) for w in fw[2:]] != [Fr(float(v)) for v in Fm.reshape(-1)]:
                    bad = "system matrix differs"
                else:
                    mb = [Fr(w) for w in bw[1:]]
                    ib = [float(v) for v in bm.reshape(-1)]
                    if want["log"]:
                        ok = all(abs(float(a) - b) <= 1e-12 * max(1.0, abs(b)) for a, b in zip(mb, ib))
                    else:
                        ok = mb == [Fr(b) for b in ib]
                    if not ok:
                        worst = max(range(len(ib)), key=lambda i: abs(float(mb[i]) - ib[i]))
                        bad = f"right-hand side differs, first/worst at row {worst}: implementation {ib[worst]!r}, model {float(mb[worst])!r}"
                if bad:
                    ctx.disagree(stream, short, f"variant {k}: arguments of numpy.linalg.solve", bad)
                    break
        elif stream == "hpf":
            r = parse_hpf_reply(rep)
            if r is None:
                ctx.disagree(stream, short, "trend returned", rep[:200])
                continue
            start, ln, nv, t, g = r
            T, G, sc = want["T"], want["G"], want["scale"]
            if start != want["start"] or (ln, nv) != T.shape:
                ctx.disagree(stream, short, f"start={want['start']} shape={T.shape}", f"start={start} shape={(ln, nv)}")
                continue
            worst = 0.0
            mask_ok = True
            for k in range(nv):
                for i in range(ln):
                    worst = max(worst, abs(float(t[k][i]) - T[i, k]))
                    if (g[k][i] is None) != bool(np.isnan(G[i, k])):
                        mask_ok = False
                    elif g[k][i] is not None:
                        worst = max(worst, abs(float(g[k][i]) - G[i, k]))
            ctx.extra["max_rel_err_vs_exact_optimum"] = max(ctx.extra.get("max_rel_err_vs_exact_optimum", 0.0), worst / sc)
            if not mask_ok or worst > TOL * sc:
                ctx.disagree(stream, short, f"trend/gap (floats), scale {sc:.3g}", f"exact optimum differs by {worst:.3e}; gap mask equal: {mask_ok}")
        elif stream == "cert":
            ws = rep.split()
            if ws[0] != "ok":
                ctx.disagree(stream, short, "certificate", rep[:200])
                continue
            vals = [float(Fr(w)) for w in ws[1:]]
            sc, lam = want["scale"], want["lam"]
            bound_stat = 1e-7 * (16 * lam + 1) * sc
            bound_con = TOL * sc
            for k in range(want["nv"]):
                stat, con = vals[2 * k], vals[2 * k + 1]
                ctx.extra["max_stationarity_residual_rel"] = max(ctx.extra.get("max_stationarity_residual_rel", 0.0), stat / ((16 * lam + 1) * sc))
                if stat > bound_stat or con > bound_con:
                    ctx.disagree(stream, short, f"residual bounds {bound_stat:.3e} / {bound_con:.3e}", f"stationarity {stat:.3e}, constraints {con:.3e} (variant {k})")
        elif stream == "l1":
            ws = rep.split()
            if ws[0] != "ok":
                ctx.disagree(stream, short, "certificate", rep[:200])
                continue
            rangeErr, boxExcess, dualGap, tauErr, maxnu = (float(Fr(w)) for w in ws[1:6])
            sc, lam, n = want["scale"], want["lam"], want["n"]
            tol = 1e-7
            gap_bound = tol * (1.0 + want["sumsq"] + lam * n * sc)
            ctx.extra["max_l1_duality_gap_rel"] = max(ctx.extra.get("max_l1_duality_gap_rel", 0.0), dualGap / (1.0 + want["sumsq"] + lam * n * sc))
            if rangeErr > tol * sc or boxExcess > tol * max(lam, 1.0) or tauErr > tol * sc or dualGap > gap_bound:
                ctx.disagree(stream, short, f"dual certificate within {tol:g}",
                             f"rangeErr={rangeErr:.3e} boxExcess={boxExcess:.3e} dualGap={dualGap:.3e} tauErr={tauErr:.3e} max|nu|={maxnu:.4g}")


# ---------------------------------------------------------------------------------------
# entry points
# ---------------------------------------------------------------------------------------

def run_case(ctx: Ctx, case, rng, collect):
    if case["kind"] == "lonf":
        run_lonf_case(ctx, case, rng, collect)
        return True
    return run_hpf_case(ctx, case, rng, collect)


def corpus_cases():
    out = []
    for path in sorted(glob.glob(os.path.join(VERIF, "corpus", "C14", "*.json"))):
        try:
            payload = json.load(open(path))
        except Exception:
            continue
        c = payload.get("case")
        if isinstance(c, dict) and "kind" in c:
            out.append(c)
    return out


def generate(ctx: Ctx, n_hpf, n_line, n_lonf, collect):
    rng = ctx.rng.fork("hpf")
    done = rejected = 0
    attempts = 0
    while done < n_hpf and attempts < 6 * n_hpf:
        attempts += 1
        r = rng.fork(attempts)
        case = gen_hpf_case(r)
        if run_case(ctx, case, r, collect):
            done += 1
            ctx.sample(case, limit=3)
        else:
            rejected += 1
    ctx.count("hpf:rejected(cond>1e8 or dependent constraints)", rejected)
    rng = ctx.rng.fork("line")
    done = attempts = 0
    while done < n_line and attempts < 6 * n_line:
        attempts += 1
        r = rng.fork(attempts)
        case = gen_line_case(r)
        if run_case(ctx, case, r, collect):
            done += 1
            ctx.count("hpf:straight-line cases")
    rng = ctx.rng.fork("lonf")
    for i in range(n_lonf):
        r = rng.fork(i)
        case = gen_lonf_case(r)
        run_case(ctx, case, r, collect)
        if i < 2:
            ctx.sample(case, limit=6)


def history_check(ctx: Ctx):
    """output is a pure function of (data, lambda, constraints, span): the kept cases are run again after everything else of
    this run (hundreds of calls with other sizes and smoothing parameters), each preceded by the same call with another
    smoothing parameter; the result must be bitwise what it was the first time"""
    for kind, case, T0, G0 in ctx.extra.pop("_history", []):
        ctx.evaluations += 1
        try:
            if kind == "hpf":
                f = case["freq"]
                x, lev, chg = objects(case)
                span = tuple(case["span"]) if case.get("span") else None
                slo, shi, _, _ = ranges(case, x, lev, chg, span)
                other = dict(case, lam=(100 if str(case["lam"]) != "100" else 1600))
                call_hpf(other, x, lev, chg, span)
                t, g = call_hpf(case, x, lev, chg, span)
                T1, G1 = grid(t, f, slo, shi), grid(g, f, slo, shi)
            else:
                f, order = case["freq"], case["order"]
                x = make_series(f, case["dstart"], case["data"])
                span = tuple(case["span"]) if case.get("span") else None
                lo, hi = span if span else (x.start.serial, x.start.serial + x.data.shape[0] - 1)
                sp = ir.Span(P(f, lo), P(f, hi)) if span else None
                ir.lonf(x, order, lam_float(case["lam"]) * 2 + 1, span=sp)
                t, g = ir.lonf(x, order, lam_float(case["lam"]), span=sp)
                T1, G1 = grid(t, f, lo, hi), grid(g, f, lo, hi)
            same = T1.shape == T0.shape and np.array_equal(T1, T0, equal_nan=True) and np.array_equal(G1, G0, equal_nan=True)
        except Exception as e:
            ctx.fail(f"{kind}-history-dependent", case, "second run of the same call raises " + repr(e))
            continue
        if not same:
            ctx.fail(f"{kind}-history-dependent", case, "the same call gives a different result after other calls (other sizes / smoothing parameters) have been made")
        ctx.count(f"history:{kind} re-runs")


def malformed_cases(ctx: Ctx, collect):
    """requests the code rejects: an empty selection of periods (the model answers `err:bad`)"""
    if collect is None:
        return
    rng = ctx.rng.fork("malformed")
    for i in range(4):
        n = rng.randint(3, 9)
        case = {"kind": "hpf", "freq": "Q", "lam": 100, "log": False, "dstart": 8080 + i, "data": [[rng.randint(-9, 9) for _ in range(n)]],
                "level": None, "change": None, "span": None, "span_form": "span", "span_kind": "empty"}
        x, lev, chg = objects(case)
        try:
            ir.hpf(x, smooth=100.0, span=[] if i % 2 else ())
            got = "returned"
        except Exception as e:
            got = err_kind(e)
        words = req_words(case, x, lev, chg, None, False)
        collect.append(("malformed", "hpfq " + " ".join([words[0], "list", "0"] + words[3:]), got, case))
        ctx.evaluations += 1


def run(ctx: Ctx):
    ctx.rule = ("hpf: random integer series (n 3..40, 6 frequencies, 1-2 variants, interior and edge NaN), lambda in {1,100,1600,14400} "
                "(80%) or {1/2,25/4,10,400,129600}, 0-3 level and 0-3 change constraints inside/outside the data, spans none/inside/"
                "beyond/overlapping/single as Span, list or tuple, log=True on positive data (20%); kept only when the constraints are "
                "independent and the numpy-measured cond(F) <= 1e8 (rejections counted); plus fully observed straight lines with constraints "
                "on the line; lonf: orders 1,2, lambda in {1/2,1,3,5,20,100}, random/affine/piecewise-linear integer data, 1-2 variants, "
                "sub-spans. A hpf case is non-trivial when it has missing observations, a constraint or a requested span; a lonf variant "
                "when its trend has at least one kink and is not the data itself; distinct by (freq, lambda, n, #levels, #changes, "
                "#missing, span kind, log, variants) resp. (freq, order, lambda, n, #kinks)")
    collect = []
    for case in corpus_cases():
        run_case(ctx, case, ctx.rng.fork("corpus"), collect)
        ctx.count("corpus cases")
    generate(ctx, ctx.n(160, 2000), ctx.n(30, 300), ctx.n(80, 1000), collect)
    malformed_cases(ctx, collect)
    history_check(ctx)
    compare_with_model(ctx, collect)


def search(ctx: Ctx, seeds):
    """failing-input search on the real code when a tie broke: the oracles alone, disagreement cases first, bigger budget"""
    for s in seeds:
        c = s.get("case") if isinstance(s, dict) else None
        if isinstance(c, dict) and "kind" in c:
            try:
                run_case(ctx, c, ctx.rng.fork("seed"), None)
            except Exception:
                pass
    for case in corpus_cases():
        run_case(ctx, case, ctx.rng.fork("corpus"), None)
    generate(ctx, 700, 100, 300, None)


def replay(ctx: Ctx, payload):
    case = payload.get("case")
    if isinstance(case, dict) and "case" in case and "kind" not in case:
        case = case["case"]
    if not (isinstance(case, dict) and "kind" in case):
        for d in payload.get("disagreements", []):
            c = d.get("case", {})
            c = c.get("case", c)
            if isinstance(c, dict) and "kind" in c:
                collect = []
                run_case(ctx, c, ctx.rng.fork("replay"), collect)
                compare_with_model(ctx, collect)
        return
    collect = []
    run_case(ctx, case, ctx.rng.fork("replay"), collect)
    compare_with_model(ctx, collect)
