/-
The ownership invariant of the model/variant heap (C20): every variant object owns its two dicts -- the two are
distinct objects, allocated, and no other variant object points to either of them.  It holds in the empty heap and
is preserved by every operation of the language (`step_owned`), so it holds after any history.
-/
import IrisVerif.Lemmas.Heap

namespace IrisVerif.Heap

def Obj.isVar : Obj → Bool
  | .var _ _ _ => true
  | _ => false

structure Owned (h : Heap) : Prop where
  wf : h.WF
  lt : ∀ (v l c : Nat) (s : Option Nat), h.get v = some (.var l c s) → l < h.next ∧ c < h.next
  ne : ∀ (v l c : Nat) (s : Option Nat), h.get v = some (.var l c s) → l ≠ c
  sep : ∀ (v1 v2 l1 c1 : Nat) (s1 : Option Nat) (l2 c2 : Nat) (s2 : Option Nat), h.get v1 = some (.var l1 c1 s1) → h.get v2 = some (.var l2 c2 s2) → v1 ≠ v2 →
    l1 ≠ l2 ∧ l1 ≠ c2 ∧ c1 ≠ l2 ∧ c1 ≠ c2

theorem Owned.empty : Owned Heap.empty where
  wf := fun _ _ => rfl
  lt := by intro v l c s h; simp [Heap.empty] at h
  ne := by intro v l c s h; simp [Heap.empty] at h
  sep := by intro v1 v2 l1 c1 s1 l2 c2 s2 h; simp [Heap.empty] at h

theorem Heap.WF.set {h : Heap} (hw : h.WF) {x : Nat} {ox : Obj} (hx : h.get x = some ox) (o : Obj) : (h.set x o).WF := by
  intro r hr
  have : r ≠ x := by
    intro hh; subst hh; exact absurd (hw.lt_of_get hx) (Nat.not_lt.mpr hr)
  simp only [Heap.get_set, this, if_false]
  exact hw r hr

theorem Heap.WF.alloc {h : Heap} (hw : h.WF) (o : Obj) : (h.alloc o).2.WF := by
  intro r hr
  simp only [Heap.next_alloc] at hr
  have : r ≠ h.next := by omega
  simp only [Heap.get_alloc, this, if_false]
  exact hw r (by omega)

/-- a heap whose variant objects are (up to their solution field) variant objects of an owned heap is owned -/
theorem Owned.of_same_vars {h h' : Heap} (o : Owned h) (hw : h'.WF) (hn : h.next ≤ h'.next)
    (hv : ∀ v l c s, h'.get v = some (.var l c s) → ∃ s', h.get v = some (.var l c s')) : Owned h' := by
  refine ⟨hw, ?_, ?_, ?_⟩
  · intro v l c s hg
    obtain ⟨s', hg'⟩ := hv v l c s hg
    exact ⟨Nat.lt_of_lt_of_le (o.lt v l c s' hg').1 hn, Nat.lt_of_lt_of_le (o.lt v l c s' hg').2 hn⟩
  · intro v l c s hg
    obtain ⟨s', hg'⟩ := hv v l c s hg
    exact o.ne v l c s' hg'
  · intro v1 v2 l1 c1 s1 l2 c2 s2 h1 h2 hne
    obtain ⟨s1', h1'⟩ := hv v1 l1 c1 s1 h1
    obtain ⟨s2', h2'⟩ := hv v2 l2 c2 s2 h2
    exact o.sep v1 v2 l1 c1 s1' l2 c2 s2' h1' h2' hne

theorem Owned.set_nonvar {h : Heap} (o : Owned h) {x : Nat} {ox : Obj} (hx : h.get x = some ox)
    (h1 : ox.isVar = false) {o' : Obj} (h2 : o'.isVar = false) : Owned (h.set x o') := by
  apply o.of_same_vars (o.wf.set hx o') (Nat.le_refl _)
  intro v l c s hg
  simp only [Heap.get_set] at hg
  by_cases hvx : v = x
  · simp only [hvx, if_true, Option.some.injEq] at hg
    subst hg
    simp [Obj.isVar] at h2
  · simp only [hvx, if_false] at hg
    exact ⟨s, hg⟩

theorem Owned.alloc_nonvar {h : Heap} (o : Owned h) {o' : Obj} (h2 : o'.isVar = false) : Owned (h.alloc o').2 := by
  apply o.of_same_vars (o.wf.alloc o') (by simp)
  intro v l c s hg
  simp only [Heap.get_alloc] at hg
  by_cases hvx : v = h.next
  · simp only [hvx, if_true, Option.some.injEq] at hg
    subst hg
    simp [Obj.isVar] at h2
  · simp only [hvx, if_false] at hg
    exact ⟨s, hg⟩

theorem Owned.set_var {h : Heap} (o : Owned h) {v l c : Nat} {s : Option Nat} (hx : h.get v = some (.var l c s))
    (s' : Option Nat) : Owned (h.set v (.var l c s')) := by
  apply o.of_same_vars (o.wf.set hx _) (Nat.le_refl _)
  intro x l' c' s'' hg
  simp only [Heap.get_set] at hg
  by_cases hvx : x = v
  · simp only [hvx, if_true, Option.some.injEq, Obj.var.injEq] at hg
    obtain ⟨rfl, rfl, _⟩ := hg
    exact ⟨s, by rw [hvx]; exact hx⟩
  · simp only [hvx, if_false] at hg
    exact ⟨s'', hg⟩

/-- a new variant object with two distinct allocated dicts that no variant object points to -/
theorem Owned.alloc_var {h : Heap} (o : Owned h) {a b : Nat} (s : Option Nat) (hab : a ≠ b)
    (ha : a < h.next) (hb : b < h.next)
    (hfresh : ∀ (v l c : Nat) (s' : Option Nat), h.get v = some (.var l c s') → l ≠ a ∧ l ≠ b ∧ c ≠ a ∧ c ≠ b) :
    Owned (h.alloc (.var a b s)).2 := by
  have key : ∀ (v l c : Nat) (s' : Option Nat), (h.alloc (.var a b s)).2.get v = some (.var l c s') →
      (v = h.next ∧ l = a ∧ c = b) ∨ (v ≠ h.next ∧ h.get v = some (.var l c s')) := by
    intro v l c s' hg
    simp only [Heap.get_alloc] at hg
    by_cases hvx : v = h.next
    · simp only [hvx, if_true, Option.some.injEq, Obj.var.injEq] at hg
      exact Or.inl ⟨hvx, hg.1.symm, hg.2.1.symm⟩
    · simp only [hvx, if_false] at hg
      exact Or.inr ⟨hvx, hg⟩
  refine ⟨o.wf.alloc _, ?_, ?_, ?_⟩
  · intro v l c s' hg
    simp only [Heap.next_alloc]
    rcases key v l c s' hg with ⟨_, rfl, rfl⟩ | ⟨_, hg'⟩
    · exact ⟨by omega, by omega⟩
    · have := o.lt v l c s' hg'
      exact ⟨by omega, by omega⟩
  · intro v l c s' hg
    rcases key v l c s' hg with ⟨_, rfl, rfl⟩ | ⟨_, hg'⟩
    · exact hab
    · exact o.ne v l c s' hg'
  · intro v1 v2 l1 c1 s1 l2 c2 s2 h1 h2 hne
    rcases key v1 l1 c1 s1 h1 with ⟨e1, rfl, rfl⟩ | ⟨n1, g1⟩
    · rcases key v2 l2 c2 s2 h2 with ⟨e2, _, _⟩ | ⟨_, g2⟩
      · exact absurd (e1.trans e2.symm) hne
      · obtain ⟨f1, f2, f3, f4⟩ := hfresh v2 l2 c2 s2 g2
        exact ⟨Ne.symm f1, Ne.symm f3, Ne.symm f2, Ne.symm f4⟩
    · rcases key v2 l2 c2 s2 h2 with ⟨_, rfl, rfl⟩ | ⟨_, g2⟩
      · obtain ⟨f1, f2, f3, f4⟩ := hfresh v1 l1 c1 s1 g1
        exact ⟨f1, f2, f3, f4⟩
      · exact o.sep v1 v2 l1 c1 s1 l2 c2 s2 g1 g2 hne

/-! ### the operations preserve ownership -/

theorem setDicts_owned {h : Heap} (o : Owned h) {v l c : Nat} {s : Option Nat} {lv cv : List Val}
    (hv : getVar h v = .ok (l, c, s, lv, cv)) (a b : List Val) : Owned ((h.set l (.dict a)).set c (.dict b)) := by
  obtain ⟨_, hl, hc⟩ := getVar_ok hv
  have o1 := o.set_nonvar hl (by simp [Obj.isVar]) (o' := .dict a) (by simp [Obj.isVar])
  obtain ⟨oc, hoc⟩ := Heap.get_set_some h l (.dict a) hc
  have hoc' : oc.isVar = false := by
    simp only [Heap.get_set] at hoc
    by_cases hcl : c = l
    · simp only [hcl, if_true, Option.some.injEq] at hoc; subst hoc; simp [Obj.isVar]
    · simp only [hcl, if_false, hc, Option.some.injEq] at hoc; subst hoc; simp [Obj.isVar]
  exact o1.set_nonvar hoc hoc' (by simp [Obj.isVar])

theorem assignVariant_owned {h h' : Heap} (o : Owned h) {d : InvData} {q : Option Nat} {va : Nat × AVal}
    (hr : assignVariant d q h va = .ok h') : Owned h' := by
  unfold assignVariant at hr
  split at hr
  · rename_i l c s lv cv hgv
    simp only [Except.ok.injEq] at hr
    subst hr
    exact setDicts_owned o hgv _ _
  · cases hr

theorem updVariant_owned {h h' : Heap} (o : Owned h) {G : InvData → List Val → List Val → List Val × List Val}
    {d : InvData} {v : Nat} (hr : updVariant G d h v = .ok h') : Owned h' := by
  unfold updVariant at hr
  split at hr
  · rename_i l c s lv cv hgv
    simp only [Except.ok.injEq] at hr
    subst hr
    exact setDicts_owned o hgv _ _
  · cases hr

theorem solveVariant_owned {h h' : Heap} (o : Owned h) {F : InvData → List Val → List Val → Sol}
    {d : InvData} {v : Nat} (hr : solveVariant F d h v = .ok h') : Owned h' := by
  unfold solveVariant at hr
  split at hr
  · rename_i l c s lv cv hgv
    obtain ⟨hg, _, _⟩ := getVar_ok hgv
    simp only [Except.ok.injEq] at hr
    subst hr
    have o1 := o.alloc_nonvar (o' := .sol (F d lv cv)) (by simp [Obj.isVar])
    have hg' : (h.alloc (.sol (F d lv cv))).2.get v = some (.var l c s) := by
      simp [Nat.ne_of_lt (o.wf.lt_of_get hg), hg]
    exact o1.set_var hg' _
  · cases hr

theorem copyVariant_owned {h h' : Heap} (o : Owned h) {v v' : Nat} (hr : copyVariant h v = .ok (v', h')) :
    Owned h' := by
  unfold copyVariant at hr
  split at hr
  · rename_i l c s lv cv hgv
    have o1 := o.alloc_nonvar (o' := .dict lv) (by simp [Obj.isVar])
    have o2 := o1.alloc_nonvar (o' := .dict cv) (by simp [Obj.isVar])
    -- variant objects of the heap after the two (three) allocations are variant objects of `h`: their dicts are old
    have old2 : ∀ (x l' c' : Nat) (s' : Option Nat), ((h.alloc (.dict lv)).2.alloc (.dict cv)).2.get x = some (.var l' c' s') →
        l' < h.next ∧ c' < h.next := by
      intro x l' c' s' hg
      simp only [Heap.get_alloc, Heap.next_alloc] at hg
      by_cases h1 : x = h.next + 1
      · simp [h1] at hg
      · by_cases h2 : x = h.next
        · simp [h1, h2] at hg
        · simp only [h1, h2, if_false] at hg
          exact o.lt x l' c' s' hg
    split at hr
    · simp only [Except.ok.injEq, Prod.mk.injEq] at hr
      obtain ⟨_, rfl⟩ := hr
      apply o2.alloc_var none (by simp) (by simp only [Heap.fst_alloc, Heap.next_alloc]; omega) (by simp only [Heap.fst_alloc, Heap.next_alloc]; omega)
      intro x l' c' s' hg
      have := old2 x l' c' s' hg
      simp only [Heap.fst_alloc, Heap.next_alloc]
      omega
    · rename_i sr
      split at hr
      · rename_i sd hsd
        simp only [Except.ok.injEq, Prod.mk.injEq] at hr
        obtain ⟨_, rfl⟩ := hr
        have o3 := o2.alloc_nonvar (o' := .sol sd) (by simp [Obj.isVar])
        apply o3.alloc_var _ (by simp) (by simp only [Heap.fst_alloc, Heap.next_alloc]; omega) (by simp only [Heap.fst_alloc, Heap.next_alloc]; omega)
        intro x l' c' s' hg
        have hg2 : ((h.alloc (.dict lv)).2.alloc (.dict cv)).2.get x = some (.var l' c' s') := by
          simp only [Heap.get_alloc, Heap.next_alloc] at hg ⊢
          by_cases h3 : x = h.next + 1 + 1
          · simp [h3] at hg
          · simpa [h3] using hg
        have := old2 x l' c' s' hg2
        simp only [Heap.fst_alloc, Heap.next_alloc]
        omega
      · cases hr
  · cases hr

theorem forEach_inv {β : Type} {f : Heap → β → R Heap} (P : Heap → Prop)
    (hf : ∀ h x h', P h → f h x = .ok h' → P h') :
    ∀ (xs : List β) (h h' : Heap), P h → forEach f h xs = .ok h' → P h' := by
  intro xs
  induction xs with
  | nil =>
    intro h h' hp hr
    simp only [forEach, Except.ok.injEq] at hr
    subst hr
    exact hp
  | cons x xs ih =>
    intro h h' hp hr
    simp only [forEach] at hr
    split at hr
    · rename_i h1 hfx
      exact ih h1 h' (hf h x h1 hp hfx) hr
    · cases hr

theorem copyVars_owned : ∀ (vs : List Nat) (h h' : Heap) (vs' : List Nat), Owned h →
    copyVars h vs = .ok (vs', h') → Owned h' := by
  intro vs
  induction vs with
  | nil =>
    intro h h' vs' o hr
    simp only [copyVars, Except.ok.injEq, Prod.mk.injEq] at hr
    obtain ⟨_, rfl⟩ := hr
    exact o
  | cons v vs ih =>
    intro h h' vs' o hr
    simp only [copyVars] at hr
    split at hr
    · rename_i v1 h1 hcv
      split at hr
      · rename_i rest h2 hrest
        simp only [Except.ok.injEq, Prod.mk.injEq] at hr
        obtain ⟨_, rfl⟩ := hr
        exact ih h1 h2 rest (copyVariant_owned o hcv) hrest
      · cases hr
    · cases hr

theorem pickleVars_owned : ∀ (vs : List Nat) (h h' : Heap) (memo : List (Nat × Nat)) (vs' : List Nat), Owned h →
    pickleVars h memo vs = .ok (vs', h') → Owned h' := by
  intro vs
  induction vs with
  | nil =>
    intro h h' memo vs' o hr
    simp only [pickleVars, Except.ok.injEq, Prod.mk.injEq] at hr
    obtain ⟨_, rfl⟩ := hr
    exact o
  | cons v vs ih =>
    intro h h' memo vs' o hr
    simp only [pickleVars] at hr
    split at hr
    · split at hr
      · rename_i rest h2 hrest
        simp only [Except.ok.injEq, Prod.mk.injEq] at hr
        obtain ⟨_, rfl⟩ := hr
        exact ih h h2 memo rest o hrest
      · cases hr
    · split at hr
      · rename_i v1 h1 hcv
        split at hr
        · rename_i rest h2 hrest
          simp only [Except.ok.injEq, Prod.mk.injEq] at hr
          obtain ⟨_, rfl⟩ := hr
          exact ih h1 h2 _ rest (copyVariant_owned o hcv) hrest
        · cases hr
      · cases hr

theorem expandVars_owned : ∀ (k : Nat) (vs : List Nat) (h h' : Heap) (vs' : List Nat), Owned h →
    expandVars h vs k = .ok (vs', h') → Owned h' ∧ (∀ r o, h.get r = some o → h'.get r = some o) := by
  intro k
  induction k with
  | zero =>
    intro vs h h' vs' o hr
    simp only [expandVars, Except.ok.injEq, Prod.mk.injEq] at hr
    obtain ⟨_, rfl⟩ := hr
    exact ⟨o, fun _ _ hg => hg⟩
  | succ k ih =>
    intro vs h h' vs' o hr
    simp only [expandVars] at hr
    split at hr
    · cases hr
    · split at hr
      · rename_i v1 h1 hcv
        obtain ⟨_, _, _, _, fr⟩ := copyVariant_ext (Ext.triv o.wf) hcv
        obtain ⟨o2, keep⟩ := ih _ h1 h' vs' (copyVariant_owned o hcv) hr
        exact ⟨o2, fun r ob hg => keep r ob (by rw [fr r (o.wf.lt_of_get hg)]; exact hg)⟩
      · cases hr

/-- INVARIANT OF THE OPERATION SEMANTICS: every operation of the language preserves ownership -/
theorem step_owned (fs : Funs) {h h' : Heap} (o : Owned h) (op : Op) {r : Option Nat}
    (hr : step fs h op = .ok (r, h')) : Owned h' := by
  cases op with
  | assign m name vals =>
    simp only [step] at hr
    cases hop : assign h m name vals with
    | error err => simp [hop, Except.map] at hr
    | ok h1 =>
      simp only [hop, Except.map, Except.ok.injEq, Prod.mk.injEq] at hr
      obtain ⟨_, rfl⟩ := hr
      unfold assign at hop
      split at hop
      · exact forEach_inv Owned (fun _ _ _ oo hf => assignVariant_owned oo hf) _ h h1 o hop
      · cases hop
  | solve m =>
    simp only [step] at hr
    cases hop : solve fs.F h m with
    | error err => simp [hop, Except.map] at hr
    | ok h1 =>
      simp only [hop, Except.map, Except.ok.injEq, Prod.mk.injEq] at hr
      obtain ⟨_, rfl⟩ := hr
      unfold solve at hop
      split at hop
      · exact forEach_inv Owned (fun _ _ _ oo hf => solveVariant_owned oo hf) _ h h1 o hop
      · cases hop
  | steady m =>
    simp only [step] at hr
    cases hop : steady fs.G fs.A h m with
    | error err => simp [hop, Except.map] at hr
    | ok h1 =>
      simp only [hop, Except.map, Except.ok.injEq, Prod.mk.injEq] at hr
      obtain ⟨_, rfl⟩ := hr
      unfold steady at hop
      split at hop
      · split at hop
        · rename_i hmid hfirst
          have o1 := forEach_inv Owned (fun _ _ _ oo hf => updVariant_owned oo hf) _ h hmid o hfirst
          exact forEach_inv Owned (fun _ _ _ oo hf => updVariant_owned oo hf) _ hmid h1 o1 hop
        · cases hop
      · cases hop
  | alter m n =>
    simp only [step] at hr
    cases hop : alter h m n with
    | error err => simp [hop, Except.map] at hr
    | ok h1 =>
      simp only [hop, Except.map, Except.ok.injEq, Prod.mk.injEq] at hr
      obtain ⟨_, rfl⟩ := hr
      unfold alter at hop
      split at hop
      · rename_i i vs d hm
        obtain ⟨hgm, _⟩ := getModel_ok hm
        split at hop
        · split at hop
          · cases hop
          · simp only [Except.ok.injEq] at hop
            subst hop
            exact o.set_nonvar hgm (by simp [Obj.isVar]) (by simp [Obj.isVar])
        · split at hop
          · split at hop
            · rename_i vs' hx hexp
              simp only [Except.ok.injEq] at hop
              subst hop
              obtain ⟨o1, keep⟩ := expandVars_owned _ vs h hx vs' o hexp
              exact o1.set_nonvar (keep m _ hgm) (by simp [Obj.isVar]) (by simp [Obj.isVar])
            · cases hop
          · simp only [Except.ok.injEq] at hop
            subst hop
            exact o
      · cases hop
  | setDesc m s =>
    simp only [step] at hr
    cases hop : setDesc h m s with
    | error err => simp [hop, Except.map] at hr
    | ok h1 =>
      simp only [hop, Except.map, Except.ok.injEq, Prod.mk.injEq] at hr
      obtain ⟨_, rfl⟩ := hr
      unfold setDesc at hop
      split at hop
      · rename_i i vs d hm
        obtain ⟨_, hgi⟩ := getModel_ok hm
        simp only [Except.ok.injEq] at hop
        subst hop
        exact o.set_nonvar hgi (by simp [Obj.isVar]) (by simp [Obj.isVar])
      · cases hop
  | setTol m eig x =>
    simp only [step] at hr
    cases hop : setTol h m eig x with
    | error err => simp [hop, Except.map] at hr
    | ok h1 =>
      simp only [hop, Except.map, Except.ok.injEq, Prod.mk.injEq] at hr
      obtain ⟨_, rfl⟩ := hr
      unfold setTol at hop
      split at hop
      · rename_i i vs d hm
        obtain ⟨_, hgi⟩ := getModel_ok hm
        simp only [Except.ok.injEq] at hop
        subst hop
        exact o.set_nonvar hgi (by simp [Obj.isVar]) (by simp [Obj.isVar])
      · cases hop
  | copy m =>
    simp only [step] at hr
    cases hop : copy h m with
    | error err => simp [hop, Except.map] at hr
    | ok p =>
      simp only [hop, Except.map, Except.ok.injEq, Prod.mk.injEq] at hr
      obtain ⟨_, rfl⟩ := hr
      unfold copy at hop
      split at hop
      · rename_i i vs d hm
        dsimp only at hop
        split at hop
        · rename_i vs' h2 hcv
          simp only [Except.ok.injEq] at hop
          subst hop
          have o1 := o.alloc_nonvar (o' := .inv d) (by simp [Obj.isVar])
          exact (copyVars_owned vs _ h2 vs' o1 hcv).alloc_nonvar (by simp [Obj.isVar])
        · cases hop
      · cases hop
  | pickle m =>
    simp only [step] at hr
    cases hop : pickle h m with
    | error err => simp [hop, Except.map] at hr
    | ok p =>
      simp only [hop, Except.map, Except.ok.injEq, Prod.mk.injEq] at hr
      obtain ⟨_, rfl⟩ := hr
      unfold pickle at hop
      split at hop
      · rename_i i vs d hm
        dsimp only at hop
        split at hop
        · rename_i vs' h2 hcv
          simp only [Except.ok.injEq] at hop
          subst hop
          have o1 := o.alloc_nonvar (o' := .inv d) (by simp [Obj.isVar])
          exact (pickleVars_owned vs _ h2 [] vs' o1 hcv).alloc_nonvar (by simp [Obj.isVar])
        · cases hop
      · cases hop
  | view m ix =>
    simp only [step] at hr
    cases hop : view h m ix with
    | error err => simp [hop, Except.map] at hr
    | ok p =>
      simp only [hop, Except.map, Except.ok.injEq, Prod.mk.injEq] at hr
      obtain ⟨_, rfl⟩ := hr
      unfold view at hop
      split at hop
      · split at hop
        · simp only [Except.ok.injEq] at hop
          subst hop
          exact o.alloc_nonvar (by simp [Obj.isVar])
        · cases hop
      · cases hop
  | mutInv m f =>
    simp only [step] at hr
    cases hop : mutInv h m f with
    | error err => simp [hop, Except.map] at hr
    | ok h1 =>
      simp only [hop, Except.map, Except.ok.injEq, Prod.mk.injEq] at hr
      obtain ⟨_, rfl⟩ := hr
      unfold mutInv at hop
      split at hop
      · rename_i i vs d hm
        obtain ⟨_, hgi⟩ := getModel_ok hm
        simp only [Except.ok.injEq] at hop
        subst hop
        exact o.set_nonvar hgi (by simp [Obj.isVar]) (by simp [Obj.isVar])
      · cases hop

/-- a freshly built model is owned -/
theorem newModel_owned {h : Heap} (o : Owned h) (d : InvData) : Owned (newModel h d).2 := by
  unfold newModel
  have o1 := o.alloc_nonvar (o' := .inv d) (by simp [Obj.isVar])
  have o2 := o1.alloc_nonvar (o' := .dict (enforceLevels d.quantities (initLevels d))) (by simp [Obj.isVar])
  have o3 := o2.alloc_nonvar (o' := .dict (enforceChanges d.quantities (initChanges d))) (by simp [Obj.isVar])
  have o4 : Owned ((((h.alloc (.inv d)).2.alloc (.dict (enforceLevels d.quantities (initLevels d)))).2.alloc
      (.dict (enforceChanges d.quantities (initChanges d)))).2.alloc (.var (h.next + 1) (h.next + 1 + 1) none)).2 := by
    apply o3.alloc_var none (by omega) (by simp only [Heap.next_alloc]; omega) (by simp only [Heap.next_alloc]; omega)
    intro x l' c' s' hg
    simp only [Heap.get_alloc, Heap.next_alloc] at hg
    have e1 : h.next ≠ h.next + 1 + 1 := by omega
    have e2 : h.next ≠ h.next + 1 := by omega
    have e3 : h.next + 1 ≠ h.next + 1 + 1 := by omega
    by_cases h3 : x = h.next + 1 + 1
    · subst h3; simp at hg
    · by_cases h2 : x = h.next + 1
      · subst h2; simp [e3] at hg
      · by_cases h1 : x = h.next
        · subst h1; simp [e1, e2] at hg
        · simp only [h3, h2, h1, if_false] at hg
          have := o.lt x l' c' s' hg
          omega
  exact o4.alloc_nonvar (by simp [Obj.isVar])

end IrisVerif.Heap
