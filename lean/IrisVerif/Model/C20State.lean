/-
More object state of C20 (no Mathlib):

* `Flags.from_kwargs` / `Flags.update_from_kwargs` / `to_portable` / `from_portable` of `simultaneous/_flags.py` as total
  functions on the keyword dictionary (each key absent, `False` or `True`);
* the per-Solution memo of forward-expansion matrices (`fords/solutions.py: _get_solution_expansion`, `square_expansion` /
  `triangular_expansion`) as a state machine over an original, its copies and re-solved objects; a memo entry is a stamp
  `(version, k)` standing for `-X J^k Ru` of solution `version`;
* the import of a variant from a portable that went through JSON (`(level, change)` tuples have become lists);
* the substitution `shock -> (shock+ant_shock)` of `_introduce_anticipated_shocks_for_transition_shocks` on token lists.
-/
import IrisVerif.Model.Portable

namespace IrisVerif.C20State
open IrisVerif.Heap IrisVerif.Portable

/-! ### flags -/

/-- the keyword dictionary seen by `from_kwargs`: plain spellings and the `is_` aliases of the portable; `none` = absent
(or `None`), `some b` = given -/
structure FlagKw where
  linear : Option Bool := none
  isLinear : Option Bool := none
  flat : Option Bool := none
  isFlat : Option Bool := none
  deterministic : Option Bool := none
  isDeterministic : Option Bool := none
  deriving DecidableEq, Repr

/-- `kwargs.get(a) or kwargs.get(b)` -/
def truthy (a b : Option Bool) : Bool := a == some true || b == some true

/-- `Flags.from_kwargs` -/
def fromKwargs (k : FlagKw) : Flags :=
  ⟨truthy k.linear k.isLinear, truthy k.flat k.isFlat, truthy k.deterministic k.isDeterministic⟩

/-- `Flags.update_from_kwargs`: only the plain spellings are looked at; an explicit value wins, `None` keeps the model's -/
def updateFromKwargs (f : Flags) (k : FlagKw) : Flags :=
  fromKwargs { linear := some (k.linear.getD f.linear), flat := some (k.flat.getD f.flat),
               deterministic := some (k.deterministic.getD f.deterministic) }

/-- `Flags.to_portable` -/
def flagsToPortable (f : Flags) : FlagKw :=
  { isLinear := some f.linear, isFlat := some f.flat, isDeterministic := some f.deterministic }

/-- `Flags.from_portable` -/
def flagsFromPortable (k : FlagKw) : Flags := fromKwargs k

/-! ### the expansion memo of a solution object -/

/-- a memo entry: stamp `(version, k)` = the matrix `-X J^k Ru` of solution number `version` -/
abbrev Stamp := Nat × Nat

structure SolObj where
  version : Nat
  memo : List Stamp
  deriving DecidableEq, Repr

/-- what a solution object with an EMPTY memo answers to `expand(forward)` -/
def freshAnswer (version forward : Nat) : List Stamp := (List.range forward).map (fun k => (version, k))

/-- `_get_solution_expansion`: extend the memo from its current length up to `forward`, answer its first `forward` entries -/
def expand (s : SolObj) (forward : Nat) : SolObj × List Stamp :=
  let memo' := s.memo ++ (List.range' s.memo.length (forward - s.memo.length)).map (fun k => (s.version, k))
  ({ s with memo := memo' }, memo'.take forward)

/-- the memo invariant: entry `k` carries stamp `k` of the object's own solution version -/
def MemoInv (s : SolObj) : Prop := s.memo = freshAnswer s.version s.memo.length

inductive MOp
  | expand (i : Nat) (forward : Nat)     -- simulate with an anticipated shock at that horizon on object `i`
  | copy (i : Nat)                       -- copy / pickle / deepcopy: the memo travels with the copy
  | resolve (i : Nat) (version : Nat)    -- assign + solve: a NEW solution object (new version, empty memo)
  deriving Repr

/-- one step over the list of live solution objects; the answer of an `expand` -/
def mstep (objs : List SolObj) : MOp → List SolObj × Option (List Stamp)
  | .expand i f =>
    match objs[i]? with
    | some s => (objs.set i (expand s f).1, some (expand s f).2)
    | none => (objs, none)
  | .copy i =>
    match objs[i]? with
    | some s => (objs ++ [s], none)
    | none => (objs, none)
  | .resolve i v =>
    match objs[i]? with
    | some _ => (objs.set i ⟨v, []⟩, none)
    | none => (objs, none)

/-- run a history, collecting `(object, horizon, answer, version at that time)` of every `expand` -/
def mrun : List SolObj → List MOp → List (Nat × Nat × List Stamp × Nat)
  | _, [] => []
  | objs, op :: rest =>
    match op, (mstep objs op).2 with
    | .expand i f, some a => (i, f, a, ((objs[i]?).map (·.version)).getD 0) :: mrun (mstep objs op).1 rest
    | _, _ => mrun (mstep objs op).1 rest

/-! ### a variant imported from a portable that went through JSON -/

/-- `assign_strict({name: [level, change]})` on the single-variant view: the list is read as PER-VARIANT values, its first
item is the level; the change is left alone -/
def importVariantJson (d : InvData) (dict : List (String × Val × Val)) : List Val × List Val :=
  let pairs := decodeVariant (d.quantities.map (·.name)) dict
  (enforceLevels d.quantities (List.zipWith pickFst (initLevels d) pairs),
   enforceChanges d.quantities (initChanges d))

/-! ### the anticipated-shock substitution on tokens -/

/-- an equation as a list of tokens (names, operators, brackets ...); `\b(name)\b -> (name+ant_name)` for every name in
`missing` -/
def substTokens (missing : List String) (toks : List String) : List String :=
  toks.flatMap (fun t => if missing.contains t then ["(", t, "+", "ant_" ++ t, ")"] else [t])

end IrisVerif.C20State
