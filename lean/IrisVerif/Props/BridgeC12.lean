/-
Bridge for property C12 (arip): the bordered system that the executable model `Conv.aripSystem` builds with `QMat`
operations is, seen through `QMat.toMat`, the saddle-point matrix `fromBlocks (KᵀK) Aᵀ A 0` of
`C12.arip_solution_is_constrained_minimiser` / `AripMin.bordered_split`, with `K = AripMin.arK` (entry by entry) and
the right-hand side `(Kᵀc, b)`.  Hence what `Conv.aripSolve` returns (the exact, re-checked solution of that system)
satisfies every constraint row exactly and minimises the documented criterion among all sequences that satisfy them.
-/
import IrisVerif.Lemmas.QMatRefines
import IrisVerif.Props.C12

open Matrix

namespace IrisVerif.BridgeC12

open IrisVerif IrisVerif.QMat IrisVerif.Conv IrisVerif.AripMin

/-! ## what `aripSystem` / `aripSolve` return (by unfolding) -/

/-- the pieces of the repaired (`kkt = true`) system -/
theorem aripSystem_ok (a : AripIn) (F C : QMat) (h : aripSystem a true = .ok (F, C)) :
    a.nHigh ≠ 0 ∧ a.sigma.length = a.nHigh ∧ a.target.length = a.nHigh ∧
    F = QMat.vstack
          (QMat.hstack ((aripK a.nHigh a.rho a.sigma).transpose * aripK a.nHigh a.rho a.sigma)
            (aripConstraintRows a).1.transpose)
          (QMat.hstack (aripConstraintRows a).1
            (QMat.zero (aripConstraintRows a).1.rows (aripConstraintRows a).1.rows)) ∧
    C = QMat.vstack ((aripK a.nHigh a.rho a.sigma).transpose * aripKc a.nHigh a.const a.sigma)
          (aripConstraintRows a).2 := by
  unfold aripSystem at h
  simp only [bind, Except.bind, pure, Except.pure] at h
  split at h
  · simp [throw, throwThe, MonadExceptOf.throw] at h
  · rename_i hc
    simp only [not_or, Decidable.not_not] at hc
    injection h with h
    simp only [if_true, Prod.mk.injEq] at h
    exact ⟨hc.2.2.2.2, hc.2.2.2.1, hc.2.2.1, h.1.symm, h.2.symm⟩

theorem aripSolve_ok (a : AripIn) (xs : List Rat) (h : aripSolve a true = .ok xs) :
    ∃ F C z, aripSystem a true = .ok (F, C) ∧ QMat.solveChecked F C = some z ∧
      xs = (List.range a.nHigh).map (fun i => z.get i 0) := by
  unfold aripSolve at h
  simp only [bind, Except.bind] at h
  split at h
  · cases h
  · rename_i FC hFC
    obtain ⟨F, C⟩ := FC
    simp only at h
    split at h
    · simp [throw, throwThe, MonadExceptOf.throw] at h
    · rename_i z hz
      simp only [pure, Except.pure, Except.ok.injEq] at h
      exact ⟨F, C, z, hFC, hz, h.symm⟩

/-! ## the views -/

theorem constraintRows_rows (a : AripIn) :
    (aripConstraintRows a).1.rows = (finiteIdx a.lowEffective).length + (finiteIdx a.target).length := rfl
theorem constraintRows_cols (a : AripIn) : (aripConstraintRows a).1.cols = a.nHigh := rfl

/-- the model's `K` is `AripMin.arK`, entry by entry -/
theorem aripK_view (N : Nat) (rho : Rat) (sigma : List Rat) :
    (aripK (N + 1) rho sigma).toMat N (N + 1) = arK N rho (fun i : Fin (N + 1) => sigma.getD i 0) := by
  ext i j
  unfold aripK arK
  rw [toMat_apply, get_ofFn_of_lt _ _ _ _ _ (by have := i.isLt; omega) j.isLt]
  simp only [Fin.ext_iff, Fin.val_succ, Fin.val_castSucc]

theorem aripKc_view (N : Nat) (const : Rat) (sigma : List Rat) :
    (fun i : Fin N => (aripKc (N + 1) const sigma).get i 0) = arC N const (fun i : Fin (N + 1) => sigma.getD i 0) := by
  funext i
  unfold aripKc arC
  rw [get_ofFn_of_lt _ _ _ _ _ (by have := i.isLt; omega) (by omega)]
  simp only [Fin.val_succ]

/-! ## the bridge -/

/-- **`aripSolve` returns the constrained minimiser.**  If the executable model returns `xs` for an input with
`N + 1` high-frequency periods, then `x = xs` satisfies every row of the model's constraint matrix exactly
(`A x = b`: one aggregation row per effective low-frequency observation, one unit row per target) and minimises the
documented criterion `Σ_t ((x_{t+1} − ρ x_t − c)/σ_{t+1})²` among all `x'` with `A x' = b`. -/
theorem aripSolve_is_constrained_minimiser (a : AripIn) (N : Nat) (hN : a.nHigh = N + 1) (xs : List Rat)
    (h : aripSolve a true = .ok xs) :
    let m := (aripConstraintRows a).1.rows
    let A : Matrix (Fin m) (Fin (N + 1)) ℚ := (aripConstraintRows a).1.toMat m (N + 1)
    let b : Fin m → ℚ := fun i => (aripConstraintRows a).2.get i 0
    let x : Fin (N + 1) → ℚ := fun i => xs.getD i 0
    let sigma : Fin (N + 1) → ℚ := fun i => a.sigma.getD i 0
    A *ᵥ x = b ∧
    ∀ x' : Fin (N + 1) → ℚ, A *ᵥ x' = b → criterion N a.rho a.const sigma x ≤ criterion N a.rho a.const sigma x' := by
  intro m A b x sigma
  obtain ⟨F, C, z, hsys, hz, hxs⟩ := aripSolve_ok a xs h
  obtain ⟨_, _, _, hF, hC⟩ := aripSystem_ok a F C hsys
  rw [hN] at hF hC
  obtain ⟨_, _, _, _, _, hFz⟩ := solveChecked_sound F C z hz
  -- dimensions
  set Kq := aripK (N + 1) a.rho a.sigma with hKq
  set Aq := (aripConstraintRows a).1 with hAq
  have hKr : Kq.rows = N := rfl
  have hKc : Kq.cols = N + 1 := rfl
  have hAr : Aq.rows = m := rfl
  have hAc : Aq.cols = N + 1 := hN
  have hFr : F.rows = (N + 1) + m := by rw [hF]; rfl
  have hCc : C.cols = 1 := by rw [hC]; rfl
  rw [hFr, hCc] at hFz
  -- the views of `F` and `C`
  have hFv : F.toMat ((N + 1) + m) ((N + 1) + m) =
      (Matrix.fromBlocks ((Kq.toMat N (N + 1))ᵀ * Kq.toMat N (N + 1)) (A)ᵀ A 0).submatrix
        finSumFinEquiv.symm finSumFinEquiv.symm := by
    rw [hF, toMat_vstack_hstack _ _ _ _ (N + 1) m (N + 1) m rfl rfl hAr hAr hAc rfl,
      toMat_mul _ _ (N + 1) N (N + 1) rfl rfl hKc, toMat_transpose Kq N (N + 1) hKr hKc,
      toMat_transpose Aq m (N + 1) hAr hAc, toMat_zero]
  have hsysV := mulVec_of_mul_col _ z C hFz
  rw [hFv, Matrix.submatrix_mulVec_equiv] at hsysV
  -- split the unknown and the right-hand side along `Fin (N+1) ⊕ Fin m`
  set lam : Fin m → ℚ := fun i => z.get ((N + 1) + i) 0 with hlam
  have hxz : ∀ i : Fin (N + 1), x i = z.get i 0 := by
    intro i
    show xs.getD i 0 = _
    rw [hxs, hN]
    simp [List.getD_eq_getElem?_getD, i.isLt]
  have hv : ((fun i : Fin ((N + 1) + m) => z.get i 0) ∘ (finSumFinEquiv.symm).symm) = Sum.elim x lam := by
    funext k
    rcases k with k | k
    · simp [hxz]
    · simp [hlam]
  have hg : (fun i : Fin (N + 1) => C.get i 0) = (Kq.toMat N (N + 1))ᵀ *ᵥ (fun i : Fin N => (aripKc (N + 1) a.const a.sigma).get i 0) := by
    funext i
    rw [hC, get_vstack, if_pos ⟨by show (i : Nat) < (N + 1) + _; omega, by show 0 < 1; omega⟩,
      if_pos (by show (i : Nat) < N + 1; exact i.isLt), get_mul,
      if_pos ⟨by show (i : Nat) < N + 1; exact i.isLt, by show 0 < 1; omega⟩]
    show ∑ k ∈ Finset.range N, _ = _
    rw [← Fin.sum_univ_eq_sum_range (fun k => Kq.transpose.get i k * (aripKc (N + 1) a.const a.sigma).get k 0) N]
    simp only [Matrix.mulVec, dotProduct, Matrix.transpose_apply, toMat_apply]
    refine Finset.sum_congr rfl (fun k _ => ?_)
    rw [get_transpose, if_pos ⟨i.isLt, k.isLt⟩]
  have hb : ∀ i : Fin m, C.get ((N + 1) + i) 0 = b i := by
    intro i
    rw [hC, get_vstack, if_pos ⟨by show (N + 1) + (i : Nat) < (N + 1) + _; exact Nat.add_lt_add_left i.isLt _, by show 0 < 1; omega⟩,
      if_neg (by show ¬ (N + 1) + (i : Nat) < N + 1; omega)]
    show (aripConstraintRows a).2.get ((N + 1) + (i : Nat) - (N + 1)) 0 = _
    rw [Nat.add_sub_cancel_left]
  have hrhs : ((fun i : Fin ((N + 1) + m) => C.get i 0)) =
      (Sum.elim ((Kq.toMat N (N + 1))ᵀ *ᵥ (fun i : Fin N => (aripKc (N + 1) a.const a.sigma).get i 0)) b)
        ∘ finSumFinEquiv.symm := by
    funext k
    refine Fin.addCases (fun i => ?_) (fun i => ?_) k
    · simp only [Function.comp, finSumFinEquiv_symm_apply_castAdd, Sum.elim_inl]
      rw [← hg]; rfl
    · simp only [Function.comp, finSumFinEquiv_symm_apply_natAdd, Sum.elim_inr]
      rw [← hb i]; rfl
  rw [hv, hrhs] at hsysV
  have hsys' := (finSumFinEquiv.symm.surjective.right_cancellable).1 hsysV
  obtain ⟨hstat, hfeas⟩ := bordered_split _ _ _ _ _ _ hsys'
  refine ⟨hfeas, fun x' hx' => ?_⟩
  rw [criterion_eq, criterion_eq, ← aripK_view, ← aripKc_view]
  exact constrained_ls_min _ _ A b x _ lam rfl hstat hfeas x' hx'

/-! ## what the constraint rows say -/

/-- an aggregation row: position `j` carries the aggregation weight of its place within the low-frequency period of
the row's observation, 0 outside that period; the right-hand side is the observed low-frequency value -/
theorem constraint_agg_row (a : AripIn) (r j : Nat) (hr : r < (finiteIdx a.lowEffective).length) (hj : j < a.nHigh) :
    (aripConstraintRows a).1.get r j =
      (if j / a.nWithin = ((finiteIdx a.lowEffective).getD r (0, 0)).1 then a.agg.getD (j % a.nWithin) 0 else 0) ∧
    (aripConstraintRows a).2.get r 0 = ((finiteIdx a.lowEffective).getD r (0, 0)).2 := by
  unfold aripConstraintRows
  simp only
  constructor
  · have h1 : r < (finiteIdx a.lowEffective).length + (finiteIdx a.target).length := Nat.lt_add_right _ hr
    simp [get_vstack, get_ofFn, hr, hj, h1]
  · rw [get_ofFn_of_lt _ _ _ _ _ (Nat.lt_add_right _ hr) (by omega), if_pos hr]

/-- a target row: the unit row of the target's position; the right-hand side is the target value -/
theorem constraint_tar_row (a : AripIn) (r j : Nat) (hr : r < (finiteIdx a.target).length) (hj : j < a.nHigh) :
    (aripConstraintRows a).1.get ((finiteIdx a.lowEffective).length + r) j =
      (if j = ((finiteIdx a.target).getD r (0, 0)).1 then 1 else 0) ∧
    (aripConstraintRows a).2.get ((finiteIdx a.lowEffective).length + r) 0 = ((finiteIdx a.target).getD r (0, 0)).2 := by
  unfold aripConstraintRows
  simp only
  constructor
  · simp [get_vstack, get_ofFn, hr, hj]
  · rw [get_ofFn_of_lt _ _ _ _ _ (by omega) (by omega), if_neg (by omega), Nat.add_sub_cancel_left]

/-- non-vacuity: two yearly values, two periods per year, aggregation "sum", one target: the model solves it
(kernel evaluation), so the hypotheses `h` and `hN` of `aripSolve_is_constrained_minimiser` are met -/
def exIn : AripIn := ⟨2, 2, 1, 0, [1, 1, 1, 1], [1, 1], [some 2, some 6], [none, some 1, none, none]⟩

example : (aripSolve exIn true).toOption.isSome = true ∧ exIn.nHigh = 3 + 1 := by decide +kernel

end IrisVerif.BridgeC12
