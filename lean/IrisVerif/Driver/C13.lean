/-
Line-protocol driver for the temporal change / cumulation model (property C13).

  change <c> <kind> <shift> <series>
  conv   <c> <conv> <series>
  cum    <c> <kind> <shift> <initial> <span> <series>
  cumv   <c> <kind> <shift> <span> <j> <series> <initial_0> … <initial_{m-1}>
         variant `j` of a cumulation whose `initial` carries `m` variants (each `v=<cell>` or a series):
         `<series>` is variant `j` of the change series, the initial condition is chosen by the broadcast rule

<c>       q  exact rationals (cells `num/den`)           -- formulas without log/exp/pw only
          f  IEEE doubles (cells = the 64 bits as a decimal natural number)
<series>  F:start:cell,cell,…   (`nan` = missing; `F:0:` = empty series)
<shift>   integer | yoy | soy | eopy | tty
<initial> none | v=<cell> | <series>
<span>    none | F:a:b:step    (a, b serials or `-` for an open end)

  mchange <c> <kind> <shiftarg> <col_0> … <col_{nv-1}>
  mconv   <c> <conv> <col_0> … <col_{nv-1}>
  mcum    <c> <kind> <shiftarg> <span> <nv> <col_0> … <col_{nv-1}> <initial_0> … <initial_{m-1}>
         several variants: every `<col_j>` is `F:start:cells` with the same start and length (untrimmed);
         `<shiftarg>` = integer | keyword | `f=num/den` (a Python float) | `s=<text>` (any other string);
         reply `F:start:cells_0|cells_1|…` trimmed over ALL variants, or `empty`

Reply: `F:start:cell,…` (trimmed) | `empty` | `err:bad` | `err:mixed`; `bad-op` for anything unparsable.
-/
import IrisVerif.Model.Temporal
import IrisVerif.Driver.Util

open IrisVerif.Dates IrisVerif.Driver IrisVerif.Temporal

namespace IrisVerif.Driver.C13

structure Codec (α : Type) where
  parse : String → Option α
  render : α → String

def codecRat : Codec Rat := ⟨parseRat?, showRat⟩

def codecFloat : Codec Float :=
  ⟨fun s => s.toNat?.map (fun n => Float.ofBits (UInt64.ofNat n)),
   fun x => if x.isFinite then toString x.toBits.toNat else "inf"⟩

section
variable {α : Type}

def parseCell (c : Codec α) (s : String) : Option (Option α) :=
  if s = "nan" then some none else (c.parse s).map some

def showCell (c : Codec α) : Option α → String
  | none => "nan"
  | some x => c.render x

def parseSeries (c : Codec α) (s : String) : Option (Ser α) :=
  match s.splitOn ":" with
  | [f, start, cells] => do
    let f ← Freq.ofLetter? f
    let start ← start.toInt?
    let ws := if cells = "" then [] else cells.splitOn ","
    let cs ← ws.mapM (parseCell c)
    pure (Ser.ofCells f start cs.toArray)
  | _ => none

def showSeries (c : Codec α) (s : Ser α) : String :=
  if s.isEmpty then "empty"
  else s.freq.letter ++ ":" ++ toString s.lo ++ ":" ++ ",".intercalate (s.cells.map (showCell c))

def showErr : Err → String
  | .mixedFreq => "err:mixed"
  | .badInput => "err:bad"
  | .noPeriod => "err:bad"

def showResult (c : Codec α) : R (Ser α) → String
  | .ok s => showSeries c s
  | .error e => showErr e

def parseShift (s : String) : Option ShiftBy :=
  match s with
  | "yoy" => some .yoy | "soy" => some .soy | "eopy" => some .eopy | "tty" => some .tty
  | k => k.toInt?.map .by_

def parseChangeKind : String → Option ChangeKind
  | "diff" => some .diff | "diff_log" => some .diffLog | "pct" => some .pct | "roc" => some .roc
  | "adiff" => some .adiff | "adiff_log" => some .adiffLog | "apct" => some .apct | "aroc" => some .aroc
  | _ => none

def parseConvKind : String → Option ConvKind
  | "roc_from_pct" => some .rocFromPct | "pct_from_roc" => some .pctFromRoc | "pct_from_apct" => some .pctFromApct
  | "roc_from_apct" => some .rocFromApct | "roc_from_aroc" => some .rocFromAroc
  | _ => none

/-- through the generated dispatch table: `cum_diff` -> `"diff"` -> factory entry -/
def parseCumKind (s : String) : Option CumKind :=
  match (IrisVerif.Gen.Temporal.cumDispatch.find? (fun p => p.1 = s)).map (·.2) with
  | some "diff" => some .diff | some "diff_log" => some .diffLog | some "pct" => some .pct | some "roc" => some .roc
  | _ => none

def parseInit (c : Codec α) (s : String) : Option (Option (Init α)) :=
  if s = "none" then some none
  else if s.startsWith "v=" then (c.parse (s.drop 2).toString).map (fun a => some (.scalar a))
  else (parseSeries c s).map (fun x => some (.series x))

def parseSpan (s : String) : Option (Option (R Span)) :=
  if s = "none" then some none
  else match s.splitOn ":" with
    | [f, a, b, st] => do
      let f ← Freq.ofLetter? f
      let st ← st.toInt?
      let ea ← if a = "-" then some none else a.toInt?.map (fun n => some (Endpoint.res ⟨f, n⟩))
      let eb ← if b = "-" then some none else b.toInt?.map (fun n => some (Endpoint.res ⟨f, n⟩))
      pure (some (Span.make ea eb st))
    | _ => none

def parseShiftArg (s : String) : Option ShiftArg :=
  if s.startsWith "f=" then (parseRat? (s.drop 2).toString).map .float
  else if s.startsWith "s=" then some .otherString
  else match s with
    | "yoy" => some (.kw .yoy) | "soy" => some (.kw .soy) | "eopy" => some (.kw .eopy) | "tty" => some (.kw .tty)
    | k => k.toInt?.map .int

/-- one column word -> (freq, start, cells) without trimming -/
def parseColumn (c : Codec α) (s : String) : Option (Freq × Int × Array (Option α)) :=
  match s.splitOn ":" with
  | [f, start, cells] => do
    let f ← Freq.ofLetter? f
    let start ← start.toInt?
    let ws := if cells = "" then [] else cells.splitOn ","
    let cs ← ws.mapM (parseCell c)
    pure (f, start, cs.toArray)
  | _ => none

def parseMSer (c : Codec α) (ws : List String) : Option (MSer α) := do
  let cols ← ws.mapM (parseColumn c)
  match cols with
  | [] => none
  | (f, start, c0) :: _ =>
    if cols.all (fun x => x.1 == f && x.2.1 == start && x.2.2.size == c0.size) then
      pure (MSer.ofColumns f start c0.size (cols.map (·.2.2)))
    else none

def showMSer (c : Codec α) (m : MSer α) : String :=
  if m.isEmpty then "empty"
  else m.freq.letter ++ ":" ++ toString m.lo ++ ":" ++
    "|".intercalate ((List.range m.nv).map (fun j => ",".intercalate ((m.cells j).map (showCell c))))

def showMResult (c : Codec α) : R (MSer α) → String
  | .ok m => showMSer c m
  | .error e => showErr e

/-- kinds whose formula uses `log`, `exp` or `**` need the float carrier -/
def changeNeedsSym : ChangeKind → Bool
  | .diffLog | .adiffLog | .apct | .aroc => true
  | _ => false

def convNeedsSym : ConvKind → Bool
  | .pctFromApct | .rocFromApct | .rocFromAroc => true
  | _ => false

def cumNeedsSym : CumKind → Bool
  | .diffLog => true
  | _ => false

variable [Add α] [Sub α] [Mul α] [Div α] [NatCast α] [IntCast α]

def stepWith (c : Codec α) (S : Sym α) (exact : Bool) (ws : List String) : String :=
  match ws with
  | ["change", kind, shift, ser] =>
    match parseChangeKind kind, parseShift shift, parseSeries c ser with
    | some kind, some shift, some ser =>
      if exact && changeNeedsSym kind then "bad-op" else showResult c (change S kind shift ser)
    | _, _, _ => "bad-op"
  | ["conv", kind, ser] =>
    match parseConvKind kind, parseSeries c ser with
    | some kind, some ser =>
      if exact && convNeedsSym kind then "bad-op" else showSeries c (convert S kind ser)
    | _, _ => "bad-op"
  | ["cum", kind, shift, ini, span, ser] =>
    match parseCumKind kind, parseShift shift, parseInit c ini, parseSpan span, parseSeries c ser with
    | some kind, some shift, some ini, some span, some ser =>
      if exact && cumNeedsSym kind then "bad-op"
      else match span with
        | some (.error e) => showErr e
        | some (.ok sp) => showResult c (temporalCumulation S kind shift ini (some sp) ser)
        | none => showResult c (temporalCumulation S kind shift ini none ser)
    | _, _, _, _, _ => "bad-op"
  | "mchange" :: kind :: shift :: cols =>
    match parseChangeKind kind, parseShiftArg shift, parseMSer c cols with
    | some kind, some a, some m =>
      if exact && changeNeedsSym kind then "bad-op" else showMResult c (mchange S kind a m)
    | _, _, _ => "bad-op"
  | "mconv" :: kind :: cols =>
    match parseConvKind kind, parseMSer c cols with
    | some kind, some m => if exact && convNeedsSym kind then "bad-op" else showMSer c (mconvert S kind m)
    | _, _ => "bad-op"
  | "mcum" :: kind :: shift :: span :: nv :: rest =>
    match parseCumKind kind, parseShiftArg shift, parseSpan span, nv.toNat? with
    | some kind, some a, some span, some nv =>
      match parseMSer c (rest.take nv), (rest.drop nv).mapM (fun w => parseInit c w) with
      | some m, some inits =>
        if exact && cumNeedsSym kind then "bad-op"
        else match span with
          | some (.error e) => showErr e
          | some (.ok sp) => showMResult c (mcum S kind a inits (some sp) m)
          | none => showMResult c (mcum S kind a inits none m)
      | _, _ => "bad-op"
    | _, _, _, _ => "bad-op"
  | "cumv" :: kind :: shift :: span :: j :: ser :: inits =>
    match parseCumKind kind, parseShift shift, parseSpan span, j.toNat?, parseSeries c ser,
        inits.mapM (fun w => if w = "none" then none else parseInit c w) with
    | some kind, some shift, some (some (.ok sp)), some j, some ser, some inits =>
      if exact && cumNeedsSym kind then "bad-op"
      else match pickVariant inits j with
        | some ini => showResult c (temporalCumulation S kind shift ini (some sp) ser)
        | none => "bad-op"
    | _, _, _, _, _, _ => "bad-op"
  | _ => "bad-op"

end

def step (line : String) : String :=
  match words line with
  | op :: "q" :: rest => stepWith codecRat symRat true (op :: rest)
  | op :: "f" :: rest => stepWith codecFloat symFloat false (op :: rest)
  | _ => "bad-op"

end IrisVerif.Driver.C13

def main : IO Unit := IrisVerif.Driver.runMain IrisVerif.Driver.C13.step
