/-
C17 — Sequential-model simulation makes every equation hold, also when exogenized.

Property theorems only (helper lemmas: IrisVerif/Lemmas/Sequential.lean).  Every theorem is about the executable model
IrisVerif/Model/Sequential.lean instantiated at an arbitrary field `K` with abstract partial `exp`/`log`
(`UnaryFns`, `LawfulExpLog`); the formulas inside the model are the ones regenerated from the Python source
(IrisVerif/Generated/ExplanatoryGen.lean), so a changed formula re-checks these proofs.
-/
import IrisVerif.Lemmas.Sequential
import Mathlib.Tactic.NormNum.Basic
import Mathlib.Analysis.SpecialFunctions.Log.Basic

set_option linter.unusedSimpArgs false
set_option linter.unusedSectionVars false
set_option linter.unusedVariables false

namespace IrisVerif.C17
open IrisVerif.Seq IrisVerif.Gen

variable {K : Type} [Field K] [DecidableEq K] [UnaryFns K]

/-! ## 0. What the translator found in the code (tables and statement lists) -/

/-- the LHS transforms of the code are exactly the six of the model, in recognition order -/
theorem lhs_transforms_are_modelled : Explanatory.lhsTransforms = LhsT.all.map LhsT.name := by decide

/-- the plan transforms of the code are exactly the seven of the model -/
theorem plan_transforms_are_modelled : Explanatory.planTransforms = PlanT.all.map PlanT.name := by decide

/-- **every row of `CHOOSE_TRANSFORM_CLASS`, alias spellings included, points at the class of the transform that spelling
documents** (`PlanT.ofSpelling?`; the formulas of the classes are the subject of `plan_*` / `detectExogenized_hits_target`) -/
theorem plan_spellings_resolve :
    ∀ row ∈ Explanatory.planChoose, (PlanT.ofSpelling? row.1).map PlanT.name = some row.2 := by decide

/-- ... and the table has a row for every documented spelling, and no two rows for one spelling -/
theorem plan_spellings_complete :
    (∀ s ∈ PlanT.spellings, ∃ row ∈ Explanatory.planChoose, row.1 = s)
      ∧ (Explanatory.planChoose.map (·.1)).Nodup := by decide

/-- non-vacuity: the alias resolves like the canonical spelling -/
example : PlanT.ofSpelling? "difflog" = PlanT.ofSpelling? "diff_log" ∧ PlanT.ofSpelling? "level" = some PlanT.none
    ∧ PlanT.ofSpelling? "diflog" = none := by decide

/-- `slatable_for_simulate`: the parameter block tests `parameters_from_data`, the residual block tests `shocks_from_data`,
the defaults are False / True, and a missing residual is 0 -/
theorem data_source_options_in_code :
    Explanatory.parameterBlockOption = "parameters_from_data" ∧ Explanatory.residualBlockOption = "shocks_from_data"
      ∧ Explanatory.parametersFromDataDefault = false ∧ Explanatory.shocksFromDataDefault = true
      ∧ Explanatory.defaultResidualIsZero = true := by decide

/-- `Explanatory.simulate` is the single statement `data[lhs, t] = eval_level(data, t)` -/
theorem simulate_statements : Explanatory.simulateSteps = [3] := by decide

/-- `Explanatory.exogenize` is either the statement list of the pinned code (LHS := value; residual := eval_residual) or the
repaired one (LHS := value; residual := 0; residual := eval_residual) -/
theorem exogenize_statements :
    Explanatory.exogenizeSteps = stepsAsIs ∨ Explanatory.exogenizeSteps = stepsRepaired := by decide

/-- plan transforms refer to the previous period unless told otherwise (`PlanTransform.__init__(shift=-1)`) -/
theorem plan_default_shift : Explanatory.planDefaultShift = -1 := by decide

/-! ## 1. The level formula inverts the LHS transform -/

/-- side condition under which `transform(lhs)` is a number: `lag ≠ 0` for roc/pct, `log lag` defined for diff_log -/
def Dom (tr : LhsT) (lag : V K) : Prop :=
  match tr with
  | .roc => lag ≠ V.fin 0
  | .pct => lag ≠ V.fin 0
  | .diffLog => ∃ l ll : K, lag = V.fin l ∧ UnaryFns.fn? 1 l = some ll
  | _ => True

theorem level_inverts_none (lag rhs : V K) : LhsT.apply .none (LhsT.level .none lag rhs) lag = rhs := rfl

theorem level_inverts_log [LawfulExpLog K] (lag rhs : V K) (v : K) (h : LhsT.level .log lag rhs = V.fin v) :
    LhsT.apply .log (V.fin v) lag = rhs := by
  simp only [LhsT.level, Explanatory.level_Log] at h
  obtain ⟨r, rfl⟩ := V.exp_eq_fin h
  simp only [V.exp_fin] at h
  have := LawfulExpLog.log_exp r v (V.ofOption_eq_fin h)
  simp [LhsT.apply, Explanatory.lhs_Log, this]

theorem level_inverts_diff (lag r : K) :
    LhsT.apply .diff (LhsT.level .diff (V.fin lag) (V.fin r)) (V.fin lag) = V.fin r := by
  simp [LhsT.apply, LhsT.level, Explanatory.lhs_Diff, Explanatory.level_Diff]

theorem level_inverts_diff_log [LawfulExpLog K] (lag : K) (rhs : V K) (v ll : K)
    (hl : UnaryFns.fn? 1 lag = some ll) (h : LhsT.level .diffLog (V.fin lag) rhs = V.fin v) :
    LhsT.apply .diffLog (V.fin v) (V.fin lag) = rhs := by
  simp only [LhsT.level, Explanatory.level_DiffLog] at h
  obtain ⟨_, e, _, he⟩ := V.mul_eq_fin h
  obtain ⟨r, rfl⟩ := V.exp_eq_fin he
  simp only [V.exp_fin] at he
  have h1 := LawfulExpLog.log_exp r e (V.ofOption_eq_fin he)
  simp only [V.exp_fin, V.ofOption_eq_fin he, V.ofOption_some, V.fin_mul, V.fin.injEq] at h
  have h2 := LawfulExpLog.log_mul lag e ll r hl h1
  simp [LhsT.apply, Explanatory.lhs_DiffLog, ← h, h2, hl]

theorem level_inverts_roc (lag r : K) (h : lag ≠ 0) :
    LhsT.apply .roc (LhsT.level .roc (V.fin lag) (V.fin r)) (V.fin lag) = V.fin r := by
  simp [LhsT.apply, LhsT.level, Explanatory.lhs_Roc, Explanatory.level_Roc, h]

theorem level_inverts_pct [CharZero K] (lag r : K) (h : lag ≠ 0) :
    LhsT.apply .pct (LhsT.level .pct (V.fin lag) (V.fin r)) (V.fin lag) = V.fin r := by
  simp [LhsT.apply, LhsT.level, Explanatory.lhs_Pct, Explanatory.level_Pct, h]
  field_simp
  ring

/-- all six at once, in the form the simulator uses: whenever the level is a number `v` (and the transform is defined at
the lag), the right-hand side was a number and `transform(v, lag)` is that number -/
theorem level_inverts [CharZero K] [LawfulExpLog K] (tr : LhsT) (lag rhs : V K) (v : K)
    (h : LhsT.level tr lag rhs = V.fin v) (hd : Dom tr lag) :
    ∃ r : K, rhs = V.fin r ∧ LhsT.apply tr (V.fin v) lag = V.fin r := by
  cases tr with
  | none => exact ⟨v, h, rfl⟩
  | log =>
    have := level_inverts_log lag rhs v h
    obtain ⟨r, hr⟩ := V.exp_eq_fin (by simpa [LhsT.level, Explanatory.level_Log] using h)
    exact ⟨r, hr, by rw [this, hr]⟩
  | diff =>
    obtain ⟨l, r, rfl, rfl⟩ := V.add_eq_fin (by simpa [LhsT.level, Explanatory.level_Diff] using h)
    refine ⟨r, rfl, ?_⟩
    have := level_inverts_diff l r
    rwa [h] at this
  | diffLog =>
    obtain ⟨l, ll, rfl, hl⟩ := hd
    have := level_inverts_diff_log l rhs v ll hl h
    obtain ⟨_, e, _, he⟩ := V.mul_eq_fin (by simpa [LhsT.level, Explanatory.level_DiffLog] using h)
    obtain ⟨r, hr⟩ := V.exp_eq_fin he
    exact ⟨r, hr, by rw [this, hr]⟩
  | roc =>
    obtain ⟨l, r, rfl, rfl⟩ := V.mul_eq_fin (by simpa [LhsT.level, Explanatory.level_Roc] using h)
    have hl : l ≠ 0 := fun h0 => hd (by rw [h0])
    refine ⟨r, rfl, ?_⟩
    have := level_inverts_roc l r hl
    rwa [h] at this
  | pct =>
    obtain ⟨l, x, rfl, hx⟩ := V.mul_eq_fin (by simpa [LhsT.level, Explanatory.level_Pct] using h)
    obtain ⟨_, y, _, hy⟩ := V.add_eq_fin hx
    obtain ⟨r, _, rfl, _⟩ := V.div_eq_fin hy
    have hl : l ≠ 0 := fun h0 => hd (by rw [h0])
    refine ⟨r, rfl, ?_⟩
    have := level_inverts_pct l r hl
    rwa [h] at this

/-! ## 2. Plan transforms: `eval_exogenized` returns the level whose transform equals the target -/

/-- the meaning of a plan transform: the transform of the level `v` given the lagged level -/
def planMeaning (k : PlanT) (v lag : V K) : V K :=
  match k with
  | .none => v
  | .log => V.log v
  | .diff => v - lag
  | .diffLog => V.log v - V.log lag
  | .roc => v / lag
  | .pct => 100 * v / lag - 100
  | .flat => v - lag      -- "flat": no change from the lag, target 0

theorem plan_none (target lag : V K) : planMeaning .none (PlanT.implied .none target lag) lag = target := rfl

theorem plan_log [LawfulExpLog K] (target lag : V K) (v : K) (h : PlanT.implied .log target lag = V.fin v) :
    planMeaning .log (V.fin v) lag = target := by
  simp only [PlanT.implied, Explanatory.plan_Log] at h
  obtain ⟨d, rfl⟩ := V.exp_eq_fin h
  simp only [V.exp_fin] at h
  simp [planMeaning, LawfulExpLog.log_exp d v (V.ofOption_eq_fin h)]

theorem plan_diff (d lag : K) : planMeaning .diff (PlanT.implied .diff (V.fin d) (V.fin lag)) (V.fin lag) = V.fin d := by
  simp [planMeaning, PlanT.implied, Explanatory.plan_Diff]

theorem plan_diff_log [LawfulExpLog K] (target : V K) (lag v ll : K) (hl : UnaryFns.fn? 1 lag = some ll)
    (h : PlanT.implied .diffLog target (V.fin lag) = V.fin v) :
    planMeaning .diffLog (V.fin v) (V.fin lag) = target := by
  simp only [PlanT.implied, Explanatory.plan_DiffLog] at h
  obtain ⟨_, e, _, he⟩ := V.mul_eq_fin h
  obtain ⟨d, rfl⟩ := V.exp_eq_fin he
  simp only [V.exp_fin] at he
  have h1 := LawfulExpLog.log_exp d e (V.ofOption_eq_fin he)
  simp only [V.exp_fin, V.ofOption_eq_fin he, V.ofOption_some, V.fin_mul, V.fin.injEq] at h
  have h2 := LawfulExpLog.log_mul lag e ll d hl h1
  simp [planMeaning, ← h, h2, hl]

theorem plan_roc (d lag : K) (h : lag ≠ 0) :
    planMeaning .roc (PlanT.implied .roc (V.fin d) (V.fin lag)) (V.fin lag) = V.fin d := by
  simp [planMeaning, PlanT.implied, Explanatory.plan_Roc, h]

theorem plan_pct [CharZero K] (d lag : K) (h : lag ≠ 0) :
    planMeaning .pct (PlanT.implied .pct (V.fin d) (V.fin lag)) (V.fin lag) = V.fin d := by
  simp [planMeaning, PlanT.implied, Explanatory.plan_Pct, h]
  field_simp
  ring

theorem plan_flat (target : V K) (lag : K) :
    planMeaning .flat (PlanT.implied .flat target (V.fin lag)) (V.fin lag) = V.fin 0 := by
  simp [planMeaning, PlanT.implied, Explanatory.plan_Flat]

/-! ## 3. One step of the simulator -/

/-- **simulate**: after `data[lhs, t] = eval_level(data, t)` the equation holds at `t`, provided the equation does not read
its own LHS cell, the level is a number and the transform is defined at the lag -/
theorem simulate_step_holds [CharZero K] [LawfulExpLog K] (eq : Equation K) (tbl : Table K) (t : Int) (v : K)
    (hself : (eq.lhs, t) ∉ eq.deps t)
    (hv : eq.evalLevel tbl t = V.fin v) (hd : Dom eq.tr (eq.lagVal tbl t)) :
    eq.Holds (tbl.set eq.lhs t (V.fin v)) t := by
  have hfr : ∀ c ∈ eq.deps t, (tbl.set eq.lhs t (V.fin v)) c.1 c.2 = tbl c.1 c.2 := fun c hc =>
    Table.set_other _ _ _ _ _ _ (fun h => hself (by rw [← h]; exact hc))
  obtain ⟨r, hr, happ⟩ := level_inverts eq.tr _ _ v hv hd
  refine ⟨r, ?_, ?_⟩
  · unfold Equation.lhsValue
    rw [Table.set_same, eq.lagVal_congr t tbl _ (fun c hc => hfr c (by simp [Equation.deps, hc]))]
    exact happ
  · rw [eq.rhsFull_congr t tbl _ hfr]; exact hr


/-- **exogenize, the pinned statement list** (`LHS := v; residual := eval_residual`): the LHS takes the implied value, and
whenever the stored residual is a number the equation holds afterwards **iff the incoming residual was zero** -/
theorem exogenize_asIs (eq : Equation K) (tbl : Table K) (t : Int) (v : V K) (ρ : K)
    (hid : eq.identity = false)
    (hself : (eq.lhs, t) ∉ eq.deps t) (hres : (eq.res, t) ∉ eq.depsNoRes t)
    (hρ : eq.evalResidual (tbl.set eq.lhs t v) t = V.fin ρ) :
    let tbl2 := (tbl.set eq.lhs t v).set eq.res t (eq.evalResidual (tbl.set eq.lhs t v) t)
    tbl2 eq.lhs t = v ∧ tbl2 eq.res t = V.fin ρ ∧ (eq.Holds tbl2 t ↔ tbl eq.res t = V.fin 0) := by
  intro tbl2
  have hne : (eq.lhs, t) ≠ (eq.res, t) := fun h => hself (by simp [Equation.deps, hid, h])
  have hlhs : tbl2 eq.lhs t = v := by
    show (Table.set _ _ _ _) _ _ = _
    rw [Table.set_other _ _ _ _ _ _ hne, Table.set_same]
  have hres2 : tbl2 eq.res t = V.fin ρ := by
    show (Table.set _ _ _ _) _ _ = _
    rw [Table.set_same, hρ]
  refine ⟨hlhs, hres2, ?_⟩
  -- the pieces before the residual is stored
  set tbl1 := tbl.set eq.lhs t v with htbl1
  have hfr : ∀ c ∈ eq.depsNoRes t, tbl2 c.1 c.2 = tbl1 c.1 c.2 := fun c hc =>
    Table.set_other _ _ _ _ _ _ (fun h => hres (by rw [← h]; exact hc))
  have hL : eq.lhsValue tbl2 t = eq.lhsValue tbl1 t := by
    unfold Equation.lhsValue
    rw [eq.lagVal_congr t tbl1 tbl2 (fun c hc => hfr c (by simp [Equation.depsNoRes, hc]))]
    congr 1
    exact Table.set_other _ _ _ _ _ _ hne
  have hR : eq.rhs.eval tbl2 t = eq.rhs.eval tbl1 t :=
    Expr.eval_congr _ _ _ _ (fun c hc => hfr c (by simp [Equation.depsNoRes, hc]))
  have hc1 : tbl1 eq.res t = tbl eq.res t := Table.set_other _ _ _ _ _ _ (Ne.symm hne)
  have hρ' : eq.lhsValue tbl1 t - (eq.rhs.eval tbl1 t + tbl eq.res t) = V.fin ρ := by
    have := hρ
    simp only [Equation.evalResidual, Equation.rhsFull, hid, Explanatory.residualBody,
      Explanatory.rhsWithResidual, hc1] at this
    simpa using this
  obtain ⟨a, s, ha, hs⟩ := V.sub_eq_fin hρ'
  obtain ⟨b, c, hb, hc⟩ := V.add_eq_fin hs
  rw [ha, hb, hc] at hρ'
  simp only [V.fin_add, V.fin_sub, V.fin.injEq] at hρ'
  unfold Equation.Holds
  simp only [Equation.rhsFull, hid, Explanatory.rhsWithResidual, hL, hR, hres2, ha, hb, hc, V.fin_add,
    V.fin.injEq, Bool.false_eq_true, if_false]
  constructor
  · rintro ⟨x, rfl, hx⟩
    have h3 : a - c = a := by
      rw [← hρ'] at hx
      calc a - c = b + (a - (b + c)) := by ring
        _ = a := hx
    rw [sub_eq_self.mp h3]
  · intro h0
    have : c = 0 := by simpa using h0
    refine ⟨a, rfl, ?_⟩
    rw [← hρ', this]; ring

/-- **exogenize, the repaired statement list** (`LHS := v; residual := 0; residual := eval_residual`): the LHS takes the
implied value and the equation holds afterwards for every incoming residual (whenever the stored residual is a number) -/
theorem exogenize_repaired (eq : Equation K) (tbl : Table K) (t : Int) (v : V K) (ρ : K)
    (hid : eq.identity = false)
    (hself : (eq.lhs, t) ∉ eq.deps t) (hres : (eq.res, t) ∉ eq.depsNoRes t)
    (hρ : eq.evalResidual ((tbl.set eq.lhs t v).set eq.res t (V.fin 0)) t = V.fin ρ) :
    let tbl1 := (tbl.set eq.lhs t v).set eq.res t (V.fin 0)
    let tbl2 := tbl1.set eq.res t (eq.evalResidual tbl1 t)
    tbl2 eq.lhs t = v ∧ tbl2 eq.res t = V.fin ρ ∧ eq.Holds tbl2 t := by
  intro tbl1 tbl2
  have hne : (eq.lhs, t) ≠ (eq.res, t) := fun h => hself (by simp [Equation.deps, hid, h])
  have hcomm : tbl1 = (tbl.set eq.res t (V.fin 0)).set eq.lhs t v := Table.set_comm _ _ _ _ _ _ _ hne
  have := exogenize_asIs eq (tbl.set eq.res t (V.fin 0)) t v ρ hid hself hres (by rw [← hcomm]; exact hρ)
  simp only [← hcomm] at this
  exact ⟨this.1, this.2.1, this.2.2.2 (Table.set_same _ _ _ _)⟩

/-- **exogenize, whatever the code says now**: the generated statement list of `Explanatory.exogenize` makes the LHS take the
implied value, and makes the equation hold iff the list is the repaired one or the incoming residual is zero.
For the pinned code (`exogenizeSteps = [0, 2]`) this is the defect C17-a: with a non-zero incoming residual the equation is
false after the step. -/
theorem exogenize_current_code (eq : Equation K) (tbl tbl2 : Table K) (t : Int) (v : V K)
    (hid : eq.identity = false)
    (hself : (eq.lhs, t) ∉ eq.deps t) (hres : (eq.res, t) ∉ eq.depsNoRes t)
    (hrun : runSteps Explanatory.exogenizeSteps eq t v tbl = .ok tbl2)
    (hfin : tbl2 eq.res t ≠ V.nan) :
    tbl2 eq.lhs t = v ∧
      (eq.Holds tbl2 t ↔ (Explanatory.exogenizeSteps = stepsRepaired ∨ tbl eq.res t = V.fin 0)) := by
  rcases exogenize_statements with h | h
  · rw [h, runSteps_asIs] at hrun
    injection hrun with hrun
    subst hrun
    have hnr : stepsAsIs ≠ stepsRepaired := by decide
    have : ∃ ρ, eq.evalResidual (tbl.set eq.lhs t v) t = V.fin ρ := by
      cases hρ : eq.evalResidual (tbl.set eq.lhs t v) t with
      | nan => exact absurd (by rw [Table.set_same]; exact hρ) hfin
      | fin ρ => exact ⟨ρ, rfl⟩
    obtain ⟨ρ, hρ⟩ := this
    have := exogenize_asIs eq tbl t v ρ hid hself hres hρ
    refine ⟨this.1, this.2.2.trans ?_⟩
    rw [h]; simp [hnr]
  · rw [h, runSteps_repaired] at hrun
    injection hrun with hrun
    subst hrun
    have : ∃ ρ, eq.evalResidual ((tbl.set eq.lhs t v).set eq.res t (V.fin 0)) t = V.fin ρ := by
      cases hρ : eq.evalResidual ((tbl.set eq.lhs t v).set eq.res t (V.fin 0)) t with
      | nan => exact absurd (by rw [Table.set_same]; exact hρ) hfin
      | fin ρ => exact ⟨ρ, rfl⟩
    obtain ⟨ρ, hρ⟩ := this
    have := exogenize_repaired eq tbl t v ρ hid hself hres hρ
    exact ⟨this.1, by simp [h, this.2.2]⟩

/-! ## 4. The schedule theorem -/

/-- what is guaranteed about the equation of a step, in the final data `tblF`: it holds, unless the computed LHS is NaN, the
transform is undefined at the lag, or (exogenized steps) the stored residual is NaN or — for the pinned statement list only —
the residual that was in the data when the step ran (`resBefore`) was not zero -/
def Outcome (exo : List Nat) (eq : Equation K) (exogenized : Bool) (resBefore : V K) (tblF : Table K) (t : Int) : Prop :=
  eq.Holds tblF t ∨ tblF eq.lhs t = V.nan ∨ ¬ Dom eq.tr (eq.lagVal tblF t)
    ∨ (exogenized = true ∧ (tblF eq.res t = V.nan ∨ (exo = stepsAsIs ∧ resBefore ≠ V.fin 0)))

/-- a generalisation of `exogenize_current_code` to either statement list -/
theorem exogenize_steps (exo : List Nat) (hexo : exo = stepsAsIs ∨ exo = stepsRepaired)
    (eq : Equation K) (tbl tbl2 : Table K) (t : Int) (v : V K)
    (hid : eq.identity = false)
    (hself : (eq.lhs, t) ∉ eq.deps t) (hres : (eq.res, t) ∉ eq.depsNoRes t)
    (hrun : runSteps exo eq t v tbl = .ok tbl2)
    (hfin : tbl2 eq.res t ≠ V.nan) :
    tbl2 eq.lhs t = v ∧ (eq.Holds tbl2 t ↔ (exo = stepsRepaired ∨ tbl eq.res t = V.fin 0)) := by
  rcases hexo with h | h
  · rw [h, runSteps_asIs] at hrun
    injection hrun with hrun
    subst hrun
    have hnr : stepsAsIs ≠ stepsRepaired := by decide
    have : ∃ ρ, eq.evalResidual (tbl.set eq.lhs t v) t = V.fin ρ := by
      cases hρ : eq.evalResidual (tbl.set eq.lhs t v) t with
      | nan => exact absurd (by rw [Table.set_same]; exact hρ) hfin
      | fin ρ => exact ⟨ρ, rfl⟩
    obtain ⟨ρ, hρ⟩ := this
    have := exogenize_asIs eq tbl t v ρ hid hself hres hρ
    refine ⟨this.1, this.2.2.trans ?_⟩
    rw [h]; simp [hnr]
  · rw [h, runSteps_repaired] at hrun
    injection hrun with hrun
    subst hrun
    have : ∃ ρ, eq.evalResidual ((tbl.set eq.lhs t v).set eq.res t (V.fin 0)) t = V.fin ρ := by
      cases hρ : eq.evalResidual ((tbl.set eq.lhs t v).set eq.res t (V.fin 0)) t with
      | nan => exact absurd (by rw [Table.set_same]; exact hρ) hfin
      | fin ρ => exact ⟨ρ, rfl⟩
    obtain ⟨ρ, hρ⟩ := this
    have := exogenize_repaired eq tbl t v ρ hid hself hres hρ
    exact ⟨this.1, by simp [h, this.2.2]⟩

/-- the outcome of a step only looks at the LHS cell, the residual cell and `deps` -/
theorem Outcome.congr (exo : List Nat) (eq : Equation K) (x : Bool) (rb : V K) (tbl tbl' : Table K) (t : Int)
    (hl : tbl' eq.lhs t = tbl eq.lhs t) (hr : eq.identity = false → tbl' eq.res t = tbl eq.res t)
    (hx : x = true → eq.identity = false)
    (h : ∀ c ∈ eq.deps t, tbl' c.1 c.2 = tbl c.1 c.2) (ho : Outcome exo eq x rb tbl t) : Outcome exo eq x rb tbl' t := by
  unfold Outcome at *
  rw [eq.holds_congr t tbl tbl' hl h, hl,
    eq.lagVal_congr t tbl tbl' (fun c hc => h c (by simp [Equation.deps, hc]))]
  rcases ho with ho | ho | ho | ⟨hx', ho⟩
  · exact Or.inl ho
  · exact Or.inr (Or.inl ho)
  · exact Or.inr (Or.inr (Or.inl ho))
  · exact Or.inr (Or.inr (Or.inr ⟨hx', by rw [hr (hx hx')]; exact ho⟩))

/-- **one step of `_simulate_v`** establishes the outcome for its own equation, provided the equation does not read what the
step writes (`selfOK`) -/
theorem step_outcome [CharZero K] [LawfulExpLog K] (exo : List Nat) (hexo : exo = stepsAsIs ∨ exo = stepsRepaired)
    (eqs : List (Equation K)) (plan : Plan) (tbl tbl' : Table K) (s : Int × Nat) (eq : Equation K)
    (heq : eqs[s.2]? = some eq) (hself : selfOK eqs s = true)
    (hstep : stepWith [3] exo eqs plan tbl s = .ok tbl') :
    ∃ x : Bool, (x = true → eq.identity = false ∧ (plan eq.lhs s.1).isSome = true)
      ∧ Outcome exo eq x (tbl eq.res s.1) tbl' s.1 := by
  obtain ⟨hs1, hs2⟩ := selfOK_unpack eqs s eq heq hself
  unfold stepWith at hstep
  simp only [heq] at hstep
  cases hb : branchOf plan eq tbl s.1 with
  | error e => simp [hb, bind, Except.bind] at hstep
  | ok o =>
    cases o with
    | none =>
      simp only [hb, bind, Except.bind, runSteps_simulate] at hstep
      injection hstep with hstep
      subst hstep
      refine ⟨false, by simp, ?_⟩
      cases hv : eq.evalLevel tbl s.1 with
      | nan => exact Or.inr (Or.inl (Table.set_same _ _ _ _))
      | fin v =>
        have hfr : ∀ c ∈ eq.deps s.1, (tbl.set eq.lhs s.1 (V.fin v)) c.1 c.2 = tbl c.1 c.2 := fun c hc =>
          Table.set_other _ _ _ _ _ _ (fun h => hs1 (by rw [← h]; exact hc))
        by_cases hd : Dom eq.tr (eq.lagVal tbl s.1)
        · exact Or.inl (simulate_step_holds eq tbl s.1 v hs1 hv hd)
        · refine Or.inr (Or.inr (Or.inl ?_))
          rwa [eq.lagVal_congr s.1 tbl _ (fun c hc => hfr c (by simp [Equation.deps, hc]))]
    | some v =>
      simp only [hb, bind, Except.bind] at hstep
      obtain ⟨hid, hp⟩ := branchOf_some_isSome plan eq tbl s.1 v hb
      refine ⟨true, fun _ => ⟨hid, hp⟩, ?_⟩
      by_cases hfin : tbl' eq.res s.1 = V.nan
      · exact Or.inr (Or.inr (Or.inr ⟨rfl, Or.inl hfin⟩))
      · have := exogenize_steps exo hexo eq tbl tbl' s.1 v hid hs1 (hs2 hid) hstep hfin
        by_cases h0 : exo = stepsRepaired ∨ tbl eq.res s.1 = V.fin 0
        · exact Or.inl (this.2.mpr h0)
        · refine Or.inr (Or.inr (Or.inr ⟨rfl, Or.inr ⟨?_, fun h => h0 (Or.inr h)⟩⟩))
          rcases hexo with h | h
          · exact h
          · exact absurd (Or.inl h) h0

/-- **Schedule theorem, per step, for either statement list of `exogenize`.**  For any model, data, residual paths and plan and
any schedule `pre ++ s :: post` that runs without error: if step `s` is admissible with respect to the steps after it
(`stepOK`: its equation reads nothing that `s` itself or a later step writes, and what `s` wrote is not overwritten), then the
outcome of `s` holds in the **final** data. -/
theorem schedule_step_with [CharZero K] [LawfulExpLog K] (exo : List Nat) (hexo : exo = stepsAsIs ∨ exo = stepsRepaired)
    (eqs : List (Equation K)) (plan : Plan) (tbl tblF : Table K) (pre post : List (Int × Nat)) (s : Int × Nat)
    (eq : Equation K) (heq : eqs[s.2]? = some eq)
    (hok : stepOK eqs plan s post = true)
    (hrun : simulateWith [3] exo eqs plan tbl (pre ++ s :: post) = .ok tblF) :
    ∃ (tblK : Table K) (x : Bool), simulateWith [3] exo eqs plan tbl pre = .ok tblK
      ∧ (x = true → eq.identity = false ∧ (plan eq.lhs s.1).isSome = true)
      ∧ Outcome exo eq x (tblK eq.res s.1) tblF s.1 := by
  simp only [simulateWith, List.foldlM_append, List.foldlM_cons, bind, Except.bind] at hrun
  cases hpre : List.foldlM (stepWith [3] exo eqs plan) tbl pre with
  | error e => simp [hpre] at hrun
  | ok tblK =>
    simp only [hpre] at hrun
    cases hs : stepWith [3] exo eqs plan tblK s with
    | error e => simp [hs] at hrun
    | ok tbl' =>
      simp only [hs] at hrun
      simp only [stepOK, Bool.and_eq_true] at hok
      obtain ⟨x, hx, ho⟩ := step_outcome exo hexo eqs plan tblK tbl' s eq heq hok.1 hs
      refine ⟨tblK, x, hpre, hx, ?_⟩
      -- nothing the outcome looks at is written by a later step
      have hlater : ∀ c : Cell, (c ∈ stepDeps eqs s ∨ c ∈ stepWrites eqs plan s) →
          ∀ s' ∈ post, c ∉ stepWrites eqs plan s' := by
        intro c hc s' hs' hmem
        have := hok.2
        simp only [laterOK, List.all_eq_true, Bool.and_eq_true] at this
        have := this s' hs' c hmem
        rcases hc with hc | hc
        · have h1 := this.1; simp at h1; exact h1 hc
        · have h2 := this.2; simp at h2; exact h2 hc
      have hframe : ∀ c : Cell, (c ∈ stepDeps eqs s ∨ c ∈ stepWrites eqs plan s) → tblF c.1 c.2 = tbl' c.1 c.2 :=
        fun c hc => simulateWith_frame exo hexo eqs plan post tbl' tblF hrun c (hlater c hc)
      have hdeps : stepDeps eqs s = eq.deps s.1 := by simp [stepDeps, heq]
      have hlhs : (eq.lhs, s.1) ∈ stepWrites eqs plan s := by simp [stepWrites, heq]
      refine Outcome.congr exo eq x _ tbl' tblF s.1 (hframe _ (Or.inr hlhs)) ?_ (fun h => (hx h).1) ?_ ho
      · intro hid
        exact hframe (eq.res, s.1) (Or.inl (by rw [hdeps]; simp [Equation.deps, hid]))
      · intro c hc
        exact hframe c (Or.inl (by rw [hdeps]; exact hc))

/-- **Schedule theorem for the code as it is now** (`simulateV` runs the statement lists the translator found in
`Explanatory.simulate` / `Explanatory.exogenize`). -/
theorem schedule_step [CharZero K] [LawfulExpLog K]
    (eqs : List (Equation K)) (plan : Plan) (tbl tblF : Table K) (pre post : List (Int × Nat)) (s : Int × Nat)
    (eq : Equation K) (heq : eqs[s.2]? = some eq)
    (hok : stepOK eqs plan s post = true)
    (hrun : simulateV eqs plan tbl (pre ++ s :: post) = .ok tblF) :
    ∃ (tblK : Table K) (x : Bool), simulateV eqs plan tbl pre = .ok tblK
      ∧ (x = true → eq.identity = false ∧ (plan eq.lhs s.1).isSome = true)
      ∧ Outcome Explanatory.exogenizeSteps eq x (tblK eq.res s.1) tblF s.1 := by
  unfold simulateV at *
  rw [simulate_statements] at *
  exact schedule_step_with _ exogenize_statements eqs plan tbl tblF pre post s eq heq hok hrun

/-- **Schedule theorem, whole schedule.**  If the schedule is `admissible` (every step reads only cells that no later step
and not the step itself writes; no cell is written twice) and — for the pinned statement list of `exogenize` only — the input
residual is zero at every planned point, then after the fold every equation holds at every scheduled period with the final
data, except where the computed LHS (or the stored residual of an exogenized point) is NaN or the transform is undefined
at the lag.  For the repaired statement list the residual hypothesis is vacuous. -/
theorem schedule_admissible [CharZero K] [LawfulExpLog K]
    (eqs : List (Equation K)) (plan : Plan) (tbl tblF : Table K) (sched : List (Int × Nat))
    (hadm : admissible eqs plan sched = true)
    (hrun : simulateV eqs plan tbl sched = .ok tblF)
    (hres : Explanatory.exogenizeSteps = stepsAsIs → ∀ s ∈ sched, ∀ eq, eqs[s.2]? = some eq → eq.identity = false →
      (plan eq.lhs s.1).isSome = true → tbl eq.res s.1 = V.fin 0) :
    ∀ s ∈ sched, ∀ eq, eqs[s.2]? = some eq →
      eq.Holds tblF s.1 ∨ tblF eq.lhs s.1 = V.nan ∨ ¬ Dom eq.tr (eq.lagVal tblF s.1)
        ∨ (eq.identity = false ∧ (plan eq.lhs s.1).isSome = true ∧ tblF eq.res s.1 = V.nan) := by
  intro s hs eq heq
  obtain ⟨pre, post, rfl⟩ := List.append_of_mem hs
  obtain ⟨hok, hpre⟩ := admissible_split eqs plan pre post s hadm
  obtain ⟨tblK, x, hK, hx, ho⟩ := schedule_step eqs plan tbl tblF pre post s eq heq hok hrun
  rcases ho with ho | ho | ho | ⟨hx', ho⟩
  · exact Or.inl ho
  · exact Or.inr (Or.inl ho)
  · exact Or.inr (Or.inr (Or.inl ho))
  · obtain ⟨hid, hp⟩ := hx hx'
    rcases ho with ho | ⟨hasis, hne⟩
    · exact Or.inr (Or.inr (Or.inr ⟨hid, hp, ho⟩))
    · exfalso
      apply hne
      have hw : (eq.res, s.1) ∈ stepWrites eqs plan s := by simp [stepWrites, heq, hid, hp]
      unfold simulateV at hK
      rw [simulate_statements] at hK
      have := simulateWith_frame _ exogenize_statements eqs plan pre tbl tblK hK (eq.res, s.1)
        (fun s' hs' => hpre s' hs' _ hw)
      rw [this]
      exact hres hasis s hs eq heq hid hp

/-! ## 5. The defect C17-a as a theorem, and non-vacuity of the hypotheses -/

/-- `x = 0.5*x[-1] + res_x` with row 0 = `x`, row 1 = `res_x` -/
def wEq : Equation K := { lhs := 0, tr := .none, identity := false, rhs := .mul (.const (1/2)) (.var 0 (-1)), res := 1 }

/-- data: `x[0] = 4`, `res_x[1] = r0`, everything else NaN -/
def wTbl (r0 : K) : Table K := fun r c => if r = 0 ∧ c = 0 then V.fin 4 else if r = 1 ∧ c = 1 then V.fin r0 else V.nan

theorem wEq_residual (r0 : K) :
    (wEq : Equation K).evalResidual ((wTbl r0).set 0 1 (V.fin (3/2))) 1 = V.fin (3/2 - (1/2 * 4 + r0)) := by
  simp [Equation.evalResidual, Equation.lhsValue, Equation.rhsFull, Equation.lagVal, LhsT.apply, LhsT.lagShift,
    Explanatory.lhs_None, Explanatory.lagShift_None, Explanatory.residualBody, Explanatory.rhsWithResidual,
    Expr.eval, wEq, wTbl, Table.set]

/-- **C17-a, concrete witness** (any field of characteristic 0, e.g. ℚ): `x = 0.5*x[-1] + res_x`, `x[-1] = 4`, `x` exogenized
to `1.5`.  With the pinned statement list of `Explanatory.exogenize` and an incoming residual `r0 ≠ 0` the LHS takes the
implied value but the equation is **false** in the output; with `r0 = 0` it is true. -/
theorem c17a_witness [CharZero K] (r0 : K) :
    ∃ tbl2 : Table K, runSteps stepsAsIs wEq 1 (V.fin (3/2)) (wTbl r0) = .ok tbl2 ∧ tbl2 0 1 = V.fin (3/2)
      ∧ tbl2 1 1 = V.fin (3/2 - (1/2 * 4 + r0)) ∧ ((wEq : Equation K).Holds tbl2 1 ↔ r0 = 0) := by
  refine ⟨_, runSteps_asIs _ _ _ _, ?_⟩
  have hself : ((wEq : Equation K).lhs, (1 : Int)) ∉ (wEq : Equation K).deps 1 := by
    simp [wEq, Equation.deps, Equation.lagCells, LhsT.lagShift, Explanatory.lagShift_None, Expr.reads]
  have hres : ((wEq : Equation K).res, (1 : Int)) ∉ (wEq : Equation K).depsNoRes 1 := by
    simp [wEq, Equation.depsNoRes, Equation.lagCells, LhsT.lagShift, Explanatory.lagShift_None, Expr.reads]
  have := exogenize_asIs (wEq : Equation K) (wTbl r0) 1 (V.fin (3/2)) _ rfl hself hres (wEq_residual r0)
  refine ⟨this.1, this.2.1, this.2.2.trans ?_⟩
  simp [wTbl, wEq]

/-- the same model under the repaired statement list: the equation holds for every incoming residual -/
theorem c17a_repaired [CharZero K] (r0 : K) :
    ∃ tbl2 : Table K, runSteps stepsRepaired wEq 1 (V.fin (3/2)) (wTbl r0) = .ok tbl2 ∧ tbl2 0 1 = V.fin (3/2)
      ∧ (wEq : Equation K).Holds tbl2 1 := by
  refine ⟨_, runSteps_repaired _ _ _ _, ?_⟩
  have hself : ((wEq : Equation K).lhs, (1 : Int)) ∉ (wEq : Equation K).deps 1 := by
    simp [wEq, Equation.deps, Equation.lagCells, LhsT.lagShift, Explanatory.lagShift_None, Expr.reads]
  have hres : ((wEq : Equation K).res, (1 : Int)) ∉ (wEq : Equation K).depsNoRes 1 := by
    simp [wEq, Equation.depsNoRes, Equation.lagCells, LhsT.lagShift, Explanatory.lagShift_None, Expr.reads]
  have hρ : (wEq : Equation K).evalResidual ((((wTbl r0).set 0 1 (V.fin (3/2))).set 1 1 (V.fin 0))) 1
      = V.fin (3/2 - (1/2 * 4 + 0)) := by
    simp [Equation.evalResidual, Equation.lhsValue, Equation.rhsFull, Equation.lagVal, LhsT.apply, LhsT.lagShift,
      Explanatory.lhs_None, Explanatory.lagShift_None, Explanatory.residualBody, Explanatory.rhsWithResidual,
      Expr.eval, wEq, wTbl, Table.set]
  have := exogenize_repaired (wEq : Equation K) (wTbl r0) 1 (V.fin (3/2)) _ rfl hself hres hρ
  exact ⟨this.1, this.2.2⟩


/-- non-vacuity of `simulate_step_holds`: its hypotheses are met by the witness model with a residual of 1/4 -/
example [CharZero K] [LawfulExpLog K] : (wEq : Equation K).Holds ((wTbl (1/4 : K)).set 0 1 (V.fin (1/2 * 4 + 1/4))) 1 := by
  apply simulate_step_holds
  · simp [wEq, Equation.deps, Equation.lagCells, LhsT.lagShift, Explanatory.lagShift_None, Expr.reads]
  · simp [Equation.evalLevel, Equation.rhsFull, Equation.lagVal, LhsT.level, LhsT.lagShift, Explanatory.level_None,
      Explanatory.lagShift_None, Explanatory.rhsWithResidual, Expr.eval, wEq, wTbl]
  · trivial

/-- non-vacuity of `admissible`: the witness model over two periods, in both orders, with a plan point at the first -/
example : admissible [(wEq : Equation ℚ)] (fun r c => if r = 0 ∧ c = 1 then some ⟨.none, false, -1, some 0⟩ else none)
    (datesEquations [1, 2] 1) = true := by decide
example : admissible [(wEq : Equation ℚ)] (fun _ _ => none) (equationsDates [1, 2] 1) = true := by decide
/-- ... and a schedule that is not: an equation reading its own LHS cell -/
example : admissible [({ lhs := 0, tr := .none, identity := true, rhs := .var 0 0, res := 1 } : Equation ℚ)]
    (fun _ _ => none) (datesEquations [1] 1) = false := by decide

/-! ## 6. The hypotheses on `exp`/`log` are met by the real functions -/


noncomputable instance realFns : UnaryFns ℝ where
  fn? := fun k x =>
    if k = 0 then some (Real.exp x)
    else if k = 1 then (if 0 < x then some (Real.log x) else none)
    else none

instance realLawful : LawfulExpLog ℝ where
  log_exp := by
    intro x y h
    simp only [UnaryFns.fn?, if_true] at h
    injection h with h
    subst h
    simp [UnaryFns.fn?, Real.exp_pos, Real.log_exp]
  log_mul := by
    intro a b la lb ha hb
    simp only [UnaryFns.fn?] at ha hb ⊢
    norm_num at ha hb ⊢
    obtain ⟨ha0, rfl⟩ := ha
    obtain ⟨hb0, rfl⟩ := hb
    exact ⟨mul_pos ha0 hb0, Real.log_mul ha0.ne' hb0.ne'⟩

/-! ## 7. The two execution orders are admissible under closed-form conditions on the model text -/

section orders
variable {β : Type}

/-- **dates×equations.**  For any plan and any increasing list of simulated columns: if every equation passes `SelfOKText`,
different equations write different rows, and the model is sequentialised with leads only into input cells
(`DatesEquationsCond`: a row written by equation `j` is read by equation `i`, inside the span, only at a lag, or in the same
period when `j` is not later than `i`), then the `dates_equations` schedule is `Admissible`. -/
theorem datesEquations_admissible (eqs : List (Equation β)) (plan : Plan) (cols : List Int)
    (hcols : cols.Pairwise (· < ·)) (hS : AllSelfOK eqs) (hW : DistinctWrites eqs)
    (hC : DatesEquationsCond eqs cols) :
    Admissible eqs plan (datesEquations cols eqs.length) := by
  refine ⟨fun s _ => selfOK_of_text eqs s hS, pairwise_datesEquations _ _ _ hcols ?_⟩
  intro t ht t' ht' i j hi hj hord
  refine noClobber_of eqs plan i j t t' hW ?_ (by omega)
  intro ei ej hei hej tok htok hw heq
  have := hC (ei, i) (List.mem_zipIdx_iff_getElem?.mpr hei) (ej, j) (List.mem_zipIdx_iff_getElem?.mpr hej) tok htok hw
    t ht (heq ▸ ht')
  simp only at this
  omega

/-- **equations×dates.**  Same, under `EquationsDatesCond`: a row written by equation `j` is read by equation `i`, inside the
span, only when `j` is an earlier equation (at any shift, leads included) or `j = i` at a non-positive shift. -/
theorem equationsDates_admissible (eqs : List (Equation β)) (plan : Plan) (cols : List Int)
    (hcols : cols.Pairwise (· < ·)) (hS : AllSelfOK eqs) (hW : DistinctWrites eqs)
    (hC : EquationsDatesCond eqs cols) :
    Admissible eqs plan (equationsDates cols eqs.length) := by
  refine ⟨fun s _ => selfOK_of_text eqs s hS, pairwise_equationsDates _ _ _ hcols ?_⟩
  intro t ht t' ht' i j hi hj hord
  refine noClobber_of eqs plan i j t t' hW ?_ (by omega)
  intro ei ej hei hej tok htok hw heq
  have := hC (ei, i) (List.mem_zipIdx_iff_getElem?.mpr hei) (ej, j) (List.mem_zipIdx_iff_getElem?.mpr hej) tok htok hw
    t ht (heq ▸ ht')
  simp only at this
  omega

/-- purely textual sufficient condition for every span: the model is **sequentialised and has no leads on written rows** -/
def SequentialisedNoLeads (eqs : List (Equation β)) : Prop :=
  ∀ p ∈ eqs.zipIdx, ∀ q ∈ eqs.zipIdx, ∀ tok ∈ p.1.depTokens, tok.1 ∈ q.1.writeRows →
    (tok.2 < 0 ∨ (tok.2 = 0 ∧ q.2 ≤ p.2))

theorem datesEquations_admissible_of_sequentialised (eqs : List (Equation β)) (plan : Plan) (cols : List Int)
    (hcols : cols.Pairwise (· < ·)) (hS : AllSelfOK eqs) (hW : DistinctWrites eqs)
    (hC : SequentialisedNoLeads eqs) :
    Admissible eqs plan (datesEquations cols eqs.length) :=
  datesEquations_admissible eqs plan cols hcols hS hW (fun p hp q hq tok htok hw _ _ _ => hC p hp q hq tok htok hw)

/-- purely textual sufficient condition for `equations_dates` on every span: an equation reads rows written by equations
only from **earlier** equations (any shift) or its own lags -/
def ReadsOnlyEarlierEquations (eqs : List (Equation β)) : Prop :=
  ∀ p ∈ eqs.zipIdx, ∀ q ∈ eqs.zipIdx, ∀ tok ∈ p.1.depTokens, tok.1 ∈ q.1.writeRows →
    (q.2 < p.2 ∨ (q.2 = p.2 ∧ tok.2 ≤ 0))

theorem equationsDates_admissible_of_text (eqs : List (Equation β)) (plan : Plan) (cols : List Int)
    (hcols : cols.Pairwise (· < ·)) (hS : AllSelfOK eqs) (hW : DistinctWrites eqs)
    (hC : ReadsOnlyEarlierEquations eqs) :
    Admissible eqs plan (equationsDates cols eqs.length) :=
  equationsDates_admissible eqs plan cols hcols hS hW (fun p hp q hq tok htok hw _ _ _ => hC p hp q hq tok htok hw)

end orders

/-! ### the two conditions are incomparable (rows: 0 = x0, 1 = x1, 2 = res_x0, 3 = res_x1, 4 = z) -/

/-- `x0 = x1[-1]; x1 = x0`: a LAG of a later equation's LHS -/
def lagOfLater : List (Equation ℚ) :=
  [{ lhs := 0, tr := .none, identity := false, rhs := .var 1 (-1), res := 2 },
   { lhs := 1, tr := .none, identity := false, rhs := .var 0 0, res := 3 }]

/-- `x0 = z; x1 = x0[+1]`: a LEAD of an earlier equation's LHS -/
def leadOfEarlier : List (Equation ℚ) :=
  [{ lhs := 0, tr := .none, identity := false, rhs := .var 4 0, res := 2 },
   { lhs := 1, tr := .none, identity := false, rhs := .var 0 1, res := 3 }]

/-- admissible under dates×equations (condition and decision agree) but not under equations×dates -/
example : AllSelfOK lagOfLater ∧ DistinctWrites lagOfLater ∧ DatesEquationsCond lagOfLater [1, 2]
    ∧ ¬ EquationsDatesCond lagOfLater [1, 2]
    ∧ admissible lagOfLater (fun _ _ => none) (datesEquations [1, 2] 2) = true
    ∧ admissible lagOfLater (fun _ _ => none) (equationsDates [1, 2] 2) = false := by decide

/-- admissible under equations×dates but not under dates×equations -/
example : AllSelfOK leadOfEarlier ∧ DistinctWrites leadOfEarlier ∧ EquationsDatesCond leadOfEarlier [1, 2]
    ∧ ¬ DatesEquationsCond leadOfEarlier [1, 2]
    ∧ admissible leadOfEarlier (fun _ _ => none) (equationsDates [1, 2] 2) = true
    ∧ admissible leadOfEarlier (fun _ _ => none) (datesEquations [1, 2] 2) = false := by decide

/-- a lead that lands after the span end is an input cell: with one simulated column `leadOfEarlier` is fine under both -/
example : DatesEquationsCond leadOfEarlier [1] ∧ admissible leadOfEarlier (fun _ _ => none) (datesEquations [1] 2) = true := by
  decide



/-! ### the executable decision used in the correspondence is sound and complete for `Admissible` -/

/-- `admissible` (Bool) decides `Admissible` -/
theorem admissible_decides {β : Type} (eqs : List (Equation β)) (plan : Plan) (sched : List (Int × Nat)) :
    admissible eqs plan sched = true ↔ Admissible eqs plan sched := admissible_iff eqs plan sched

/-- all flags printed by the driver are `T` exactly when the schedule is `Admissible` -/
theorem admissibleFlags_sound {β : Type} (eqs : List (Equation β)) (plan : Plan) (sched : List (Int × Nat)) :
    (∀ b ∈ admissibleFlags eqs plan sched, b = true) ↔ Admissible eqs plan sched := admissibleFlags_all_iff eqs plan sched

/-- the flag at position `k` is `stepOK` of the `k`-th step w.r.t. the steps after it — the hypothesis of `schedule_step` -/
theorem admissibleFlags_step {β : Type} (eqs : List (Equation β)) (plan : Plan) (pre post : List (Int × Nat)) (s : Int × Nat) :
    (admissibleFlags eqs plan (pre ++ s :: post))[pre.length]? = some (stepOK eqs plan s post) :=
  admissibleFlags_getElem eqs plan pre post s

/-! ## 8. End to end: from the model text and the plan to "every equation holds" -/

/-- the schedule `_simulate_v` builds for an execution order (`true` = `dates_equations`, `false` = `equations_dates`) -/
def scheduleOf {β : Type} (datesFirst : Bool) (eqs : List (Equation β)) (cols : List Int) : List (Int × Nat) :=
  if datesFirst then datesEquations cols eqs.length else equationsDates cols eqs.length

/-- the condition on the model text that the chosen order needs -/
def OrderCond {β : Type} (datesFirst : Bool) (eqs : List (Equation β)) (cols : List Int) : Prop :=
  if datesFirst then DatesEquationsCond eqs cols else EquationsDatesCond eqs cols

theorem scheduleOf_admissible {β : Type} (datesFirst : Bool) (eqs : List (Equation β)) (plan : Plan) (cols : List Int)
    (hcols : cols.Pairwise (· < ·)) (hS : AllSelfOK eqs) (hW : DistinctWrites eqs) (hC : OrderCond datesFirst eqs cols) :
    Admissible eqs plan (scheduleOf datesFirst eqs cols) := by
  cases datesFirst
  · exact equationsDates_admissible eqs plan cols hcols hS hW hC
  · exact datesEquations_admissible eqs plan cols hcols hS hW hC

/-- what the property promises for equation `eq` at column `t` in the output data: the equation holds with its residual —
unless the computed LHS is NaN, the LHS transform is undefined at the lag, or the point is exogenized and the backed-out
residual is NaN -/
def EquationOutcome (plan : Plan) (eq : Equation K) (tblF : Table K) (t : Int) : Prop :=
  eq.Holds tblF t ∨ tblF eq.lhs t = V.nan ∨ ¬ Dom eq.tr (eq.lagVal tblF t)
    ∨ (eq.identity = false ∧ (plan eq.lhs t).isSome = true ∧ tblF eq.res t = V.nan)

/-- **End-to-end theorem.**  Hypotheses about the model text (`AllSelfOK`, `DistinctWrites`, the order condition), the span
(increasing columns) and — only for the pre-fix statement list of `exogenize` — zero input residuals at planned points; for
any data, residual paths, parameters and plan, under either execution order: if `_simulate_v` runs without error, every
equation holds at every simulated column in the final data (up to the NaN/undefined excuses of `EquationOutcome`). -/
theorem simulate_all_equations_hold [CharZero K] [LawfulExpLog K]
    (datesFirst : Bool) (eqs : List (Equation K)) (plan : Plan) (tbl tblF : Table K) (cols : List Int)
    (hcols : cols.Pairwise (· < ·)) (hS : AllSelfOK eqs) (hW : DistinctWrites eqs) (hC : OrderCond datesFirst eqs cols)
    (hrun : simulateV eqs plan tbl (scheduleOf datesFirst eqs cols) = .ok tblF)
    (hres : Explanatory.exogenizeSteps = stepsAsIs → ∀ t ∈ cols, ∀ eq ∈ eqs, eq.identity = false →
      (plan eq.lhs t).isSome = true → tbl eq.res t = V.fin 0) :
    ∀ t ∈ cols, ∀ eq ∈ eqs, EquationOutcome plan eq tblF t := by
  intro t ht eq heq
  obtain ⟨i, hi, hget⟩ := List.getElem_of_mem heq
  have hget? : eqs[i]? = some eq := by rw [List.getElem?_eq_getElem hi, hget]
  have hadm := (admissible_iff eqs plan _).mpr (scheduleOf_admissible datesFirst eqs plan cols hcols hS hW hC)
  have hmem : (t, i) ∈ scheduleOf datesFirst eqs cols := by
    cases datesFirst
    · exact (mem_equationsDates cols eqs.length (t, i)).mpr ⟨ht, hi⟩
    · exact (mem_datesEquations cols eqs.length (t, i)).mpr ⟨ht, hi⟩
  have hmem' : ∀ s ∈ scheduleOf datesFirst eqs cols, s.1 ∈ cols := by
    intro s hs
    cases datesFirst
    · exact ((mem_equationsDates cols eqs.length s).mp hs).1
    · exact ((mem_datesEquations cols eqs.length s).mp hs).1
  exact schedule_admissible eqs plan tbl tblF _ hadm hrun
    (fun h s hs eq' heq' hid hp => hres h s.1 (hmem' s hs) eq' (List.mem_of_getElem? heq') hid hp) (t, i) hmem eq hget?

/-- the statement list of `Explanatory.exogenize` in the code now is the repaired one -/
theorem exogenize_is_repaired : Explanatory.exogenizeSteps = stepsRepaired := by decide

/-- **End-to-end theorem for the code as it is now**: no hypothesis on the data at all. -/
theorem simulate_all_equations_hold_current [CharZero K] [LawfulExpLog K]
    (datesFirst : Bool) (eqs : List (Equation K)) (plan : Plan) (tbl tblF : Table K) (cols : List Int)
    (hcols : cols.Pairwise (· < ·)) (hS : AllSelfOK eqs) (hW : DistinctWrites eqs) (hC : OrderCond datesFirst eqs cols)
    (hrun : simulateV eqs plan tbl (scheduleOf datesFirst eqs cols) = .ok tblF) :
    ∀ t ∈ cols, ∀ eq ∈ eqs, EquationOutcome plan eq tblF t :=
  simulate_all_equations_hold datesFirst eqs plan tbl tblF cols hcols hS hW hC hrun
    (fun h => absurd (h.symm.trans exogenize_is_repaired) (by decide))

/-- non-vacuity: the witness model `x = 0.5*x[-1] + res_x` over columns 1, 2 meets every hypothesis, under both orders -/
example : ([1, 2] : List Int).Pairwise (· < ·) ∧ AllSelfOK [(wEq : Equation ℚ)] ∧ DistinctWrites [(wEq : Equation ℚ)]
    ∧ DatesEquationsCond [(wEq : Equation ℚ)] [1, 2] ∧ EquationsDatesCond [(wEq : Equation ℚ)] [1, 2] := by decide

/-! ## 9. The extent of the data array -/

/-- **Every read lands inside the data array.**  With `nPre = −max_lag` columns before and `nPost = max_lead` columns after the
`nPer` simulated ones (what the Dataslate allocates), every cell an equation reads at a simulated column — right-hand side,
transform lag, residual — has a column in `[0, nPre + nPer + nPost)`; in particular no lag wraps around to the end of the
array (numpy's negative indexing) and no lead runs off it. -/
theorem reads_inside_array {β : Type} (eqs : List (Equation β)) (nPer : Nat) (eq : Equation β) (h : eq ∈ eqs)
    (t : Int) (ht : (nPreOf eqs : Int) ≤ t ∧ t < nPreOf eqs + nPer) :
    ∀ c ∈ eq.deps t, 0 ≤ c.2 ∧ c.2 < (nPreOf eqs + nPer + nPostOf eqs : Nat) := by
  intro c hc
  rw [Equation.deps_eq_map] at hc
  obtain ⟨tok, htok, rfl⟩ := List.mem_map.mp hc
  obtain ⟨h1, h2⟩ := minShift_le eqs eq h tok htok
  obtain ⟨h3, h4⟩ := le_maxShift eqs eq h tok htok
  unfold nPreOf nPostOf at *
  simp only
  omega

/-- the LHS cell itself too -/
theorem lhs_inside_array {β : Type} (eqs : List (Equation β)) (nPer : Nat)
    (t : Int) (ht : (nPreOf eqs : Int) ≤ t ∧ t < nPreOf eqs + nPer) :
    0 ≤ t ∧ t < (nPreOf eqs + nPer + nPostOf eqs : Nat) := by
  omega

/-- non-vacuity: `x = 0.5*x[-1] + res` has one pre-sample column and no post-sample column -/
example : nPreOf [(wEq : Equation ℚ)] = 1 ∧ nPostOf [(wEq : Equation ℚ)] = 0 := by decide

/-! ## 10. Plan transforms at every shift -/

/-- `values_before[self._shift]` with `values_before = data[row, :t]`: for EVERY shift `k ≤ −1` that stays inside the array the
lag is the cell `|k|` columns back — not only for the default `−1` -/
theorem planLagColumn_neg (p : PlanPoint) (t : Int) (hk : p.shift ≤ -1) (ht : 0 ≤ t + p.shift) :
    planLagColumn p t = some (t + p.shift) := by
  unfold planLagColumn pyIndex
  have h1 : ¬ (0 ≤ p.shift ∧ p.shift < t) := by omega
  have h2 : -t ≤ p.shift ∧ p.shift < 0 := by omega
  simp [h1, h2]

/-- ... and a shift that reaches before the first column is an error (Python `IndexError`), never a wrap-around -/
theorem planLagColumn_out (p : PlanPoint) (t : Int) (ht0 : 0 ≤ t) (hk : p.shift ≤ -1) (ht : t + p.shift < 0) :
    planLagColumn p t = none := by
  unfold planLagColumn pyIndex
  have h1 : ¬ (0 ≤ p.shift ∧ p.shift < t) := by omega
  have h2 : ¬ (-t ≤ p.shift ∧ p.shift < 0) := by omega
  simp [h1, h2]

theorem planLagColumn_eq (p : PlanPoint) (t c : Int) (hk : p.shift ≤ -1) (h : planLagColumn p t = some c) :
    c = t + p.shift := by
  unfold planLagColumn pyIndex at h
  have h1 : ¬ (0 ≤ p.shift ∧ p.shift < t) := by omega
  simp only [h1, if_false] at h
  split at h
  · injection h with h; omega
  · cases h

/-- what `_detect_exogenized` computed when it returns a value: the target read at column `t` (when the transform uses one)
and the lag read `|shift|` columns back (when it uses one) -/
theorem detectExogenized_ok (tbl : Table K) (lhsRow : Nat) (p : PlanPoint) (t : Int) (w : V K) (hk : p.shift ≤ -1)
    (h : detectExogenized tbl lhsRow p t = .ok (some w)) :
    ∃ target lag : V K, (p.kind.usesTarget = true → ∃ r, p.target = some r ∧ target = tbl r t)
      ∧ (p.kind.usesLag = true → lag = tbl lhsRow (t + p.shift))
      ∧ w = p.kind.implied target lag := by
  have fin : ∀ (c : Bool) (x : V K), (if c = true then (Except.ok none : Except Err (Option (V K))) else Except.ok (some x))
      = Except.ok (some w) → w = x := by
    intro c x hx
    cases c <;> simp at hx
    exact hx.symm
  unfold detectExogenized at h
  simp only [bind, Except.bind, pure, Except.pure] at h
  by_cases hT : p.kind.usesTarget = true
  · cases hr : p.target with
    | none => simp [hT, hr] at h
    | some r =>
      by_cases hL : p.kind.usesLag = true
      · cases hc : planLagColumn p t with
        | none => simp [hT, hr, hL, hc] at h
        | some c =>
          have := planLagColumn_eq p t c hk hc
          subst this
          simp only [hT, hr, hL, hc, if_true] at h
          exact ⟨tbl r t, tbl lhsRow (t + p.shift), fun _ => ⟨r, rfl, rfl⟩, fun _ => rfl, fin _ _ h⟩
      · simp only [hT, hr, hL, if_true] at h
        exact ⟨tbl r t, V.nan, fun _ => ⟨r, rfl, rfl⟩, fun h' => absurd h' hL, fin _ _ h⟩
  · by_cases hL : p.kind.usesLag = true
    · cases hc : planLagColumn p t with
      | none => simp [hT, hL, hc] at h
      | some c =>
        have := planLagColumn_eq p t c hk hc
        subst this
        simp only [hT, hL, hc, if_true] at h
        exact ⟨V.nan, tbl lhsRow (t + p.shift), fun h' => absurd h' hT, fun _ => rfl, fin _ _ h⟩
    · simp only [hT, hL] at h
      exact ⟨V.nan, V.nan, fun h' => absurd h' hT, fun h' => absurd h' hL, fin _ _ h⟩

/-- **`_detect_exogenized` for every transform and every shift `k ≤ −1`**: when it decides to exogenize at a number `v`, the
documented meaning of the transform — taken between `v` and the LHS value `|k|` columns back, `data[lhs, t+k]` — is the target
read at column `t` (side conditions as in `plan_*`; `flat`: the difference to the lag is 0). -/
theorem detectExogenized_hits_target [CharZero K] [LawfulExpLog K] (tbl : Table K) (lhsRow : Nat) (p : PlanPoint)
    (t : Int) (v : K) (hk : p.shift ≤ -1)
    (h : detectExogenized tbl lhsRow p t = .ok (some (V.fin v)))
    (hd : match p.kind with
      | .roc => tbl lhsRow (t + p.shift) ≠ V.fin 0
      | .pct => tbl lhsRow (t + p.shift) ≠ V.fin 0
      | .diffLog => ∃ l ll : K, tbl lhsRow (t + p.shift) = V.fin l ∧ UnaryFns.fn? 1 l = some ll
      | _ => True) :
    ∃ target : V K, (p.kind.usesTarget = true → ∃ r, p.target = some r ∧ target = tbl r t) ∧
      planMeaning p.kind (V.fin v) (tbl lhsRow (t + p.shift)) = (if p.kind = .flat then V.fin 0 else target) := by
  obtain ⟨target, lag, hT, hL, hw⟩ := detectExogenized_ok tbl lhsRow p t (V.fin v) hk h
  refine ⟨target, hT, ?_⟩
  cases hkind : p.kind with
  | none =>
    rw [hkind] at hw
    have : V.fin v = target := hw
    simpa [planMeaning] using this
  | log =>
    rw [hkind] at hw
    have hw' : PlanT.implied .log target (tbl lhsRow (t + p.shift)) = V.fin v := hw.symm
    simpa using plan_log target (tbl lhsRow (t + p.shift)) v hw'
  | diff =>
    rw [hkind] at hw hL
    have hl := hL (by decide)
    subst hl
    obtain ⟨l, d, hl', rfl⟩ := V.add_eq_fin (by simpa [PlanT.implied, Explanatory.plan_Diff] using hw.symm)
    rw [hl'] at hw ⊢
    have := plan_diff d l
    rw [← hw] at this
    simpa using this
  | diffLog =>
    rw [hkind] at hw hL hd
    have hl := hL (by decide)
    subst hl
    obtain ⟨l, ll, hl', hll⟩ := hd
    rw [hl'] at hw ⊢
    simpa using plan_diff_log target l v ll hll hw.symm
  | roc =>
    rw [hkind] at hw hL hd
    have hl := hL (by decide)
    subst hl
    obtain ⟨l, d, hl', rfl⟩ := V.mul_eq_fin (by simpa [PlanT.implied, Explanatory.plan_Roc] using hw.symm)
    rw [hl'] at hw hd ⊢
    have hl0 : l ≠ 0 := fun h0 => hd (by rw [h0])
    have := plan_roc d l hl0
    rw [← hw] at this
    simpa using this
  | pct =>
    rw [hkind] at hw hL hd
    have hl := hL (by decide)
    subst hl
    obtain ⟨l, x, hl', hx⟩ := V.mul_eq_fin (by simpa [PlanT.implied, Explanatory.plan_Pct] using hw.symm)
    obtain ⟨_, y, _, hy⟩ := V.add_eq_fin hx
    obtain ⟨d, _, rfl, _⟩ := V.div_eq_fin hy
    rw [hl'] at hw hd ⊢
    have hl0 : l ≠ 0 := fun h0 => hd (by rw [h0])
    have := plan_pct d l hl0
    rw [← hw] at this
    simpa using this
  | flat =>
    rw [hkind] at hw hL
    have hl := hL (by decide)
    subst hl
    have : V.fin v = tbl lhsRow (t + p.shift) := by simpa [PlanT.implied, Explanatory.plan_Flat] using hw
    rw [← this]
    simp [planMeaning]


/-- non-vacuity: a `diff` point with shift −2 at column 3: the lag is read at column 1 -/
example [CharZero K] :
    detectExogenized (fun r c => if r = 0 ∧ c = 1 then V.fin (4 : K) else if r = 2 ∧ c = 3 then V.fin (1/2) else V.nan)
      0 ⟨.diff, false, -2, some 2⟩ 3 = .ok (some (V.fin (4 + 1/2))) := by
  simp [detectExogenized, planLagColumn, pyIndex, PlanT.usesTarget, PlanT.usesLag, PlanT.implied, Explanatory.plan_Diff,
    Explanatory.planUsesTarget_Diff, Explanatory.planUsesLag_Diff, bind, Except.bind, pure, Except.pure, V.isNan]

/-! ## 11. The order conditions are necessary (LHS part) -/

section converse
variable {β : Type}

/-- the part of `DatesEquationsCond` that concerns LHS rows (written at every step, whatever the plan) -/
def DatesEquationsCondLhs (eqs : List (Equation β)) (cols : List Int) : Prop :=
  ∀ p ∈ eqs.zipIdx, ∀ q ∈ eqs.zipIdx, ∀ tok ∈ p.1.depTokens, tok.1 = q.1.lhs →
    ∀ t ∈ cols, t + tok.2 ∈ cols → (tok.2 < 0 ∨ (tok.2 = 0 ∧ q.2 ≤ p.2))

/-- the part of `EquationsDatesCond` that concerns LHS rows -/
def EquationsDatesCondLhs (eqs : List (Equation β)) (cols : List Int) : Prop :=
  ∀ p ∈ eqs.zipIdx, ∀ q ∈ eqs.zipIdx, ∀ tok ∈ p.1.depTokens, tok.1 = q.1.lhs →
    ∀ t ∈ cols, t + tok.2 ∈ cols → (q.2 < p.2 ∨ (q.2 = p.2 ∧ tok.2 ≤ 0))

/-- **Converse for dates×equations.**  If the `dates_equations` schedule is `Admissible` (for whatever plan), the model text
satisfies the closed-form condition on LHS rows: inside the span an LHS is read only at a lag, or in the same period from an
equation that is not later.  (For residual rows the condition is necessary only where the plan has a point — the residual is
not written elsewhere — so the full `DatesEquationsCond` is sufficient but not necessary.) -/
theorem datesEquations_cond_necessary (eqs : List (Equation β)) (plan : Plan) (cols : List Int)
    (hcols : cols.Pairwise (· < ·)) (h : Admissible eqs plan (datesEquations cols eqs.length)) :
    DatesEquationsCondLhs eqs cols := by
  intro p hp q hq tok htok hrow t ht ht'
  have hei := List.mem_zipIdx_iff_getElem?.mp hp
  have hej := List.mem_zipIdx_iff_getElem?.mp hq
  have hi : p.2 < eqs.length := (List.getElem?_eq_some_iff.mp hei).1
  have hj : q.2 < eqs.length := (List.getElem?_eq_some_iff.mp hej).1
  by_cases hgood : tok.2 < 0 ∨ (tok.2 = 0 ∧ q.2 ≤ p.2)
  · exact hgood
  · exfalso
    have hord : t < t + tok.2 ∨ (t = t + tok.2 ∧ p.2 < q.2) := by omega
    exact clobber_of_token eqs plan p.2 q.2 p.1 q.1 t tok hei hej htok hrow
      (of_pairwise_datesEquations _ cols _ hcols h.2 t ht (t + tok.2) ht' p.2 q.2 hi hj hord)

/-- **Converse for equations×dates.** -/
theorem equationsDates_cond_necessary (eqs : List (Equation β)) (plan : Plan) (cols : List Int)
    (hcols : cols.Pairwise (· < ·)) (h : Admissible eqs plan (equationsDates cols eqs.length)) :
    EquationsDatesCondLhs eqs cols := by
  intro p hp q hq tok htok hrow t ht ht'
  have hei := List.mem_zipIdx_iff_getElem?.mp hp
  have hej := List.mem_zipIdx_iff_getElem?.mp hq
  have hi : p.2 < eqs.length := (List.getElem?_eq_some_iff.mp hei).1
  have hj : q.2 < eqs.length := (List.getElem?_eq_some_iff.mp hej).1
  by_cases hgood : q.2 < p.2 ∨ (q.2 = p.2 ∧ tok.2 ≤ 0)
  · exact hgood
  · exfalso
    have hord : p.2 < q.2 ∨ (p.2 = q.2 ∧ t < t + tok.2) := by omega
    exact clobber_of_token eqs plan p.2 q.2 p.1 q.1 t tok hei hej htok hrow
      (of_pairwise_equationsDates _ cols _ hcols h.2 t ht (t + tok.2) ht' p.2 q.2 hi hj hord)

/-- sufficiency already proved implies the LHS part, so on LHS rows the closed-form condition is **exactly** admissibility's
requirement -/
theorem datesEquationsCond_lhs_of_full (eqs : List (Equation β)) (cols : List Int) (h : DatesEquationsCond eqs cols) :
    DatesEquationsCondLhs eqs cols :=
  fun p hp q hq tok htok hrow t ht ht' => h p hp q hq tok htok (by simp [Equation.writeRows, hrow]) t ht ht'

end converse

/-! ## 12. Assembly of the returned databox (`target_db | out_db`) -/

section merge
variable {κ ν : Type} [DecidableEq κ]

/-- **fresh results override the target, every other name is carried over**: looking a name up in the returned databox gives
the (last) value the simulation produced under that name if there is one, and otherwise what the target held -/
theorem merge_lookup (target out : Dict κ ν) (k : κ) :
    (mergeOutput target out).lookup k = (Dict.last? out k).or (target.lookup k) :=
  Dict.lookup_update target out k

/-- a name the simulation produced (output names are distinct) comes out with the simulated series -/
theorem merge_fresh_wins (target out : Dict κ ν) (k : κ) (v : ν) (hu : out.Pairwise (fun a b => a.1 ≠ b.1))
    (h : out.lookup k = some v) : (mergeOutput target out).lookup k = some v := by
  rw [merge_lookup, Dict.last?_eq_lookup out k hu, h]; rfl

/-- a name the simulation did not produce is carried over from the target unchanged -/
theorem merge_carries_over (target out : Dict κ ν) (k : κ) (h : ∀ p ∈ out, p.1 ≠ k) :
    (mergeOutput target out).lookup k = target.lookup k := by
  have : Dict.last? out k = none := by
    induction out with
    | nil => rfl
    | cons p rest ih =>
      rw [Dict.last?, ih (fun q hq => h q (List.mem_cons_of_mem _ hq))]
      simp [h p List.mem_cons_self]
  rw [merge_lookup, this]; rfl

/-- the names of the target come first, in the target's order; new names follow -/
theorem merge_keeps_target_order (target out : Dict κ ν) :
    target.map (·.1) <+: (mergeOutput target out).map (·.1) := Dict.keys_prefix_update target out

/-- non-vacuity: target {a:1, x:2}, fresh results {x:9, r:7} -/
example : mergeOutput [("a", 1), ("x", 2)] [("x", 9), ("r", 7)] = [("a", 1), ("x", 9), ("r", 7)] := by decide

end merge

/-- non-vacuity of the converses: the incomparability examples satisfy / violate the LHS conditions as expected -/
example : DatesEquationsCondLhs lagOfLater [1, 2] ∧ ¬ EquationsDatesCondLhs lagOfLater [1, 2] := by
  unfold DatesEquationsCondLhs EquationsDatesCondLhs; decide

/-! ## 13. The model object: re-ordering, re-finalizing, row numbers -/

section object
variable {β : Type}

/-- **Invariant of the object**: after any sequence of operations (re-orderings, copies, simulations) started from a freshly
built object, the object IS the freshly built object for the equations in their current order — in particular the compiled
evaluators carry the row numbers of the numbering in force, never those of an earlier order. -/
theorem object_after_ops (numOf : List (Equation β) → Nat → Nat) (ops : List ObjOp) (src : List (Equation β)) :
    ops.foldl (ModelObj.apply numOf) (ModelObj.finalize numOf src) = ModelObj.finalize numOf (sourceAfter ops src) := by
  induction ops generalizing src with
  | nil => rfl
  | cons op rest ih =>
    simp only [List.foldl_cons, sourceAfter]
    cases op with
    | reorder perm => exact ih (reorderList perm src)
    | copy => exact ih src
    | simulate => exact ih src

variable [Carrier β]

/-- **Simulation after any sequence of re-orderings = simulation of the freshly built model in that order = the name-level
semantics.**  Whatever operations the object went through, simulating with its compiled evaluators on a data array (and plan)
laid out by its numbering gives, through that numbering, exactly the result of the name-level simulation of the equations in
their current order: same errors, same value in every cell.  (`numOf src` must be injective on names, as a row numbering is.) -/
theorem simulate_after_ops (numOf : List (Equation β) → Nat → Nat) (hinj : ∀ src, Function.Injective (numOf src))
    (ops : List ObjOp) (src : List (Equation β)) (plan plan' : Plan) (tbl tbl' : Table β) (sched : List (Int × Nat)) :
    let obj := ops.foldl (ModelObj.apply numOf) (ModelObj.finalize numOf src)
    PlanAgree obj.numbering plan plan' → Agree obj.numbering tbl tbl' →
    RelE obj.numbering (simulateV (sourceAfter ops src) plan tbl sched) (simulateV obj.compiled plan' tbl' sched) := by
  intro obj hp ht
  have hobj : obj = ModelObj.finalize numOf (sourceAfter ops src) := object_after_ops numOf ops src
  rw [hobj] at hp ht ⊢
  exact simulateWith_rename _ (hinj _) _ _ _ plan plan' hp sched tbl tbl' ht

/-- row numbering is immaterial (restated for `simulateV`): the harness's own numbering and irispie's give the same results -/
theorem simulateV_rename (num : Nat → Nat) (hinj : Function.Injective num) (eqs : List (Equation β)) (plan plan' : Plan)
    (hp : PlanAgree num plan plan') (sched : List (Int × Nat)) (tbl tbl' : Table β) (h : Agree num tbl tbl') :
    RelE num (simulateV eqs plan tbl sched) (simulateV (eqs.map (Equation.rename num)) plan' tbl' sched) :=
  simulateWith_rename num hinj _ _ eqs plan plan' hp sched tbl tbl' h

end object

/-- non-vacuity: two re-orderings and a copy of a two-equation object; shifting every row by 10 is an injective numbering -/
example : sourceAfter [.reorder [1, 0], .copy, .simulate, .reorder [1, 0]] lagOfLater = lagOfLater := rfl
example : Function.Injective (fun n : Nat => n + 10) := fun a b h => by simp only at h; omega
example : reorderList [2, 0, 1] ["a", "b", "c"] = ["c", "a", "b"] := by decide

/-! ## 14. Where parameters and residuals come from: the two data-source options -/

section options
variable {β : Type} [Carrier β]

/-- **parameters come from the databox iff `parameters_from_data`** (default: not) — whatever `shocks_from_data` is, and
whatever the databox holds under the parameter's name -/
theorem parameter_cell (pfd sfd : Option Bool) (m d : V β) :
    initialCell .parameter pfd sfd m d = (if pfd = some true then (if d.isNan then m else d) else m) := by
  rcases pfd with _ | _ | _ <;> rfl

/-- **residuals come from the databox iff `shocks_from_data`** (default: they do; missing ones are 0) — whatever
`parameters_from_data` is -/
theorem residual_cell (pfd sfd : Option Bool) (m d : V β) :
    initialCell .residual pfd sfd m d
      = (if sfd = some false then V.fin (Carrier.ofNat 0) else (if d.isNan then V.fin (Carrier.ofNat 0) else d)) := by
  rcases sfd with _ | _ | _ <;> rfl

/-- the two options act independently, and variables are never touched by either -/
theorem data_source_options_independent (pfd pfd' sfd sfd' : Option Bool) (m d : V β) :
    initialCell .parameter pfd sfd m d = initialCell .parameter pfd sfd' m d
      ∧ initialCell .residual pfd sfd m d = initialCell .residual pfd' sfd m d
      ∧ initialCell .variable pfd sfd m d = d := by
  refine ⟨?_, ?_, rfl⟩
  · rw [parameter_cell, parameter_cell]
  · rw [residual_cell, residual_cell]

end options

/-- non-vacuity, all nine combinations of (absent / False / True)²: a databox item 2 named like a parameter whose model value
is 1 is used only under `parameters_from_data=True`; an input residual 3 only unless `shocks_from_data=False` -/
example : ∀ pfd ∈ [none, some false, some true], ∀ sfd ∈ [none, some false, some true],
    (initialCell .parameter pfd sfd (V.fin (1 : ℚ)) (V.fin 2) = V.fin 2 ↔ pfd = some true)
      ∧ (initialCell .residual pfd sfd V.nan (V.fin (3 : ℚ)) = V.fin 3 ↔ sfd ≠ some false) := by
  intro pfd hp sfd hs
  simp only [List.mem_cons, List.not_mem_nil, or_false] at hp hs
  rcases hp with rfl | rfl | rfl <;> rcases hs with rfl | rfl | rfl <;>
    simp [initialCell, resolveFlag, fallbackCell, V.isNan, Explanatory.parametersFromDataDefault,
      Explanatory.shocksFromDataDefault, Carrier.ofNat]

end IrisVerif.C17
