/-
C02 — helper lemmas about `Model/ADSystem.lean`: folds of the matrix assembly, duplicate-freeness of the static map.
-/
import Mathlib.Data.Real.Basic
import IrisVerif.Lemmas.ADMaps
import IrisVerif.Model.ADSystem

namespace IrisVerif.AD

/-! ### assembly folds -/

theorem foldl_assign {α : Type} (td : Nat → Nat → α) (r c : Nat) (v : α) (l : List Entry) (acc : α)
    (hall : ∀ en ∈ l, en.lhsRow = r ∧ en.lhsCol = c → td en.rhsRow en.rhsCol = v) :
    l.foldl (fun acc en => if en.lhsRow = r ∧ en.lhsCol = c then td en.rhsRow en.rhsCol else acc) acc
      = if (∃ en ∈ l, en.lhsRow = r ∧ en.lhsCol = c) then v else acc := by
  induction l generalizing acc with
  | nil => simp
  | cons x xs ih =>
    simp only [List.foldl_cons]
    rw [ih _ (fun en h => hall en (List.mem_cons_of_mem _ h))]
    by_cases hx : x.lhsRow = r ∧ x.lhsCol = c
    · have hv := hall x (by simp) hx
      simp [hx, hv]
    · simp [hx]

theorem foldl_sum (td : Nat → Nat → ℝ) (r c : Nat) (l : List Entry) (acc : ℝ) :
    l.foldl (fun acc en => if en.lhsRow = r ∧ en.lhsCol = c then acc + td en.rhsRow en.rhsCol else acc) acc
      = acc + ((l.filter (fun en => decide (en.lhsRow = r ∧ en.lhsCol = c))).map (fun en => td en.rhsRow en.rhsCol)).sum := by
  induction l generalizing acc with
  | nil => simp
  | cons x xs ih =>
    simp only [List.foldl_cons]
    rw [ih]
    by_cases hx : x.lhsRow = r ∧ x.lhsCol = c
    · simp [hx, List.filter_cons, add_assoc]
    · simp [hx, List.filter_cons]

/-! ### the static map has no repeated entry -/

theorem rawMapAux_rhsRow_ge (cols : List (Option Token)) (row r : Nat) (wrt : List Token) (en : Entry)
    (h : en ∈ rawMapAux cols row r wrt) : r ≤ en.rhsRow ∧ en.lhsRow = row := by
  obtain ⟨k, _, _, rfl⟩ := rawMapAux_mem' cols row r wrt en h
  exact ⟨by simp, rfl⟩

theorem rawMapAux_nodup (cols : List (Option Token)) (row r : Nat) (wrt : List Token) :
    (rawMapAux cols row r wrt).Nodup := by
  induction wrt generalizing r with
  | nil => simp [rawMapAux]
  | cons t ts ih =>
    simp only [rawMapAux]
    split
    · refine List.nodup_cons.mpr ⟨?_, ih (r + 1)⟩
      intro hm
      have := (rawMapAux_rhsRow_ge cols row (r + 1) ts _ hm).1
      simp only at this
      omega
    · exact ih (r + 1)

theorem staticMapAux_lhsRow_ge (cols : List (Option Token)) (row : Nat) (eqs : List (List Token × Nat)) (en : Entry)
    (h : en ∈ staticMapAux cols row eqs) : row ≤ en.lhsRow := by
  obtain ⟨i, hi, h1⟩ := staticMapAux_mem cols row eqs en h
  have := (rawMapAux_rhsRow_ge cols (row + i) _ _ en h1).2
  omega

theorem staticMapAux_nodup (cols : List (Option Token)) (row : Nat) (eqs : List (List Token × Nat)) :
    (staticMapAux cols row eqs).Nodup := by
  induction eqs generalizing row with
  | nil => simp [staticMapAux]
  | cons p rest ih =>
    obtain ⟨wrt, off⟩ := p
    simp only [staticMapAux]
    rw [List.nodup_append]
    refine ⟨rawMapAux_nodup _ _ _ _, ih (row + 1), ?_⟩
    intro a ha b hb hab
    subst hab
    have h1 := (rawMapAux_rhsRow_ge cols row off wrt a ha).2
    have h2 := staticMapAux_lhsRow_ge cols (row + 1) rest a hb
    omega

/-! ### stacked rows of uneven blocks -/

theorem flatMap_getElem_offset {β γ : Type} (f : β → List γ) (l : List β) (i : Nat) (hi : i < l.length) (k : Nat)
    (hk : k < (f l[i]).length) :
    (l.flatMap f)[((l.take i).map (fun b => (f b).length)).sum + k]? = (f l[i])[k]? := by
  induction l generalizing i with
  | nil => simp at hi
  | cons b bs ih =>
    cases i with
    | zero =>
      simp only [List.flatMap_cons, List.take_zero, List.map_nil, List.sum_nil, Nat.zero_add, List.getElem_cons_zero] at hk ⊢
      rw [List.getElem?_append_left hk]
    | succ i =>
      simp only [List.flatMap_cons, List.take_succ_cons, List.map_cons, List.sum_cons, List.getElem_cons_succ] at hk ⊢
      rw [List.getElem?_append_right (by omega)]
      have e : (f b).length + ((bs.take i).map (fun b => (f b).length)).sum + k - (f b).length
          = ((bs.take i).map (fun b => (f b).length)).sum + k := by omega
      rw [e]
      exact ih i (by simpa using hi) hk

theorem mapM_id_eq_some {β : Type} (l : List (Option β)) (col : List β) (h : l.mapM id = some col) : l = col.map some := by
  induction l generalizing col with
  | nil => simp at h; subst h; rfl
  | cons a as ih =>
    cases a with
    | none => simp [List.mapM_cons] at h
    | some v =>
      simp only [List.mapM_cons, id, Option.pure_def, Option.bind_eq_bind, Option.bind_some] at h
      cases hr : as.mapM id with
      | none => rw [hr] at h; simp at h
      | some rest =>
        rw [hr] at h
        simp at h
        subst h
        rw [ih rest hr]
        rfl

end IrisVerif.AD
