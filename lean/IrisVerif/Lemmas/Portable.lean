/-
Step lemmas for the whole-record portable round trip (C20): how the stages of `fromPortable` act on what `toPortable`
produces.  No Mathlib.
-/
import IrisVerif.Model.Portable

namespace IrisVerif.Portable
open IrisVerif.Heap

/-- normal form after a round trip: attributes `None` become the empty set -/
def normQ (q : Quantity) : Quantity := { q with attrs := some (q.attrs.getD []) }
def normE (e : Equation) : Equation := { e with attrs := some (e.attrs.getD []) }

/-- what the round trip does to a quantity of the model: std quantities are re-created (identical when they were derived
from the shocks), all the others get normalised attributes -/
def normB (q : Quantity) : Quantity := if q.kind.isStd then q else normQ q

@[simp] theorem normQ_kind (q : Quantity) : (normQ q).kind = q.kind := rfl
@[simp] theorem normQ_name (q : Quantity) : (normQ q).name = q.name := rfl
@[simp] theorem normB_kind (q : Quantity) : (normB q).kind = q.kind := by unfold normB; split <;> rfl
@[simp] theorem normB_name (q : Quantity) : (normB q).name = q.name := by unfold normB; split <;> rfl
@[simp] theorem normB_logly (q : Quantity) : (normB q).logly = q.logly := by unfold normB; split <;> rfl
@[simp] theorem normB_desc (q : Quantity) : (normB q).desc = q.desc := by unfold normB; split <;> rfl
@[simp] theorem normE_kind (e : Equation) : (normE e).kind = e.kind := rfl

theorem flatMap_congr' {α β : Type} {l : List α} {f g : α → List β} (h : ∀ a, a ∈ l → f a = g a) :
    l.flatMap f = l.flatMap g := by
  induction l with
  | nil => rfl
  | cons a l ih =>
    simp only [List.flatMap_cons]
    rw [h a (by simp), ih (fun b hb => h b (by simp [hb]))]

theorem filter_map_comm {α β : Type} (f : α → β) (p : β → Bool) (p' : α → Bool) (h : ∀ x, p (f x) = p' x) :
    ∀ (m : List α), (m.map f).filter p = (m.filter p').map f := by
  intro m
  induction m with
  | nil => rfl
  | cons a m ih =>
    simp only [List.map_cons, List.filter_cons, h a]
    split
    · simp [ih]
    · exact ih

/-! ### grouping by kind commutes with kind-preserving maps -/

theorem groupQ_map (g : Quantity → Quantity) (hg : ∀ q, (g q).kind = q.kind) (order : List QKind) (l : List Quantity) :
    groupQ order (l.map g) = (groupQ order l).map g := by
  unfold groupQ
  rw [List.map_flatMap]
  apply flatMap_congr'
  intro k _
  exact filter_map_comm g _ _ (fun x => by simp [hg x]) l

theorem groupE_map_normE (l : List Equation) : groupE (l.map normE) = (groupE l).map normE := by
  unfold groupE
  rw [List.map_flatMap]
  apply flatMap_congr'
  intro k _
  exact filter_map_comm normE _ _ (fun x => rfl) l

theorem countQ_map (g : Quantity → Quantity) (hg : ∀ q, (g q).kind = q.kind) (l : List Quantity) (k : QKind) :
    countQ (l.map g) k = countQ l k := by
  unfold countQ
  rw [filter_map_comm g _ (fun q => decide (q.kind = k)) (fun x => by simp [hg x]) l, List.length_map]

theorem countE_map_normE (l : List Equation) (k : EKind) : countE (l.map normE) k = countE l k := by
  unfold countE
  rw [filter_map_comm normE _ (fun e => decide (e.kind = k)) (fun x => rfl) l, List.length_map]

/-! ### std parameters and anticipated shocks only look at names, kinds and descriptions -/

theorem stdOf_normQ (k : QKind) (q : Quantity) : stdOf k (normQ q) = stdOf k q := rfl

theorem stdsOf_map_normQ (fl : Flags) (l : List Quantity) : stdsOf fl (l.map normQ) = stdsOf fl l := by
  unfold stdsOf
  split
  · rfl
  · rw [filter_map_comm normQ _ (fun q => decide (q.kind = .transShock)) (fun x => rfl) l,
        filter_map_comm normQ _ (fun q => decide (q.kind = .measShock)) (fun x => rfl) l]
    simp only [List.map_map]
    rfl

theorem missingAnt_map_normQ (l : List Quantity) : missingAnt (l.map normQ) = (missingAnt l).map normQ := by
  unfold missingAnt
  rw [filter_map_comm normQ _ (fun q => decide (q.kind = .transShock)) (fun x => rfl) l]
  apply filter_map_comm
  intro x
  simp [List.any_map, Function.comp_def]

theorem mem_stdsOf_kind {fl : Flags} {l : List Quantity} {q : Quantity} (h : q ∈ stdsOf fl l) :
    q.kind = .transStd ∨ q.kind = .measStd := by
  unfold stdsOf at h
  split at h
  · cases h
  · simp only [List.mem_append, List.mem_map] at h
    rcases h with ⟨x, _, rfl⟩ | ⟨x, _, rfl⟩
    · exact Or.inl rfl
    · exact Or.inr rfl

theorem stds_filter_nil (fl : Flags) (l : List Quantity) (k : QKind) (h1 : k ≠ .transStd) (h2 : k ≠ .measStd) :
    (stdsOf fl l).filter (fun q => q.kind = k) = [] := by
  apply List.filter_eq_nil_iff.mpr
  intro q hq
  simp only [decide_eq_true_eq]
  intro hk
  rcases mem_stdsOf_kind hq with h | h
  · exact h1 (hk.symm.trans h)
  · exact h2 (hk.symm.trans h)

theorem stds_filter_std (fl : Flags) (l : List Quantity) :
    (stdsOf fl l).filter (fun q => q.kind = .transStd) ++ (stdsOf fl l).filter (fun q => q.kind = .measStd) = stdsOf fl l := by
  unfold stdsOf
  split
  · rfl
  · have a1 : ((l.filter (fun q => q.kind = .transShock)).map (stdOf .transStd)).filter (fun q => q.kind = .transStd)
        = (l.filter (fun q => q.kind = .transShock)).map (stdOf .transStd) := by
      apply List.filter_eq_self.mpr
      intro q hq
      simp only [List.mem_map] at hq
      obtain ⟨x, _, rfl⟩ := hq
      simp [stdOf]
    have a2 : ((l.filter (fun q => q.kind = .measShock)).map (stdOf .measStd)).filter (fun q => q.kind = .transStd) = [] := by
      apply List.filter_eq_nil_iff.mpr
      intro q hq
      simp only [List.mem_map] at hq
      obtain ⟨x, _, rfl⟩ := hq
      simp [stdOf]
    have a3 : ((l.filter (fun q => q.kind = .transShock)).map (stdOf .transStd)).filter (fun q => q.kind = .measStd) = [] := by
      apply List.filter_eq_nil_iff.mpr
      intro q hq
      simp only [List.mem_map] at hq
      obtain ⟨x, _, rfl⟩ := hq
      simp [stdOf]
    have a4 : ((l.filter (fun q => q.kind = .measShock)).map (stdOf .measStd)).filter (fun q => q.kind = .measStd)
        = (l.filter (fun q => q.kind = .measShock)).map (stdOf .measStd) := by
      apply List.filter_eq_self.mpr
      intro q hq
      simp only [List.mem_map] at hq
      obtain ⟨x, _, rfl⟩ := hq
      simp [stdOf]
    simp only [List.filter_append, a1, a2, a3, a4, List.append_nil, List.nil_append]

theorem base_filter_std_nil {base : List Quantity} (h : ∀ q, q ∈ base → q.kind.isStd = false) (k : QKind)
    (hk : k.isStd = true) : base.filter (fun q => q.kind = k) = [] := by
  apply List.filter_eq_nil_iff.mpr
  intro q hq
  simp only [decide_eq_true_eq]
  intro hh
  have := h q hq
  rw [hh, hk] at this
  cases this

/-- exporting drops exactly the std parameters of a sorted model -/
theorem groupQ_export_base (fl : Flags) (base : List Quantity) (hs : groupQ exportOrder base = base) :
    groupQ exportOrder (base ++ stdsOf fl base) = base := by
  have : groupQ exportOrder (base ++ stdsOf fl base) = groupQ exportOrder base := by
    unfold groupQ
    apply flatMap_congr'
    intro k hk
    simp only [exportOrder, List.mem_cons, List.not_mem_nil, or_false] at hk
    rw [List.filter_append, stds_filter_nil fl base k (by rcases hk with h | h | h | h | h | h | h <;> simp [h])
      (by rcases hk with h | h | h | h | h | h | h <;> simp [h]), List.append_nil]
  rw [this, hs]

/-- a model whose non-std quantities are in kind order, followed by its derived stds, is in kind order as a whole -/
theorem groupQ_full_sorted (fl : Flags) (base : List Quantity) (hs : groupQ exportOrder base = base)
    (hn : ∀ q, q ∈ base → q.kind.isStd = false) :
    groupQ fullOrder (base ++ stdsOf fl base) = base ++ stdsOf fl base := by
  have hfull : fullOrder = exportOrder ++ [.transStd, .measStd] := rfl
  unfold groupQ at hs ⊢
  rw [hfull, List.flatMap_append]
  have e1 := groupQ_export_base fl base hs
  unfold groupQ at e1
  rw [e1]
  simp only [List.flatMap_cons, List.flatMap_nil, List.append_nil, List.filter_append,
    base_filter_std_nil hn .transStd rfl, base_filter_std_nil hn .measStd rfl, List.nil_append]
  rw [stds_filter_std]

/-- the quantities rebuilt by `from_source` from the decoded list are the model's own, normalised -/
theorem sourceQuantities_roundtrip (fl : Flags) (base : List Quantity) (hant : missingAnt base = [])
    (hn : ∀ q, q ∈ base → q.kind.isStd = false) :
    sourceQuantities fl (base.map normQ) = (base ++ stdsOf fl base).map normB := by
  unfold sourceQuantities
  rw [missingAnt_map_normQ, hant]
  simp only [List.map_nil, List.append_nil, stdsOf_map_normQ, List.map_append]
  congr 1
  · apply List.map_congr_left
    intro q hq
    unfold normB
    simp [hn q hq]
  · have : (stdsOf fl base).map normB = (stdsOf fl base).map id := by
      apply List.map_congr_left
      intro q hq
      unfold normB
      rcases mem_stdsOf_kind hq with h | h <;> simp [h, QKind.isStd]
    rw [this, List.map_id]

theorem sourceEquations_roundtrip (subst : List Quantity → Equation → Equation) (base : List Quantity)
    (hant : missingAnt base = []) (es : List Equation) : sourceEquations subst (base.map normQ) es = es := by
  unfold sourceEquations
  rw [missingAnt_map_normQ, hant]
  rfl

/-! ### importing the values of one variant -/

theorem zipWith_fst : ∀ (lv cv init : List Val), init.length = lv.length → cv.length = lv.length →
    List.zipWith pickFst init ((lv.zip cv).map some) = lv := by
  intro lv
  induction lv with
  | nil => intro cv init _ _; simp
  | cons a as ih =>
    intro cv init hi hc
    cases cv with
    | nil => simp at hc
    | cons b bs =>
      cases init with
      | nil => simp at hi
      | cons i is =>
        simp only [List.length_cons, Nat.add_right_cancel_iff] at hi hc
        simp only [List.zip_cons_cons, List.map_cons, List.zipWith_cons_cons, pickFst, pickSnd]
        rw [ih bs is hi hc]

theorem zipWith_snd : ∀ (lv cv init : List Val), init.length = lv.length → cv.length = lv.length →
    List.zipWith pickSnd init ((lv.zip cv).map some) = cv := by
  intro lv
  induction lv with
  | nil =>
    intro cv init _ hc
    cases cv with
    | nil => simp
    | cons b bs => simp at hc
  | cons a as ih =>
    intro cv init hi hc
    cases cv with
    | nil => simp at hc
    | cons b bs =>
      cases init with
      | nil => simp at hi
      | cons i is =>
        simp only [List.length_cons, Nat.add_right_cancel_iff] at hi hc
        simp only [List.zip_cons_cons, List.map_cons, List.zipWith_cons_cons, pickFst, pickSnd]
        rw [ih bs is hi hc]

theorem enforceLevels_map (g : Quantity → Quantity) (hg : ∀ q, (g q).kind = q.kind) :
    ∀ (l : List Quantity) (x : List Val), enforceLevels (l.map g) x = enforceLevels l x := by
  intro l
  induction l with
  | nil => intro x; rfl
  | cons q l ih =>
    intro x
    cases x with
    | nil => rfl
    | cons a as =>
      have := ih as
      unfold enforceLevels at this ⊢
      simp only [List.map_cons, List.zipWith_cons_cons, hg q, this]

theorem enforceChanges_map (g : Quantity → Quantity) (hg : ∀ q, (g q).kind = q.kind) :
    ∀ (l : List Quantity) (x : List Val), enforceChanges (l.map g) x = enforceChanges l x := by
  intro l
  induction l with
  | nil => intro x; rfl
  | cons q l ih =>
    intro x
    cases x with
    | nil => rfl
    | cons a as =>
      have := ih as
      unfold enforceChanges at this ⊢
      simp only [List.map_cons, List.zipWith_cons_cons, hg q, this]

theorem names_map_normB (l : List Quantity) : (l.map normB).map (·.name) = l.map (·.name) := by
  rw [List.map_map]
  apply List.map_congr_left
  intro q _
  simp

end IrisVerif.Portable
