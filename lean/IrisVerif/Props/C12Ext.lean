/-
C12, deepening round 4 — theorems about parts of the conversions that the first rounds left to the Python oracles:
extensionality of the trimmed representation (so that comparing `(start, rows)` is comparing maps) and structural round
trips; variant locality of `aggregate` / `disaggregate` (each output column is a function of its own input column only);
keyword resolution (`discard_missing` against the legacy `remove_missing`, `method or "mean"`); a memoised per-variant
loop refines the plain loop exactly when the memo key determines the stored value (and the `rho`-only key does not);
the DAILY finding C12-a stated clause by clause on the model of the current code.
-/
import IrisVerif.Props.C12

set_option linter.unusedSimpArgs false
set_option linter.unusedVariables false

namespace IrisVerif.C12
open IrisVerif.Dates IrisVerif.Gen.Dates IrisVerif.Dates.C09 IrisVerif.Conv

/-! ## Extensionality of the trimmed representation -/

/-- every stored row has one entry per variant -/
def WellShaped (s : Ser) : Prop := ∀ r ∈ s.rows, r.length = s.nv

/-- what `Series.trim` guarantees: no rows at all, or a first and a last row that each hold an observation -/
def Trimmed (s : Ser) : Prop :=
  s.rows = [] ∨ (∃ r, s.rows.head? = some r ∧ rowMissing r = false) ∧ (∃ r, s.rows.getLast? = some r ∧ rowMissing r = false)

theorem exists_obs_of_not_missing (r : List Val) (h : rowMissing r = false) : ∃ v, v < r.length ∧ (r[v]?).join ≠ none := by
  unfold rowMissing at h
  have : ¬ (∀ x ∈ r, Option.isNone x = true) := by
    intro hall; rw [← List.all_eq_true] at hall; rw [hall] at h; cases h
  have : ∃ x ∈ r, Option.isNone x ≠ true := by
    apply Classical.byContradiction; intro hc; apply this; intro x hx
    apply Classical.byContradiction; intro hn; exact hc ⟨x, hx, hn⟩
  obtain ⟨x, hx, hn⟩ := this
  obtain ⟨v, hv, rfl⟩ := List.getElem_of_mem hx
  refine ⟨v, hv, ?_⟩
  rw [List.getElem?_eq_getElem hv]
  cases hxv : r[v] with
  | none => rw [hxv] at hn; simp at hn
  | some q => simp

theorem get_at_row (s : Ser) (v i : Nat) (r : List Val) (h : s.rows[i]? = some r) :
    s.get v (s.start + i) = (r[v]?).join := by
  rw [Ser.get_eq]
  have : ¬ (s.start + (i : Int) < s.start) := by omega
  have e : (s.start + (i : Int) - s.start).toNat = i := by omega
  simp [this, e, rowsGet, h]

/-- a trimmed non-empty series has an observation in its first period and one in its last -/
theorem Trimmed.ends (s : Ser) (hw : WellShaped s) (ht : Trimmed s) (hne : s.rows ≠ []) :
    (∃ v, v < s.nv ∧ s.get v s.start ≠ none) ∧ (∃ v, v < s.nv ∧ s.get v s.endSerial ≠ none) := by
  rcases ht with h | ⟨⟨r0, h0, m0⟩, ⟨r1, h1, m1⟩⟩
  · exact absurd h hne
  constructor
  · obtain ⟨v, hv, ho⟩ := exists_obs_of_not_missing r0 m0
    have hmem : r0 ∈ s.rows := List.mem_of_head? h0
    refine ⟨v, by rw [← hw r0 hmem]; exact hv, ?_⟩
    have hr : s.rows[0]? = some r0 := by rw [← List.head?_eq_getElem?]; exact h0
    have := get_at_row s v 0 r0 hr
    simp at this; rw [this]; exact ho
  · obtain ⟨v, hv, ho⟩ := exists_obs_of_not_missing r1 m1
    have hmem : r1 ∈ s.rows := List.mem_of_getLast? h1
    refine ⟨v, by rw [← hw r1 hmem]; exact hv, ?_⟩
    have hlen : 0 < s.rows.length := by cases h : s.rows <;> simp_all
    have hr : s.rows[s.rows.length - 1]? = some r1 := by rw [← List.getLast?_eq_getElem?]; exact h1
    have := get_at_row s v (s.rows.length - 1) r1 hr
    have e : s.start + ((s.rows.length - 1 : Nat) : Int) = s.endSerial := by unfold Ser.endSerial; omega
    rw [e] at this; rw [this]; exact ho

theorem get_ne_none_range (s : Ser) (v : Nat) (t : Int) (h : s.get v t ≠ none) : s.start ≤ t ∧ t ≤ s.endSerial := by
  apply Classical.byContradiction
  intro hc
  apply h
  apply Ser.get_outside
  omega

/-- **Extensionality of the trimmed representation.** Two trimmed, well-shaped series with the same number of variants that
agree as period-indexed maps have the same rows and — unless both are empty — the same start: comparing `(start, rows)`,
as the harness does, is comparing the maps. -/
theorem trimmed_ext (s s' : Ser) (hnv : s.nv = s'.nv) (hw : WellShaped s) (hw' : WellShaped s')
    (ht : Trimmed s) (ht' : Trimmed s') (hget : ∀ v, v < s.nv → ∀ t, s.get v t = s'.get v t) :
    s.rows = s'.rows ∧ (s.rows ≠ [] → s.start = s'.start) := by
  by_cases he : s.rows = []
  · by_cases he' : s'.rows = []
    · exact ⟨by rw [he, he'], fun h => absurd he h⟩
    · obtain ⟨⟨v, hv, ho⟩, _⟩ := Trimmed.ends s' hw' ht' he'
      exfalso; apply ho
      rw [← hget v (by omega)]
      simp [Ser.get_eq, he, rowsGet]
  · by_cases he' : s'.rows = []
    · obtain ⟨⟨v, hv, ho⟩, _⟩ := Trimmed.ends s hw ht he
      exfalso; apply ho
      rw [hget v hv]
      simp [Ser.get_eq, he', rowsGet]
    · obtain ⟨⟨v0, hv0, ho0⟩, ⟨v1, hv1, ho1⟩⟩ := Trimmed.ends s hw ht he
      obtain ⟨⟨w0, hw0, po0⟩, ⟨w1, hw1, po1⟩⟩ := Trimmed.ends s' hw' ht' he'
      have a1 := get_ne_none_range s' v0 s.start (by rw [← hget v0 hv0]; exact ho0)
      have a2 := get_ne_none_range s' v1 s.endSerial (by rw [← hget v1 hv1]; exact ho1)
      have b1 := get_ne_none_range s w0 s'.start (by rw [hget w0 (by omega)]; exact po0)
      have b2 := get_ne_none_range s w1 s'.endSerial (by rw [hget w1 (by omega)]; exact po1)
      have hstart : s.start = s'.start := by omega
      have hlen : s.rows.length = s'.rows.length := by unfold Ser.endSerial at *; omega
      refine ⟨?_, fun _ => hstart⟩
      apply List.ext_getElem hlen
      intro i h1 h2
      have hr : s.rows[i]? = some s.rows[i] := List.getElem?_eq_getElem h1
      have hr' : s'.rows[i]? = some s'.rows[i] := List.getElem?_eq_getElem h2
      have l1 : (s.rows[i]).length = s.nv := hw _ (List.getElem_mem h1)
      have l2 : (s'.rows[i]).length = s'.nv := hw' _ (List.getElem_mem h2)
      apply List.ext_getElem (by omega)
      intro v g1 g2
      have e1 := get_at_row s v i _ hr
      have e2 := get_at_row s' v i _ hr'
      have e3 : s.rows[i][v]?.join = s'.rows[i][v]?.join := by
        rw [← e1, ← e2, hget v (by omega), hstart]
      rw [List.getElem?_eq_getElem g1, List.getElem?_eq_getElem g2] at e3
      simpa using e3


/-! ### `Series.trim` yields the trimmed representation -/

theorem rtrimRows_mem (rows : List (List Val)) (r : List Val) (h : r ∈ rtrimRows rows) : r ∈ rows := by
  induction rows with
  | nil => simp [rtrimRows] at h
  | cons x xs ih =>
    unfold rtrimRows at h
    split at h
    · split at h
      · cases h
      · simp at h; simp [h]
    · rename_i y ys hys
      rcases List.mem_cons.1 h with h | h
      · simp [h]
      · exact List.mem_cons_of_mem _ (ih (by rw [hys]; exact h))

theorem rtrimRows_spec (rows : List (List Val)) :
    rtrimRows rows = [] ∨ ((rtrimRows rows).head? = rows.head? ∧ ∃ r, (rtrimRows rows).getLast? = some r ∧ rowMissing r = false) := by
  induction rows with
  | nil => left; rfl
  | cons x xs ih =>
    unfold rtrimRows
    split
    · split
      · left; rfl
      · rename_i hx; right; exact ⟨rfl, x, rfl, by simpa using hx⟩
    · rename_i y ys hys
      right
      refine ⟨rfl, ?_⟩
      rcases ih with h | ⟨_, r, hr, hm⟩
      · rw [hys] at h; cases h
      · rw [hys] at hr
        exact ⟨r, by rw [List.getLast?_cons_cons]; exact hr, hm⟩

theorem leadMissing_head (rows : List (List Val)) (r : List Val) (h : (rows.drop (leadMissing rows)).head? = some r) :
    rowMissing r = false := by
  induction rows with
  | nil => simp [leadMissing] at h
  | cons x xs ih =>
    unfold leadMissing at h
    split at h
    · exact ih (by simpa using h)
    · rename_i hx
      simp at h; subst h; simpa using hx

theorem trim_trimmed (s : Ser) : Trimmed s.trim := by
  unfold Trimmed
  simp only [Ser.trim]
  rcases rtrimRows_spec (s.rows.drop (leadMissing s.rows)) with h | ⟨hh, hl⟩
  · left; exact h
  · right
    refine ⟨?_, hl⟩
    cases hd : (rtrimRows (s.rows.drop (leadMissing s.rows))).head? with
    | none =>
      obtain ⟨r, hr, _⟩ := hl
      have : rtrimRows (s.rows.drop (leadMissing s.rows)) = [] := List.head?_eq_none_iff.1 hd
      rw [this] at hr; cases hr
    | some r => exact ⟨r, rfl, leadMissing_head s.rows r (by rw [← hh]; exact hd)⟩

theorem trim_wellShaped (s : Ser) (h : WellShaped s) : WellShaped s.trim := by
  intro r hr
  simp only [Ser.trim] at hr ⊢
  exact h r (List.mem_of_mem_drop (rtrimRows_mem _ r hr))

/-- what `aggregate` returns is in trimmed, well-shaped form (regular pairs) -/
theorem aggregate_regular_canonical (hi lo : Freq) (hp : (hi, lo) ∈ regularPairs) (s : Ser) (hs : s.freq = hi)
    (hne : s.rows ≠ []) (m : Method) (d : Bool) (r : Ser) (h : aggregate s lo m d none = .ok r) :
    Trimmed r ∧ WellShaped r := by
  have hagg : aggregate s lo m d none = aggregateRegular s lo m d none := by
    simp only [regularPairs, List.mem_cons, Prod.mk.injEq, List.mem_nil_iff, or_false] at hp
    unfold aggregate
    have : s.rows.isEmpty = false := by cases h : s.rows <;> simp_all
    rcases hp with ⟨rfl, rfl⟩ | ⟨rfl, rfl⟩ | ⟨rfl, rfl⟩ | ⟨rfl, rfl⟩ | ⟨rfl, rfl⟩ | ⟨rfl, rfl⟩ <;>
      simp [this, hs, Freq.value, freqMonthly, freqQuarterly, freqHalfyearly, freqYearly, Freq.isRegular]
  rw [hagg, aggregateRegular_eq hi lo hp s hs m d] at h
  cases h
  refine ⟨trim_trimmed _, trim_wellShaped _ ?_⟩
  intro r hr
  simp only [aggRows, List.mem_map, List.mem_range] at hr
  obtain ⟨j, _, rfl⟩ := hr
  simp

/-- **Round trips, structurally.** For a series in the representation every `Series` object has (trimmed, one entry per
variant in every row, at least one row), the round trip of `aggregate_disaggregate_roundtrip` returns the very same
`(start, rows)` — not merely the same map. -/
theorem aggregate_disaggregate_roundtrip_structural (hi lo : Freq) (hp : (hi, lo) ∈ regularPairs) (s : Ser) (hs : s.freq = lo)
    (hne : s.rows ≠ []) (hw : WellShaped s) (ht : Trimmed s) (dm : DMethod) (m : Method) (hc : (dm, m) ∈ matchingMethods) :
    ∃ d a, disaggregate s hi dm = .ok d ∧ aggregate d lo m false none = .ok a ∧
      a.freq = s.freq ∧ a.nv = s.nv ∧ a.start = s.start ∧ a.rows = s.rows := by
  obtain ⟨⟨v0, hv0, ho0⟩, _⟩ := Trimmed.ends s hw ht hne
  obtain ⟨d, a, hd, ha, haf, han, hget⟩ := aggregate_disaggregate_roundtrip hi lo hp s hs ⟨v0, _, ho0⟩ dm m hc
  obtain ⟨d', hd', hdf, _, _⟩ := disaggregate_placement hi lo hp s hs hne dm
  rw [hd] at hd'; cases hd'
  have hdne : d.rows ≠ [] := by
    intro h
    unfold aggregate at ha
    simp [h, throw, throwThe, MonadExceptOf.throw] at ha
  obtain ⟨hta, hwa⟩ := aggregate_regular_canonical hi lo hp d hdf hdne m false a ha
  obtain ⟨hrows, hstart⟩ := trimmed_ext a s han hwa hw hta ht (fun v hv t => hget v (by omega) t)
  exact ⟨d, a, hd, ha, by rw [haf, hs], han, hstart (by rw [hrows]; exact hne), hrows⟩


/-! ## Variant locality -/

/-- **Variant locality of regular aggregation.** Column `v` of the result is a function of column `v` of the input alone:
two series (possibly with different numbers of variants, starts and lengths) whose columns `v` and `v'` agree as maps give
results whose columns `v` and `v'` agree as maps. -/
theorem aggregate_variant_locality (hi lo : Freq) (hp : (hi, lo) ∈ regularPairs) (s s' : Ser) (hs : s.freq = hi)
    (hs' : s'.freq = hi) (hne : s.rows ≠ []) (hne' : s'.rows ≠ []) (m : Method) (d : Bool) (v v' : Nat)
    (hv : v < s.nv) (hv' : v' < s'.nv) (h : ∀ t, s.get v t = s'.get v' t) :
    ∃ r r', aggregate s lo m d none = .ok r ∧ aggregate s' lo m d none = .ok r' ∧ ∀ T, r.get v T = r'.get v' T := by
  obtain ⟨r, hr, _, _, hg⟩ := aggregate_regular_membership hi lo hp s hs hne m d
  obtain ⟨r', hr', _, _, hg'⟩ := aggregate_regular_membership hi lo hp s' hs' hne' m d
  refine ⟨r, r', hr, hr', fun T => ?_⟩
  rw [hg v hv T, hg' v' hv' T]
  congr 1
  exact List.map_congr_left (fun t _ => h t)

/-- the same for daily → regular aggregation -/
theorem aggregate_daily_variant_locality (lo : Freq) (hlo : lo ∈ regularFreqs) (s s' : Ser) (hs : s.freq = .D)
    (hs' : s'.freq = .D) (hne : s.rows ≠ []) (hne' : s'.rows ≠ []) (m : Method) (d : Bool) (v v' : Nat)
    (hv : v < s.nv) (hv' : v' < s'.nv) (h : ∀ t, s.get v t = s'.get v' t) :
    ∃ r r', aggregate s lo m d none = .ok r ∧ aggregate s' lo m d none = .ok r' ∧ ∀ T, r.get v T = r'.get v' T := by
  obtain ⟨r, hr, _, _, hg⟩ := aggregate_daily_membership lo hlo s hs hne m d
  obtain ⟨r', hr', _, _, hg'⟩ := aggregate_daily_membership lo hlo s' hs' hne' m d
  refine ⟨r, r', hr, hr', fun T => ?_⟩
  rw [hg v hv T, hg' v' hv' T]
  congr 1
  exact List.map_congr_left (fun t _ => h t)

/-- the same for disaggregation (regular targets) -/
theorem disaggregate_variant_locality (hi lo : Freq) (hp : (hi, lo) ∈ regularPairs) (s s' : Ser) (hs : s.freq = lo)
    (hs' : s'.freq = lo) (hne : s.rows ≠ []) (hne' : s'.rows ≠ []) (dm : DMethod) (v v' : Nat)
    (h : ∀ t, s.get v t = s'.get v' t) :
    ∃ r r', disaggregate s hi dm = .ok r ∧ disaggregate s' hi dm = .ok r' ∧ ∀ t, r.get v t = r'.get v' t := by
  obtain ⟨r, hr, _, _, hg⟩ := disaggregate_placement hi lo hp s hs hne dm
  obtain ⟨r', hr', _, _, hg'⟩ := disaggregate_placement hi lo hp s' hs' hne' dm
  refine ⟨r, r', hr, hr', fun t => ?_⟩
  rw [hg v t, hg' v' t, h]

/-! ## Keyword resolution -/

/-- an explicit `discard_missing` — `True` or `False` — wins over the legacy `remove_missing`; the legacy keyword is used
only when `discard_missing` is absent; with neither, missing values are kept; an absent method is "mean" -/
theorem option_resolution (d r : Bool) (m : Method) :
    resolveDiscard (some d) (some r) = d ∧ resolveDiscard (some d) none = d ∧ resolveDiscard none (some r) = r ∧
    resolveDiscard none none = false ∧ resolveMethod none = .mean ∧ resolveMethod (some m) = m := by
  refine ⟨rfl, rfl, rfl, rfl, rfl, rfl⟩

theorem aggregateOpts_default (s : Ser) (tf : Freq) :
    aggregateOpts s tf none none none none = aggregate s tf .mean false none := rfl

/-! ## A memoised per-variant loop -/

/-- the memo invariant: whatever is stored under a key is the value of `f` at every item with that key -/
def MemoSound {α κ β} [DecidableEq κ] (key : α → κ) (f : α → β) (memo : List (κ × β)) : Prop :=
  ∀ k b, memo.lookup k = some b → ∀ a, key a = k → f a = b

/-- **A memoised loop is the plain loop** as soon as the key determines the value (`key a = key a' → f a = f a'`) and the
memo it starts from is sound; in particular from the empty memo. The output for item `k` is then `f` of item `k` alone —
a pure function of that variant's own data, whatever was solved before. -/
theorem memoRun_eq_map {α κ β} [DecidableEq κ] (key : α → κ) (f : α → β) (hkey : ∀ a a', key a = key a' → f a = f a')
    (memo : List (κ × β)) (hm : MemoSound key f memo) (xs : List α) : memoRun key f memo xs = xs.map f := by
  induction xs generalizing memo with
  | nil => rfl
  | cons a as ih =>
    unfold memoRun
    cases hl : memo.lookup (key a) with
    | some b =>
      simp only [List.map_cons]
      rw [ih memo hm, hm (key a) b hl a rfl]
    | none =>
      simp only [List.map_cons]
      rw [ih]
      intro k b hb a' ha'
      simp only [List.lookup_cons] at hb
      split at hb
      · rename_i heq
        cases hb
        have : k = key a := by simpa using heq
        exact hkey a' a (by rw [ha', this])
      · exact hm k b hb a' ha'

theorem memoSound_nil {α κ β} [DecidableEq κ] (key : α → κ) (f : α → β) : MemoSound key f [] := by
  intro k b h; cases h

/-- the basic system matrices are a function of `basicKey = (nHigh, rho, const, sigma)`: memoising them on that key across
the data variants changes nothing -/
theorem aripBasic_memo_sound (vs : List AripIn) :
    memoRun AripIn.basicKey aripBasic [] vs = vs.map aripBasic := by
  apply memoRun_eq_map _ _ _ _ (memoSound_nil _ _)
  intro a a' h
  simp only [AripIn.basicKey, Prod.mk.injEq] at h
  obtain ⟨h1, h2, h3, h4⟩ := h
  simp [aripBasic, h1, h2, h3, h4]

/-- … whereas a key that forgets the drift constant is not enough (seeded changes C12-r3-1 / r4-2): two "diff" variants with
`rho = 1` and different constants get the first variant's constant column -/
theorem aripBasic_memo_rho_only_unsound :
    let a : AripIn := ⟨1, 2, 1, 1, [1, 1], [1, 1], [some 4], [none, none]⟩
    let b : AripIn := ⟨1, 2, 1, 3, [1, 1], [1, 1], [some 8], [none, none]⟩
    (memoRun (fun x : AripIn => x.rho) (fun x => (aripBasic x).2.data) [] [a, b])
      ≠ [a, b].map (fun x => (aripBasic x).2.data) := by
  decide +kernel

/-- every variant is solved by its own system: entry `k` of `aripSolveAll` is `aripSolve` of variant `k` -/
theorem aripSolveAll_local (vs : List AripIn) (kkt : Bool) (k : Nat) (h : k < vs.length) :
    (aripSolveAll vs kkt)[k]'(by simpa [aripSolveAll] using h) = aripSolve vs[k] kkt := by
  simp [aripSolveAll]

/-! ## Finding C12-a, clause by clause (model of the current code) -/

/-- placement clause: with a DAILY target the value of period `T` is *not* confined to the days of `T`
(January 31st 2020 carries February's value), -/
example : (disaggregate ⟨.M, 1, 24240, [[some 1], [some 2], [some 3]]⟩ .D .flat).map (fun r => r.get 0 737455) = .ok (some 2) ∧
    refrequent ⟨.D, 737455⟩ .M .start = .ok ⟨.M, 24240⟩ := disaggregate_daily_misplaces

/-- coverage clause: the last day of the last period receives nothing (March 31st 2020 = ordinal 737515 is missing), -/
theorem disaggregate_daily_leaves_days_uncovered :
    (disaggregate ⟨.M, 1, 24240, [[some 1], [some 2], [some 3]]⟩ .D .flat).map (fun r => (r.get 0 737515, r.rows.length))
      = .ok (none, 90) ∧ refrequent ⟨.D, 737515⟩ .M .start = .ok ⟨.M, 24242⟩ := by
  decide +kernel

/-- `first` clause: the value of February lands on January 31st instead of February 1st, -/
theorem disaggregate_daily_first_misplaced :
    (disaggregate ⟨.M, 1, 24240, [[some 1], [some 2], [some 3]]⟩ .D .first).map (fun r => (r.get 0 737455, r.get 0 737456))
      = .ok (some 2, none) := by
  decide +kernel

/-- round-trip clause: `aggregate mean (disaggregate flat s DAILY) ≠ s` — January comes back as `32/31`. -/
theorem disaggregate_daily_roundtrip_fails :
    ((disaggregate ⟨.M, 1, 24240, [[some 1], [some 2], [some 3]]⟩ .D .flat).bind fun d => aggregate d .M .mean false none).map
      (fun r => r.get 0 24240) = .ok (some (32 / 31)) := by
  decide +kernel

/-! ## Non-vacuity -/

example : WellShaped ⟨.Q, 2, 8081, [[some 1, none], [none, none], [none, some 3]]⟩ := by
  intro r hr; simp at hr; rcases hr with rfl | rfl | rfl <;> rfl
example : Trimmed ⟨.Q, 2, 8081, [[some 1, none], [none, none], [none, some 3]]⟩ := by
  right; exact ⟨⟨_, rfl, by decide⟩, ⟨_, rfl, by decide⟩⟩
example : (Ser.trim ⟨.Q, 1, 8080, [[none], [some 1], [none]]⟩) = ⟨.Q, 1, 8081, [[some 1]]⟩ := by decide +kernel
example : memoRun (fun x : Nat => x % 2) (fun x => x % 2 + 10) [] [1, 2, 3, 4] = [11, 10, 11, 10] := by decide
example : (aggregateOpts ⟨.Q, 1, 8081, [[none], [some 2], [some 3], [some 4]]⟩ .Y none none (some true) none).map (fun r => r.rows)
    = .ok [[some (5 / 2)], [some 4]] := by decide +kernel
example : (aggregateOpts ⟨.Q, 1, 8081, [[none], [some 2], [some 3], [some 4]]⟩ .Y (some .sum) (some false) (some true) none).map
    (fun r => r.rows) = .ok [] := by decide +kernel

/-! ## Non-finite observations (round 5) -/

theorem foldl_hom {α β} (g : α → β) (op : α → α → α) (op' : β → β → β) (h : ∀ a b, g (op a b) = op' (g a) (g b))
    (w : List α) (a : α) : (w.map g).foldl op' (g a) = g (w.foldl op a) := by
  induction w generalizing a with
  | nil => rfl
  | cons x xs ih => simp only [List.map_cons, List.foldl_cons, ← h, ih]

theorem ofVal_add (a b : Val) : XVal.ofVal (addVal a b) = (XVal.ofVal a).add (XVal.ofVal b) := by
  cases a <;> cases b <;> rfl
theorem ofVal_mul (a b : Val) : XVal.ofVal (mulVal a b) = (XVal.ofVal a).mul (XVal.ofVal b) := by
  cases a <;> cases b <;> rfl
theorem ofVal_lt (a b : Val) : (XVal.ofVal a).lt (XVal.ofVal b) = ltVal a b := by
  cases a <;> cases b <;> rfl
theorem ofVal_isNan (a : Val) : (XVal.ofVal a).isNan = !a.isSome := by cases a <;> rfl

/-- **The extended model refines the main one**: on rational / NaN data the within-period routine over `XVal` is the
routine of the main model (so every theorem about `aggPure` carries over), for every method, with and without discarding. -/
theorem xAggWithin_refines (d : Bool) (m : Method) (w : List Val) :
    xAggWithin d m (w.map XVal.ofVal) = XVal.ofVal (aggPure d m w) := by
  have hfilter : (w.map XVal.ofVal).filter (fun x => !x.isNan) = (w.filter Option.isSome).map XVal.ofVal := by
    rw [List.filter_map]; congr 1
    apply List.filter_congr; intro x _; simp [Function.comp, ofVal_isNan]
  have key : ∀ u : List Val, (if (u.map XVal.ofVal).isEmpty then XVal.nan else xApply m (u.map XVal.ofVal))
      = XVal.ofVal (if u.isEmpty then none else m.apply u) := by
    intro u
    cases u with
    | nil => rfl
    | cons x xs =>
      simp only [List.map_cons, List.isEmpty_cons, Bool.false_eq_true, if_false]
      cases m
      · -- mean
        simp only [xApply, Method.apply, stMean, pySum, ← List.map_cons]
        have := foldl_hom XVal.ofVal addVal XVal.add ofVal_add (x :: xs) (some 0)
        simp only [XVal.ofVal] at this ⊢
        rw [this]
        cases (x :: xs).foldl addVal (some 0) <;> simp [XVal.ofVal, XVal.divNat]
      · simp only [xApply, Method.apply, pySum, ← List.map_cons]
        exact foldl_hom XVal.ofVal addVal XVal.add ofVal_add (x :: xs) (some 0)
      · simp only [xApply, Method.apply, npProd, ← List.map_cons]
        exact foldl_hom XVal.ofVal mulVal XVal.mul ofVal_mul (x :: xs) (some 1)
      · cases x <;> simp [xApply, Method.apply, XVal.ofVal]
      · simp only [xApply, Method.apply, ← List.map_cons, List.getLast?_map]
        cases (x :: xs).getLast? with
        | none => rfl
        | some y => cases y <;> rfl
      · simp only [xApply, Method.apply, pyMin]
        exact foldl_hom XVal.ofVal (fun cur it => if ltVal it cur then it else cur) (fun cur it => if it.lt cur then it else cur)
          (fun a b => by rw [ofVal_lt]; split <;> rfl) xs x
      · simp only [xApply, Method.apply, pyMax]
        exact foldl_hom XVal.ofVal (fun cur it => if ltVal cur it then it else cur) (fun cur it => if cur.lt it then it else cur)
          (fun a b => by rw [ofVal_lt]; split <;> rfl) xs x
  cases d
  · simp only [xAggWithin, aggPure, Bool.false_eq_true, if_false]; exact key w
  · simp only [xAggWithin, aggPure, if_true, hfilter]; exact key _

/-- `discard_missing` removes NaN and nothing else: every non-NaN member — `±inf` included — is still handed to the method -/
theorem discard_keeps_every_observation (m : Method) (w : List XVal) :
    xAggWithin true m w = xAggWithin false m (w.filter fun x => !x.isNan) ∧
    ∀ x ∈ w, x.isNan = false → x ∈ w.filter fun x => !x.isNan := by
  constructor
  · simp [xAggWithin]
  · intro x hx hn; simp [List.mem_filter, hx, hn]

theorem foldl_add_pinf (w : List XVal) (h1 : XVal.ninf ∉ w) (h2 : XVal.nan ∉ w) : w.foldl XVal.add .pinf = .pinf := by
  induction w with
  | nil => rfl
  | cons x xs ih =>
    have hx1 : x ≠ .ninf := fun h => h1 (by simp [h])
    have hx2 : x ≠ .nan := fun h => h2 (by simp [h])
    have : XVal.add .pinf x = .pinf := by cases x <;> simp_all [XVal.add]
    rw [List.foldl_cons, this]
    exact ih (fun h => h1 (List.mem_cons_of_mem _ h)) (fun h => h2 (List.mem_cons_of_mem _ h))

/-- a period with a `+inf` observation and neither `-inf` nor NaN has sum `+inf` and mean `+inf` -/
theorem sum_mean_with_pinf (w : List XVal) (h : XVal.pinf ∈ w) (h1 : XVal.ninf ∉ w) (h2 : XVal.nan ∉ w) :
    xAggWithin false .sum w = .pinf ∧ xAggWithin false .mean w = .pinf := by
  have hne : w.isEmpty = false := by cases w <;> simp_all
  have key : ∀ (u : List XVal) (a : Rat), XVal.pinf ∈ u → XVal.ninf ∉ u → XVal.nan ∉ u → u.foldl XVal.add (.fin a) = .pinf := by
    intro u
    induction u with
    | nil => intro a h; cases h
    | cons x xs ih =>
      intro a hp hn hna
      rw [List.foldl_cons]
      have t1 : XVal.ninf ∉ xs := fun h => hn (List.mem_cons_of_mem _ h)
      have t2 : XVal.nan ∉ xs := fun h => hna (List.mem_cons_of_mem _ h)
      cases x with
      | nan => exact absurd (by simp) hna
      | ninf => exact absurd (by simp) hn
      | pinf => simp only [XVal.add]; exact foldl_add_pinf xs t1 t2
      | fin q =>
        simp only [XVal.add]
        apply ih
        · rcases List.mem_cons.1 hp with h | h
          · cases h
          · exact h
        · exact t1
        · exact t2
  simp only [xAggWithin, Bool.false_eq_true, if_false, hne, xApply, key w 0 h h1 h2, XVal.divNat, and_self]

/-- a period whose only observation is infinite keeps it under every method when missing values are discarded; without
discarding the IEEE rules apply (`inf + (-inf)`, `inf × 0` are NaN; `-inf` is the minimum, `+inf` the maximum) -/
theorem only_infinite_observation (m : Method) :
    xAggWithin true m [.pinf, .nan] = .pinf ∧ xAggWithin true m [.nan, .ninf, .nan] = .ninf := by
  cases m <;> decide

example : xAggWithin false .sum [.pinf, .ninf] = .nan ∧ xAggWithin false .prod [.pinf, .fin 0] = .nan ∧
    xAggWithin false .prod [.pinf, .ninf] = .ninf ∧ xAggWithin true .last [.fin 1, .ninf, .nan] = .ninf ∧
    xAggWithin false .min [.fin 1, .ninf] = .ninf ∧ xAggWithin false .max [.ninf, .fin 2, .fin 0] = .fin 2 := by decide +kernel

/-! ## Spellings of the arip model -/

/-- the documented aliases select the same form — hence the same `rho`, the same `sigma` vector and the same system — and
"avg" is "mean"; unknown spellings are rejected -/
theorem arip_spellings (rho : Rat) (n w : Nat) :
    AripForm.ofString? "multiplicative" = AripForm.ofString? "rate" ∧ AripForm.ofString? "additive" = AripForm.ofString? "diff" ∧
    (∀ f, AripForm.ofString? "multiplicative" = some f → f.sigma (f.rhoOf rho) n = (List.range n).map fun t => rho ^ t) ∧
    (∀ f, AripForm.ofString? "additive" = some f → f.sigma (f.rhoOf rho) n = List.replicate n 1 ∧ f.rhoOf rho = 1) ∧
    aripAggVector? "avg" w = aripAggVector? "mean" w ∧ AripForm.ofString? "level" = none := by
  refine ⟨rfl, rfl, ?_, ?_, rfl, rfl⟩
  · intro f h; cases h; rfl
  · intro f h; cases h; exact ⟨rfl, rfl⟩

example : (AripForm.rate).sigma 2 4 = [1, 2, 4, 8] ∧ aripAggVector? "last" 3 = some [0, 0, 1] := by decide +kernel

/-! ## `select` together with `discard_missing`: order of operations, full pipeline -/

/-- the members at the selected positions, in the order given (negative positions count from the end of the group) -/
def selPure (sel : List Int) (w : List Val) : List Val :=
  sel.map fun i => w.getD (if i < 0 then i + (w.length : Int) else i).toNat none

/-- all selected positions lie inside a group of `k` members -/
def SelValid (sel : List Int) (k : Nat) : Prop := ∀ i ∈ sel, -(k : Int) ≤ i ∧ i < k

theorem npTake_valid (sel : List Int) (w : List Val) (h : SelValid sel w.length) : npTake w sel = .ok (selPure sel w) := by
  rw [npTake_eq]
  unfold selPure
  induction sel with
  | nil => rfl
  | cons i is ih =>
    have hi := h i (by simp)
    have : npIndex w i = .ok (w.getD (if i < 0 then i + (w.length : Int) else i).toNat none) := by
      by_cases hneg : i < 0
      · rw [(npIndex_cases w i).2.1 ⟨hi.1, hneg⟩]; simp [hneg]
      · rw [(npIndex_cases w i).1 ⟨by omega, hi.2⟩]; simp [hneg]
    rw [List.mapM_cons, this, ih (fun j hj => h j (by simp [hj]))]
    rfl

/-- **Order of operations.** The positions of `select` index the *calendar* positions of the group (missing members
included); missing values are discarded afterwards, from the selected members only; then the method is applied. -/
theorem select_then_discard (sel : List Int) (d : Bool) (m : Method) (w : List Val) (h : SelValid sel w.length) :
    aggWithin (some sel) d m w = .ok (aggPure d m (selPure sel w)) ∧
    aggPure true m (selPure sel w) = aggPure false m ((selPure sel w).filter Option.isSome) := by
  refine ⟨?_, discard_is_method_on_present m _⟩
  simp [aggWithin, npTake_valid sel w h, bind, Except.bind, pure, Except.pure, aggPure]

/-- selecting position 1 of `[NaN, 1, 2]` with discarding gives `1` (the calendar position), not `2` (the position among the
non-missing members); selecting position 0 gives a missing value -/
example : aggWithin (some [1]) true .sum [none, some 1, some 2] = .ok (some 1) ∧
    aggWithin (some [0]) true .sum [none, some 1, some 2] = .ok none ∧
    aggWithin (some [-1, 0]) true .first [none, some 1, some 2] = .ok (some 2) := by decide +kernel

theorem selPure_replicate_none (sel : List Int) (k : Nat) : selPure sel (List.replicate k none) = List.replicate sel.length none := by
  unfold selPure
  apply List.ext_getElem
  · simp
  · intro i h1 h2
    simp [List.getD_eq_getElem?_getD, List.getElem?_replicate]
    split <;> split <;> rfl

/-- rows of regular aggregation with a valid `select` -/
def aggRowsSel (s : Ser) (sel : List Int) (d : Bool) (m : Method) (soy : Int) (k n : Nat) : List (List Val) :=
  (List.range n).map fun j => (List.range s.nv).map fun v => aggPure d m (selPure sel (regularGroup s v soy k j))

theorem regularGroup_length (s : Ser) (v : Nat) (soy : Int) (k j : Nat) : (regularGroup s v soy k j).length = k := by
  simp [regularGroup]

theorem aggRowsSel_get (s : Ser) (lo : Freq) (sel : List Int) (d : Bool) (m : Method) (k n : Nat) (hk : 0 < k) (newStart soy : Int)
    (h1 : soy = newStart * k) (h2 : soy ≤ s.start) (h3 : s.endSerial < soy + n * k)
    (v : Nat) (hv : v < s.nv) (T : Int) :
    (Ser.trim ⟨lo, s.nv, newStart, aggRowsSel s sel d m soy k n⟩).get v T
      = aggPure d m (selPure sel ((List.range k).map fun (i : Nat) => s.get v (T * k + i))) := by
  have hnone : ∀ f : Nat → Val, (∀ i, i < k → f i = none) →
      aggPure d m (selPure sel ((List.range k).map f)) = none := by
    intro f hf
    have : (List.range k).map f = List.replicate k none := by
      apply List.ext_getElem
      · simp
      · intro i a b; simp only [List.getElem_map, List.getElem_range, List.getElem_replicate]; exact hf i (by simpa using a)
    rw [this, selPure_replicate_none, aggPure_replicate_none]
  rw [Ser.get_trim, Ser.get_eq]
  simp only [aggRowsSel, rowsGet_table]
  by_cases c1 : T < newStart
  · simp only [c1, if_true]
    symm; apply hnone
    intro i hi
    apply Ser.get_outside; left
    have : (T + 1) * (k : Int) ≤ newStart * k := Int.mul_le_mul_of_nonneg_right (by omega) (by omega)
    rw [Int.add_mul] at this
    omega
  · simp only [c1, if_false]
    by_cases c2 : (T - newStart).toNat < n
    · simp only [c2, hv, and_self, if_true]
      congr 2
      unfold regularGroup
      apply List.map_congr_left
      intro i _
      congr 1
      have e : (((T - newStart).toNat : Nat) : Int) = T - newStart := by omega
      rw [e, h1, Int.sub_mul]
      omega
    · simp only [c2, false_and, if_false]
      symm; apply hnone
      intro i hi
      apply Ser.get_outside; right
      have hn : newStart + n ≤ T := by omega
      have : (newStart + n) * (k : Int) ≤ T * k := Int.mul_le_mul_of_nonneg_right hn (by omega)
      rw [Int.add_mul] at this
      omega


theorem aggWithin_sel_group (s : Ser) (sel : List Int) (d : Bool) (m : Method) (v : Nat) (soy : Int) (k j : Nat)
    (hsel : SelValid sel k) :
    aggWithin (some sel) d m (regularGroup s v soy k j) = .ok (aggPure d m (selPure sel (regularGroup s v soy k j))) :=
  (select_then_discard sel d m _ (by rw [regularGroup_length]; exact hsel)).1

theorem aggregateRegular_eq_select (hi lo : Freq) (hp : (hi, lo) ∈ regularPairs) (s : Ser) (hs : s.freq = hi) (m : Method)
    (d : Bool) (sel : List Int) (hsel : SelValid sel (factorOf hi lo)) :
    aggregateRegular s lo m d (some sel) = .ok (Ser.trim ⟨lo, s.nv, (s.start / hi.value) * lo.value,
      aggRowsSel s sel d m ((s.start / hi.value) * hi.value) (factorOf hi lo)
        ((s.endSerial / hi.value - s.start / hi.value + 1) * lo.value).toNat⟩) := by
  simp only [regularPairs, List.mem_cons, Prod.mk.injEq, List.mem_nil_iff, or_false] at hp
  unfold aggregateRegular
  rcases hp with ⟨rfl, rfl⟩ | ⟨rfl, rfl⟩ | ⟨rfl, rfl⟩ | ⟨rfl, rfl⟩ | ⟨rfl, rfl⟩ | ⟨rfl, rfl⟩ <;>
  (simp only [factorOf, Freq.value, freqMonthly, freqQuarterly, freqHalfyearly, freqYearly] at hsel
   simp at hsel
   simp [hs, factorOf, Freq.value, freqMonthly, freqQuarterly, freqHalfyearly, freqYearly, toYearSegmentYear, fromYearSegment,
    serialFromYsf, Int.fdiv_eq_ediv_of_nonneg, aggWithin_sel_group _ _ _ _ _ _ _ _ hsel, mapM_ok, bind, Except.bind, pure, Except.pure, aggRowsSel]
   simp (disch := omega) only [if_pos, if_neg]
   iterate 5 apply congrArg
   omega)

/-- **Membership with `select` (regular → regular), full pipeline.** With every selected position inside the group
(`-k ≤ i < k`), `aggregate` succeeds and at every low-frequency period `T` returns the method applied — after discarding
missing values if asked — to the members of `T` at the selected *calendar* positions, in the order given. -/
theorem aggregate_regular_membership_select (hi lo : Freq) (hp : (hi, lo) ∈ regularPairs) (s : Ser) (hs : s.freq = hi)
    (hne : s.rows ≠ []) (m : Method) (d : Bool) (sel : List Int) (hsel : SelValid sel (factorOf hi lo)) :
    ∃ r, aggregate s lo m d (some sel) = .ok r ∧ r.freq = lo ∧ r.nv = s.nv ∧
      ∀ v, v < s.nv → ∀ T : Int, r.get v T = aggPure d m (selPure sel ((members hi lo T).map (s.get v))) := by
  have hk := factorOf_pos hi lo hp
  have hagg : aggregate s lo m d (some sel) = aggregateRegular s lo m d (some sel) := by
    simp only [regularPairs, List.mem_cons, Prod.mk.injEq, List.mem_nil_iff, or_false] at hp
    unfold aggregate
    have : s.rows.isEmpty = false := by cases h : s.rows <;> simp_all
    rcases hp with ⟨rfl, rfl⟩ | ⟨rfl, rfl⟩ | ⟨rfl, rfl⟩ | ⟨rfl, rfl⟩ | ⟨rfl, rfl⟩ | ⟨rfl, rfl⟩ <;>
      simp [this, hs, Freq.value, freqMonthly, freqQuarterly, freqHalfyearly, freqYearly, Freq.isRegular]
  rw [hagg, aggregateRegular_eq_select hi lo hp s hs m d sel hsel]
  refine ⟨_, rfl, rfl, rfl, ?_⟩
  intro v hv T
  have hlen : 0 < s.rows.length := by cases h : s.rows <;> simp_all
  have hend : s.start ≤ s.endSerial := by unfold Ser.endSerial; omega
  rw [aggRowsSel_get s lo sel d m (factorOf hi lo) _ hk _ _ ?_ ?_ ?_ v hv T]
  · unfold members; rw [List.map_map]; rfl
  all_goals
    simp only [regularPairs, List.mem_cons, Prod.mk.injEq, List.mem_nil_iff, or_false] at hp
    rcases hp with ⟨rfl, rfl⟩ | ⟨rfl, rfl⟩ | ⟨rfl, rfl⟩ | ⟨rfl, rfl⟩ | ⟨rfl, rfl⟩ | ⟨rfl, rfl⟩ <;>
      simp [factorOf, Freq.value, freqMonthly, freqQuarterly, freqHalfyearly, freqYearly] <;> omega

example : SelValid [0, -1] (factorOf .Q .Y) := by intro i hi; simp [factorOf, Freq.value, freqQuarterly, freqYearly] at hi ⊢; rcases hi with rfl | rfl <;> omega
example : (aggregate ⟨.Q, 1, 8080, [[none], [some 2], [some 3], [some 4]]⟩ .Y .sum true (some [0, -1])).map (fun r => r.rows)
    = .ok [[some 4]] := by decide +kernel

/-! ## Rejections -/

/-- what `aggregate` rejects (the code raises): an empty series, a finer target frequency, a selected position outside
the group; and the same frequency is a no-op -/
theorem aggregate_rejects (s : Ser) (tf : Freq) (m : Method) (d : Bool) (sel : Option (List Int)) :
    (s.rows = [] → aggregate s tf m d sel = .error .badInput) ∧
    (s.rows ≠ [] → tf = s.freq → aggregate s tf m d sel = .ok s) ∧
    (s.rows ≠ [] → tf ≠ s.freq → tf.value > s.freq.value → aggregate s tf m d sel = .error .badInput) := by
  refine ⟨?_, ?_, ?_⟩
  · intro h; simp [aggregate, h]; rfl
  · intro h1 h2
    have : s.rows.isEmpty = false := by cases h : s.rows <;> simp_all
    simp [aggregate, this, h2]; rfl
  · intro h1 h2 h3
    have : s.rows.isEmpty = false := by cases h : s.rows <;> simp_all
    simp [aggregate, this, h2, h3]; rfl

/-- what `disaggregate` rejects: an empty series, a coarser target frequency; the same frequency is a no-op -/
theorem disaggregate_rejects (s : Ser) (tf : Freq) (dm : DMethod) :
    (s.rows = [] → disaggregate s tf dm = .error .badInput) ∧
    (s.rows ≠ [] → tf = s.freq → disaggregate s tf dm = .ok s) ∧
    (s.rows ≠ [] → tf ≠ s.freq → tf.value < s.freq.value → disaggregate s tf dm = .error .badInput) := by
  refine ⟨?_, ?_, ?_⟩
  · intro h; simp [disaggregate, h, bind, Except.bind]; rfl
  · intro h1 h2
    have : s.rows.isEmpty = false := by cases h : s.rows <;> simp_all
    simp [disaggregate, this, h2, bind, Except.bind, pure, Except.pure]
  · intro h1 h2 h3
    have : s.rows.isEmpty = false := by cases h : s.rows <;> simp_all
    simp [disaggregate, this, h2, h3, bind, Except.bind, pure, Except.pure]; rfl

/-- a selected position outside the group makes the whole regular aggregation fail (`IndexError`) -/
example : aggregate ⟨.Q, 1, 8080, [[some 1], [some 2], [some 3], [some 4]]⟩ .Y .sum false (some [4]) = .error .badInput ∧
    aggregate ⟨.Q, 1, 8080, [[some 1]]⟩ .M .sum false none = .error .badInput ∧
    aggregate ⟨.Q, 1, 8080, []⟩ .Y .sum false none = .error .badInput ∧
    aggregate ⟨.Q, 1, 8080, [[some 1]]⟩ .I .sum false none = .error .badInput ∧
    disaggregate ⟨.I, 1, 3, [[some 1]]⟩ .Q .flat = .error .badInput := by decide +kernel

end IrisVerif.C12
