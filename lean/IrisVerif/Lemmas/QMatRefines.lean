/-
Refinement lemmas connecting the executable rational matrices `IrisVerif.QMat` (`Model/QMat.lean`, core `Rat`,
`Array (Array Rat)`) to Mathlib matrices `Matrix (Fin r) (Fin c) ℚ`.

The bridge is the *view* `QMat.toMat a r c : Matrix (Fin r) (Fin c) ℚ := fun i j => a.get i j` (total, because
`QMat.get` is total: out-of-range reads give 0).  `QMat.toMatrix a = a.toMat a.rows a.cols` is the view at the
matrix's own dimensions and `QMat.toMatrix' a h₁ h₂` the view at dimensions proved equal to the own ones.  All
homomorphism lemmas are stated for `toMat` with the dimension equations as hypotheses (so that no dependent-type
casts appear) and each states only the hypotheses it needs; since every operation of `QMat` is defined through
`get`/`ofFn`, most need no `wellShaped` hypothesis at all -- it is needed exactly where an operation looks at the
raw `data` (`isZero`) or where two `QMat` values are to be *equal* (`ext_of_get`).

Sections: 1 entry formulas (`get_*`, total form with the range condition), 2 dimensions, 3 `wellShaped`,
4 the views and the homomorphism lemmas, 5 `isZero`/`eqv`, 6 the checked solver (`solveChecked`, `inverse`).
`solve` itself (Gauss-Jordan) and `det` stay unproved: that is the design -- every model uses `solveChecked`.
-/
import IrisVerif.Model.QMat
import Mathlib.Data.Matrix.Mul
import Mathlib.Data.Matrix.Diagonal
import Mathlib.Data.Matrix.Block
import Mathlib.Data.Matrix.ColumnRowPartitioned
import Mathlib.Algebra.BigOperators.Fin
import Mathlib.Data.Rat.Defs
import Mathlib.LinearAlgebra.Matrix.Kronecker
import Mathlib.LinearAlgebra.Matrix.Vec
import Mathlib.LinearAlgebra.Matrix.Trace
import Mathlib.LinearAlgebra.Matrix.Symmetric
import Mathlib.LinearAlgebra.Matrix.NonsingularInverse

namespace IrisVerif.QMat

open Matrix

/-! ## 1. Entry formulas -/

/-- reading an `ofFn` matrix, total form -/
theorem get_ofFn (r c : Nat) (f : Nat → Nat → Rat) (i j : Nat) :
    (ofFn r c f).get i j = if i < r ∧ j < c then f i j else 0 := by
  unfold QMat.get QMat.ofFn
  simp only [Array.getD_eq_getD_getElem?, Array.getElem?_map, Array.getElem?_range]
  by_cases hi : i < r <;> by_cases hj : j < c <;> simp [hi, hj]

theorem get_ofFn_of_lt (r c : Nat) (f : Nat → Nat → Rat) (i j : Nat) (hi : i < r) (hj : j < c) :
    (ofFn r c f).get i j = f i j := by
  rw [get_ofFn, if_pos ⟨hi, hj⟩]

theorem get_ofFn_of_not (r c : Nat) (f : Nat → Nat → Rat) (i j : Nat) (h : ¬ (i < r ∧ j < c)) :
    (ofFn r c f).get i j = 0 := by
  rw [get_ofFn, if_neg h]

/-- left-to-right fold = `Finset` sum -/
theorem foldl_sum (n : Nat) (f : Nat → Rat) :
    (List.range n).foldl (fun acc k => acc + f k) 0 = ∑ k ∈ Finset.range n, f k := by
  induction n with
  | zero => simp
  | succ n ih => rw [List.range_succ, List.foldl_append, ih, Finset.sum_range_succ]; simp

theorem get_zero (r c i j : Nat) : (zero r c).get i j = 0 := by
  unfold zero; rw [get_ofFn]; split <;> rfl

theorem get_identity (n i j : Nat) :
    (identity n).get i j = if i < n ∧ j < n then (if i = j then 1 else 0) else 0 := by
  unfold identity; rw [get_ofFn]

theorem get_diag (v : QVec) (i j : Nat) :
    (diag v).get i j = if i < v.size ∧ j < v.size then (if i = j then v.getD i 0 else 0) else 0 := by
  unfold diag; rw [get_ofFn]

theorem get_transpose (a : QMat) (i j : Nat) :
    a.transpose.get i j = if i < a.cols ∧ j < a.rows then a.get j i else 0 := by
  unfold transpose; rw [get_ofFn]

theorem get_add (a b : QMat) (i j : Nat) :
    (a + b).get i j = if i < a.rows ∧ j < a.cols then a.get i j + b.get i j else 0 := by
  show (QMat.add a b).get i j = _
  unfold QMat.add; rw [get_ofFn]

theorem get_sub (a b : QMat) (i j : Nat) :
    (a - b).get i j = if i < a.rows ∧ j < a.cols then a.get i j - b.get i j else 0 := by
  show (QMat.sub a b).get i j = _
  unfold QMat.sub; rw [get_ofFn]

theorem get_neg (a : QMat) (i j : Nat) :
    (-a).get i j = if i < a.rows ∧ j < a.cols then - a.get i j else 0 := by
  show (QMat.neg a).get i j = _
  unfold QMat.neg; rw [get_ofFn]

theorem get_smul (k : Rat) (a : QMat) (i j : Nat) :
    (smul k a).get i j = if i < a.rows ∧ j < a.cols then k * a.get i j else 0 := by
  unfold smul; rw [get_ofFn]

theorem get_mul (a b : QMat) (i j : Nat) :
    (a * b).get i j =
      if i < a.rows ∧ j < b.cols then ∑ k ∈ Finset.range a.cols, a.get i k * b.get k j else 0 := by
  show (QMat.mul a b).get i j = _
  unfold QMat.mul; rw [get_ofFn, foldl_sum]

theorem get_col (v : QVec) (i j : Nat) :
    (col v).get i j = if i < v.size ∧ j < 1 then v.getD i 0 else 0 := by
  unfold col; rw [get_ofFn]

/-- `col v` read in column 0 is `v.getD`, in range or not -/
theorem get_col_zero (v : QVec) (i : Nat) : (col v).get i 0 = v.getD i 0 := by
  rw [get_col]
  by_cases h : i < v.size
  · simp [h]
  · simp [h, Array.getD]

theorem toVec_size (a : QMat) : a.toVec.size = a.rows := by simp [toVec]

theorem toVec_getD (a : QMat) (i : Nat) : a.toVec.getD i 0 = if i < a.rows then a.get i 0 else 0 := by
  unfold toVec
  by_cases h : i < a.rows <;> simp [h]

theorem get_hstack (a b : QMat) (i j : Nat) :
    (hstack a b).get i j =
      if i < a.rows ∧ j < a.cols + b.cols then (if j < a.cols then a.get i j else b.get i (j - a.cols)) else 0 := by
  unfold hstack; rw [get_ofFn]

theorem get_vstack (a b : QMat) (i j : Nat) :
    (vstack a b).get i j =
      if i < a.rows + b.rows ∧ j < a.cols then (if i < a.rows then a.get i j else b.get (i - a.rows) j) else 0 := by
  unfold vstack; rw [get_ofFn]

theorem get_selectRows (a : QMat) (idx : List Nat) (i j : Nat) :
    (selectRows a idx).get i j = if i < idx.length ∧ j < a.cols then a.get (idx.getD i 0) j else 0 := by
  unfold selectRows; rw [get_ofFn]

theorem get_selectCols (a : QMat) (idx : List Nat) (i j : Nat) :
    (selectCols a idx).get i j = if i < a.rows ∧ j < idx.length then a.get i (idx.getD j 0) else 0 := by
  unfold selectCols; rw [get_ofFn]

theorem get_block (a : QMat) (r0 r1 c0 c1 i j : Nat) :
    (block a r0 r1 c0 c1).get i j = if i < r1 - r0 ∧ j < c1 - c0 then a.get (r0 + i) (c0 + j) else 0 := by
  unfold block; rw [get_ofFn]

theorem get_kron (a b : QMat) (i j : Nat) :
    (kron a b).get i j =
      if i < a.rows * b.rows ∧ j < a.cols * b.cols
      then a.get (i / b.rows) (j / b.cols) * b.get (i % b.rows) (j % b.cols) else 0 := by
  unfold kron; rw [get_ofFn]

theorem get_unvec (r c : Nat) (v : QVec) (i j : Nat) :
    (unvec r c v).get i j = if i < r ∧ j < c then v.getD (j * r + i) 0 else 0 := by
  unfold unvec; rw [get_ofFn]

theorem vec_size (a : QMat) : a.vec.size = a.rows * a.cols := by simp [vec]

theorem vec_getD (a : QMat) (k : Nat) :
    a.vec.getD k 0 = if k < a.rows * a.cols then a.get (k % a.rows) (k / a.rows) else 0 := by
  unfold vec
  by_cases h : k < a.rows * a.cols <;> simp [h]

/-! ## 2. Dimensions (all by unfolding) -/

@[simp] theorem ofFn_rows (r c : Nat) (f : Nat → Nat → Rat) : (ofFn r c f).rows = r := rfl
@[simp] theorem ofFn_cols (r c : Nat) (f : Nat → Nat → Rat) : (ofFn r c f).cols = c := rfl
@[simp] theorem zero_rows (r c : Nat) : (zero r c).rows = r := rfl
@[simp] theorem zero_cols (r c : Nat) : (zero r c).cols = c := rfl
@[simp] theorem identity_rows (n : Nat) : (identity n).rows = n := rfl
@[simp] theorem identity_cols (n : Nat) : (identity n).cols = n := rfl
@[simp] theorem diag_rows (v : QVec) : (diag v).rows = v.size := rfl
@[simp] theorem diag_cols (v : QVec) : (diag v).cols = v.size := rfl
@[simp] theorem transpose_rows (a : QMat) : a.transpose.rows = a.cols := rfl
@[simp] theorem transpose_cols (a : QMat) : a.transpose.cols = a.rows := rfl
@[simp] theorem add_rows (a b : QMat) : (a + b).rows = a.rows := rfl
@[simp] theorem add_cols (a b : QMat) : (a + b).cols = a.cols := rfl
@[simp] theorem sub_rows (a b : QMat) : (a - b).rows = a.rows := rfl
@[simp] theorem sub_cols (a b : QMat) : (a - b).cols = a.cols := rfl
@[simp] theorem neg_rows (a : QMat) : (-a).rows = a.rows := rfl
@[simp] theorem neg_cols (a : QMat) : (-a).cols = a.cols := rfl
@[simp] theorem smul_rows (k : Rat) (a : QMat) : (smul k a).rows = a.rows := rfl
@[simp] theorem smul_cols (k : Rat) (a : QMat) : (smul k a).cols = a.cols := rfl
@[simp] theorem mul_rows (a b : QMat) : (a * b).rows = a.rows := rfl
@[simp] theorem mul_cols (a b : QMat) : (a * b).cols = b.cols := rfl
@[simp] theorem col_rows (v : QVec) : (col v).rows = v.size := rfl
@[simp] theorem col_cols (v : QVec) : (col v).cols = 1 := rfl
@[simp] theorem mulVec_size (a : QMat) (v : QVec) : (a.mulVec v).size = a.rows := by
  unfold mulVec; rw [toVec_size]; rfl
@[simp] theorem hstack_rows (a b : QMat) : (hstack a b).rows = a.rows := rfl
@[simp] theorem hstack_cols (a b : QMat) : (hstack a b).cols = a.cols + b.cols := rfl
@[simp] theorem vstack_rows (a b : QMat) : (vstack a b).rows = a.rows + b.rows := rfl
@[simp] theorem vstack_cols (a b : QMat) : (vstack a b).cols = a.cols := rfl
@[simp] theorem selectRows_rows (a : QMat) (idx : List Nat) : (selectRows a idx).rows = idx.length := rfl
@[simp] theorem selectRows_cols (a : QMat) (idx : List Nat) : (selectRows a idx).cols = a.cols := rfl
@[simp] theorem selectCols_rows (a : QMat) (idx : List Nat) : (selectCols a idx).rows = a.rows := rfl
@[simp] theorem selectCols_cols (a : QMat) (idx : List Nat) : (selectCols a idx).cols = idx.length := rfl
@[simp] theorem block_rows (a : QMat) (r0 r1 c0 c1 : Nat) : (block a r0 r1 c0 c1).rows = r1 - r0 := rfl
@[simp] theorem block_cols (a : QMat) (r0 r1 c0 c1 : Nat) : (block a r0 r1 c0 c1).cols = c1 - c0 := rfl
@[simp] theorem kron_rows (a b : QMat) : (kron a b).rows = a.rows * b.rows := rfl
@[simp] theorem kron_cols (a b : QMat) : (kron a b).cols = a.cols * b.cols := rfl
@[simp] theorem unvec_rows (r c : Nat) (v : QVec) : (unvec r c v).rows = r := rfl
@[simp] theorem unvec_cols (r c : Nat) (v : QVec) : (unvec r c v).cols = c := rfl

@[simp] theorem pow_rows (a : QMat) (n : Nat) : (pow a n).rows = a.rows := by
  induction n with
  | zero => rfl
  | succ n ih => show (pow a n * a).rows = _; rw [mul_rows, ih]

theorem pow_zero_cols (a : QMat) : (pow a 0).cols = a.rows := rfl
@[simp] theorem pow_succ_cols (a : QMat) (n : Nat) : (pow a (n + 1)).cols = a.cols := rfl

/-- for a square matrix every power has the same number of columns -/
theorem pow_cols (a : QMat) (h : a.rows = a.cols) (n : Nat) : (pow a n).cols = a.cols := by
  cases n with
  | zero => exact h
  | succ n => rfl

/-! ## 3. `wellShaped` -/

theorem wellShaped_iff (a : QMat) :
    a.wellShaped = true ↔ a.data.size = a.rows ∧ ∀ i (h : i < a.data.size), (a.data[i]).size = a.cols := by
  unfold wellShaped
  simp only [Bool.and_eq_true, beq_iff_eq, Array.all_eq_true]

@[simp] theorem wellShaped_ofFn (r c : Nat) (f : Nat → Nat → Rat) : (ofFn r c f).wellShaped = true := by
  rw [wellShaped_iff]
  simp [ofFn]

@[simp] theorem wellShaped_zero (r c : Nat) : (zero r c).wellShaped = true := wellShaped_ofFn _ _ _
@[simp] theorem wellShaped_identity (n : Nat) : (identity n).wellShaped = true := wellShaped_ofFn _ _ _
@[simp] theorem wellShaped_diag (v : QVec) : (diag v).wellShaped = true := wellShaped_ofFn _ _ _
@[simp] theorem wellShaped_transpose (a : QMat) : a.transpose.wellShaped = true := wellShaped_ofFn _ _ _
@[simp] theorem wellShaped_add (a b : QMat) : (a + b).wellShaped = true := wellShaped_ofFn _ _ _
@[simp] theorem wellShaped_sub (a b : QMat) : (a - b).wellShaped = true := wellShaped_ofFn _ _ _
@[simp] theorem wellShaped_neg (a : QMat) : (-a).wellShaped = true := wellShaped_ofFn _ _ _
@[simp] theorem wellShaped_smul (k : Rat) (a : QMat) : (smul k a).wellShaped = true := wellShaped_ofFn _ _ _
@[simp] theorem wellShaped_mul (a b : QMat) : (a * b).wellShaped = true := wellShaped_ofFn _ _ _
@[simp] theorem wellShaped_col (v : QVec) : (col v).wellShaped = true := wellShaped_ofFn _ _ _
@[simp] theorem wellShaped_hstack (a b : QMat) : (hstack a b).wellShaped = true := wellShaped_ofFn _ _ _
@[simp] theorem wellShaped_vstack (a b : QMat) : (vstack a b).wellShaped = true := wellShaped_ofFn _ _ _
@[simp] theorem wellShaped_selectRows (a : QMat) (idx : List Nat) : (selectRows a idx).wellShaped = true :=
  wellShaped_ofFn _ _ _
@[simp] theorem wellShaped_selectCols (a : QMat) (idx : List Nat) : (selectCols a idx).wellShaped = true :=
  wellShaped_ofFn _ _ _
@[simp] theorem wellShaped_block (a : QMat) (r0 r1 c0 c1 : Nat) : (block a r0 r1 c0 c1).wellShaped = true :=
  wellShaped_ofFn _ _ _
@[simp] theorem wellShaped_kron (a b : QMat) : (kron a b).wellShaped = true := wellShaped_ofFn _ _ _
@[simp] theorem wellShaped_unvec (r c : Nat) (v : QVec) : (unvec r c v).wellShaped = true := wellShaped_ofFn _ _ _
@[simp] theorem wellShaped_pow (a : QMat) (n : Nat) : (pow a n).wellShaped = true := by
  cases n with
  | zero => exact wellShaped_ofFn _ _ _
  | succ n => exact wellShaped_ofFn _ _ _

/-- a well-shaped matrix reads 0 outside its dimensions -/
theorem get_of_out (a : QMat) (hw : a.wellShaped = true) (i j : Nat) (h : a.rows ≤ i ∨ a.cols ≤ j) :
    a.get i j = 0 := by
  obtain ⟨h1, h2⟩ := (wellShaped_iff a).1 hw
  unfold QMat.get
  by_cases hi : i < a.data.size
  · have hj : a.cols ≤ j := by
      rcases h with h | h
      · omega
      · exact h
    have := h2 i hi
    simp [Array.getD, hi]
    intro hj'
    omega
  · simp [Array.getD, hi]

/-- a well-shaped matrix is the `ofFn` of its own entries -/
theorem eq_ofFn_of_wellShaped (a : QMat) (hw : a.wellShaped = true) : a = ofFn a.rows a.cols a.get := by
  obtain ⟨h1, h2⟩ := (wellShaped_iff a).1 hw
  obtain ⟨r, c, d⟩ := a
  simp only at h1 h2
  subst h1
  unfold ofFn
  congr 1
  apply Array.ext
  · simp
  · intro i hi1 hi2
    apply Array.ext
    · simp [h2 i hi1]
    · intro j hj1 hj2
      simp [QMat.get, Array.getD, hi1, hj1]

/-- **extensionality**: well-shaped matrices with the same dimensions and the same entries are equal -/
theorem ext_of_get (a b : QMat) (ha : a.wellShaped = true) (hb : b.wellShaped = true)
    (hr : a.rows = b.rows) (hc : a.cols = b.cols)
    (h : ∀ i j, i < a.rows → j < a.cols → a.get i j = b.get i j) : a = b := by
  rw [eq_ofFn_of_wellShaped a ha, eq_ofFn_of_wellShaped b hb, ← hr, ← hc]
  unfold ofFn
  congr 1
  apply Array.ext
  · simp
  · intro i hi1 hi2
    simp only [Array.size_map, Array.size_range] at hi1
    apply Array.ext
    · simp
    · intro j hj1 hj2
      simp only [Array.getElem_map, Array.size_map, Array.size_range, Array.getElem_range] at hj1 ⊢
      exact h i j hi1 hj1

/-! ## 4. The views into Mathlib matrices and the homomorphism lemmas -/

/-- the `r × c` view of a `QMat` as a Mathlib matrix (total: entries outside the stored data read 0) -/
def toMat (a : QMat) (r c : Nat) : Matrix (Fin r) (Fin c) ℚ := fun i j => a.get i j

/-- the view at the matrix's own dimensions -/
abbrev toMatrix (a : QMat) : Matrix (Fin a.rows) (Fin a.cols) ℚ := a.toMat a.rows a.cols

/-- the view at dimensions proved equal to the own ones (no cast appears: it *is* `toMat a r c`) -/
abbrev toMatrix' (a : QMat) {r c : Nat} (_h₁ : a.rows = r) (_h₂ : a.cols = c) : Matrix (Fin r) (Fin c) ℚ :=
  a.toMat r c

/-- the length-`n` view of a `QVec` as a function on `Fin n` -/
def _root_.IrisVerif.QVec.toFn (v : QVec) (n : Nat) : Fin n → ℚ := fun i => v.getD i 0

@[simp] theorem toMat_apply (a : QMat) (r c : Nat) (i : Fin r) (j : Fin c) : a.toMat r c i j = a.get i j := rfl
@[simp] theorem _root_.IrisVerif.QVec.toFn_apply (v : QVec) (n : Nat) (i : Fin n) : QVec.toFn v n i = v.getD i 0 := rfl

theorem toMatrix_eq (a : QMat) : a.toMatrix = a.toMat a.rows a.cols := rfl
theorem toMatrix'_eq (a : QMat) {r c : Nat} (h₁ : a.rows = r) (h₂ : a.cols = c) : a.toMatrix' h₁ h₂ = a.toMat r c := rfl

/-- the cast variant is the own-dimension view transported along the dimension equations -/
theorem toMatrix'_eq_cast (a : QMat) {r c : Nat} (h₁ : a.rows = r) (h₂ : a.cols = c) :
    a.toMatrix' h₁ h₂ = a.toMatrix.submatrix (Fin.cast h₁.symm) (Fin.cast h₂.symm) := by
  ext i j; rfl

theorem toMat_ofFn (r c : Nat) (f : Nat → Nat → Rat) : (ofFn r c f).toMat r c = Matrix.of (fun (i : Fin r) (j : Fin c) => f i j) := by
  ext i j
  simp [get_ofFn]

/-- the view determines a well-shaped matrix: **`toMatrix` is injective on well-shaped matrices** -/
theorem eq_of_toMat_eq (a b : QMat) (ha : a.wellShaped = true) (hb : b.wellShaped = true)
    (hr : a.rows = b.rows) (hc : a.cols = b.cols) (h : a.toMatrix = b.toMat a.rows a.cols) : a = b := by
  refine ext_of_get a b ha hb hr hc (fun i j hi hj => ?_)
  exact congrFun (congrFun h ⟨i, hi⟩) ⟨j, hj⟩

theorem toMat_zero (r c r' c' : Nat) : (zero r c).toMat r' c' = 0 := by
  ext i j; simp [get_zero]

theorem toMat_identity (n : Nat) : (identity n).toMat n n = 1 := by
  ext i j
  simp [get_identity, Matrix.one_apply, Fin.ext_iff]

theorem toMat_diag (v : QVec) (n : Nat) (hn : v.size = n) : (diag v).toMat n n = Matrix.diagonal (QVec.toFn v n) := by
  subst hn
  ext i j
  simp [get_diag, Matrix.diagonal_apply, Fin.ext_iff]

theorem toMat_transpose (a : QMat) (r c : Nat) (hr : a.rows = r) (hc : a.cols = c) :
    a.transpose.toMat c r = (a.toMat r c)ᵀ := by
  subst hr hc
  ext i j
  simp [get_transpose]

theorem toMat_add (a b : QMat) (r c : Nat) (hr : a.rows = r) (hc : a.cols = c) :
    (a + b).toMat r c = a.toMat r c + b.toMat r c := by
  subst hr hc
  ext i j
  simp [get_add]

theorem toMat_sub (a b : QMat) (r c : Nat) (hr : a.rows = r) (hc : a.cols = c) :
    (a - b).toMat r c = a.toMat r c - b.toMat r c := by
  subst hr hc
  ext i j
  simp [get_sub]

theorem toMat_neg (a : QMat) (r c : Nat) (hr : a.rows = r) (hc : a.cols = c) :
    (-a).toMat r c = - a.toMat r c := by
  subst hr hc
  ext i j
  simp [get_neg]

theorem toMat_smul (k : Rat) (a : QMat) (r c : Nat) (hr : a.rows = r) (hc : a.cols = c) :
    (smul k a).toMat r c = k • a.toMat r c := by
  subst hr hc
  ext i j
  simp [get_smul]

/-- **multiplication**: the left-to-right fold over `List.range` is the `Finset` sum of `Matrix.mul` -/
theorem toMat_mul (a b : QMat) (r k c : Nat) (hr : a.rows = r) (hk : a.cols = k) (hc : b.cols = c) :
    (a * b).toMat r c = a.toMat r k * b.toMat k c := by
  subst hr hk hc
  ext i j
  simp only [toMat_apply, get_mul, Fin.is_lt, and_self, if_true, Matrix.mul_apply]
  exact (Fin.sum_univ_eq_sum_range (fun k => a.get i k * b.get k j) a.cols).symm

theorem toFn_toVec (a : QMat) (r : Nat) (hr : a.rows = r) : QVec.toFn a.toVec r = fun (i : Fin r) => a.get i 0 := by
  subst hr
  funext i
  simp only [QVec.toFn_apply, toVec_getD, Fin.is_lt, if_true]

theorem toMat_col (v : QVec) (n : Nat) : (col v).toMat n 1 = Matrix.replicateCol (Fin 1) (QVec.toFn v n) := by
  ext i j
  have : (j : Nat) = 0 := by omega
  simp only [toMat_apply, this, get_col_zero, Matrix.replicateCol_apply, QVec.toFn_apply]

/-- **matrix-vector product** (`v` need not have the matching length: missing entries read 0 on both sides) -/
theorem toFn_mulVec (a : QMat) (v : QVec) (r k : Nat) (hr : a.rows = r) (hk : a.cols = k) :
    QVec.toFn (a.mulVec v) r = a.toMat r k *ᵥ QVec.toFn v k := by
  subst hr hk
  funext i
  unfold QMat.mulVec
  simp only [QVec.toFn_apply, toVec_getD, mul_rows, Fin.is_lt, if_true, get_mul, col_cols, Nat.lt_one_iff,
    and_self, Matrix.mulVec, dotProduct, toMat_apply, get_col_zero]
  exact (Fin.sum_univ_eq_sum_range (fun k => a.get i k * v.getD k 0) a.cols).symm

/-! ### stacking, blocks, selections -/

theorem toMat_hstack_left (a b : QMat) (r c₁ c₂ : Nat) (hr : a.rows = r) (hc₁ : a.cols = c₁) (hc₂ : b.cols = c₂)
    (i : Fin r) (j : Fin c₁) : (hstack a b).toMat r (c₁ + c₂) i (Fin.castAdd c₂ j) = a.toMat r c₁ i j := by
  subst hr hc₁ hc₂
  have := j.isLt
  simp [get_hstack]
  omega

theorem toMat_hstack_right (a b : QMat) (r c₁ c₂ : Nat) (hr : a.rows = r) (hc₁ : a.cols = c₁) (hc₂ : b.cols = c₂)
    (i : Fin r) (j : Fin c₂) : (hstack a b).toMat r (c₁ + c₂) i (Fin.natAdd c₁ j) = b.toMat r c₂ i j := by
  subst hr hc₁ hc₂
  simp [get_hstack]

/-- `hstack` is `Matrix.fromCols` up to the canonical `Fin c₁ ⊕ Fin c₂ ≃ Fin (c₁ + c₂)` -/
theorem toMat_hstack (a b : QMat) (r c₁ c₂ : Nat) (hr : a.rows = r) (hc₁ : a.cols = c₁) (hc₂ : b.cols = c₂) :
    (hstack a b).toMat r (c₁ + c₂) =
      (Matrix.fromCols (a.toMat r c₁) (b.toMat r c₂)).submatrix id finSumFinEquiv.symm := by
  ext i j
  refine Fin.addCases (fun j => ?_) (fun j => ?_) j
  · rw [toMat_hstack_left a b r c₁ c₂ hr hc₁ hc₂]
    simp [finSumFinEquiv_symm_apply_castAdd]
  · rw [toMat_hstack_right a b r c₁ c₂ hr hc₁ hc₂]
    simp [finSumFinEquiv_symm_apply_natAdd]

theorem toMat_vstack_top (a b : QMat) (r₁ r₂ c : Nat) (hr₁ : a.rows = r₁) (hr₂ : b.rows = r₂) (hc : a.cols = c)
    (i : Fin r₁) (j : Fin c) : (vstack a b).toMat (r₁ + r₂) c (Fin.castAdd r₂ i) j = a.toMat r₁ c i j := by
  subst hr₁ hr₂ hc
  have := i.isLt
  simp [get_vstack]
  omega

theorem toMat_vstack_bottom (a b : QMat) (r₁ r₂ c : Nat) (hr₁ : a.rows = r₁) (hr₂ : b.rows = r₂) (hc : a.cols = c)
    (i : Fin r₂) (j : Fin c) : (vstack a b).toMat (r₁ + r₂) c (Fin.natAdd r₁ i) j = b.toMat r₂ c i j := by
  subst hr₁ hr₂ hc
  simp [get_vstack]

/-- `vstack` is `Matrix.fromRows` up to the canonical `Fin r₁ ⊕ Fin r₂ ≃ Fin (r₁ + r₂)` -/
theorem toMat_vstack (a b : QMat) (r₁ r₂ c : Nat) (hr₁ : a.rows = r₁) (hr₂ : b.rows = r₂) (hc : a.cols = c) :
    (vstack a b).toMat (r₁ + r₂) c =
      (Matrix.fromRows (a.toMat r₁ c) (b.toMat r₂ c)).submatrix finSumFinEquiv.symm id := by
  ext i j
  refine Fin.addCases (fun i => ?_) (fun i => ?_) i
  · rw [toMat_vstack_top a b r₁ r₂ c hr₁ hr₂ hc]
    simp [finSumFinEquiv_symm_apply_castAdd]
  · rw [toMat_vstack_bottom a b r₁ r₂ c hr₁ hr₂ hc]
    simp [finSumFinEquiv_symm_apply_natAdd]

/-- `block a r0 r1 c0 c1` is the submatrix of any view of `a` that is large enough -/
theorem toMat_block (a : QMat) (r0 r1 c0 c1 R C : Nat) (hR : r1 ≤ R) (hC : c1 ≤ C) :
    (block a r0 r1 c0 c1).toMat (r1 - r0) (c1 - c0) =
      (a.toMat R C).submatrix (fun (i : Fin (r1 - r0)) => ⟨r0 + i, by have := i.isLt; omega⟩)
        (fun (j : Fin (c1 - c0)) => ⟨c0 + j, by have := j.isLt; omega⟩) := by
  ext i j
  simp [get_block]

/-- a view of size `(r₁ + r₂) × (c₁ + c₂)` is the `Matrix.fromBlocks` of its four `block`s -/
theorem toMat_eq_fromBlocks (a : QMat) (r₁ r₂ c₁ c₂ : Nat) :
    a.toMat (r₁ + r₂) (c₁ + c₂) =
      (Matrix.fromBlocks
        ((block a 0 r₁ 0 c₁).toMat r₁ c₁) ((block a 0 r₁ c₁ (c₁ + c₂)).toMat r₁ c₂)
        ((block a r₁ (r₁ + r₂) 0 c₁).toMat r₂ c₁) ((block a r₁ (r₁ + r₂) c₁ (c₁ + c₂)).toMat r₂ c₂)).submatrix
        finSumFinEquiv.symm finSumFinEquiv.symm := by
  ext i j
  refine Fin.addCases (fun i => ?_) (fun i => ?_) i <;> refine Fin.addCases (fun j => ?_) (fun j => ?_) j <;>
    simp [finSumFinEquiv_symm_apply_castAdd, finSumFinEquiv_symm_apply_natAdd, get_block]

/-- a 2 × 2 arrangement `vstack (hstack a b) (hstack c d)` is `Matrix.fromBlocks` of the four views -/
theorem toMat_vstack_hstack (a b c d : QMat) (r₁ r₂ c₁ c₂ : Nat) (har : a.rows = r₁) (hac : a.cols = c₁)
    (hbc : b.cols = c₂) (hcr : c.rows = r₂) (hcc : c.cols = c₁) (hdc : d.cols = c₂) :
    (vstack (hstack a b) (hstack c d)).toMat (r₁ + r₂) (c₁ + c₂) =
      (Matrix.fromBlocks (a.toMat r₁ c₁) (b.toMat r₁ c₂) (c.toMat r₂ c₁) (d.toMat r₂ c₂)).submatrix
        finSumFinEquiv.symm finSumFinEquiv.symm := by
  have h1 : (hstack a b).rows = r₁ := har
  have h2 : (hstack c d).rows = r₂ := hcr
  have h3 : (hstack a b).cols = c₁ + c₂ := by rw [hstack_cols, hac, hbc]
  ext i j
  refine Fin.addCases (fun i => ?_) (fun i => ?_) i <;> refine Fin.addCases (fun j => ?_) (fun j => ?_) j
  · rw [toMat_vstack_top _ _ r₁ r₂ _ h1 h2 h3, toMat_hstack_left a b r₁ c₁ c₂ har hac hbc]
    simp [finSumFinEquiv_symm_apply_castAdd]
  · rw [toMat_vstack_top _ _ r₁ r₂ _ h1 h2 h3, toMat_hstack_right a b r₁ c₁ c₂ har hac hbc]
    simp [finSumFinEquiv_symm_apply_castAdd, finSumFinEquiv_symm_apply_natAdd]
  · rw [toMat_vstack_bottom _ _ r₁ r₂ _ h1 h2 h3, toMat_hstack_left c d r₂ c₁ c₂ hcr hcc hdc]
    simp [finSumFinEquiv_symm_apply_castAdd, finSumFinEquiv_symm_apply_natAdd]
  · rw [toMat_vstack_bottom _ _ r₁ r₂ _ h1 h2 h3, toMat_hstack_right c d r₂ c₁ c₂ hcr hcc hdc]
    simp [finSumFinEquiv_symm_apply_natAdd]

/-- a column `M.toMat r 1` times nothing: reading a matrix equation `A X = B` with one right-hand column as `A *ᵥ x = b` -/
theorem mulVec_of_mul_col (A : Matrix (Fin r) (Fin k) ℚ) (x b : QMat)
    (h : A * x.toMat k 1 = b.toMat r 1) : A *ᵥ (fun i : Fin k => x.get i 0) = fun i : Fin r => b.get i 0 := by
  funext i
  have := congrFun (congrFun h i) (0 : Fin 1)
  simpa [Matrix.mul_apply, Matrix.mulVec, dotProduct] using this

theorem toMat_selectRows (a : QMat) (idx : List Nat) (R c : Nat) (hc : a.cols = c)
    (hidx : ∀ i, i < idx.length → idx.getD i 0 < R) :
    (selectRows a idx).toMat idx.length c =
      (a.toMat R c).submatrix (fun (i : Fin idx.length) => ⟨idx.getD i 0, hidx i i.isLt⟩) id := by
  subst hc
  ext i j
  simp [get_selectRows]

theorem toMat_selectCols (a : QMat) (idx : List Nat) (r C : Nat) (hr : a.rows = r)
    (hidx : ∀ j, j < idx.length → idx.getD j 0 < C) :
    (selectCols a idx).toMat r idx.length =
      (a.toMat r C).submatrix id (fun (j : Fin idx.length) => ⟨idx.getD j 0, hidx j j.isLt⟩) := by
  subst hr
  ext i j
  simp [get_selectCols]

/-! ### powers, Kronecker product, vectorisation, trace -/

theorem toMat_pow (a : QMat) (n : Nat) (hr : a.rows = n) (hc : a.cols = n) (k : Nat) :
    (pow a k).toMat n n = (a.toMat n n) ^ k := by
  induction k with
  | zero =>
    show (identity a.rows).toMat n n = _
    rw [hr, toMat_identity, _root_.pow_zero]
  | succ k ih =>
    show (pow a k * a).toMat n n = _
    rw [toMat_mul (pow a k) a n n n (by rw [pow_rows, hr]) (by rw [pow_cols a (hr.trans hc.symm), hc]) hc, ih,
      _root_.pow_succ]

/-- `kron` is `Matrix.kroneckerMap (· * ·)` up to the canonical `Fin m × Fin n ≃ Fin (m * n)` -/
theorem toMat_kron (a b : QMat) (r₁ c₁ r₂ c₂ : Nat) (hr₁ : a.rows = r₁) (hc₁ : a.cols = c₁)
    (hr₂ : b.rows = r₂) (hc₂ : b.cols = c₂) :
    (kron a b).toMat (r₁ * r₂) (c₁ * c₂) =
      (Matrix.kroneckerMap (· * ·) (a.toMat r₁ c₁) (b.toMat r₂ c₂)).submatrix
        finProdFinEquiv.symm finProdFinEquiv.symm := by
  subst hr₁ hc₁ hr₂ hc₂
  ext i j
  simp [get_kron, Matrix.kroneckerMap_apply, Fin.divNat, Fin.modNat]

/-- `vec` is column-major: Mathlib's `Matrix.vec` up to `Fin c × Fin r ≃ Fin (c * r)` -/
theorem toFn_vec (a : QMat) (r c : Nat) (hr : a.rows = r) (hc : a.cols = c) (p : Fin c × Fin r) :
    QVec.toFn a.vec (c * r) (finProdFinEquiv p) = Matrix.vec (a.toMat r c) p := by
  subst hr hc
  obtain ⟨j, i⟩ := p
  have hi := i.isLt
  have hj := j.isLt
  have hlt : (i : Nat) + a.rows * (j : Nat) < a.rows * a.cols := by
    calc (i : Nat) + a.rows * j < a.rows + a.rows * j := by omega
      _ = a.rows * (j + 1) := by ring
      _ ≤ a.rows * a.cols := Nat.mul_le_mul_left _ hj
  have hpos : 0 < a.rows := by omega
  simp only [QVec.toFn_apply, finProdFinEquiv_apply_val, vec_getD, hlt, if_true, Matrix.vec, toMat_apply]
  rw [Nat.add_mul_mod_self_left, Nat.mod_eq_of_lt hi, Nat.add_mul_div_left _ _ hpos, Nat.div_eq_of_lt hi, Nat.zero_add]

theorem toMat_unvec (r c : Nat) (v : QVec) :
    (unvec r c v).toMat r c = Matrix.of (fun (i : Fin r) (j : Fin c) => v.getD (j * r + i) 0) := by
  ext i j
  simp [get_unvec]

theorem trace_eq (a : QMat) (n : Nat) (hr : a.rows = n) : a.trace = Matrix.trace (a.toMat n n) := by
  subst hr
  unfold QMat.trace
  rw [foldl_sum, Matrix.trace]
  exact (Fin.sum_univ_eq_sum_range (fun i => a.get i i) a.rows).symm

/-! ## 5. The exact tests `isZero`, `eqv`, `isSymmetric` -/

/-- `isZero` forces every read to be 0 (no shape hypothesis: a missing entry reads 0 anyway) -/
theorem get_of_isZero (a : QMat) (h : a.isZero = true) (i j : Nat) : a.get i j = 0 := by
  unfold isZero at h
  simp only [Array.all_eq_true, beq_iff_eq] at h
  unfold QMat.get
  by_cases hi : i < a.data.size
  · by_cases hj : j < (a.data[i]).size
    · simpa [Array.getD, hi, hj] using h i hi j hj
    · simp [Array.getD, hi, hj]
  · simp [Array.getD, hi]

theorem isZero_ofFn_iff (r c : Nat) (f : Nat → Nat → Rat) :
    (ofFn r c f).isZero = true ↔ ∀ i j, i < r → j < c → f i j = 0 := by
  constructor
  · intro h i j hi hj
    have := get_of_isZero _ h i j
    rwa [get_ofFn_of_lt _ _ _ _ _ hi hj] at this
  · intro h
    unfold isZero ofFn
    simp only [Array.all_eq_true, beq_iff_eq]
    intro i hi j hj
    simp only [Array.size_map, Array.size_range, Array.getElem_map, Array.getElem_range] at hi hj ⊢
    exact h i j hi hj

/-- for a well-shaped matrix `isZero` is exactly "all entries within the dimensions are 0" -/
theorem isZero_iff_get (a : QMat) (hw : a.wellShaped = true) :
    a.isZero = true ↔ ∀ i j, i < a.rows → j < a.cols → a.get i j = 0 := by
  constructor
  · intro h i j _ _
    exact get_of_isZero a h i j
  · intro h
    rw [eq_ofFn_of_wellShaped a hw, isZero_ofFn_iff]
    exact h

/-- **`isZero a = true ↔ toMatrix a = 0`** (well-shaped `a`) -/
theorem isZero_iff (a : QMat) (hw : a.wellShaped = true) : a.isZero = true ↔ a.toMatrix = 0 := by
  rw [isZero_iff_get a hw]
  constructor
  · intro h
    ext i j
    exact h i j i.isLt j.isLt
  · intro h i j hi hj
    exact congrFun (congrFun h ⟨i, hi⟩) ⟨j, hj⟩

/-- one direction without the shape hypothesis, at any view -/
theorem toMat_of_isZero (a : QMat) (h : a.isZero = true) (r c : Nat) : a.toMat r c = 0 := by
  ext i j
  exact get_of_isZero a h i j

/-- **`eqv`**: equal dimensions and equal entries within them (no shape hypothesis is needed: `a - b` is an `ofFn`) -/
theorem eqv_iff_get (a b : QMat) :
    eqv a b = true ↔ a.rows = b.rows ∧ a.cols = b.cols ∧ ∀ i j, i < a.rows → j < a.cols → a.get i j = b.get i j := by
  unfold eqv
  simp only [Bool.and_eq_true, beq_iff_eq]
  have : (a - b).isZero = true ↔ ∀ i j, i < a.rows → j < a.cols → a.get i j = b.get i j := by
    show (QMat.sub a b).isZero = true ↔ _
    unfold QMat.sub
    rw [isZero_ofFn_iff]
    exact forall_congr' fun i => forall_congr' fun j => forall_congr' fun _ => forall_congr' fun _ => sub_eq_zero
  rw [this, and_assoc]

theorem eqv_iff (a b : QMat) :
    eqv a b = true ↔ a.rows = b.rows ∧ a.cols = b.cols ∧ a.toMatrix = b.toMat a.rows a.cols := by
  rw [eqv_iff_get]
  refine and_congr_right fun _ => and_congr_right fun _ => ?_
  constructor
  · intro h
    ext i j
    exact h i j i.isLt j.isLt
  · intro h i j hi hj
    exact congrFun (congrFun h ⟨i, hi⟩) ⟨j, hj⟩

/-- `eqv` at a common dimension -/
theorem toMat_eq_of_eqv (a b : QMat) (h : eqv a b = true) (r c : Nat) (hr : a.rows = r) (hc : a.cols = c) :
    a.toMat r c = b.toMat r c ∧ b.rows = r ∧ b.cols = c := by
  subst hr hc
  obtain ⟨h1, h2, h3⟩ := (eqv_iff a b).1 h
  exact ⟨h3, h1.symm, h2.symm⟩

/-- `eqv` between well-shaped matrices is equality -/
theorem eq_of_eqv (a b : QMat) (ha : a.wellShaped = true) (hb : b.wellShaped = true) (h : eqv a b = true) : a = b := by
  obtain ⟨h1, h2, h3⟩ := (eqv_iff_get a b).1 h
  exact ext_of_get a b ha hb h1 h2 h3

theorem eqv_refl (a : QMat) : eqv a a = true := (eqv_iff_get a a).2 ⟨rfl, rfl, fun _ _ _ _ => rfl⟩

theorem isSymmetric_iff (a : QMat) (n : Nat) (hr : a.rows = n) :
    a.isSymmetric = true ↔ a.cols = n ∧ (a.toMat n n).IsSymm := by
  subst hr
  unfold isSymmetric
  simp only [Bool.and_eq_true, beq_iff_eq]
  constructor
  · rintro ⟨h1, h2⟩
    refine ⟨h1.symm, ?_⟩
    obtain ⟨_, _, h3⟩ := (eqv_iff_get _ _).1 h2
    ext i j
    have := h3 j i j.isLt (by rw [← h1]; exact i.isLt)
    simp only [Matrix.transpose_apply, toMat_apply]
    rw [this, get_transpose, if_pos ⟨by rw [← h1]; exact j.isLt, i.isLt⟩]
  · rintro ⟨h1, h2⟩
    refine ⟨h1.symm, (eqv_iff_get _ _).2 ⟨h1.symm, h1, fun i j hi hj => ?_⟩⟩
    rw [get_transpose, if_pos ⟨by omega, by omega⟩]
    have := congrFun (congrFun h2 ⟨i, hi⟩) ⟨j, by omega⟩
    simpa using this.symm

/-! ## 6. The checked solver

`solve` (Gauss-Jordan) is deliberately *not* proved correct; what is proved is that `solveChecked` -- the only form
in which the models call it -- returns only exact solutions, with the right dimensions and a well-shaped result. -/

/-- what `solve` guarantees without looking at the elimination: the side conditions, the dimensions, the shape -/
theorem solve_dims (a b x : QMat) (h : solve a b = some x) :
    a.rows = a.cols ∧ a.rows = b.rows ∧ x.rows = a.rows ∧ x.cols = b.cols ∧ x.wellShaped = true := by
  unfold solve at h
  split at h
  · cases h
  · rename_i hcond
    simp only [Bool.or_eq_true, bne_iff_ne, ne_eq, not_or, Decidable.not_not] at hcond
    split at h
    · cases h
    · cases h
      refine ⟨hcond.1, hcond.2, ?_, ?_, wellShaped_block _ _ _ _ _⟩
      · simp
      · simp

theorem solveChecked_eq_some (a b x : QMat) (h : solveChecked a b = some x) :
    solve a b = some x ∧ eqv (a * x) b = true := by
  unfold solveChecked at h
  split at h
  · rename_i x' hx
    split at h
    · rename_i hchk
      cases h
      exact ⟨hx, hchk⟩
    · cases h
  · cases h

/-- **Soundness of the checked solver.**  If `solveChecked a b = some x` then `a` is square `n × n`, `b` and `x` are
`n × m`, `x` is well-shaped and `A X = B` holds for the Mathlib views. -/
theorem solveChecked_sound (a b x : QMat) (h : solveChecked a b = some x) :
    a.cols = a.rows ∧ b.rows = a.rows ∧ x.rows = a.rows ∧ x.cols = b.cols ∧ x.wellShaped = true ∧
      a.toMat a.rows a.rows * x.toMat a.rows b.cols = b.toMat a.rows b.cols := by
  obtain ⟨hs, he⟩ := solveChecked_eq_some a b x h
  obtain ⟨h1, h2, h3, h4, h5⟩ := solve_dims a b x hs
  refine ⟨h1.symm, h2.symm, h3, h4, h5, ?_⟩
  have := (toMat_eq_of_eqv (a * x) b he a.rows b.cols rfl (by rw [mul_cols, h4])).1
  rw [← this, toMat_mul a x a.rows a.rows b.cols rfl h1.symm h4]

/-- the same with the dimensions named by the caller (the `toMatrix'` form) -/
theorem solveChecked_sound' (a b x : QMat) (h : solveChecked a b = some x) {n m : Nat}
    (hn : a.rows = n) (hm : b.cols = m) :
    ∃ (hac : a.cols = n) (hbr : b.rows = n) (hxr : x.rows = n) (hxc : x.cols = m),
      a.toMatrix' hn hac * x.toMatrix' hxr hxc = b.toMatrix' hbr hm := by
  obtain ⟨h1, h2, h3, h4, _, h6⟩ := solveChecked_sound a b x h
  subst hn hm
  exact ⟨h1, h2, h3, h4, h6⟩

/-- **`inverse`** returns a right inverse … -/
theorem inverse_sound (a x : QMat) (h : inverse a = some x) :
    a.cols = a.rows ∧ x.rows = a.rows ∧ x.cols = a.rows ∧ x.wellShaped = true ∧
      a.toMat a.rows a.rows * x.toMat a.rows a.rows = 1 := by
  unfold inverse at h
  obtain ⟨h1, _, h3, h4, h5, h6⟩ := solveChecked_sound a _ x h
  rw [identity_cols] at h4 h6
  rw [toMat_identity] at h6
  exact ⟨h1, h3, h4, h5, h6⟩

/-- … which, the matrices being square over a field, is also a left inverse, so the view of `a` is invertible and the
result is *the* inverse -/
theorem inverse_sound_left (a x : QMat) (h : inverse a = some x) :
    x.toMat a.rows a.rows * a.toMat a.rows a.rows = 1 :=
  mul_eq_one_comm.1 (inverse_sound a x h).2.2.2.2

theorem inverse_isUnit_det (a x : QMat) (h : inverse a = some x) : IsUnit (a.toMat a.rows a.rows).det :=
  Matrix.isUnit_det_of_right_inverse (inverse_sound a x h).2.2.2.2

theorem inverse_eq_inv (a x : QMat) (h : inverse a = some x) : x.toMat a.rows a.rows = (a.toMat a.rows a.rows)⁻¹ :=
  (Matrix.inv_eq_right_inv (inverse_sound a x h).2.2.2.2).symm

/-- when the system matrix is non-singular the checked solution is the unique one, `A⁻¹ B` -/
theorem solveChecked_eq_inv_mul (a b x : QMat) (h : solveChecked a b = some x)
    (hdet : IsUnit (a.toMat a.rows a.rows).det) :
    x.toMat a.rows b.cols = (a.toMat a.rows a.rows)⁻¹ * b.toMat a.rows b.cols := by
  have h6 := (solveChecked_sound a b x h).2.2.2.2.2
  rw [← h6, ← Matrix.mul_assoc, Matrix.nonsing_inv_mul _ hdet, Matrix.one_mul]

/-- two checked solutions of the same non-singular system agree (as `QMat` values) -/
theorem solveChecked_unique (a b x y : QMat) (hx : solveChecked a b = some x)
    (hy : a.rows = y.rows ∧ b.cols = y.cols ∧ y.wellShaped = true ∧
      a.toMat a.rows a.rows * y.toMat a.rows b.cols = b.toMat a.rows b.cols)
    (hdet : IsUnit (a.toMat a.rows a.rows).det) : x = y := by
  obtain ⟨_, _, h3, h4, h5, h6⟩ := solveChecked_sound a b x hx
  obtain ⟨g1, g2, g3, g4⟩ := hy
  have hxy : x.toMat a.rows b.cols = y.toMat a.rows b.cols := by
    have := congrArg (fun M => (a.toMat a.rows a.rows)⁻¹ * M) (h6.trans g4.symm)
    simpa only [← Matrix.mul_assoc, Matrix.nonsing_inv_mul _ hdet, Matrix.one_mul] using this
  refine ext_of_get x y h5 g3 (h3.trans g1) (h4.trans g2) (fun i j hi hj => ?_)
  exact congrFun (congrFun hxy ⟨i, h3 ▸ hi⟩) ⟨j, h4 ▸ hj⟩

/-! ## Non-vacuity: the checked solver does return solutions (kernel evaluation of the executable code) -/

example : (solveChecked (ofRows [[2, 1], [1, 3]]) (ofRows [[1, 0, 4], [2, 5, 0]])).isSome = true := by decide +kernel
example : (inverse (ofRows [[0, 1], [1, 3]])).isSome = true := by decide +kernel      -- needs a row swap
example : (inverse (ofRows [[1, 2], [2, 4]])).isSome = false := by decide +kernel     -- singular
example : (ofRows [[1, 2], [3, 4]]).wellShaped = true := by decide +kernel

end IrisVerif.QMat
