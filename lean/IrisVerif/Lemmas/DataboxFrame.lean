/-
Helper lemmas for property C19: the frame (`names outside a set keep their entries and order`) of the
dictionary primitives of IrisVerif/Model/Databox.lean.
-/
import IrisVerif.Model.Databox

namespace IrisVerif.Databox

/-- the part of a dictionary outside the name set `T`, in order -/
def frame {α : Type} (T : List String) (db : List (String × α)) : List (String × α) :=
  db.filter (fun p => !T.contains p.1)

theorem frame_append {α : Type} (T1 T2 : List String) (db : List (String × α)) :
    frame (T1 ++ T2) db = frame T2 (frame T1 db) := by
  unfold frame
  rw [List.filter_filter]
  apply List.filter_congr
  intro p _
  simp [List.contains_eq_mem, Bool.and_comm]

theorem frame_mono {α : Type} {T1 : List String} (T2 : List String) {a b : List (String × α)}
    (h : frame T1 a = frame T1 b) : frame (T1 ++ T2) a = frame (T1 ++ T2) b := by
  rw [frame_append, frame_append, h]

theorem frame_mono' {α : Type} (T1 : List String) {T2 : List String} {a b : List (String × α)}
    (h : frame T2 a = frame T2 b) : frame (T1 ++ T2) a = frame (T1 ++ T2) b := by
  have e : ∀ x : List (String × α), frame (T1 ++ T2) x = frame T1 (frame T2 x) := by
    intro x
    unfold frame
    rw [List.filter_filter]
    apply List.filter_congr
    intro p _
    simp [List.contains_eq_mem]
  rw [e, e, h]

theorem frame_delKey {α : Type} {T : List String} {k : String} (hk : k ∈ T) (db : List (String × α)) :
    frame T (delKey db k) = frame T db := by
  unfold frame delKey
  rw [List.filter_filter]
  apply List.filter_congr
  intro p _
  by_cases hp : p.1 = k
  · subst hp; simp [List.contains_eq_mem, hk]
  · simp [hp]

theorem frame_setKey {α : Type} {T : List String} {k : String} (hk : k ∈ T) (v : α) (db : List (String × α)) :
    frame T (setKey db k v) = frame T db := by
  induction db with
  | nil => simp [setKey, frame, List.contains_eq_mem, hk]
  | cons p rest ih =>
    obtain ⟨k', v'⟩ := p
    unfold setKey
    by_cases h : k' = k
    · subst h; simp [frame, List.contains_eq_mem, hk]
    · simp only [h, if_false]
      unfold frame at ih ⊢
      simp only [List.filter_cons]
      rw [ih]

theorem frame_snoc {α : Type} {T : List String} {k : String} (hk : k ∈ T) (v : α) (db : List (String × α)) :
    frame T (db ++ [(k, v)]) = frame T db := by
  simp [frame, List.filter_append, List.contains_eq_mem, hk]

/-- a name-preserving map that fixes every entry outside `T` leaves the frame alone -/
theorem frame_map {α : Type} {T : List String} (g : String × α → String × α) (db : List (String × α))
    (hname : ∀ p, (g p).1 = p.1) (hfix : ∀ p ∈ db, p.1 ∉ T → g p = p) :
    frame T (db.map g) = frame T db := by
  induction db with
  | nil => rfl
  | cons p rest ih =>
    have ih := ih (fun q hq => hfix q (List.mem_cons_of_mem _ hq))
    unfold frame at ih ⊢
    simp only [List.contains_eq_mem] at ih ⊢
    simp only [List.map_cons, List.filter_cons, hname]
    by_cases hp : p.1 ∈ T
    · simp [hp, ih]
    · simp [hp, ih, hfix p (by simp) hp]

theorem frame_eq_nil {α : Type} {T : List String} (db : List (String × α)) (h : ∀ p ∈ db, p.1 ∈ T) :
    frame T db = [] := by
  unfold frame
  rw [List.filter_eq_nil_iff]
  intro p hp
  simp [List.contains_eq_mem, h p hp]

theorem lookup_some_mem {α : Type} {db : List (String × α)} {k : String} {v : α} (h : lookup db k = some v) :
    (k, v) ∈ db := by
  induction db with
  | nil => simp [lookup] at h
  | cons p rest ih =>
    obtain ⟨k', v'⟩ := p
    unfold lookup at h
    by_cases hk : k' = k
    · simp [hk] at h; subst hk; subst h; simp
    · simp [hk] at h; exact List.mem_cons_of_mem _ (ih h)

theorem lookup_frame {α : Type} {T : List String} {n : String} (hn : n ∉ T) (db : List (String × α)) :
    lookup (frame T db) n = lookup db n := by
  induction db with
  | nil => rfl
  | cons p rest ih =>
    obtain ⟨k, v⟩ := p
    unfold frame at ih ⊢
    simp only [List.filter_cons, List.contains_eq_mem]
    by_cases hk : k ∈ T
    · have hne : k ≠ n := fun e => hn (e ▸ hk)
      simp only [List.contains_eq_mem] at ih
      simp [hk, lookup, hne, ih]
    · simp only [List.contains_eq_mem] at ih
      simp [hk, lookup, ih]

/-- the names a sequence of operations may change, each operation's selection being resolved in the state it runs in -/
def touchedSeq {S V : Type} (o : SOps S) (db : Box S V) : List (Op S V) → List String
  | [] => []
  | op :: rest => touched o db op ++ (match applyOp o db op with
    | .ok db1 => touchedSeq o db1 rest
    | .error _ => [])

open IrisVerif.Dates (Err R)

section Frame
variable {S V : Type}

theorem popAll_frame (T : List String) (ns : List String) (hT : ∀ n ∈ ns, n ∈ T) (db db' : Box S V) (vs : List (Item S V))
    (h : popAll db ns = .ok (db', vs)) : frame T db' = frame T db := by
  induction ns generalizing db vs with
  | nil => simp [popAll, pure, Except.pure] at h; rw [← h.1]
  | cons n rest ih =>
    unfold popAll at h
    cases hl : lookup db n with
    | none => simp [hl, throw, throwThe, MonadExceptOf.throw] at h
    | some v =>
      simp only [hl] at h
      cases hr : popAll (delKey db n) rest with
      | error e => simp [hr, bind, Except.bind] at h
      | ok x =>
        obtain ⟨d1, v1⟩ := x
        simp [hr, bind, Except.bind, pure, Except.pure] at h
        obtain ⟨rfl, _⟩ := h
        rw [ih (fun q hq => hT q (List.mem_cons_of_mem _ hq)) _ _ hr, frame_delKey (hT n (by simp))]

theorem assignAll_frame (T : List String) (l : List (String × Item S V)) (hT : ∀ p ∈ l, p.1 ∈ T) (db : Box S V) :
    frame T (assignAll db l) = frame T db := by
  unfold assignAll
  induction l generalizing db with
  | nil => rfl
  | cons p rest ih =>
    simp only [List.foldl_cons]
    rw [ih (fun q hq => hT q (List.mem_cons_of_mem _ hq)), frame_setKey (hT p (by simp))]

theorem renamePairs_frame (T : List String) (pairs : List (String × String))
    (hT : ∀ p ∈ pairs, p.1 ∈ T ∧ p.2 ∈ T) (db db' : Box S V) (h : renamePairs db pairs = .ok db') :
    frame T db' = frame T db := by
  unfold renamePairs at h
  cases hp : popAll db (pairs.map (·.1)) with
  | error e => simp [hp, bind, Except.bind] at h
  | ok x =>
    obtain ⟨d1, vs⟩ := x
    simp [hp, bind, Except.bind, pure, Except.pure] at h
    subst h
    rw [assignAll_frame, popAll_frame T _ _ db d1 vs hp]
    · intro n hn
      obtain ⟨p, hp', rfl⟩ := List.mem_map.mp hn
      exact (hT p hp').1
    · intro p hp'
      have := (List.of_mem_zip hp').1
      obtain ⟨q, hq, hqe⟩ := List.mem_map.mp this
      rw [← hqe]; exact (hT q hq).2

theorem removeNames_frame (T : List String) (ns : List String) (hT : ∀ n ∈ ns, n ∈ T) (db db' : Box S V)
    (h : removeNames db ns = .ok db') : frame T db' = frame T db := by
  induction ns generalizing db with
  | nil => simp [removeNames, pure, Except.pure] at h; subst h; rfl
  | cons n rest ih =>
    unfold removeNames at h
    simp only [List.contains_eq_mem, decide_eq_true_eq] at h
    by_cases hc : n ∈ keys db
    · simp only [hc, if_true] at h
      rw [ih (fun q hq => hT q (List.mem_cons_of_mem _ hq)) _ h, frame_delKey (hT n (by simp))]
    · simp [hc, throw, throwThe, MonadExceptOf.throw] at h

theorem keep_frame (db : Box S V) (ks : List String) :
    frame ((keys db).filter (fun n => !ks.contains n)) (db.filter (fun p => ks.contains p.1))
      = frame ((keys db).filter (fun n => !ks.contains n)) db := by
  unfold frame
  rw [List.filter_filter]
  apply List.filter_congr
  intro p hp
  have hk : p.1 ∈ keys db := List.mem_map_of_mem (f := (·.1)) hp
  by_cases hc : p.1 ∈ ks
  · simp [hc]
  · simp [hc, hk]

theorem lay_frame (o : SOps S) (f : S → S → S) (db other db' : Box S V) (names : Option (List String)) (strict : Bool)
    (h : lay o f db other names strict = .ok db') :
    frame ((layNames db other names strict).filter (fun n => layAct o db other n = .apply)) db'
      = frame ((layNames db other names strict).filter (fun n => layAct o db other n = .apply)) db := by
  unfold lay at h
  dsimp only at h
  split at h
  · simp [throw, throwThe, MonadExceptOf.throw] at h
  · simp only [pure, Except.pure, Except.ok.injEq] at h
    subst h
    apply frame_map
    · intro p
      split
      · split <;> rfl
      · rfl
    · intro p _ hp
      have : ¬ ((layNames db other names strict).contains p.1 = true ∧ layAct o db other p.1 = .apply) := by
        intro hc
        apply hp
        simp only [List.contains_eq_mem, decide_eq_true_eq] at hc
        simp [List.mem_filter, hc.1, hc.2]
      simp only [Bool.and_eq_true, decide_eq_true_eq]
      rw [if_neg this]

theorem clip_frame (o : SOps S) (db : Box S V) (f : BFreq) (lo hi : Option Int) :
    frame (touched o db (.clip f lo hi)) (clip o db f lo hi) = frame (touched o db (.clip f lo hi)) db := by
  unfold clip touched
  cases lo <;> cases hi <;> try rfl
  all_goals
    apply frame_map
    · intro p
      split
      · split <;> rfl
      · rfl
    · intro p hpm hp
      split
      · rename_i s hs
        split
        · rename_i hf
          exfalso
          apply hp
          simp only [List.mem_map, List.mem_filter]
          exact ⟨p, ⟨hpm, by simp [hs, hf]⟩, rfl⟩
        · rfl
      · rfl

theorem mergeOne_frame (o : SOps S) (st : Strategy) (T : List String) (t : Box S V) (hT : ∀ p ∈ t, p.1 ∈ T)
    (db r : Box S V) (dup : Bool) (h : mergeOne o st db t = .ok (r, dup)) : frame T r = frame T db := by
  induction t generalizing db dup with
  | nil => simp [mergeOne, pure, Except.pure] at h; rw [h.1]
  | cons p rest ih =>
    obtain ⟨k, v⟩ := p
    have hk : k ∈ T := hT (k, v) (by simp)
    have hrest : ∀ q ∈ rest, q.1 ∈ T := fun q hq => hT q (List.mem_cons_of_mem _ hq)
    unfold mergeOne at h
    cases hl : lookup db k with
    | none =>
      simp only [hl] at h
      rw [ih hrest _ _ h, frame_snoc hk]
    | some old =>
      simp only [hl] at h
      cases hm : mergeExisting o st old v with
      | none => simp [hm, throw, throwThe, MonadExceptOf.throw] at h
      | some w =>
        simp only [hm] at h
        cases hr : mergeOne o st (setKey db k w) rest with
        | error e => simp [hr, bind, Except.bind] at h
        | ok x =>
          obtain ⟨r1, d1⟩ := x
          simp [hr, bind, Except.bind, pure, Except.pure] at h
          obtain ⟨rfl, _⟩ := h
          rw [ih hrest _ _ hr, frame_setKey hk]

theorem merge_frame (o : SOps S) (st : Strategy) (others : List (Box S V)) (db db' : Box S V)
    (h : merge o st db others = .ok db') :
    frame ((others.map keys).flatten) db' = frame ((others.map keys).flatten) db := by
  induction others generalizing db with
  | nil => simp [merge, pure, Except.pure] at h; subst h; rfl
  | cons t rest ih =>
    unfold merge at h
    cases hm : mergeOne o st db t with
    | error e => simp [hm, bind, Except.bind] at h
    | ok x =>
      obtain ⟨db1, dup⟩ := x
      cases hr : merge o st db1 rest with
      | error e => simp [hm, hr, bind, Except.bind] at h
      | ok r =>
        have hr' : db' = r := by
          simp only [hm, hr, bind, Except.bind] at h
          split at h
          · simp [throw, throwThe, MonadExceptOf.throw] at h
          · simp [pure, Except.pure] at h; exact h.symm
        subst hr'
        simp only [List.map_cons, List.flatten_cons]
        have h1 : frame (keys t) db1 = frame (keys t) db :=
          mergeOne_frame o st (keys t) t (fun p hp => List.mem_map_of_mem (f := (·.1)) hp) db db1 dup hm
        rw [frame_mono' (keys t) (ih db1 hr), frame_mono _ h1]

theorem resolveSources_names_subset (ctx l : List String) (strict : Bool) :
    ∀ n ∈ resolveSources ctx (.names l) strict, n ∈ l := by
  intro n hn
  unfold resolveSources at hn
  cases strict
  · simp only [Sel.resolve] at hn
    exact (List.mem_filter.mp hn).1
  · simpa [Sel.resolve] using hn

theorem copy_frame (o : SOps S) (db db' : Box S V) (src : Option Sel) (tgt : Option Tgt) (strict : Bool)
    (h : copy db src tgt strict = .ok db') :
    frame (touched o db (.copy src tgt strict)) db' = frame (touched o db (.copy src tgt strict)) db := by
  have key : ∀ (T : List String) (targets : List String) (db1 : Box S V),
      (∀ n ∈ targets, n ∈ T) → (∀ p ∈ db, p.1 ∈ T) →
      frame T (keep db1 (some (Sel.names targets)) strict) = frame T db := by
    intro T targets db1 h1 h2
    rw [frame_eq_nil db h2, frame_eq_nil]
    intro p hp
    unfold keep at hp
    simp only [List.mem_filter, List.contains_eq_mem, decide_eq_true_eq] at hp
    exact h1 _ (resolveSources_names_subset _ _ _ _ hp.2)
  have mem3 : ∀ (sr tg : List String) (p : String × Item S V), p ∈ db →
      p.1 ∈ sr ++ tg ++ (keys db).filter (fun n => !tg.contains n) := by
    intro sr tg p hp
    have hk : p.1 ∈ keys db := List.mem_map_of_mem (f := (·.1)) hp
    by_cases hc : p.1 ∈ tg
    · exact List.mem_append_left _ (List.mem_append_right _ hc)
    · apply List.mem_append_right
      simp only [List.mem_filter, List.contains_eq_mem, Bool.not_eq_true', decide_eq_false_iff_not]
      exact ⟨hk, hc⟩
  cases src <;> cases tgt
  · simp [copy, pure, Except.pure] at h; subst h; rfl
  all_goals
    simp only [copy, bind, Except.bind] at h
    split at h
    · simp at h
    · simp only [pure, Except.pure, Except.ok.injEq] at h
      subst h
      simp only [touched]
      apply key
      · intro n hn
        exact List.mem_append_left _ (List.mem_append_right _ hn)
      · exact mem3 _ _

end Frame

end IrisVerif.Databox
