/-
Property C15 -- model-implied autocovariances solve the solved model's Lyapunov equation.

Part 1 (Mathlib matrices over any commutative ring / ordered field / the reals, all sizes): assembled Γ₀ is a fixed
point of second-moment propagation of the joint (α, y) system; zero padding of the stable block; Γ_j = 𝒜^j Γ₀ is the
lag-j cross moment (induction over j); the triangular→square similarity; uniqueness under a contraction hypothesis;
the s² law; the autocorrelation scaling with its zero-variance guard.
Part 2 (about the executable model `Model/Acov.lean` that the driver runs against irispie): the NaN pattern, the
zero-shift selection, the Lyapunov certificate, the recursion, the model's correlation guard.
-/
import Mathlib.Data.Matrix.Block
import Mathlib.Data.Matrix.ColumnRowPartitioned
import Mathlib.LinearAlgebra.Matrix.NonsingularInverse
import Mathlib.LinearAlgebra.Matrix.Notation
import Mathlib.Analysis.Matrix.Normed
import Mathlib.LinearAlgebra.Matrix.Vec
import Mathlib.Tactic.Abel
import Mathlib.Tactic.Linarith
import Mathlib.Tactic.Ring
import Mathlib.Tactic.FinCases
import Mathlib.Tactic.NormNum
import IrisVerif.Lemmas.Acov

open Matrix

namespace IrisVerif.C15
set_option linter.unusedSectionVars false
open IrisVerif.Acov (homogeneous_iterate cmat_get_ofFn qget_ofFn)

/-! ## Part 1 -/

section Propagation
variable {a y e w : Type} [Fintype a] [Fintype y] [Fintype e] [Fintype w]
variable {K : Type} [CommRing K]

/-- discrete Lyapunov equation of `α_t = T α_{t-1} + P u_t`, `cov u = Su` -/
def Lyap (T : Matrix a a K) (P : Matrix a e K) (Su : Matrix e e K) (Om : Matrix a a K) : Prop :=
  Om = T * Om * Tᵀ + P * Su * Pᵀ

/-- transition matrix of the joint vector `z = (α, y)`, `y_t = Z α_t + H w_t`: `z_t = 𝒜 z_{t-1} + ℬ (u_t, w_t)` -/
def calA (T : Matrix a a K) (Z : Matrix y a K) : Matrix (a ⊕ y) (a ⊕ y) K := fromBlocks T 0 (Z * T) 0
def calB (P : Matrix a e K) (Z : Matrix y a K) (H : Matrix y w K) : Matrix (a ⊕ y) (e ⊕ w) K :=
  fromBlocks P 0 (Z * P) H
def calS (Su : Matrix e e K) (Sw : Matrix w w K) : Matrix (e ⊕ w) (e ⊕ w) K := fromBlocks Su 0 0 Sw

/-- `get_cov_triangular_00`: `[[Ω, Ω Zᵀ], [(Ω Zᵀ)ᵀ, Z Ω Zᵀ + H Sw Hᵀ]]` -/
def Gamma0 (Z : Matrix y a K) (H : Matrix y w K) (Sw : Matrix w w K) (Om : Matrix a a K) :
    Matrix (a ⊕ y) (a ⊕ y) K :=
  fromBlocks Om (Om * Zᵀ) (Om * Zᵀ)ᵀ (Z * Om * Zᵀ + H * Sw * Hᵀ)

/-- **The assembled order-0 matrix is a fixed point of second-moment propagation of the joint system.** -/
theorem gamma0_fixed_point (T : Matrix a a K) (P : Matrix a e K) (Z : Matrix y a K) (H : Matrix y w K)
    (Su : Matrix e e K) (Sw : Matrix w w K) (Om : Matrix a a K)
    (h : Lyap T P Su Om) (hsym : Omᵀ = Om) :
    Gamma0 Z H Sw Om =
      calA T Z * Gamma0 Z H Sw Om * (calA T Z)ᵀ + calB P Z H * calS Su Sw * (calB P Z H)ᵀ := by
  unfold Lyap at h
  have hz : (Om * Zᵀ)ᵀ = Z * Om := by rw [Matrix.transpose_mul, Matrix.transpose_transpose, hsym]
  unfold Gamma0 calA calB calS
  rw [hz]
  simp only [fromBlocks_transpose, fromBlocks_multiply, fromBlocks_add, Matrix.transpose_zero,
    Matrix.zero_mul, Matrix.mul_zero, add_zero, zero_add, Matrix.transpose_mul]
  have e11 : Om = T * Om * Tᵀ + P * Su * Pᵀ := h
  have e12 : Om * Zᵀ = T * Om * (Tᵀ * Zᵀ) + P * Su * (Pᵀ * Zᵀ) := by
    conv_lhs => rw [e11]
    simp only [Matrix.add_mul, Matrix.mul_assoc]
  have e21 : Z * Om = Z * T * Om * Tᵀ + Z * P * Su * Pᵀ := by
    conv_lhs => rw [e11]
    simp only [Matrix.mul_add, Matrix.mul_assoc]
  have e22 : Z * Om * Zᵀ + H * Sw * Hᵀ
      = Z * T * Om * (Tᵀ * Zᵀ) + (Z * P * Su * (Pᵀ * Zᵀ) + H * Sw * Hᵀ) := by
    conv_lhs => rw [e11]
    simp only [Matrix.mul_add, Matrix.add_mul, Matrix.mul_assoc]
    abel
  rw [← e11, ← e12, ← e21, ← e22]

end Propagation

section Padding
variable {u s e : Type} [Fintype u] [Fintype s] [Fintype e]
variable {K : Type} [CommRing K]

/-- **Stable block.** A solution of the Lyapunov equation of the stable block, padded with zeros, solves the
Lyapunov equation of the system whose unit-root rows and columns are set to zero (`cov_alpha_00`, `Ta_00`). -/
theorem padded_lyapunov (Ts : Matrix s s K) (Ps : Matrix s e K) (Su : Matrix e e K) (Oms : Matrix s s K)
    (h : Lyap Ts Ps Su Oms) :
    Lyap (fromBlocks (0 : Matrix u u K) 0 0 Ts) (fromRows (0 : Matrix u e K) Ps) Su
      (fromBlocks (0 : Matrix u u K) 0 0 Oms) := by
  unfold Lyap at h ⊢
  have hP : fromRows (0 : Matrix u e K) Ps * Su * (fromRows (0 : Matrix u e K) Ps)ᵀ
      = fromBlocks 0 0 0 (Ps * Su * Psᵀ) := by
    rw [fromRows_mul, transpose_fromRows, fromRows_mul_fromCols]
    simp only [Matrix.zero_mul, Matrix.mul_zero, Matrix.transpose_zero]
  rw [hP]
  simp only [fromBlocks_transpose, fromBlocks_multiply, Matrix.transpose_zero, Matrix.zero_mul, Matrix.mul_zero,
    add_zero, zero_add, fromBlocks_add]
  rw [← h]

end Padding

section Lags
variable {n : Type} [Fintype n] [DecidableEq n]
variable {K : Type} [CommRing K]

/-- the list the code builds (`Γ_{j+1} = 𝒜 Γ_j`) is `𝒜^j Γ_0` -/
theorem autocov_closed_form (A G0 : Matrix n n K) (G : ℕ → Matrix n n K)
    (h0 : G 0 = G0) (hs : ∀ j, G (j + 1) = A * G j) : ∀ j, G j = A ^ j * G0 := by
  intro j
  induction j with
  | zero => simp [h0]
  | succ j ih => rw [hs, ih, pow_succ', Matrix.mul_assoc]

/-- **`Γ_j` is the lag-`j` covariance under the propagation**: for any family of cross moments `M t s`
(`= E z_t z_sᵀ`) of the system `z_t = 𝒜 z_{t-1} + ℬ ε_t` with `ε_t` uncorrelated with the past
(`M (t+1) s = 𝒜 M t s` for `s ≤ t`) that is stationary at `Γ_0` (`M t t = Γ_0`), the lag-`j` moment is `𝒜^j Γ_0`
at every date, for every `j`. -/
theorem lag_cross_moment (A G0 : Matrix n n K) (M : ℕ → ℕ → Matrix n n K)
    (hdiag : ∀ t, M t t = G0) (hcross : ∀ t s, s ≤ t → M (t + 1) s = A * M t s) :
    ∀ j t, M (t + j) t = A ^ j * G0 := by
  intro j
  induction j with
  | zero => intro t; simp [hdiag]
  | succ j ih =>
    intro t
    rw [← Nat.add_assoc, hcross (t + j) t (Nat.le_add_right t j), ih, pow_succ', Matrix.mul_assoc]

/-- **triangular → square**: `ξ = U α` is a similarity; fixed point and lag formula carry over -/
theorem square_map (U V A G0 : Matrix n n K) {m : Type} [Fintype m] (B : Matrix n m K) (S : Matrix m m K)
    (hVU : V * U = 1)
    (hfix : G0 = A * G0 * Aᵀ + B * S * Bᵀ) :
    (U * G0 * Uᵀ = (U * A * V) * (U * G0 * Uᵀ) * (U * A * V)ᵀ + (U * B) * S * (U * B)ᵀ) ∧
    ∀ j, U * (A ^ j * G0) * Uᵀ = (U * A * V) ^ j * (U * G0 * Uᵀ) := by
  have hVUt : Uᵀ * Vᵀ = 1 := by rw [← Matrix.transpose_mul, hVU, Matrix.transpose_one]
  constructor
  · have e1 : (U * A * V) * (U * G0 * Uᵀ) * (U * A * V)ᵀ = U * (A * G0 * Aᵀ) * Uᵀ := by
      simp only [Matrix.transpose_mul, Matrix.mul_assoc]
      rw [← Matrix.mul_assoc V U, hVU, Matrix.one_mul, ← Matrix.mul_assoc Uᵀ Vᵀ, hVUt, Matrix.one_mul]
    have e2 : (U * B) * S * (U * B)ᵀ = U * (B * S * Bᵀ) * Uᵀ := by
      simp only [Matrix.transpose_mul, Matrix.mul_assoc]
    rw [e1, e2, ← Matrix.add_mul, ← Matrix.mul_add, ← hfix]
  · intro j
    induction j with
    | zero => simp
    | succ j ih =>
      rw [pow_succ', pow_succ', Matrix.mul_assoc (U * A * V), ← ih]
      simp only [Matrix.mul_assoc]
      rw [← Matrix.mul_assoc V U, hVU, Matrix.one_mul]

end Lags

section Unique
variable {n : Type} [Fintype n] [DecidableEq n]

open scoped Matrix.Norms.Operator

/-- **Uniqueness of the stationary covariance under a contraction hypothesis** (real matrices, `L∞` operator
norm): if some power of `T` satisfies `‖T^m‖ · ‖(Tᵀ)^m‖ < 1` (true for every `T` with spectral radius `< 1` and
`m` large), the Lyapunov equation `Ω = T Ω Tᵀ + Σ` has at most one solution. -/
theorem lyapunov_unique (T Sig Om1 Om2 : Matrix n n ℝ) (m : ℕ)
    (hc : ‖T ^ m‖ * ‖(Tᵀ) ^ m‖ < 1)
    (h1 : Om1 = T * Om1 * Tᵀ + Sig) (h2 : Om2 = T * Om2 * Tᵀ + Sig) : Om1 = Om2 := by
  have hD : Om1 - Om2 = T * (Om1 - Om2) * Tᵀ := by
    conv_lhs => rw [h1, h2]
    simp only [Matrix.mul_sub, Matrix.sub_mul]
    abel
  have hm := homogeneous_iterate T (Om1 - Om2) hD m
  have hn : ‖Om1 - Om2‖ ≤ ‖T ^ m‖ * ‖(Tᵀ) ^ m‖ * ‖Om1 - Om2‖ := by
    calc ‖Om1 - Om2‖ = ‖T ^ m * (Om1 - Om2) * (Tᵀ) ^ m‖ := by rw [← hm]
      _ ≤ ‖T ^ m * (Om1 - Om2)‖ * ‖(Tᵀ) ^ m‖ := norm_mul_le _ _
      _ ≤ ‖T ^ m‖ * ‖Om1 - Om2‖ * ‖(Tᵀ) ^ m‖ := by
          exact mul_le_mul_of_nonneg_right (norm_mul_le _ _) (norm_nonneg _)
      _ = ‖T ^ m‖ * ‖(Tᵀ) ^ m‖ * ‖Om1 - Om2‖ := by ring
  have h0 : ‖Om1 - Om2‖ = 0 := by
    by_contra hne
    have hpos : 0 < ‖Om1 - Om2‖ := lt_of_le_of_ne (norm_nonneg _) (Ne.symm hne)
    have : ‖T ^ m‖ * ‖(Tᵀ) ^ m‖ * ‖Om1 - Om2‖ < 1 * ‖Om1 - Om2‖ := mul_lt_mul_of_pos_right hc hpos
    linarith
  exact sub_eq_zero.1 (norm_eq_zero.1 h0)

end Unique


section Kron
open Kronecker
variable {n : Type} [Fintype n] [DecidableEq n]
variable {K : Type} [CommRing K]

/-- **The Kronecker system the model solves is the Lyapunov equation**: `Ω = TΩTᵀ + Σ ↔ (I − T⊗T) vec Ω = vec Σ`. -/
theorem lyapunov_iff_kron (T Sig Om : Matrix n n K) :
    Om = T * Om * Tᵀ + Sig ↔ (1 - T ⊗ₖ T) *ᵥ vec Om = vec Sig := by
  rw [Matrix.sub_mulVec, Matrix.one_mulVec, kronecker_mulVec_vec, ← vec_sub, vec_inj]
  exact sub_eq_iff_eq_add'.symm

/-- **Uniqueness of the stationary covariance, algebraic form**: when `I − T⊗T` is non-singular (which is what the
model's checked solve finds; equivalent to no two eigenvalues of `T` with product 1, in particular `ρ(T) < 1`) the Lyapunov
equation has at most one solution, and `vec Ω = (I − T⊗T)⁻¹ vec Σ`. -/
theorem lyapunov_unique_kron (T Sig Om1 Om2 : Matrix n n K)
    (hdet : IsUnit (1 - T ⊗ₖ T).det)
    (h1 : Om1 = T * Om1 * Tᵀ + Sig) (h2 : Om2 = T * Om2 * Tᵀ + Sig) :
    Om1 = Om2 ∧ vec Om1 = (1 - T ⊗ₖ T)⁻¹ *ᵥ vec Sig := by
  have k1 := (lyapunov_iff_kron T Sig Om1).1 h1
  have k2 := (lyapunov_iff_kron T Sig Om2).1 h2
  have inv : ∀ Om : Matrix n n K, (1 - T ⊗ₖ T) *ᵥ vec Om = vec Sig → vec Om = (1 - T ⊗ₖ T)⁻¹ *ᵥ vec Sig := by
    intro Om h
    rw [← h, Matrix.mulVec_mulVec, Matrix.nonsing_inv_mul _ hdet, Matrix.one_mulVec]
  refine ⟨vec_inj.1 ((inv Om1 k1).trans (inv Om2 k2).symm), inv Om1 k1⟩

end Kron

section Scaling
variable {n e : Type} [Fintype n] [Fintype e] [DecidableEq n]
variable {K : Type} [CommRing K]

/-- **Scaling all std by `s` scales every autocovariance by `s²`** (`c = s²`): the Lyapunov solution, the
assembled order-0 matrix (linear in `Ω` and `Σ_w`) and every `𝒜^j Γ_0` -/
theorem scaling_lyapunov (T : Matrix n n K) (P : Matrix n e K) (Su : Matrix e e K) (Om : Matrix n n K) (c : K)
    (h : Om = T * Om * Tᵀ + P * Su * Pᵀ) :
    c • Om = T * (c • Om) * Tᵀ + P * (c • Su) * Pᵀ := by
  conv_lhs => rw [h]
  simp only [Matrix.mul_smul, Matrix.smul_mul, smul_add]

theorem scaling_lags (A G0 : Matrix n n K) (c : K) (j : ℕ) : A ^ j * (c • G0) = c • (A ^ j * G0) := by
  rw [Matrix.mul_smul]

theorem scaling_gamma0 {y w : Type} [Fintype y] [Fintype w] (Z : Matrix y n K) (H : Matrix y w K)
    (Sw : Matrix w w K) (Om : Matrix n n K) (c : K) :
    fromBlocks (c • Om) ((c • Om) * Zᵀ) ((c • Om) * Zᵀ)ᵀ (Z * (c • Om) * Zᵀ + H * (c • Sw) * Hᵀ)
      = c • fromBlocks Om (Om * Zᵀ) (Om * Zᵀ)ᵀ (Z * Om * Zᵀ + H * Sw * Hᵀ) := by
  rw [fromBlocks_smul]
  simp only [Matrix.mul_smul, Matrix.smul_mul, smul_add, Matrix.transpose_smul]

/-- **Scaling kind by kind.** The assembled order-0 matrix is linear in the pair (transition part, measurement part):
scaling the transition stds by `√a` (so `Ω ↦ a·Ω`) and the measurement stds by `√b` gives `a·Γ₀[Σ_w = 0] + b·Γ₀[Ω = 0]`;
with `a = b = s²` this is the `s²` law, with `b = 1` (or an empty measurement block) only the transition part moves. -/
theorem scaling_gamma0_by_kind {y w : Type} [Fintype y] [Fintype w] (Z : Matrix y n K) (H : Matrix y w K)
    (Sw : Matrix w w K) (Om : Matrix n n K) (a b : K) :
    fromBlocks (a • Om) ((a • Om) * Zᵀ) ((a • Om) * Zᵀ)ᵀ (Z * (a • Om) * Zᵀ + H * (b • Sw) * Hᵀ)
      = a • fromBlocks Om (Om * Zᵀ) (Om * Zᵀ)ᵀ (Z * Om * Zᵀ)
        + b • fromBlocks (0 : Matrix n n K) 0 0 (H * Sw * Hᵀ) := by
  rw [fromBlocks_smul, fromBlocks_smul, fromBlocks_add]
  simp only [Matrix.mul_smul, Matrix.smul_mul, Matrix.transpose_smul, smul_zero, add_zero]

end Scaling

section Acorr
variable {n : Type}
variable {K : Type} [Field K] [LinearOrder K] [IsStrictOrderedRing K]

/-- `acorr_from_acov`: `acorr_j = Γ_j ∘ (r rᵀ)` with `r_i = 1/√d_i` where the order-0 variance `d_i` is positive and
`r_i = 0` otherwise (`r` is characterised by `r_i ≥ 0`, `r_i² d_i = 1`). Then the order-0 diagonal is 1, every
entry squares to `γ²/(d_i d_j)` with the sign of `γ`, and a non-positive variance gives 0 (no division). -/
theorem acorr_spec (G0 G : Matrix n n K) (r : n → K)
    (hr : ∀ i, if 0 < G0 i i then (0 ≤ r i ∧ r i * r i * G0 i i = 1) else r i = 0) :
    let acorr : Matrix n n K → Matrix n n K := fun g => Matrix.of (fun i j => g i j * (r i * r j))
    (∀ i, 0 < G0 i i → acorr G0 i i = 1) ∧
    (∀ i j, 0 < G0 i i → 0 < G0 j j → acorr G i j * acorr G i j * (G0 i i * G0 j j) = G i j * G i j) ∧
    (∀ i j, 0 < G0 i i → 0 < G0 j j → (0 ≤ acorr G i j ↔ 0 ≤ G i j)) ∧
    (∀ i j, (¬ 0 < G0 i i ∨ ¬ 0 < G0 j j) → acorr G i j = 0) := by
  intro acorr
  refine ⟨?_, ?_, ?_, ?_⟩
  · intro i hi
    have := hr i; rw [if_pos hi] at this
    simp only [acorr, Matrix.of_apply]
    rw [mul_comm, this.2]
  · intro i j hi hj
    have h1 := hr i; rw [if_pos hi] at h1
    have h2 := hr j; rw [if_pos hj] at h2
    simp only [acorr, Matrix.of_apply]
    have : G i j * (r i * r j) * (G i j * (r i * r j)) * (G0 i i * G0 j j)
        = G i j * G i j * ((r i * r i * G0 i i) * (r j * r j * G0 j j)) := by ring
    rw [this, h1.2, h2.2]; ring
  · intro i j hi hj
    have h1 := hr i; rw [if_pos hi] at h1
    have h2 := hr j; rw [if_pos hj] at h2
    have hri : 0 < r i := by
      rcases lt_or_eq_of_le h1.1 with h | h
      · exact h
      · exfalso; rw [← h] at h1; simp at h1
    have hrj : 0 < r j := by
      rcases lt_or_eq_of_le h2.1 with h | h
      · exact h
      · exfalso; rw [← h] at h2; simp at h2
    simp only [acorr, Matrix.of_apply]
    have hp : 0 < r i * r j := mul_pos hri hrj
    constructor
    · intro h
      by_contra hneg
      rw [not_le] at hneg
      have := mul_neg_of_neg_of_pos hneg hp
      linarith
    · intro h; exact mul_nonneg h (le_of_lt hp)
  · intro i j h
    simp only [acorr, Matrix.of_apply]
    rcases h with h | h
    · have := hr i; rw [if_neg h] at this; rw [this]; ring
    · have := hr j; rw [if_neg h] at this; rw [this]; ring

end Acorr


/-! ## Part 2: about the executable model (`Model/Acov.lean`) -/

section Model
open IrisVerif IrisVerif.Acov

/-- `_classify_solution_vector_stability`: an element is classified unit-root exactly when it has a loading above the
tolerance on one of the first `nu` (unit-root) columns -/
theorem loadsOnUnitRoot_iff (M : QMat) (nu : Nat) (tol : Rat) (i : Nat) :
    loadsOnUnitRoot M nu tol i = true ↔ ∃ j, j < nu ∧ tol < absQ (M.get i j) := by
  unfold loadsOnUnitRoot
  simp [List.any_eq_true, List.mem_range]

/-- **NaN pattern**: a cell of the reported matrix is NaN exactly when its row variable or its column variable
loads on a unit root; every other cell is the number computed from the stable block. -/
theorem nan_pattern (s : Sol) (g : QMat) (i j : Nat) (hi : i < g.rows) (hj : j < g.cols) :
    ((fillNaN s g).get i j = none ↔ (isStable s i = false ∨ isStable s j = false)) ∧
    (isStable s i = true → isStable s j = true → (fillNaN s g).get i j = some (g.get i j)) := by
  unfold fillNaN
  rw [cmat_get_ofFn]
  simp only [hi, hj, and_self, if_true]
  cases h1 : isStable s i <;> cases h2 : isStable s j <;> simp

/-- a row (and by symmetry a column) of a variable loading on a unit root is NaN in every cell -/
theorem nan_row (s : Sol) (g : QMat) (i : Nat) (hi : i < g.rows) (hu : isStable s i = false) :
    ∀ j, j < g.cols → (fillNaN s g).get i j = none ∧ (i < g.cols → j < g.rows → (fillNaN s g).get j i = none) := by
  intro j hj
  refine ⟨((nan_pattern s g i j hi hj).1).2 (Or.inl hu), fun hi' hj' => ((nan_pattern s g j i hj' hi').1).2 (Or.inr hu)⟩

/-- **One loading is enough, whatever the others are.** A transition variable with a loading above the tolerance on a
single unit-root column is NaN in every cell of its row — also when its loadings on several unit-root columns offset each
other (sum to zero), e.g. the spread of two independent random walks: the classification takes `|·|` column by column,
never of a sum. -/
theorem nan_of_single_loading (s : Sol) (g : QMat) (i j : Nat) (hi : i < g.rows) (hna : i < s.na)
    (hj : j < s.nu) (hl : s.tol < absQ (s.Ua.get i j)) :
    isStable s i = false ∧ ∀ c, c < g.cols → (fillNaN s g).get i c = none := by
  have hu : isStable s i = false := by
    unfold isStable
    rw [if_pos hna, (loadsOnUnitRoot_iff s.Ua s.nu s.tol i).2 ⟨j, hj, hl⟩]
    rfl
  exact ⟨hu, fun c hc => (nan_row s g i hi hu c hc).1⟩

/-- the same for a measurement variable (rows `na …` of the joint vector, loadings `Za`) -/
theorem nan_of_single_loading_measurement (s : Sol) (g : QMat) (i j : Nat) (hi : s.na + i < g.rows)
    (hj : j < s.nu) (hl : s.tol < absQ (s.Za.get i j)) :
    isStable s (s.na + i) = false ∧ ∀ c, c < g.cols → (fillNaN s g).get (s.na + i) c = none := by
  have hu : isStable s (s.na + i) = false := by
    unfold isStable
    rw [if_neg (by omega), Nat.add_sub_cancel_left, (loadsOnUnitRoot_iff s.Za s.nu s.tol i).2 ⟨j, hj, hl⟩]
    rfl
  exact ⟨hu, fun c hc => (nan_row s g (s.na + i) hi hu c hc).1⟩

/-- **The NaN mask of a measurement variable is defined by its loadings on the unit-root STATES** (the first `nu` columns of
`Za`, triangular basis) and by nothing else: not by `Ua`, not by which transition variables are themselves non-stationary.
Two solutions with the same `Za`, `nu`, `na`, `tol` mask the same measurement variables. -/
theorem measurement_mask_by_states (s : Sol) (i : Nat) :
    isStable s (s.na + i) = true ↔ ∀ j, j < s.nu → absQ (s.Za.get i j) ≤ s.tol := by
  unfold isStable
  rw [if_neg (by omega), Nat.add_sub_cancel_left]
  constructor
  · intro h j hj
    by_contra hlt
    have : loadsOnUnitRoot s.Za s.nu s.tol i = true :=
      (loadsOnUnitRoot_iff s.Za s.nu s.tol i).2 ⟨j, hj, by
        exact Rat.not_le.1 hlt⟩
    rw [this] at h; simp at h
  · intro h
    cases hl : loadsOnUnitRoot s.Za s.nu s.tol i with
    | false => rfl
    | true =>
      obtain ⟨j, hj, hlt⟩ := (loadsOnUnitRoot_iff s.Za s.nu s.tol i).1 hl
      exact absurd (h j hj) (Rat.not_le.2 hlt)

/-- … hence a stationary combination of non-stationary variables is NOT masked: in the concrete system `ξ = (α₀, α₀ + α₁)`
with one unit root `α₀`, both transition variables load on the unit root (masked), while the observable `ξ₁ − ξ₀ = α₁` —
a combination that touches two non-stationary variables — has zero loading on it and is reported (not masked). -/
example :
    let s : Sol := ⟨2, 1, 1, QMat.ofRows [[1, 0], [0, 1/2]], QMat.ofRows [[1], [1]], QMat.ofRows [[0, 1]],
      QMat.ofRows [[1, 0], [1, 1]], QMat.zero 1 0, QMat.identity 1, QMat.zero 0 0, 0⟩
    isStable s 0 = false ∧ isStable s 1 = false ∧ isStable s 2 = true := by
  decide +kernel


/-- the zero-shift selection only picks cells: `select` never creates or removes a NaN -/
theorem select_get (g : CMat) (sel : List Nat) (i j : Nat) (hi : i < sel.length) (hj : j < sel.length) :
    (select g sel).get i j = g.get (sel.getD i 0) (sel.getD j 0) := by
  unfold select
  rw [cmat_get_ofFn]
  simp [hi, hj]

/-- **Certificate**: whatever the (unverified) elimination does, a covariance returned by the model's Lyapunov
solver satisfies the Lyapunov equation of the stable block exactly and is symmetric. -/
theorem lyapunov_sound (T Sig Om : QMat) (h : lyapunov T Sig = some Om) :
    isLyapunov T Sig Om = true ∧ Om.isSymmetric = true := by
  unfold lyapunov at h
  simp only at h
  split at h
  · cases h
  · split at h
    · rename_i hc
      injection h with h
      subst h
      simpa [Bool.and_eq_true] using hc
    · cases h

/-- the recursion of the model is `Γ_{j+1} = 𝒜 Γ_j` from the assembled `Γ_0` -/
theorem autocovTriangular_step (s : Sol) (OmS : QMat) (j : Nat) :
    autocovTriangular s OmS 0 = covTriangular00 s OmS ∧
    autocovTriangular s OmS (j + 1) = Acov.calA s * autocovTriangular s OmS j := ⟨rfl, rfl⟩

/-- the model's zero-variance guard: with a non-positive order-0 variance the reported (squared) correlation is 0,
and it is NaN exactly when one of the three cells it is computed from is NaN -/
theorem signedSquareCorr_spec (g0 g : CMat) (i j : Nat) :
    (signedSquareCorr g0 g i j = none ↔ (g.get i j = none ∨ g0.get i i = none ∨ g0.get j j = none)) ∧
    (∀ x di dj, g.get i j = some x → g0.get i i = some di → g0.get j j = some dj → ¬ (0 < di ∧ 0 < dj) →
      signedSquareCorr g0 g i j = some 0) := by
  unfold signedSquareCorr
  constructor
  · cases h1 : g.get i j <;> cases h2 : g0.get i i <;> cases h3 : g0.get j j <;> simp
    split <;> simp
  · intro x di dj h1 h2 h3 hn
    rw [h1, h2, h3]
    simp only
    rw [if_neg hn]


/-- `rescale_stds(f)` is `rescale_stds(f, kind=…)` over both kinds -/
theorem rescale_eq_rescaleKinds (s : Sol) (f : Rat) : rescale s f = rescaleKinds s f f := rfl

/-- **Kind by kind = all at once**, in either order, for the cumulative factors of a call sequence; a call whose kind
selects nothing is modelled by the kind it names and changes only that (possibly empty) block -/
theorem applyKinds_kind_by_kind (f : Rat) :
    applyKinds [(.transition, f), (.measurement, f)] = (f, f) ∧
    applyKinds [(.measurement, f), (.transition, f)] = (f, f) ∧
    applyKinds [(.all, f)] = (f, f) := by
  simp [applyKinds, applyKind]

/-- frame condition of one call: a transition-only call leaves the measurement factor alone and vice versa -/
theorem applyKind_frame (fuw : Rat × Rat) (f : Rat) :
    (applyKind fuw .transition f).2 = fuw.2 ∧ (applyKind fuw .measurement f).1 = fuw.1 ∧
    (applyKind fuw .transition f).1 = fuw.1 * f ∧ (applyKind fuw .measurement f).2 = fuw.2 * f := by
  simp [applyKind]

/-! ### the object: selection of the current-dated rows, std changes between observations -/

/-- **The selected rows are exactly the zero-shift tokens, in vector order**: a position is selected iff it is a position
of the joint token vector whose shift is 0, and the selection is strictly increasing (no position twice, order kept) —
whatever the maximum lag is and whether or not there are measurement variables -/
theorem zeroShiftSel_spec (shifts : List Int) :
    (∀ i, i ∈ zeroShiftSel shifts ↔ (i < shifts.length ∧ shifts.getD i 1 = 0)) ∧
    (zeroShiftSel shifts).Pairwise (· < ·) := by
  unfold zeroShiftSel
  constructor
  · intro i
    simp [List.mem_filter, List.mem_range]
  · exact List.Pairwise.filter _ List.pairwise_lt_range

/-- the invariant carried through a call history: same solution, std blocks scaled by the squares of the cumulative factors -/
def StdInv (s0 s : Sol) (acc : Rat × Rat) : Prop :=
  s.na = s0.na ∧ s.ny = s0.ny ∧ s.nu = s0.nu ∧ s.Ta = s0.Ta ∧ s.Pa = s0.Pa ∧ s.Za = s0.Za ∧ s.Ua = s0.Ua ∧ s.H = s0.H ∧
  s.tol = s0.tol ∧
  s.covU.rows = s0.covU.rows ∧ s.covU.cols = s0.covU.cols ∧ s.covW.rows = s0.covW.rows ∧ s.covW.cols = s0.covW.cols ∧
  (∀ i j, i < s0.covU.rows → j < s0.covU.cols → s.covU.get i j = acc.1 * acc.1 * s0.covU.get i j) ∧
  (∀ i j, i < s0.covW.rows → j < s0.covW.cols → s.covW.get i j = acc.2 * acc.2 * s0.covW.get i j)

theorem stepStd_inv (s0 s : Sol) (acc : Rat × Rat) (c : StdKind × Rat) (h : StdInv s0 s acc) :
    StdInv s0 (stepStd s c) (applyKind acc c.1 c.2) := by
  obtain ⟨h1, h2, h3, h4, h5, h6, h7, h8, h9, r1, r2, r3, r4, hu, hw⟩ := h
  rcases c with ⟨k, f⟩
  cases k <;> simp only [stepStd, applyKind] <;>
    refine ⟨h1, h2, h3, h4, h5, h6, h7, h8, h9, ?_, ?_, ?_, ?_, ?_, ?_⟩ <;>
    first
      | exact r1 | exact r2 | exact r3 | exact r4 | exact hu | exact hw
      | (intro i j hi hj
         simp only [QMat.smul]
         rw [qget_ofFn]
         first
           | (rw [if_pos ⟨by rw [r1]; exact hi, by rw [r2]; exact hj⟩, hu i j hi hj]; ring)
           | (rw [if_pos ⟨by rw [r3]; exact hi, by rw [r4]; exact hj⟩, hw i j hi hj]; ring))

theorem foldl_stepStd_inv (s0 : Sol) (calls : List (StdKind × Rat)) (s : Sol) (acc : Rat × Rat) (h : StdInv s0 s acc) :
    StdInv s0 (calls.foldl stepStd s) (calls.foldl (fun a c => applyKind a c.1 c.2) acc) := by
  induction calls generalizing s acc with
  | nil => exact h
  | cons c cs ih => exact ih _ _ (stepStd_inv s0 s acc c h)

/-- **The state machine refines the pure function.** After any history of `rescale_stds(f, kind)` calls — kinds with an
empty selection included — the solution matrices are those of the solve, and every std² in force is the original times
the square of the cumulative factor of its own kind; hence the observation `get_acov` (a function of this state only)
moves exactly with the stds of the kinds that were selected and with nothing else. -/
theorem runStd_spec (s : Sol) (calls : List (StdKind × Rat)) : StdInv s (runStd s calls) (applyKinds calls) := by
  unfold runStd applyKinds
  refine foldl_stepStd_inv s calls s (1, 1) ⟨rfl, rfl, rfl, rfl, rfl, rfl, rfl, rfl, rfl, rfl, rfl, rfl, rfl, ?_, ?_⟩ <;>
    (intro i j _ _; simp)

/-- frame of a single call: a measurement-kind call never touches the transition stds and vice versa (so with an empty
measurement block a measurement-kind call changes no cell at all) -/
theorem stepStd_frame (s : Sol) (f : Rat) :
    (stepStd s (.measurement, f)).covU = s.covU ∧ (stepStd s (.transition, f)).covW = s.covW := ⟨rfl, rfl⟩

-- non-vacuity: shifts of [x, y, x{-1}, x{-2}, obs] select positions 0, 1, 4 (lag 2 with a measurement variable)
example : zeroShiftSel [0, 0, -1, -2, 0] = [0, 1, 4] := by decide


end Model

/-! ## non-vacuity -/

/-- the Lyapunov hypothesis is met by a concrete non-trivial system: AR(1) with coefficient 1/2, unit shock variance,
stationary variance 4/3 -/
example : Lyap (K := ℚ) (!![1/2] : Matrix (Fin 1) (Fin 1) ℚ) (!![1] : Matrix (Fin 1) (Fin 1) ℚ) !![1] !![4/3] := by
  unfold Lyap
  ext i j
  fin_cases i; fin_cases j
  simp [Matrix.vecMul, dotProduct]
  norm_num

-- the contraction hypothesis of `lyapunov_unique` is met by a non-zero matrix
open scoped Matrix.Norms.Operator in
example : ∃ T : Matrix (Fin 2) (Fin 2) ℝ, T ≠ 0 ∧ ‖T ^ 1‖ * ‖(Tᵀ) ^ 1‖ < 1 := by
  refine ⟨(1/2 : ℝ) • (1 : Matrix (Fin 2) (Fin 2) ℝ), ?_, ?_⟩
  · intro h
    have := congrFun (congrFun h 0) 0
    simp at this
  · simp only [pow_one, Matrix.transpose_smul, Matrix.transpose_one]
    rw [norm_smul, norm_one]
    norm_num

end IrisVerif.C15

/-! ## statement audit (round 5): non-vacuity of the remaining hypotheses, the rejection branch -/

namespace IrisVerif.C15
open Matrix
open IrisVerif IrisVerif.Acov


/-- non-vacuity of `lag_cross_moment`: for every `𝒜`, `Γ₀` there IS a family of cross moments meeting its two hypotheses
(stationary on the diagonal, propagated by `𝒜` below it), namely `M t s = 𝒜^(t−s) Γ₀` -/
theorem stationary_family_exists {n : Type} [Fintype n] [DecidableEq n] {K : Type} [CommRing K] (A G0 : Matrix n n K) :
    ∃ M : ℕ → ℕ → Matrix n n K, (∀ t, M t t = G0) ∧ (∀ t s, s ≤ t → M (t + 1) s = A * M t s) := by
  refine ⟨fun t s => A ^ (t - s) * G0, fun t => by simp, fun t s hst => ?_⟩
  show A ^ (t + 1 - s) * G0 = A * (A ^ (t - s) * G0)
  rw [Nat.succ_sub hst, pow_succ', Matrix.mul_assoc]

/-- **The rejection branch**: the model answers `none` ("no unique stationary covariance") exactly when its checked Lyapunov
solve of the stable block does — never for any other reason, and every order is then refused together -/
theorem acov_none_iff (s : Sol) (sel : List Nat) (k : Nat) :
    acov s sel k = none ↔ lyapunov (TaStable s) (sigmaU s) = none := by
  unfold acov
  cases lyapunov (TaStable s) (sigmaU s) <;> simp

-- non-vacuity of `acorr_spec`: variances 4 and 9 with r = (1/2, 1/3) meet its hypothesis `hr` (rational square roots)
example : ∀ i : Fin 2, if 0 < (!![4, 1; 1, 9] : Matrix (Fin 2) (Fin 2) ℚ) i i
    then (0 ≤ (![1/2, 1/3] : Fin 2 → ℚ) i ∧ (![1/2, 1/3] : Fin 2 → ℚ) i * (![1/2, 1/3] : Fin 2 → ℚ) i * (!![4, 1; 1, 9] : Matrix (Fin 2) (Fin 2) ℚ) i i = 1)
    else (![1/2, 1/3] : Fin 2 → ℚ) i = 0 := by
  intro i; fin_cases i <;> simp <;> norm_num

-- non-vacuity of `lyapunov_sound`, `acov_none_iff`: the model's solver answers on an AR(1) (1/2, unit variance → 4/3) and
-- refuses a unit root
example : (lyapunov (QMat.ofRows [[1/2]]) (QMat.ofRows [[1]])).isSome = true := by decide +kernel
example : (lyapunov (QMat.ofRows [[1]]) (QMat.ofRows [[1]])).isSome = false := by decide +kernel


end IrisVerif.C15
