/-
The solved model object as a small state machine (what the call histories of the harness exercise): parameters in force
(stds of transition / measurement shocks, changed by `assign`, `rescale_stds` without a new `solve()`; `copy`), and the two
memoised forward expansions of the solution (`Solution.square_expansion`, `Solution.triangular_expansion`, filled and EXTENDED on
demand by `fords/solutions._get_solution_expansion`: entry `k` is `-X J^k Ru`, with `X` for the square and `Xa` for the triangular
system).  Observations: `filter` (the stds the filter run uses = the stds in force) and `expandSq/expandTri fwd`
(the first `fwd` expansion matrices after `R0`).
-/
import IrisVerif.Model.QMat

namespace IrisVerif.KalmanObject
open IrisVerif

structure Params where
  stdE : List Rat
  stdW : List Rat
  deriving Repr, Inhabited, BEq

structure Obj where
  params : Params
  X : QMat
  Xa : QMat
  J : QMat
  Ru : QMat
  cacheSq : List QMat
  cacheTri : List QMat
  deriving Repr, Inhabited

inductive Op
  | assignE (v : List Rat)
  | assignW (v : List Rat)
  | rescale (f : Rat)
  | copy
  | filter
  | expandSq (fwd : Nat)
  | expandTri (fwd : Nat)
  deriving Repr, Inhabited

inductive Out
  | none
  | stds (p : Params)
  | mats (l : List QMat)
  deriving Repr, Inhabited

/-- `R(t+k+1) = -X J^k Ru` -/
def term (X J Ru : QMat) (k : Nat) : QMat := QMat.neg (X * QMat.pow J k * Ru)

/-- `_get_solution_expansion`: keep what is cached, append the entries `len … fwd-1` -/
def extend (X J Ru : QMat) (cache : List QMat) (fwd : Nat) : List QMat :=
  cache ++ (List.range' cache.length (fwd - cache.length)).map (term X J Ru)

def rescaleParams (f : Rat) (p : Params) : Params := ⟨p.stdE.map (f * ·), p.stdW.map (f * ·)⟩

def step (o : Obj) : Op → Obj × Out
  | .assignE v => ({ o with params := { o.params with stdE := v } }, .none)
  | .assignW v => ({ o with params := { o.params with stdW := v } }, .none)
  | .rescale f => ({ o with params := rescaleParams f o.params }, .none)
  | .copy => (o, .none)
  | .filter => (o, .stds o.params)
  | .expandSq fwd =>
    let c := extend o.X o.J o.Ru o.cacheSq fwd
    ({ o with cacheSq := c }, .mats (c.take fwd))
  | .expandTri fwd =>
    let c := extend o.Xa o.J o.Ru o.cacheTri fwd
    ({ o with cacheTri := c }, .mats (c.take fwd))

def run (o : Obj) : List Op → List Out
  | [] => []
  | op :: rest => (step o op).2 :: run (step o op).1 rest

/-- stateless specification: parameters in force after a history -/
def paramsStep (p : Params) : Op → Params
  | .assignE v => { p with stdE := v }
  | .assignW v => { p with stdW := v }
  | .rescale f => rescaleParams f p
  | _ => p

/-- stateless specification of the observations: a pure function of the parameters in force and of the solution -/
def spec (X Xa J Ru : QMat) (p : Params) : List Op → List Out
  | [] => []
  | op :: rest =>
    (match op with
      | .filter => Out.stds p
      | .expandSq fwd => Out.mats ((List.range fwd).map (term X J Ru))
      | .expandTri fwd => Out.mats ((List.range fwd).map (term Xa J Ru))
      | _ => Out.none) :: spec X Xa J Ru (paramsStep p op) rest

end IrisVerif.KalmanObject
