/-
Property C01 -- first-order solution satisfies the model equations and is the stable one.

Spec-level reading of the executable model `IrisVerif/Model/FirstOrder.lean` over an arbitrary commutative ring `K`,
arbitrary finite index types (any number of variables, equations, shocks) and an arbitrary lead structure
`sh : nf → ℕ` (depth of every lead token), `src : nf → nb` (row of the zero-shift token of the same variable in the
solution vector).  Period `0` carries the initial condition, periods `t+1` are simulated.
-/
import Mathlib.Data.Matrix.Mul
import Mathlib.Algebra.BigOperators.Intervals
import Mathlib.Tactic.Abel
import Mathlib.Tactic.Ring
import Mathlib.Tactic.Linarith
import Mathlib.LinearAlgebra.Matrix.Notation
import Mathlib.Tactic.FinCases
import Mathlib.Tactic.NormNum
import Mathlib.Algebra.Order.Field.Rat
import Mathlib.Algebra.Order.BigOperators.Ring.Finset
import Mathlib.Algebra.Order.BigOperators.Group.Finset

open Matrix

set_option linter.unusedSectionVars false

namespace IrisVerif.C01

variable {nf nb ne nu nj ny nw : Type} [Fintype nf] [Fintype nb] [Fintype ne] [Fintype nu] [Fintype nj] [Fintype ny] [Fintype nw]
variable [DecidableEq nb] [DecidableEq nj]
variable {K : Type} [CommRing K]

/-! ## The simulated path, the model-consistent continuation, the lead read, the residual -/

/-- `simulate_flat`: `ξ[t] = T ξ[t-1] + K + P u[t] + impact[t]`, `ξ[0]` the initial condition -/
def path (T : Matrix nb nb K) (Kc : nb → K) (P : Matrix nb nu K) (x0 : nb → K) (u : ℕ → nu → K) (imp : ℕ → nb → K) :
    ℕ → nb → K
  | 0 => x0
  | t + 1 => T *ᵥ path T Kc P x0 u imp t + Kc + P *ᵥ u (t + 1) + imp (t + 1)

/-- model-consistent continuation `j` periods ahead of the state `x`: the same recursion without future unanticipated
shocks; `g a` is the impact of the (known) anticipated shocks `a` periods ahead -/
def cont (T : Matrix nb nb K) (Kc : nb → K) (g : ℕ → nb → K) : ℕ → (nb → K) → (nb → K)
  | 0, x => x
  | j + 1, x => T *ᵥ cont T Kc g j x + Kc + g (j + 1)

/-- the lead token `i` (variable `src i`, `sh i` periods ahead) read from the continuation -/
def leadRead (T : Matrix nb nb K) (Kc : nb → K) (g : ℕ → nb → K) (sh : nf → ℕ) (src : nf → nb) (x : nb → K) : nf → K :=
  fun i => cont T Kc g (sh i) x (src i)

/-- residual of the claimed rows of the stacked system `A ζ[t] + B ζ[t-1] + C + D (u[t] + v[t])`, `ζ = (f ; ξ)`,
`B` reading only the `ξ` part of `ζ[t-1]` (checked exactly by the certificate: `bLead = 0`) -/
def resid (Af : Matrix ne nf K) (Ab Bb : Matrix ne nb K) (C : ne → K) (D : Matrix ne nu K)
    (f : nf → K) (x xprev : nb → K) (s : nu → K) : ne → K :=
  Af *ᵥ f + Ab *ᵥ x + Bb *ᵥ xprev + C + D *ᵥ s

/-- `1 + T + … + T^(j-1)` -/
def geom (T : Matrix nb nb K) : ℕ → Matrix nb nb K
  | 0 => 0
  | j + 1 => T * geom T j + 1

/-- the part of the continuation driven by anticipated impacts `g b`, `a < b ≤ j` -/
def hfrom (T : Matrix nb nb K) (g : ℕ → nb → K) (a : ℕ) : ℕ → nb → K
  | 0 => 0
  | j + 1 => T *ᵥ hfrom T g a j + (if a < j + 1 then g (j + 1) else 0)

theorem cont_eq (T : Matrix nb nb K) (Kc : nb → K) (g : ℕ → nb → K) (j : ℕ) (x : nb → K) :
    cont T Kc g j x = (T ^ j) *ᵥ x + geom T j *ᵥ Kc + hfrom T g 0 j := by
  induction j with
  | zero => simp [cont, geom, hfrom]
  | succ j ih =>
    simp only [cont, geom, hfrom, ih, pow_succ', Matrix.mulVec_add, Matrix.add_mulVec, ← Matrix.mulVec_mulVec,
      Matrix.one_mulVec, Nat.zero_lt_succ, if_true]
    abel

/-! ## The certificate matrices, computed from the lead structure -/

section cert
variable (T : Matrix nb nb K) (Kc : nb → K) (P : Matrix nb nu K) (sh : nf → ℕ) (src : nf → nb)
variable (Af : Matrix ne nf K) (Ab Bb : Matrix ne nb K) (C : ne → K) (D : Matrix ne nu K)

/-- row `i` = row `src i` of `T^(sh i)` -/
def Lmat : Matrix nf nb K := Matrix.of fun i => (T ^ sh i) (src i)
/-- row `i` = row `src i` of `(1 + … + T^(sh i - 1)) K` -/
def lK : nf → K := fun i => (geom T (sh i) *ᵥ Kc) (src i)
def Mmat : Matrix ne nb K := Af * Lmat T sh src + Ab
def E1 : Matrix ne nb K := Mmat T sh src Af Ab * T + Bb
def E2 : ne → K := Mmat T sh src Af Ab *ᵥ Kc + Af *ᵥ lK T Kc sh src + C
def E3 : Matrix ne nu K := Mmat T sh src Af Ab * P + D

/-- anticipated part of the residual: impact now, the anticipated shock in the equation, impacts inside the lead reads -/
def antic (g : ℕ → nb → K) (v0 : nu → K) : ne → K :=
  Mmat T sh src Af Ab *ᵥ g 0 + D *ᵥ v0 + Af *ᵥ (fun i => hfrom T g 0 (sh i) (src i))

theorem leadRead_eq (g : ℕ → nb → K) (x : nb → K) :
    leadRead T Kc g sh src x = Lmat T sh src *ᵥ x + lK T Kc sh src + (fun i => hfrom T g 0 (sh i) (src i)) := by
  funext i
  simp only [leadRead, cont_eq, Pi.add_apply, lK, Lmat]
  rfl

/-- **Residual identity** (one period): with `ξ[t] = T ξ[t-1] + K + P u[t] + g 0` and leads read from the
model-consistent continuation, the residual of every claimed row is
`E1 ξ[t-1] + E2 + E3 u[t] + antic` -- for every state, every shock, every lead structure. -/
theorem resid_identity (g : ℕ → nb → K) (xprev : nb → K) (u v0 : nu → K) :
    resid Af Ab Bb C D (leadRead T Kc g sh src (T *ᵥ xprev + Kc + P *ᵥ u + g 0)) (T *ᵥ xprev + Kc + P *ᵥ u + g 0) xprev (u + v0)
      = E1 T sh src Af Ab Bb *ᵥ xprev + E2 T Kc sh src Af Ab C + E3 T P sh src Af Ab D *ᵥ u
        + antic T sh src Af Ab D g v0 := by
  rw [leadRead_eq]
  simp only [resid, E1, E2, E3, antic, Mmat, Matrix.mulVec_add, Matrix.add_mulVec, ← Matrix.mulVec_mulVec]
  abel

/-- residual of the claimed rows in period `t+1` along the simulated path -/
def residAt (x0 : nb → K) (u v : ℕ → nu → K) (imp : ℕ → nb → K) (t : ℕ) : ne → K :=
  resid Af Ab Bb C D
    (leadRead T Kc (fun a => imp (t + 1 + a)) sh src (path T Kc P x0 u imp (t + 1)))
    (path T Kc P x0 u imp (t + 1)) (path T Kc P x0 u imp t) (u (t + 1) + v (t + 1))

/-- **Residual identity along the path**, every period, every initial condition, every shock path. -/
theorem residAt_eq (x0 : nb → K) (u v : ℕ → nu → K) (imp : ℕ → nb → K) (t : ℕ) :
    residAt T Kc P sh src Af Ab Bb C D x0 u v imp t
      = E1 T sh src Af Ab Bb *ᵥ path T Kc P x0 u imp t + E2 T Kc sh src Af Ab C
        + E3 T P sh src Af Ab D *ᵥ u (t + 1)
        + antic T sh src Af Ab D (fun a => imp (t + 1 + a)) (v (t + 1)) := by
  have h := resid_identity T Kc P sh src Af Ab Bb C D (fun a => imp (t + 1 + a)) (path T Kc P x0 u imp t) (u (t + 1)) (v (t + 1))
  simpa [residAt, path] using h

/-- **Certificate ⇒ every equation holds in every period** for every initial condition and every path of unanticipated
shocks (no anticipated shocks: `imp = 0`, `v = 0`). -/
theorem equations_hold_unanticipated
    (h1 : E1 T sh src Af Ab Bb = 0) (h2 : E2 T Kc sh src Af Ab C = 0) (h3 : E3 T P sh src Af Ab D = 0)
    (x0 : nb → K) (u : ℕ → nu → K) (t : ℕ) :
    residAt T Kc P sh src Af Ab Bb C D x0 u (fun _ => 0) (fun _ => 0) t = 0 := by
  rw [residAt_eq, h1, h2, h3]
  have : ∀ j, hfrom T (fun _ : ℕ => (0 : nb → K)) 0 j = 0 := by
    intro j; induction j with
    | zero => rfl
    | succ j ih => simp [hfrom, ih]
  simp only [antic, this, Matrix.mulVec_zero, add_zero, Pi.zero_apply]
  have z : (fun _ : nf => (0 : K)) = 0 := rfl
  simp [z]

end cert

/-! ## Anticipated shocks: forward expansion, the finitely many conditions `E4_a`, the tail matrix `W` -/

section anticipated
variable (T : Matrix nb nb K) (Kc : nb → K) (P : Matrix nb nu K) (sh : nf → ℕ) (src : nf → nb)
variable (Af : Matrix ne nf K) (Ab Bb : Matrix ne nb K) (C : ne → K) (D : Matrix ne nu K)
variable (X : Matrix nb nj K) (J : Matrix nj nj K) (Ru : Matrix nj nu K)

/-- `𝓛_a(Y)`: row `i` = row `src i` of `T^(sh i - a) Y` when `a ≤ sh i`, zero otherwise (used for `a ≥ 1`) -/
def leadMat {m : Type} [Fintype m] (a : ℕ) (Y : Matrix nb m K) : Matrix nf m K :=
  Matrix.of fun i => if a ≤ sh i then ((T ^ (sh i - a)) * Y) (src i) else 0

/-- `V_0 = -M X`, `V_a = V_(a-1) J - Af 𝓛_a(X)` -/
def Vmat : ℕ → Matrix ne nj K
  | 0 => -(Mmat T sh src Af Ab * X)
  | a + 1 => Vmat a * J - Af * leadMat T sh src (a + 1) X

/-- `E4_a = Af 𝓛_a(P) + V_(a-1) Ru` for `a ≥ 1`: the coefficient of the anticipated shock `a` periods ahead -/
def E4 (a : ℕ) : Matrix ne nu K :=
  Af * leadMat T sh src a P + Vmat T sh src Af Ab X J a.pred * Ru

theorem leadMat_mulVec {m : Type} [Fintype m] (a : ℕ) (Y : Matrix nb m K) (w : m → K) (i : nf) :
    (leadMat T sh src a Y *ᵥ w) i = if a ≤ sh i then ((T ^ (sh i - a)) *ᵥ (Y *ᵥ w)) (src i) else 0 := by
  by_cases h : a ≤ sh i
  · simp only [h, if_true, Matrix.mulVec_mulVec]
    simp only [leadMat, Matrix.mulVec, Matrix.of_apply, h, if_true]
  · simp only [h, if_false]
    simp [leadMat, Matrix.mulVec, h]

theorem hfrom_ge (g : ℕ → nb → K) (a j : ℕ) (h : j ≤ a) : hfrom T g a j = 0 := by
  induction j with
  | zero => rfl
  | succ j ih =>
    have : ¬ a < j + 1 := by omega
    simp [hfrom, ih (by omega), this]

theorem hfrom_succ (g : ℕ → nb → K) (a j : ℕ) :
    hfrom T g a j = hfrom T g (a + 1) j + (if a + 1 ≤ j then (T ^ (j - (a + 1))) *ᵥ g (a + 1) else 0) := by
  induction j with
  | zero => simp [hfrom]
  | succ j ih =>
    rw [hfrom, hfrom, ih]
    by_cases h1 : a + 1 ≤ j
    · have e : j + 1 - (a + 1) = (j - (a + 1)) + 1 := by omega
      have h2 : a < j + 1 := by omega
      have h3 : a + 1 < j + 1 := by omega
      have h4 : a + 1 ≤ j + 1 := by omega
      simp only [h1, h2, h3, h4, if_true, e, pow_succ', Matrix.mulVec_add, ← Matrix.mulVec_mulVec]
      abel
    · by_cases h5 : a = j
      · subst h5
        simp
      · have h2 : ¬ a < j + 1 := by omega
        have h3 : ¬ a + 1 < j + 1 := by omega
        have h4 : ¬ a + 1 ≤ j + 1 := by omega
        simp [h1, h2, h3, h4]

/-- **Anticipated part in finite form.**  If the impact of anticipated shocks is `g b = P v[b] - X φ[b]` with the forward
state of the unstable block obeying `φ[b] = J φ[b+1] + Ru v[b+1]` (this is what `_get_solution_expansion` computes, see
`impact_expansion`), then for every `a`
`antic = E3 v[0] + Σ_{m<a} E4_(m+1) v[m+1] + V_a φ[a] + Af · (impacts later than a inside the lead reads)`. -/
theorem antic_eq (v : ℕ → nu → K) (φ : ℕ → nj → K)
    (hφ : ∀ b, φ b = J *ᵥ φ (b + 1) + Ru *ᵥ v (b + 1)) (a : ℕ) :
    antic T sh src Af Ab D (fun b => P *ᵥ v b - X *ᵥ φ b) (v 0)
      = E3 T P sh src Af Ab D *ᵥ v 0
        + (∑ m ∈ Finset.range a, E4 T P sh src Af Ab X J Ru (m + 1) *ᵥ v (m + 1))
        + Vmat T sh src Af Ab X J a *ᵥ φ a
        + Af *ᵥ (fun i => hfrom T (fun b => P *ᵥ v b - X *ᵥ φ b) a (sh i) (src i)) := by
  induction a with
  | zero =>
    simp only [antic, E3, Vmat, Finset.range_zero, Finset.sum_empty, add_zero, Matrix.mulVec_sub, Matrix.add_mulVec,
      Matrix.neg_mulVec, ← Matrix.mulVec_mulVec]
    abel
  | succ a ih =>
    rw [ih, Finset.sum_range_succ]
    have hsplit : (fun i => hfrom T (fun b => P *ᵥ v b - X *ᵥ φ b) a (sh i) (src i))
        = (fun i => hfrom T (fun b => P *ᵥ v b - X *ᵥ φ b) (a + 1) (sh i) (src i))
          + leadMat T sh src (a + 1) P *ᵥ v (a + 1) - leadMat T sh src (a + 1) X *ᵥ φ (a + 1) := by
      funext i
      rw [hfrom_succ]
      simp only [Pi.add_apply, Pi.sub_apply, leadMat_mulVec]
      by_cases h : a + 1 ≤ sh i
      · simp only [h, if_true, Matrix.mulVec_sub, Pi.sub_apply]
        ring
      · simp only [h, if_false, Pi.zero_apply]
        ring
    rw [hsplit, hφ a]
    simp only [E4, Vmat, Nat.pred_succ, Matrix.mulVec_add, Matrix.mulVec_sub, Matrix.add_mulVec, Matrix.sub_mulVec,
      ← Matrix.mulVec_mulVec]
    abel

end anticipated

section tail
variable (T : Matrix nb nb K) (P : Matrix nb nu K) (sh : nf → ℕ) (src : nf → nb)
variable (Af : Matrix ne nf K) (Ab : Matrix ne nb K) (D : Matrix ne nu K)
variable (X : Matrix nb nj K) (J : Matrix nj nj K) (Ru : Matrix nj nu K)

theorem leadMat_beyond {m : Type} [Fintype m] (S a : ℕ) (hS : ∀ i, sh i ≤ S) (ha : S < a) (Y : Matrix nb m K) :
    leadMat T sh src a Y = 0 := by
  ext i j
  have : ¬ a ≤ sh i := by have := hS i; omega
  simp [leadMat, this]

/-- **The infinitely many anticipated conditions follow from finitely many**: beyond the maximum lead `S`,
`V_a = W J^(a-S)` and `E4_(a+1) = W J^(a-S) Ru` with the one fixed matrix `W = V_S`; hence `W = 0` kills them all. -/
theorem Vmat_tail (S : ℕ) (hS : ∀ i, sh i ≤ S) (k : ℕ) :
    Vmat T sh src Af Ab X J (S + k) = Vmat T sh src Af Ab X J S * J ^ k := by
  induction k with
  | zero => simp
  | succ k ih =>
    rw [← add_assoc, Vmat, ih, leadMat_beyond T sh src S (S + k + 1) hS (by omega), pow_succ, Matrix.mul_zero, sub_zero,
      Matrix.mul_assoc]

theorem E4_tail (S : ℕ) (hS : ∀ i, sh i ≤ S) (k : ℕ) :
    E4 T P sh src Af Ab X J Ru (S + k + 1) = Vmat T sh src Af Ab X J S * J ^ k * Ru := by
  rw [E4, leadMat_beyond T sh src S (S + k + 1) hS (by omega), Matrix.mul_zero, zero_add, Nat.pred_succ, Vmat_tail _ _ _ _ _ _ _ S hS]

theorem E4_all_zero (S : ℕ) (hS : ∀ i, sh i ≤ S)
    (hfin : ∀ a, 1 ≤ a → a ≤ S → E4 T P sh src Af Ab X J Ru a = 0) (hW : Vmat T sh src Af Ab X J S = 0) :
    ∀ a, 1 ≤ a → E4 T P sh src Af Ab X J Ru a = 0 := by
  intro a ha
  by_cases h : a ≤ S
  · exact hfin a ha h
  · obtain ⟨k, rfl⟩ : ∃ k, a = S + k + 1 := ⟨a - S - 1, by omega⟩
    rw [E4_tail T P sh src Af Ab X J Ru S hS, hW, Matrix.zero_mul, Matrix.zero_mul]

end tail

/-! ## `_get_solution_expansion` and `_simulate_anticipated_shock_values` -/

section expansion
variable (P : Matrix nb nu K) (X : Matrix nb nj K) (J : Matrix nj nj K) (Ru : Matrix nj nu K)

theorem mulVec_finsum {m n ι : Type} [Fintype n] (A : Matrix m n K) (s : Finset ι) (f : ι → n → K) :
    A *ᵥ (∑ k ∈ s, f k) = ∑ k ∈ s, A *ᵥ f k := by
  classical
  induction s using Finset.induction_on with
  | empty => simp
  | insert a s ha ih => rw [Finset.sum_insert ha, Finset.sum_insert ha, Matrix.mulVec_add, ih]

/-- `R_0 = P`, `R_k = -X J^(k-1) Ru` -/
def Rexp : ℕ → Matrix nb nu K
  | 0 => P
  | k + 1 => -(X * J ^ k * Ru)

/-- impact of the anticipated shocks known up to the horizon `H` (last anticipated column): `Σ_{k ≤ H - s} R_k v[s+k]` -/
def impact (H : ℕ) (v : ℕ → nu → K) (s : ℕ) : nb → K :=
  ∑ k ∈ Finset.range (H + 1 - s), Rexp P X J Ru k *ᵥ v (s + k)

/-- forward state of the unstable block: `φ[s] = Σ_{k < H - s} J^k Ru v[s+1+k]` -/
def phi (H : ℕ) (v : ℕ → nu → K) (s : ℕ) : nj → K :=
  ∑ k ∈ Finset.range (H - s), (J ^ k * Ru) *ᵥ v (s + 1 + k)

theorem phi_rec (H : ℕ) (v : ℕ → nu → K) (hv : ∀ s, H < s → v s = 0) (s : ℕ) :
    phi J Ru H v s = J *ᵥ phi J Ru H v (s + 1) + Ru *ᵥ v (s + 1) := by
  by_cases h : s < H
  · have e : H - s = (H - (s + 1)) + 1 := by omega
    rw [phi, e, Finset.sum_range_succ', phi, mulVec_finsum]
    simp only [pow_zero, Matrix.one_mul, add_zero]
    congr 1
    apply Finset.sum_congr rfl
    intro k _
    rw [Matrix.mulVec_mulVec, pow_succ', Matrix.mul_assoc]
    congr 2
    omega
  · have e1 : H - s = 0 := by omega
    have e2 : H - (s + 1) = 0 := by omega
    simp [phi, e1, e2, hv (s + 1) (by omega)]

/-- the expansion of the implementation is the backward recursion of the unstable block: `impact = P v - X φ` -/
theorem impact_expansion (H : ℕ) (v : ℕ → nu → K) (hv : ∀ s, H < s → v s = 0) (s : ℕ) :
    impact P X J Ru H v s = P *ᵥ v s - X *ᵥ phi J Ru H v s := by
  by_cases h : s ≤ H
  · have e : H + 1 - s = (H - s) + 1 := by omega
    rw [impact, e, Finset.sum_range_succ', phi, mulVec_finsum]
    simp only [Rexp, add_zero]
    rw [sub_eq_add_neg, add_comm, ← Finset.sum_neg_distrib]
    congr 1
    apply Finset.sum_congr rfl
    intro k _
    rw [Matrix.mulVec_mulVec, Matrix.neg_mulVec, Matrix.mul_assoc]
    congr 3
    omega
  · have e1 : H + 1 - s = 0 := by omega
    have e2 : H - s = 0 := by omega
    simp [impact, phi, e1, e2, hv s (by omega)]

end expansion

/-! ## Main theorem: the finite certificate makes every equation hold in every period -/

section main
variable (T : Matrix nb nb K) (Kc : nb → K) (P : Matrix nb nu K) (sh : nf → ℕ) (src : nf → nb)
variable (Af : Matrix ne nf K) (Ab Bb : Matrix ne nb K) (C : ne → K) (D : Matrix ne nu K)
variable (X : Matrix nb nj K) (J : Matrix nj nj K) (Ru : Matrix nj nu K)

/-- the finite certificate evaluated by the executable model (`Model/FirstOrder.lean: certificate`) -/
structure Certified (S : ℕ) : Prop where
  lead_le : ∀ i, sh i ≤ S
  e1 : E1 T sh src Af Ab Bb = 0
  e2 : E2 T Kc sh src Af Ab C = 0
  e3 : E3 T P sh src Af Ab D = 0
  e4 : ∀ a, 1 ≤ a → a ≤ S → E4 T P sh src Af Ab X J Ru a = 0
  w : Vmat T sh src Af Ab X J S = 0

/-- **Residual identity in the form of the design**: along any simulated path with anticipated impact from the forward
expansion, the residual of every claimed row at `t+1` is
`E1 ξ[t] + E2 + E3 (u[t+1] + v[t+1]) + Σ_{m<N} E4_(m+1) v[t+2+m] + V_N φ[t+1+N]` for every `N` at least the maximum lead. -/
theorem residAt_expansion (S N : ℕ) (hS : ∀ i, sh i ≤ S) (hN : S ≤ N) (H : ℕ) (x0 : nb → K) (u v : ℕ → nu → K)
    (hv : ∀ s, H < s → v s = 0) (t : ℕ) :
    residAt T Kc P sh src Af Ab Bb C D x0 u v (impact P X J Ru H v) t
      = E1 T sh src Af Ab Bb *ᵥ path T Kc P x0 u (impact P X J Ru H v) t + E2 T Kc sh src Af Ab C
        + E3 T P sh src Af Ab D *ᵥ (u (t + 1) + v (t + 1))
        + (∑ m ∈ Finset.range N, E4 T P sh src Af Ab X J Ru (m + 1) *ᵥ v (t + 1 + (m + 1)))
        + Vmat T sh src Af Ab X J N *ᵥ phi J Ru H v (t + 1 + N) := by
  rw [residAt_eq]
  have himp : (fun a => impact P X J Ru H v (t + 1 + a))
      = (fun b => P *ᵥ (fun b => v (t + 1 + b)) b - X *ᵥ (fun b => phi J Ru H v (t + 1 + b)) b) := by
    funext a; exact impact_expansion P X J Ru H v hv (t + 1 + a)
  have hφ : ∀ b, (fun b => phi J Ru H v (t + 1 + b)) b
      = J *ᵥ (fun b => phi J Ru H v (t + 1 + b)) (b + 1) + Ru *ᵥ (fun b => v (t + 1 + b)) (b + 1) := by
    intro b; exact phi_rec J Ru H v hv (t + 1 + b)
  have h := antic_eq T P sh src Af Ab D X J Ru (fun b => v (t + 1 + b)) (fun b => phi J Ru H v (t + 1 + b)) hφ N
  have hz : (fun i => hfrom T (fun b => P *ᵥ (fun b => v (t + 1 + b)) b - X *ᵥ (fun b => phi J Ru H v (t + 1 + b)) b) N (sh i) (src i))
      = (0 : nf → K) := by
    funext i; rw [hfrom_ge T _ N (sh i) (le_trans (hS i) hN)]; rfl
  rw [himp]
  have h' := h
  simp only [add_zero] at h'
  rw [h', hz, Matrix.mulVec_zero, add_zero, Matrix.mulVec_add]
  abel

/-- **Certificate ⇒ every equation holds in every period, for every initial condition, every path of unanticipated
shocks and every (finite-horizon) path of anticipated shocks.** -/
theorem equations_hold (S : ℕ) (hc : Certified T Kc P sh src Af Ab Bb C D X J Ru S)
    (H : ℕ) (x0 : nb → K) (u v : ℕ → nu → K) (hv : ∀ s, H < s → v s = 0) (t : ℕ) :
    residAt T Kc P sh src Af Ab Bb C D x0 u v (impact P X J Ru H v) t = 0 := by
  rw [residAt_expansion T Kc P sh src Af Ab Bb C D X J Ru S S hc.lead_le le_rfl H x0 u v hv t, hc.e1, hc.e2, hc.e3, hc.w]
  have : ∀ m ∈ Finset.range S, E4 T P sh src Af Ab X J Ru (m + 1) *ᵥ v (t + 1 + (m + 1)) = 0 := by
    intro m hm
    rw [hc.e4 (m + 1) (by omega) (by have := Finset.mem_range.mp hm; omega), Matrix.zero_mulVec]
  rw [Finset.sum_eq_zero this]
  simp

end main

/-! ## Level = steady state + deviation; measurement -/

section level
variable (T : Matrix nb nb K) (Kc : nb → K) (P : Matrix nb nu K)

/-- If `ξ̄ = T ξ̄ + K`, the level simulation from `ξ̄ + d0` is `ξ̄` plus the deviation simulation (`K ↦ 0`,
`create_deviation_solution`) from `d0` with the same unanticipated shocks and the same anticipated impact, in every period. -/
theorem level_eq_steady_add_deviation (xbar : nb → K) (hbar : xbar = T *ᵥ xbar + Kc)
    (d0 : nb → K) (u : ℕ → nu → K) (imp : ℕ → nb → K) (t : ℕ) :
    path T Kc P (xbar + d0) u imp t = xbar + path T 0 P d0 u imp t := by
  induction t with
  | zero => rfl
  | succ t ih =>
    rw [path, path, ih, Matrix.mulVec_add]
    conv_rhs => rw [hbar]
    abel

/-- The same for a **balanced-growth steady path** `ξ̄[t+1] = T ξ̄[t] + K` (non-flat models: steady-state levels with non-zero
change): the level simulation from `ξ̄[0] + d0` is `ξ̄[t]` plus the deviation simulation from `d0`, in every period. -/
theorem level_eq_steadypath_add_deviation (xbar : ℕ → nb → K) (hbar : ∀ t, xbar (t + 1) = T *ᵥ xbar t + Kc)
    (d0 : nb → K) (u : ℕ → nu → K) (imp : ℕ → nb → K) (t : ℕ) :
    path T Kc P (xbar 0 + d0) u imp t = xbar t + path T 0 P d0 u imp t := by
  induction t with
  | zero => rfl
  | succ t ih =>
    rw [path, path, ih, Matrix.mulVec_add, hbar t]
    abel

/-- a shock-free level simulation started on the steady path stays on it -/
theorem steady_path_reproduced (xbar : ℕ → nb → K) (hbar : ∀ t, xbar (t + 1) = T *ᵥ xbar t + Kc) (t : ℕ) :
    path T Kc P (xbar 0) (fun _ => 0) (fun _ => 0) t = xbar t := by
  induction t with
  | zero => rfl
  | succ t ih => rw [path, ih, hbar t]; simp

/-- `_simulate_measurement`: `y = Z ξ + D + H w` -/
def measure (Z : Matrix ny nb K) (Dm : ny → K) (Hm : Matrix ny nw K) (x : nb → K) (w : nw → K) : ny → K :=
  Z *ᵥ x + Dm + Hm *ᵥ w

theorem measure_level_eq (Z : Matrix ny nb K) (Dm : ny → K) (Hm : Matrix ny nw K) (xbar d : nb → K) (w : nw → K) :
    measure Z Dm Hm (xbar + d) w = measure Z Dm Hm xbar 0 + measure Z 0 Hm d w := by
  simp only [measure, Matrix.mulVec_add, Matrix.mulVec_zero]
  abel

/-- the measurement equations `F y + G ξ + H + J w = 0` hold on the simulated measurement when the measurement
certificate `F Z + G = 0`, `F D + H = 0`, `F Hm + J = 0` holds -/
theorem measurement_equations_hold (F : Matrix ny ny K) (G : Matrix ny nb K) (Hc : ny → K) (Jm : Matrix ny nw K)
    (Z : Matrix ny nb K) (Dm : ny → K) (Hm : Matrix ny nw K)
    (h1 : F * Z + G = 0) (h2 : F *ᵥ Dm + Hc = 0) (h3 : F * Hm + Jm = 0) (x : nb → K) (w : nw → K) :
    F *ᵥ measure Z Dm Hm x w + G *ᵥ x + Hc + Jm *ᵥ w = 0 := by
  have e : F *ᵥ measure Z Dm Hm x w + G *ᵥ x + Hc + Jm *ᵥ w
      = (F * Z + G) *ᵥ x + (F *ᵥ Dm + Hc) + (F * Hm + Jm) *ᵥ w := by
    simp only [measure, Matrix.mulVec_add, Matrix.add_mulVec, ← Matrix.mulVec_mulVec]
    abel
  rw [e, h1, h2, h3]
  simp

end level

/-! ## Frames: restarting the recursion inside the span gives the same path (tiling) -/

section frames
variable (T : Matrix nb nb K) (Kc : nb → K) (P : Matrix nb nu K)

/-- a frame that starts after period `s` from the state reached there continues the same path -/
theorem path_restart (x0 : nb → K) (u : ℕ → nu → K) (imp : ℕ → nb → K) (s r : ℕ) :
    path T Kc P (path T Kc P x0 u imp s) (fun k => u (s + k)) (fun k => imp (s + k)) r = path T Kc P x0 u imp (s + r) := by
  induction r with
  | zero => rfl
  | succ r ih => rw [path, ih]; rfl

/-- the path up to period `t` depends on the unanticipated shocks of periods `1 … t` only -/
theorem path_congr (x0 : nb → K) (u u' : ℕ → nu → K) (imp : ℕ → nb → K) (t : ℕ)
    (h : ∀ k, 1 ≤ k → k ≤ t → u k = u' k) :
    path T Kc P x0 u imp t = path T Kc P x0 u' imp t := by
  induction t with
  | zero => rfl
  | succ t ih =>
    rw [path, path, ih (fun k h1 h2 => h k h1 (by omega)), h (t + 1) (by omega) le_rfl]

/-- **Split frames tile the span**: a `SplitFrame` starting in period `s+1` keeps the unanticipated shocks of its first
period only (`prune_frame_data`) and simulates to the end of the span; on its own slice -- up to the period before the
next non-zero unanticipated shock -- it reproduces the single-frame path. -/
theorem split_frame_eq_single (x0 : nb → K) (u : ℕ → nu → K) (imp : ℕ → nb → K) (s r : ℕ)
    (hzero : ∀ k, 2 ≤ k → k ≤ r → u (s + k) = 0) :
    path T Kc P (path T Kc P x0 u imp s) (fun k => if k ≤ 1 then u (s + k) else 0) (fun k => imp (s + k)) r
      = path T Kc P x0 u imp (s + r) := by
  rw [← path_restart]
  apply path_congr
  intro k h1 h2
  by_cases hk : k ≤ 1
  · simp [hk]
  · simp only [hk, if_false]
    exact (hzero k (by omega) h2).symm

end frames

/-! ## Non-explosive: a contracting power bounds the shock-free path -/

section bounded
variable {F : Type} [Field F] [LinearOrder F] [IsStrictOrderedRing F]

/-- every absolute row sum is at most `q` (i.e. `‖A‖∞ ≤ q`) -/
def RowSumLe (A : Matrix nb nb F) (q : F) : Prop := ∀ i, ∑ j, |A i j| ≤ q
/-- every entry is at most `c` in absolute value (i.e. `‖x‖∞ ≤ c`) -/
def VecLe (x : nb → F) (c : F) : Prop := ∀ i, |x i| ≤ c

theorem mulVec_bound (A : Matrix nb nb F) (x : nb → F) (q c : F) (hA : RowSumLe A q) (hx : VecLe x c) :
    VecLe (A *ᵥ x) (q * c) := by
  intro i
  have hc0 : 0 ≤ c := le_trans (abs_nonneg _) (hx i)
  calc |(A *ᵥ x) i| = |∑ j, A i j * x j| := rfl
    _ ≤ ∑ j, |A i j * x j| := Finset.abs_sum_le_sum_abs _ _
    _ = ∑ j, |A i j| * |x j| := by simp only [abs_mul]
    _ ≤ ∑ j, |A i j| * c := Finset.sum_le_sum (fun j _ => mul_le_mul_of_nonneg_left (hx j) (abs_nonneg _))
    _ = (∑ j, |A i j|) * c := by rw [Finset.sum_mul]
    _ ≤ q * c := mul_le_mul_of_nonneg_right (hA i) hc0

theorem pow_mulVec_bound (B : Matrix nb nb F) (q : F) (hB : RowSumLe B q) (hq1 : q ≤ 1)
    (x : nb → F) (c : F) (hx : VecLe x c) (a : ℕ) : VecLe ((B ^ a) *ᵥ x) c := by
  induction a with
  | zero => simpa using hx
  | succ a ih =>
    rw [pow_succ', ← Matrix.mulVec_mulVec]
    intro i
    have hc0 : 0 ≤ c := le_trans (abs_nonneg _) (hx i)
    exact le_trans (mulVec_bound B _ q c hB ih i) (by nlinarith)

theorem shockfree_path (T : Matrix nb nb F) (P : Matrix nb nu F) (x0 : nb → F) (t : ℕ) :
    path T 0 P x0 (fun _ => 0) (fun _ => 0) t = (T ^ t) *ᵥ x0 := by
  induction t with
  | zero => simp [path]
  | succ t ih => rw [path, ih, pow_succ', ← Matrix.mulVec_mulVec]; simp

/-- **Non-explosive**: if `‖T^m‖∞ ≤ q ≤ 1` for some `m ≥ 1` (the stability certificate checks `q < 1` exactly) and `C0` bounds
the row sums of `T^0 … T^(m-1)`, the shock-free deviation path satisfies `‖ξ[t]‖∞ ≤ C0 ‖ξ[0]‖∞` in every period. -/
theorem nonexplosive (T : Matrix nb nb F) (P : Matrix nb nu F) (m : ℕ) (hm : 0 < m) (q C0 : F)
    (hq : RowSumLe (T ^ m) q) (hq1 : q ≤ 1) (hC : ∀ r, r < m → RowSumLe (T ^ r) C0)
    (x0 : nb → F) (c : F) (hx : VecLe x0 c) (t : ℕ) :
    VecLe (path T 0 P x0 (fun _ => 0) (fun _ => 0) t) (C0 * c) := by
  rw [shockfree_path]
  have e : T ^ t = T ^ (t % m) * (T ^ m) ^ (t / m) := by
    rw [← pow_mul, ← pow_add, Nat.mod_add_div]
  rw [e, ← Matrix.mulVec_mulVec]
  exact mulVec_bound _ _ C0 c (hC _ (Nat.mod_lt _ hm)) (pow_mulVec_bound _ q hq hq1 x0 c hx _)

/-- a bound `C0` for the finitely many powers below `m` always exists -/
theorem rowSum_bound_exists (T : Matrix nb nb F) (m : ℕ) : ∃ C0 : F, ∀ r, r < m → RowSumLe (T ^ r) C0 := by
  refine ⟨∑ r ∈ Finset.range m, ∑ i, ∑ j, |(T ^ r) i j|, ?_⟩
  intro r hr i
  have h1 : ∑ j, |(T ^ r) i j| ≤ ∑ i, ∑ j, |(T ^ r) i j| :=
    Finset.single_le_sum (f := fun i => ∑ j, |(T ^ r) i j|) (fun i _ => Finset.sum_nonneg (fun j _ => abs_nonneg _)) (Finset.mem_univ i)
  have h2 : ∑ i, ∑ j, |(T ^ r) i j| ≤ ∑ r ∈ Finset.range m, ∑ i, ∑ j, |(T ^ r) i j| :=
    Finset.single_le_sum (f := fun r => ∑ i, ∑ j, |(T ^ r) i j|)
      (fun r _ => Finset.sum_nonneg (fun i _ => Finset.sum_nonneg (fun j _ => abs_nonneg _))) (Finset.mem_range.mpr hr)
  exact le_trans h1 h2

/-- stability certificate ⇒ one constant bounds every shock-free path for all time: `‖ξ[t]‖∞ ≤ c ‖ξ[0]‖∞` -/
theorem nonexplosive_exists (T : Matrix nb nb F) (P : Matrix nb nu F) (m : ℕ) (hm : 0 < m) (q : F)
    (hq : RowSumLe (T ^ m) q) (hq1 : q < 1) :
    ∃ C0 : F, ∀ (x0 : nb → F) (c : F), VecLe x0 c → ∀ t, VecLe (path T 0 P x0 (fun _ => 0) (fun _ => 0) t) (C0 * c) := by
  obtain ⟨C0, hC⟩ := rowSum_bound_exists T m
  exact ⟨C0, fun x0 c hx t => nonexplosive T P m hm q C0 hq (le_of_lt hq1) hC x0 c hx t⟩

end bounded

/-! ## Non-vacuity: a concrete forward-looking model meets every hypothesis

`x[t] = 3/8 x[t-1] + 1/2 E x[t+1] + 1 + e[t]` (one lead of depth 1; roots 1/2 and 3/2): `T = 1/2`, `K = 4`, `P = 4/3`,
`X = 1`, `J = 2/3`, `Ru = -8/9`; steady state `8`; `‖T‖∞ = 1/2 < 1`. -/

section examples

example : Certified (K := ℚ) (nf := Fin 1) (nb := Fin 1) (ne := Fin 1) (nu := Fin 1) (nj := Fin 1)
    !![1/2] ![4] !![4/3] (fun _ => 1) (fun _ => 0) !![1/2] !![-1] !![3/8] ![1] !![1] !![1] !![2/3] !![-8/9] 1 := by
  refine ⟨fun _ => le_rfl, ?_, ?_, ?_, ?_, ?_⟩
  · ext i j; fin_cases i; fin_cases j
    simp [E1, Mmat, Lmat, vecHead, Matrix.of_apply, Pi.smul_apply, smul_eq_mul]; norm_num
  · ext i; fin_cases i
    simp [E2, Mmat, Lmat, lK, geom, Matrix.mulVec, dotProduct, vecHead, Matrix.of_apply, Pi.smul_apply, smul_eq_mul]; norm_num
  · ext i j; fin_cases i; fin_cases j
    simp [E3, Mmat, Lmat, vecHead, Matrix.of_apply, Pi.smul_apply, smul_eq_mul]; norm_num
  · intro a h1 h2
    obtain rfl : a = 1 := by omega
    ext i j; fin_cases i; fin_cases j
    simp [E4, Vmat, leadMat, Mmat, Lmat, vecHead, Matrix.of_apply, Pi.smul_apply, smul_eq_mul]; norm_num
  · ext i j; fin_cases i; fin_cases j
    simp [Vmat, leadMat, Mmat, Lmat, vecHead, Matrix.of_apply, Pi.smul_apply, smul_eq_mul]; norm_num

example : (![8] : Fin 1 → ℚ) = !![1/2] *ᵥ ![8] + ![4] := by
  ext i; fin_cases i; simp; norm_num

example : RowSumLe (nb := Fin 1) (F := ℚ) (!![1/2] ^ 1) (1/2) := by
  intro i; fin_cases i; simp [abs_of_pos]

end examples

end IrisVerif.C01
