/-
Property C19 -- Databox, dataslate and CSV conversions are lossless on selected names and span.
Theorems about the models in IrisVerif/Model/{Databox,Grid,Dataslate}.lean (helper lemmas:
IrisVerif/Lemmas/{GridCodec,DataboxFrame}.lean).
-/
import IrisVerif.Model.Grid
import IrisVerif.Model.Dataslate
import IrisVerif.Lemmas.DataboxFrame
import IrisVerif.Lemmas.DataboxOps
import IrisVerif.Lemmas.GridCodec
import IrisVerif.Lemmas.GridRoundTrip
import IrisVerif.Lemmas.GridSelection
import IrisVerif.Lemmas.SlateCompose

namespace IrisVerif.C19
open IrisVerif.Databox IrisVerif.Grid IrisVerif.Dataslate
open IrisVerif.Dates (Err R)

/-! ### CSV grid codec

The headline is `csv_roundtrip` (end of this section): `importGrid (exportGrid db) = ` the series of `db`, for every
well-formed databox and every codec satisfying `CodecLaw`.  The theorems before it are its components, stated on their own
because they hold more generally (any list of blocks, any selection of periods). -/

/-- the block marks the exporter writes are recognised by the importer, with the right frequency; the cells the exporter
writes between them (`*`, the empty cell) never end a block -/
theorem mark_is_start (f : BFreq) : isEnd (mark f) = true ∧ startFreq (mark f) = some f := by
  cases f <;> decide

theorem filler_cells_are_neutral : isEnd "*" = false ∧ isEnd "" = false ∧ startFreq "__" = none := by decide

/-- scalars and lists are not exported, whatever periods are selected: the grid depends on the series items only -/
theorem nonseries_not_exported_with {V : Type} (c : Codec V) (d : Bool) (fs : FSpan) (db : Box (Ser V) V) :
    exportGridWith c d fs db = exportGridWith c d fs (db.filter (fun p => isSer p.2)) := by
  have h : seriesOf (db.filter (fun p => isSer p.2)) = seriesOf db := by
    induction db with
    | nil => rfl
    | cons p rest ih =>
      obtain ⟨n, it⟩ := p
      cases it <;> simp_all [seriesOf, isSer]
  simp [exportGridWith, h]

theorem nonseries_not_exported {V : Type} (c : Codec V) (d : Bool) (db : Box (Ser V) V) :
    exportGrid c d db = exportGrid c d (db.filter (fun p => isSer p.2)) :=
  nonseries_not_exported_with c d defaultFSpan db

/-- a databox without series writes nothing, and nothing is read back from an empty grid -/
theorem empty_export_import {V : Type} (c : Codec V) (d : Bool) (fs : FSpan) (db : Box (Ser V) V) (h : seriesOf db = []) :
    exportGridWith c d fs db = [] ∧ importGrid c d (exportGridWith c d fs db) = .ok [] := by
  have : exportGridWith c d fs db = [] := by simp [exportGridWith, h, exportBlocksWith, withFreq]
  exact ⟨this, by rw [this]; rfl⟩

/-- **Explicitly selected periods**: whatever the order, step or repetition of the periods handed to `to_csv_file(span=…)`,
the cells written next to a date are the series' own row of that very period (`rowAt`), NaN where the series has none -/
theorem dataRow_is_own_period {V : Type} (c : Codec V) (b : Block V) (t : Int) :
    b.dataRow c t = c.fmtDate b.freq t :: (b.members.flatMap (fun p => (p.2.rowAt t).map c.fmtCell) ++ [""]) := rfl

theorem explicit_span_rows {V : Type} (c : Codec V) (d : Bool) (total : Nat) (b : Block V) :
    ((b.rows c d total).drop (headerRows d)).take b.periods.length = b.periods.map (b.dataRow c) := by
  cases d <;> simp [Block.rows, headerRows]

section Csv
variable {V : Type}

/-- **The block iterator finds exactly the exported blocks**: frequency, date column and width, for any number of blocks,
series and variants. -/
theorem csv_blocks_recovered (Bs : List (Block V)) (h : ∀ b ∈ Bs, GoodNames b.members) :
    blockIterator (Bs.flatMap Block.nameRow) = rawOf 0 Bs := scan_export Bs h 0

/-- **The column iterator recovers every series of a block**: its first column, its number of variants, its name and
its description, for any number of series and variants. -/
theorem csv_columns_recovered (m : List (String × Ser V)) (h : GoodNames m) :
    columnIterator (m.flatMap (fun p => starCont p.1 p.2.nv) ++ [""]) (m.flatMap (fun p => starCont p.2.desc p.2.nv) ++ [""])
      = colsOf 0 m := by
  unfold columnIterator
  rw [List.append_assoc, List.append_assoc, zip_flatMap_starCont]
  exact colScan_export m h 0

theorem trim_of_trimmed {V : Type} (s : Ser V) (h : Trimmed s) : s.trim = s := by
  obtain ⟨⟨r, hr, h1⟩, ⟨l, hl, h2⟩⟩ := h
  obtain ⟨f, st, nv, rows, d⟩ := s
  simp only at hr hl
  have hrev : rows.reverse.head? = some l := by rw [List.head?_reverse]; exact hl
  have hne : rows ≠ [] := by intro e; subst e; simp at hr
  unfold Ser.trim
  simp only [takeWhile_of_head _ _ _ hr h1, dropWhile_of_head _ _ _ hr h1, dropWhile_of_head _ _ _ hrev h2,
    List.reverse_reverse, List.length_nil]
  simp [hne]


/-- **Padding to the block's span is undone by `trim()`**: a trimmed series exported with `a` NaN rows before and `b` NaN
rows after it (the rows of a block start at the earliest and end at the latest series of its frequency) is read back
with its own start and rows. -/
theorem csv_trim_undoes_padding {V : Type} (s : Ser V) (h : Trimmed s) (a b : Nat) :
    Ser.trim ⟨s.freq, s.start - a, s.nv, List.replicate a (nanRow s.nv) ++ s.rows ++ List.replicate b (nanRow s.nv), s.desc⟩
      = s := by
  obtain ⟨⟨r, hr, h1⟩, ⟨l, hl, h2⟩⟩ := h
  obtain ⟨f, st, nv, rows, d⟩ := s
  simp only at hr hl ⊢
  have hrev : rows.reverse.head? = some l := by rw [List.head?_reverse]; exact hl
  have hne : rows ≠ [] := by intro e; subst e; simp at hr
  have hr' : (rows ++ List.replicate b (nanRow nv)).head? = some r := by
    cases rows with
    | nil => simp at hr
    | cons x t => simpa using hr
  unfold Ser.trim
  simp only [List.append_assoc, takeWhile_replicate_append _ _ (allNan_nanRow nv), dropWhile_replicate_append _ _ (allNan_nanRow nv),
    takeWhile_of_head _ _ _ hr' h1, dropWhile_of_head _ _ _ hr' h1, List.reverse_append, List.reverse_replicate,
    dropWhile_of_head _ _ _ hrev h2, List.reverse_reverse, List.append_nil, List.length_replicate]
  simp [hne]



/-- **On the grid actually exported** (the default export or any selection of frequencies and periods) the importer's block
iterator, run on the grid's first row, finds exactly the exported blocks -/
theorem csv_grid_blocks_recovered (c : Codec V) (d : Bool) (fs : FSpan) (db : Box (Ser V) V)
    (h : GoodNames (seriesOf db)) (hne : (exportBlocksWith fs (seriesOf db)).isEmpty = false) :
    ∃ nameRow rest, exportGridWith c d fs db = nameRow :: rest
      ∧ blockIterator nameRow = rawOf 0 (exportBlocksWith fs (seriesOf db)) := by
  obtain ⟨rest, hr⟩ := exportGridWith_nameRow c d fs db hne
  exact ⟨_, rest, hr, scan_export _ (goodNames_exportBlocksWith fs _ h) 0⟩

/-- **and the column iterator, run on a block's own slice of the concatenated header rows** (name row and description
row of any list of blocks), recovers that block's series: first column, variants, name, description -/
theorem csv_grid_columns_recovered (B1 B2 : List (Block V)) (b : Block V)
    (h : ∀ x ∈ B1 ++ b :: B2, GoodNames x.members) :
    columnIterator
        (sliceRow ⟨b.freq, (B1.flatMap Block.nameRow).length, b.width - 1⟩ ((B1 ++ b :: B2).flatMap Block.nameRow))
        (sliceRow ⟨b.freq, (B1.flatMap Block.nameRow).length, b.width - 1⟩ ((B1 ++ b :: B2).flatMap Block.descRow))
      = colsOf 0 b.members := by
  have hs := header_slices B1 B2 b h
  rw [hs.1, hs.2]
  exact csv_columns_recovered b.members (h b (by simp))


/-- **CSV round trip.** For every well-formed databox -- any number of series of any mix of frequencies (yearly … integer,
and empty series), any number of variants, any starts, lengths and NaN patterns -- and every cell codec whose parsing inverts
its printing, importing the exported grid returns exactly the series of the databox: their names (grouped by frequency in
the order of the blocks, in databox order within a frequency), descriptions (when the description row is on; empty
otherwise), frequency, start, number of variants and every cell (NaN mask and value tokens).  Scalars and lists are not
exported (`nonseries_not_exported`). -/
theorem csv_roundtrip (c : Codec V) (hc : CodecLaw c) (d : Bool) (db : Box (Ser V) V) (hwf : WellFormedDatabox db) :
    importGrid c d (exportGrid c d db)
      = .ok ((blockOrder.flatMap (withFreq (seriesOf db))).map (withDesc (descOf d))) := by
  have hmem : (exportBlocksWith defaultFSpan (seriesOf db)).flatMap (·.members) = blockOrder.flatMap (withFreq (seriesOf db)) := by
    rw [members_exportBlocksWith]
    simp [defaultFSpan, List.flatMap_map]
  unfold exportGrid exportGridWith
  by_cases hB : (exportBlocksWith defaultFSpan (seriesOf db)).isEmpty = true
  · simp only [hB, if_true]
    rw [← hmem, List.isEmpty_iff.mp hB]
    rfl
  · simp only [hB, Bool.false_eq_true, if_false]
    have hg := goodBlock_export db hwf
    -- there is a data row
    have hT : 1 ≤ totalRowsWith defaultFSpan (seriesOf db) := by
      rcases hwf.hasData with h0 | ⟨p, hp, hpU⟩
      · exfalso; apply hB
        simp [exportBlocksWith, h0, withFreq]
      · have hpm : p ∈ withFreq (seriesOf db) p.2.freq := List.mem_filter.mpr ⟨hp, by simp⟩
        have hne : (withFreq (seriesOf db) p.2.freq).isEmpty = false := by
          cases hq : withFreq (seriesOf db) p.2.freq with
          | nil => rw [hq] at hpm; simp at hpm
          | cons a t => rfl
        have hx : (⟨p.2.freq, blockPeriods p.2.freq (withFreq (seriesOf db) p.2.freq), withFreq (seriesOf db) p.2.freq⟩ : Block V)
            ∈ exportBlocksWith defaultFSpan (seriesOf db) := by
          unfold exportBlocksWith
          apply List.mem_filterMap.mpr
          refine ⟨(p.2.freq, none), ?_, ?_⟩
          · simp only [defaultFSpan, List.mem_map]
            exact ⟨p.2.freq, hwf.freq p hp, rfl⟩
          · simp [hne]
        obtain ⟨hgb, hfit⟩ := hg _ hx
        rcases hgb.shape with ⟨hU, _⟩ | ⟨_, _, lo, hi, hlh, hper, _⟩
        · exact absurd hU hpU
        · have : 1 ≤ (blockPeriods p.2.freq (withFreq (seriesOf db) p.2.freq)).length := by
            simp only at hper
            rw [hper, periodsOf_length]; omega
          simp only at hfit
          omega
    have hnd : (keys ((exportBlocksWith defaultFSpan (seriesOf db)).flatMap (·.members))).Nodup := by
      rw [hmem]
      exact keys_grouped_nodup _ hwf.distinct blockOrder blockOrder_nodup
    rw [import_of_blocks c hc d _ hT _ hg hnd, hmem]

/-- consequences in plain terms: every series of the databox comes back under its name, unchanged (description as per the
description row), and nothing else comes back -/
theorem csv_roundtrip_mem (c : Codec V) (hc : CodecLaw c) (d : Bool) (db : Box (Ser V) V) (hwf : WellFormedDatabox db)
    (q : String × Ser V) :
    (∃ l, importGrid c d (exportGrid c d db) = .ok l ∧ (q ∈ l ↔ ∃ p ∈ seriesOf db, q = withDesc (descOf d) p)) := by
  refine ⟨_, csv_roundtrip c hc d db hwf, ?_⟩
  simp only [List.mem_map, List.mem_flatMap]
  constructor
  · rintro ⟨p, ⟨f, _, hp⟩, rfl⟩
    exact ⟨p, (List.mem_filter.mp hp).1, rfl⟩
  · rintro ⟨p, hp, rfl⟩
    exact ⟨p, ⟨p.2.freq, hwf.freq p hp, List.mem_filter.mpr ⟨hp, by simp⟩⟩, rfl⟩


/-! #### explicit selections of frequencies and periods (`span=`, `frequency_span=`) -/


/-- a databox whose series the CSV format can carry (no assumption on trimming, starts or lengths) -/
structure ExportableDatabox (db : Box (Ser V) V) : Prop where
  distinct : (keys (seriesOf db)).Nodup
  names : GoodNames (seriesOf db)
  rows : ∀ p ∈ seriesOf db, ∀ r ∈ p.2.rows, r.length = p.2.nv

/-- a frequency-span selection (`span=`, `frequency_span=`; `names=` is `shallow` applied first) the format can carry: distinct
frequencies (it is a dict), dated blocks with at least one period, no periods for the block of the empty series, and at least
one data row when anything is written -/
structure SelectionOK (fs : FSpan) (db : Box (Ser V) V) : Prop where
  keysNodup : (fs.map (·.1)).Nodup
  blocks : ∀ b ∈ exportBlocksWith fs (seriesOf db),
    (b.freq = .U ∧ b.periods = []) ∨ (b.freq ≠ .U ∧ b.freq ≠ .W ∧ b.periods ≠ [])
  hasRow : exportBlocksWith fs (seriesOf db) = [] ∨ ∃ b ∈ exportBlocksWith fs (seriesOf db), b.periods ≠ []

theorem fit_exportBlocksWith (fs : FSpan) (ss : List (String × Ser V)) :
    ∀ b ∈ exportBlocksWith fs ss, b.periods.length ≤ totalRowsWith fs ss := by
  intro b hb
  unfold exportBlocksWith at hb
  obtain ⟨e, he, hbe⟩ := List.mem_filterMap.mp hb
  dsimp only at hbe
  by_cases hm : (withFreq ss e.1).isEmpty = true
  · simp [hm] at hbe
  · simp only [hm, Bool.false_eq_true, if_false, Option.some.injEq] at hbe
    subst hbe
    apply le_maxLen
    simp only [totalRowsWith, List.mem_map]
    refine ⟨e, he, ?_⟩
    cases he2 : e.2 with
    | none => simp [hm]
    | some ps => simp

/-- **CSV export of a selection and re-import.** For every exportable databox and every admissible selection of frequencies and
periods -- in any order, with any step, with repetitions, inside or outside the data -- importing the exported grid returns, for
every series of a selected frequency, `set_data` of the series' own rows at the written periods (each row placed at its period,
NaN elsewhere, then trimmed); nothing else comes back. -/
theorem csv_selection_roundtrip (c : Codec V) (hc : CodecLaw c) (d : Bool) (fs : FSpan) (db : Box (Ser V) V)
    (hdb : ExportableDatabox db) (hsel : SelectionOK fs db) :
    importGrid c d (exportGridWith c d fs db)
      = .ok ((exportBlocksWith fs (seriesOf db)).flatMap (fun b => b.members.map (reimport (descOf d) b))) := by
  unfold exportGridWith
  by_cases hB : (exportBlocksWith fs (seriesOf db)).isEmpty = true
  · simp only [hB, if_true]
    rw [List.isEmpty_iff.mp hB]
    rfl
  · simp only [hB, Bool.false_eq_true, if_false]
    have hfit := fit_exportBlocksWith fs (seriesOf db)
    have hg : ∀ x ∈ exportBlocksWith fs (seriesOf db), GoodBlockG x ∧ x.periods.length ≤ totalRowsWith fs (seriesOf db) := by
      intro x hx
      refine ⟨⟨goodNames_exportBlocksWith fs _ hdb.names x hx, ?_, hsel.blocks x hx⟩, hfit x hx⟩
      intro p hp
      have hx' := hx
      unfold exportBlocksWith at hx'
      obtain ⟨e, _, hxe⟩ := List.mem_filterMap.mp hx'
      dsimp only at hxe
      split at hxe
      · simp at hxe
      · simp only [Option.some.injEq] at hxe
        subst hxe
        exact hdb.rows p (List.mem_filter.mp hp).1
    have hT : 1 ≤ totalRowsWith fs (seriesOf db) := by
      rcases hsel.hasRow with h0 | ⟨b, hb, hne⟩
      · rw [h0] at hB; simp at hB
      · have := hfit b hb
        have : 0 < b.periods.length := List.length_pos_iff.mpr hne
        omega
    have hnd : (keys ((exportBlocksWith fs (seriesOf db)).flatMap (·.members))).Nodup := by
      rw [members_exportBlocksWith]
      have : fs.flatMap (fun e => withFreq (seriesOf db) e.1) = (fs.map (·.1)).flatMap (withFreq (seriesOf db)) := by
        rw [List.flatMap_map]
      rw [this]
      exact keys_grouped_nodup _ hdb.distinct _ hsel.keysNodup
    exact import_of_blocks_gen c hc d _ hT _ hg hnd

/-- **… for an ascending run of consecutive periods** `lo … hi` the series that comes back is the restriction of the original to
`lo … hi`, trimmed (a true round trip after trim) -/
theorem reimport_consecutive (dh : String × Ser V → String) (b : Block V) (p : String × Ser V) (lo hi : Int) (h : lo ≤ hi)
    (hf : b.freq ≠ .U) (hper : b.periods = periodsOf lo hi) :
    (reimport dh b p).2 = Ser.trim ⟨b.freq, lo, p.2.nv, (periodsOf lo hi).map p.2.rowAt, dh p⟩ := by
  simp only [reimport, hf, if_false, hper]
  exact setData_consecutive _ _ _ lo hi h _ (by simp [periodsOf])


/-- **… and for any list of distinct periods** (stepped, descending, hand-picked): what comes back is the trimmed form of a series
that has, at every written period, the original series' own row of that period, and NaN rows at every other period -/
theorem csv_selection_cells (dh : String × Ser V → String) (b : Block V) (p : String × Ser V) (p0 : Int) (ps : List Int)
    (hper : b.periods = p0 :: ps) (hf : b.freq ≠ .U) (hnd : (p0 :: ps).Nodup) :
    (reimport dh b p).2 = (setDataRaw b.freq p.2.nv (dh p) p0 ps ((p0 :: ps).map p.2.rowAt)).trim
      ∧ (∀ t ∈ p0 :: ps, (setDataRaw b.freq p.2.nv (dh p) p0 ps ((p0 :: ps).map p.2.rowAt)).rowAt t = p.2.rowAt t)
      ∧ (∀ t, t ∉ p0 :: ps →
          (setDataRaw b.freq p.2.nv (dh p) p0 ps ((p0 :: ps).map p.2.rowAt)).rowAt t = nanRow p.2.nv) := by
  have h := setDataRaw_rowAt b.freq p.2.nv (dh p) p0 ps ((p0 :: ps).map p.2.rowAt) hnd
  refine ⟨by simp only [reimport, hf, if_false, hper]; rfl, ?_, h.2⟩
  intro t ht
  obtain ⟨i, hi⟩ := List.getElem?_of_mem ht
  exact h.1 i t _ hi (by rw [List.getElem?_map, hi]; rfl)


/-- **the re-imported series period by period, for ANY selection of periods** (stepped, descending, hand-picked, repeated): the
series `from_csv_file` returns -- after its final `trim()` -- has the original series' own row at every written period and a
NaN row at every other period -/
theorem csv_selection_rowAt (dh : String × Ser V → String) (b : Block V) (p : String × Ser V) (hf : b.freq ≠ .U)
    (hne : b.periods ≠ []) (hrows : ∀ r ∈ p.2.rows, r.length = p.2.nv) (t : Int) :
    (reimport dh b p).2.rowAt t = if t ∈ b.periods then p.2.rowAt t else nanRow p.2.nv :=
  reimport_rowAt dh b p hf hne hrows t

/-- `Series.trim()` changes no row (it only drops NaN rows at the two ends) -/
theorem trim_changes_no_row (s : Ser V) (hrows : ∀ r ∈ s.rows, r.length = s.nv) (t : Int) : s.trim.rowAt t = s.rowAt t :=
  trim_rowAt s hrows t

example : (reimport (fun _ => "") (⟨.Q, [8082, 8080, 8080, 8077], []⟩ : Block Nat)
    ("a", ⟨.Q, 8080, 1, [[some 1], [none], [some 3]], ""⟩)).2 = ⟨.Q, 8080, 1, [[some 1], [none], [some 3]], ""⟩ := by decide

/-- **layout of the written grid**: for any mix of block lengths and variant counts and any selection of periods every row of
the grid -- name row, description row, data rows, padding rows -- has the same number of cells, one date cell, one cell per
variant of every series and one separator cell per block (so the reader's rectangularity check never fires on what the
exporter writes) -/
theorem csv_grid_rectangular (c : Codec V) (d : Bool) (fs : FSpan) (db : Box (Ser V) V) (hdb : ExportableDatabox db) :
    ∀ r ∈ exportGridWith c d fs db, r.length = widths (exportBlocksWith fs (seriesOf db)) :=
  exportGridWith_rectangular c d fs db hdb.names hdb.rows (fit_exportBlocksWith fs (seriesOf db))

example : ((exportGrid sdmxCodec true [("a", .ser ⟨.Q, 8080, 3, [[none, none, none]], "d"⟩), ("b", .ser ⟨.Q, 8079, 1, [[none], [none], [none]], ""⟩),
    ("i", .ser ⟨.I, 5, 2, [[none, none], [none, none]], ""⟩)]).map List.length) = [10, 10, 10, 10, 10] := by decide


/-- **export of a selection and re-import, end to end** (input-level hypotheses only; composes `csv_selection_roundtrip` with
`csv_selection_rowAt`): every series of a selected, dated frequency comes back under its name as a series that has, at every
written period -- whatever their order, step or repetition: each row is dated by ITS OWN date cell -- the original's own row,
and a NaN row at every other period -/
theorem csv_selection_end_to_end (c : Codec V) (hc : CodecLaw c) (d : Bool) (fs : FSpan) (db : Box (Ser V) V)
    (hdb : ExportableDatabox db) (hsel : SelectionOK fs db) :
    ∃ l, importGrid c d (exportGridWith c d fs db) = .ok l
      ∧ ∀ b ∈ exportBlocksWith fs (seriesOf db), b.freq ≠ .U → ∀ p ∈ b.members,
          ∃ s, (p.1, s) ∈ l ∧ ∀ t, s.rowAt t = if t ∈ b.periods then p.2.rowAt t else nanRow p.2.nv := by
  refine ⟨_, csv_selection_roundtrip c hc d fs db hdb hsel, ?_⟩
  intro b hb hf p hp
  refine ⟨(reimport (descOf d) b p).2, List.mem_flatMap.mpr ⟨b, hb, List.mem_map.mpr ⟨p, hp, rfl⟩⟩, ?_⟩
  intro t
  have hne : b.periods ≠ [] := by
    rcases hsel.blocks b hb with h | h
    · exact absurd h.1 hf
    · exact h.2.2
  have hrows : ∀ r ∈ p.2.rows, r.length = p.2.nv := by
    have hb' := hb
    unfold exportBlocksWith at hb'
    obtain ⟨e, _, hbe⟩ := List.mem_filterMap.mp hb'
    dsimp only at hbe
    split at hbe
    · simp at hbe
    · simp only [Option.some.injEq] at hbe
      subst hbe
      exact hdb.rows p (List.mem_filter.mp hp).1
  exact reimport_rowAt (descOf d) b p hf hne hrows t

/-- **rejection**: a file that has a block but no data row is rejected by the reader (`data_rows[0]`), e.g. the export of a
databox whose series are all empty -- the case `WellFormedDatabox.hasData` excludes -/
theorem export_without_data_rows_is_rejected (c : Codec V) (d : Bool) (fs : FSpan) (db : Box (Ser V) V)
    (hn : GoodNames (seriesOf db)) (hB : (exportBlocksWith fs (seriesOf db)).isEmpty = false)
    (hT : totalRowsWith fs (seriesOf db) = 0) :
    importGrid c d (exportGridWith c d fs db) = .error .badInput := by
  unfold exportGridWith
  simp only [hB, Bool.false_eq_true, if_false, hT]
  apply import_without_data_rows
  · intro e; rw [e] at hB; simp at hB
  · exact goodNames_exportBlocksWith fs _ hn
  · intro b hb; have := fit_exportBlocksWith fs (seriesOf db) b hb; omega

example : importGrid sdmxCodec true (exportGrid sdmxCodec true [("e", .ser ⟨.U, 0, 2, [], "empty"⟩), ("k", .scalar none)])
    = .error .badInput := by decide

/-- the hypotheses of `csv_selection_roundtrip` are met by a descending, stepped selection on a two-series databox -/
example : ExportableDatabox (V := Nat) [("a", .ser ⟨.Q, 8080, 1, [[some 1], [none], [some 3]], ""⟩), ("k", .scalar none)]
    ∧ SelectionOK (V := Nat) [(.Q, some [8082, 8080, 8077])] [("a", .ser ⟨.Q, 8080, 1, [[some 1], [none], [some 3]], ""⟩), ("k", .scalar none)] := by
  refine ⟨⟨by decide, ?_, ?_⟩, ⟨by decide, ?_, ?_⟩⟩
  · intro p hp
    simp only [seriesOf, List.filterMap_cons, List.filterMap_nil, List.mem_cons, List.mem_nil_iff, or_false] at hp
    subst hp; decide
  · intro p hp
    simp only [seriesOf, List.filterMap_cons, List.filterMap_nil, List.mem_cons, List.mem_nil_iff, or_false] at hp
    subst hp; decide
  · intro b hb
    simp [exportBlocksWith, seriesOf, withFreq] at hb
    subst hb
    exact Or.inr ⟨by decide, by decide, by simp⟩
  · right
    exact ⟨⟨.Q, [8082, 8080, 8077], withFreq (seriesOf [("a", .ser ⟨.Q, 8080, 1, [[some 1], [none], [some 3]], ""⟩), ("k", .scalar none)]) .Q⟩,
      by simp [exportBlocksWith, seriesOf, withFreq], by simp⟩

/-! non-vacuity: a codec satisfying `CodecLaw` (periods in unary, cells as non-empty tokens) and a well-formed databox
(two frequencies, different starts and lengths, two variants, NaNs inside, an empty series, a scalar) -/

def unaryCodec : Codec Tok where
  fmtDate := fun _ n => String.ofList (List.replicate ((if 0 ≤ n then 2 * n.toNat else 2 * (-n).toNat - 1) + 1) 'x')
  parseDate := fun _ s => let k := s.length - 1; some (if k % 2 = 0 then ((k / 2 : Nat) : Int) else -(((k + 1) / 2 : Nat) : Int))
  fmtCell := fun x => match x with | none => "" | some t => t.val
  parseCell := fun s => if h : s = "" then none else some ⟨s, h⟩

theorem unaryCodec_law : CodecLaw unaryCodec where
  date := by
    intro f n _ _
    constructor
    · simp only [unaryCodec, String.length_ofList, List.length_replicate]
      congr 1
      split <;> split <;> omega
    · intro h
      have := congrArg String.length h
      simp [unaryCodec] at this
  cell := by
    intro x
    cases x with
    | none => simp [unaryCodec]
    | some t => simp [unaryCodec, t.property]

example : WellFormedDatabox (V := Nat)
    [("gdp, real", .ser ⟨.Q, 8080, 2, [[some 1, none], [none, none], [none, some 2]], "a \"desc\", *"⟩),
     ("k", .scalar (some 5)),
     ("x y", .ser ⟨.Q, 8078, 1, [[some 3]], "*"⟩),
     ("m", .ser ⟨.M, 24240, 1, [[some 7], [some 8]], ""⟩),
     ("e", .ser ⟨.U, 0, 2, [], "empty"⟩)] where
  distinct := by decide
  names := by
    intro p hp
    simp only [seriesOf, List.filterMap_cons, List.filterMap_nil, List.mem_cons, List.mem_nil_iff, or_false] at hp
    rcases hp with rfl | rfl | rfl | rfl <;> decide
  rows := by
    intro p hp
    simp only [seriesOf, List.filterMap_cons, List.filterMap_nil, List.mem_cons, List.mem_nil_iff, or_false] at hp
    rcases hp with rfl | rfl | rfl | rfl <;> decide
  freq := by
    intro p hp
    simp only [seriesOf, List.filterMap_cons, List.filterMap_nil, List.mem_cons, List.mem_nil_iff, or_false] at hp
    rcases hp with rfl | rfl | rfl | rfl <;> decide
  shape := by
    intro p hp
    simp only [seriesOf, List.filterMap_cons, List.filterMap_nil, List.mem_cons, List.mem_nil_iff, or_false] at hp
    rcases hp with rfl | rfl | rfl | rfl
    · exact Or.inr ⟨by decide, ⟨_, rfl, by decide⟩, ⟨_, rfl, by decide⟩⟩
    · exact Or.inr ⟨by decide, ⟨_, rfl, by decide⟩, ⟨_, rfl, by decide⟩⟩
    · exact Or.inr ⟨by decide, ⟨_, rfl, by decide⟩, ⟨_, rfl, by decide⟩⟩
    · exact Or.inl ⟨rfl, rfl, rfl⟩
  hasData := Or.inr ⟨("m", ⟨.M, 24240, 1, [[some 7], [some 8]], ""⟩), by simp [seriesOf], by decide⟩


/-- the headline theorem on a concrete databox (two frequencies, different starts and lengths, two variants, NaNs inside, an
empty series, a scalar): the hypotheses are met and the conclusion is the expected list -/
def exampleBox : Box (Ser Tok) Tok :=
  [("gdp, real", .ser ⟨.Q, 8080, 2, [[some ⟨"1", by decide⟩, none], [none, none], [none, some ⟨"2", by decide⟩]], "a desc, *"⟩),
   ("k", .scalar none),
   ("x y", .ser ⟨.Q, 8078, 1, [[some ⟨"3", by decide⟩]], "*"⟩),
   ("m", .ser ⟨.M, 24240, 1, [[some ⟨"7", by decide⟩], [some ⟨"8", by decide⟩]], ""⟩),
   ("e", .ser ⟨.U, 0, 2, [], "empty"⟩)]

theorem exampleBox_wellFormed : WellFormedDatabox exampleBox where
  distinct := by decide
  names := by
    intro p hp
    simp only [exampleBox, seriesOf, List.filterMap_cons, List.filterMap_nil, List.mem_cons, List.mem_nil_iff, or_false] at hp
    rcases hp with rfl | rfl | rfl | rfl <;> decide
  rows := by
    intro p hp
    simp only [exampleBox, seriesOf, List.filterMap_cons, List.filterMap_nil, List.mem_cons, List.mem_nil_iff, or_false] at hp
    rcases hp with rfl | rfl | rfl | rfl <;> decide
  freq := by
    intro p hp
    simp only [exampleBox, seriesOf, List.filterMap_cons, List.filterMap_nil, List.mem_cons, List.mem_nil_iff, or_false] at hp
    rcases hp with rfl | rfl | rfl | rfl <;> decide
  shape := by
    intro p hp
    simp only [exampleBox, seriesOf, List.filterMap_cons, List.filterMap_nil, List.mem_cons, List.mem_nil_iff, or_false] at hp
    rcases hp with rfl | rfl | rfl | rfl
    · exact Or.inr ⟨by decide, ⟨_, rfl, by decide⟩, ⟨_, rfl, by decide⟩⟩
    · exact Or.inr ⟨by decide, ⟨_, rfl, by decide⟩, ⟨_, rfl, by decide⟩⟩
    · exact Or.inr ⟨by decide, ⟨_, rfl, by decide⟩, ⟨_, rfl, by decide⟩⟩
    · exact Or.inl ⟨rfl, rfl, rfl⟩
  hasData := Or.inr ⟨("m", ⟨.M, 24240, 1, [[some ⟨"7", by decide⟩], [some ⟨"8", by decide⟩]], ""⟩), by simp [exampleBox, seriesOf], by decide⟩

example : importGrid unaryCodec true (exportGrid unaryCodec true exampleBox)
    = .ok ((blockOrder.flatMap (withFreq (seriesOf exampleBox))).map (withDesc (descOf true))) :=
  csv_roundtrip unaryCodec unaryCodec_law true exampleBox exampleBox_wellFormed

/-- the format reserves exactly this much of a name: non-empty, not the continuation mark, not starting with the block mark -/
example : GoodNames [("gdp, real", (⟨.Q, 8080, 2, [[some 1, none], [none, some 2]], "a \"desc\", *"⟩ : Ser Nat)), ("x y", ⟨.Q, 8079, 1, [[some 3]], "*"⟩)] := by
  intro p hp
  simp only [List.mem_cons, List.mem_nil_iff, or_false] at hp
  rcases hp with rfl | rfl <;> decide

example : Trimmed (⟨.Q, 8080, 2, [[some 1, none], [none, none], [none, some 2]], ""⟩ : Ser Nat) :=
  ⟨⟨[some 1, none], rfl, by decide⟩, ⟨[none, some 2], rfl, by decide⟩⟩

end Csv

/-! ### Dataslates -/

section Slate
variable {V : Type}

/-- **Dataslate, selected series, no fills.** The record of a series of the slate's frequency (or an empty one) is the
series' own column `min v (k-1)` on the span: cell `i` is the input cell of period `start + i`, NaN outside the series. -/
theorem record_of_series (db : Box (Ser V) V) (f : BFreq) (start : Int) (len : Nat) (base : List Nat) (v : Nat)
    (n : String) (s : Ser V) (hl : lookup db n = some (.ser s)) (hf : s.freq = .U ∨ s.freq = f) (hnv : 1 ≤ s.nv) :
    recordOf db f start len [] [] false base v n = .ok (serColumn s (min v (s.nv - 1)) start len) := by
  have h1 : ¬ (s.freq ≠ .U ∧ s.freq ≠ f) := by
    rcases hf with h | h <;> simp [h]
  have h2 : ¬ s.nv = 0 := by omega
  simp [recordOf, hl, variantRow, h1, h2, fillFor, lookup, applyFallback, applyOverwrite, clipRow, bind, Except.bind,
    pure, Except.pure]

/-- a series of another frequency is rejected, not silently misaligned -/
theorem record_mixed_frequency (db : Box (Ser V) V) (f : BFreq) (start : Int) (len : Nat) (fb ow : Box (Ser V) V)
    (clip : Bool) (base : List Nat) (v : Nat) (n : String) (s : Ser V) (hl : lookup db n = some (.ser s))
    (h1 : s.freq ≠ .U) (h2 : s.freq ≠ f) :
    recordOf db f start len fb ow clip base v n = .error .mixedFreq := by
  simp [recordOf, hl, variantRow, h1, h2, bind, Except.bind, throw, throwThe, MonadExceptOf.throw]

/-- **Names that are not in the databox** give NaN on the whole span (no fills declared) -/
theorem record_absent (db : Box (Ser V) V) (f : BFreq) (start : Int) (len : Nat) (base : List Nat) (v : Nat)
    (n : String) (hl : lookup db n = none) :
    recordOf db f start len [] [] false base v n = .ok (List.replicate len none) := by
  simp [recordOf, hl, nanVec, fillFor, lookup, applyFallback, applyOverwrite, clipRow, bind, Except.bind, pure, Except.pure]

/-- **Fallbacks fill NaN cells only**: an observed cell is never changed, a NaN cell becomes the declared value -/
theorem fallback_fills_only_nan (x : Option V) (row : List (Option V)) (i : Nat) :
    (applyFallback (some x) row)[i]? = (row[i]?).map (fun c => match c with | none => x | some y => some y) := by
  simp only [applyFallback, List.getElem?_map]
  cases row[i]? with
  | none => rfl
  | some c => cases c <;> rfl

theorem no_fallback_no_change (row : List (Option V)) : applyFallback (none : Option (Option V)) row = row := rfl

/-- **Overwrites replace every cell of the record** (and nothing is invented without one) -/
theorem overwrite_all (x : Option V) (row : List (Option V)) (i : Nat) :
    (applyOverwrite (some x) row)[i]? = (row[i]?).map (fun _ => x) := by
  simp [applyOverwrite]

theorem no_overwrite_no_change (row : List (Option V)) : applyOverwrite (none : Option (Option V)) row = row := rfl

/-- a fallback / overwrite table only acts on the names it declares -/
theorem fill_only_declared (tbl : Box (Ser V) V) (v : Nat) (n : String) (h : lookup tbl n = none) :
    fillFor tbl v n = .ok none := by
  simp [fillFor, h, pure, Except.pure]

/-- **Clipping to the base span** keeps the base columns and blanks the others -/
theorem clipRow_cell (base : List Nat) (row : List (Option V)) (i : Nat) (hi : i < row.length) :
    (clipRow true base row)[i]? = some (if base.contains i then row[i] else none) := by
  simp [clipRow, hi]

/-- `to_databox` transposes back: row `i`, variant `v` of the output series is cell `i` of the record in variant `v` -/
theorem rowsOf_cell (len : Nat) (cols : List (List (Option V))) (i v : Nat) (hi : i < len) (hv : v < cols.length) :
    ((rowsOf len cols)[i]?.bind (·[v]?)) = some ((cols[v][i]?).getD none) := by
  simp [rowsOf, hi, hv]

/-- variants beyond those of the input repeat the last one (`exhaust_then_last`) -/
theorem exhaustThenLast_spec {α : Type} (l : List α) (hl : l ≠ []) (v : Nat) :
    exhaustThenLast l v = l[min v (l.length - 1)]? := by
  cases l with
  | nil => exact absurd rfl hl
  | cons x xs =>
    unfold exhaustThenLast
    by_cases h : v < (x :: xs).length
    · have : min v ((x :: xs).length - 1) = v := by simp at h ⊢; omega
      simp only [h, if_true, this]
    · have : min v ((x :: xs).length - 1) = (x :: xs).length - 1 := by simp at h ⊢; omega
      simp only [h, if_false, this]
      rw [List.getLast_eq_getElem]
      simp



/-- **Databox → dataslate → databox, cell by cell.** For distinct selected names, `to_databox(trim=False)` of the dataslate built
by `from_databox` binds every selected name to a series of the slate's frequency starting at the first period of the span,
with one row per period of the span and one column per variant, whose cell (period `i`, variant `v`) is cell `i` of the record
`recordOf` computes for that name and variant (the input row, clipped, fallback on NaN cells, overwrite on all cells). -/
theorem slate_roundtrip_cells (db : Box (Ser V) V) (names : List String) (f : BFreq) (start : Int) (len nvar : Nat)
    (fb ow : Box (Ser V) V) (clip : Bool) (base : List Nat) (sl : Slate V) (out : List (String × Ser V))
    (h : fromDatabox db (some names) f start len nvar fb ow clip base = .ok sl) (hout : toDatabox sl false = .ok out)
    (hnd : names.Nodup) (n : String) (hn : n ∈ names) :
    ∃ s, lookup out n = some s ∧ s.freq = f ∧ s.start = start ∧ s.nv = nvar ∧ s.rows.length = len ∧
      ∀ v, v < nvar → ∀ i, i < len → ∃ rec, recordOf db f start len fb ow clip base v n = .ok rec
        ∧ (s.rows[i]?.bind (·[v]?)) = some ((rec[i]?).getD none) := by
  -- the variants of the slate
  unfold fromDatabox at h
  simp only [Option.getD_some, bind, Except.bind] at h
  cases hvs : (List.range nvar).mapM (fromDataboxVariant db names f start len fb ow clip base) with
  | error e => simp [hvs] at h
  | ok vs =>
    simp only [hvs, pure, Except.pure, Except.ok.injEq] at h
    subst h
    obtain ⟨hvlen, hvget⟩ := mapM_ok_inv _ _ _ hvs
    simp only [List.length_range] at hvlen
    -- to_databox
    unfold toDatabox at hout
    by_cases hempty : vs.isEmpty = true
    · simp [hempty, throw, throwThe, MonadExceptOf.throw] at hout
    · simp only [hempty, Bool.false_eq_true, if_false, pure, Except.pure, Except.ok.injEq] at hout
      subst hout
      have hkeys : (keys (((List.range names.length).zip names).map (fun (qn : Nat × String) =>
          (qn.2, (⟨f, start, vs.length, rowsOf len (vs.map (fun v => (v[qn.1]?).getD [])), ""⟩ : Ser V))))).Nodup := by
        have : keys (((List.range names.length).zip names).map (fun (qn : Nat × String) =>
          (qn.2, (⟨f, start, vs.length, rowsOf len (vs.map (fun v => (v[qn.1]?).getD [])), ""⟩ : Ser V)))) = names := by
          simp only [keys, List.map_map]
          exact List.map_snd_zip (l₁ := List.range names.length) (l₂ := names) (by simp)
        rw [this]; exact hnd
      rw [IrisVerif.Grid.dictOfList_nodup _ hkeys, List.range_eq_range']
      obtain ⟨k, hk, hl⟩ := lookup_zip_range names 0
        (fun q => (⟨f, start, vs.length, rowsOf len (vs.map (fun v => (v[q]?).getD [])), ""⟩ : Ser V)) n hn
      refine ⟨_, hl, rfl, rfl, hvlen, by simp [rowsOf], ?_⟩
      intro v hv i hi
      obtain ⟨recs, hrecs, hfv⟩ := hvget v v (by simp [hv])
      unfold fromDataboxVariant at hfv
      have hne : names.isEmpty = false := by
        cases names with
        | nil => simp at hn
        | cons a t => rfl
      simp only [hne, Bool.false_eq_true, if_false] at hfv
      obtain ⟨_, hrget⟩ := mapM_ok_inv _ _ _ hfv
      obtain ⟨rec, hrec, hro⟩ := hrget k n hk
      refine ⟨rec, hro, ?_⟩
      have hvl : v < (vs.map (fun w => (w[0 + k]?).getD [])).length := by simp [hvlen, hv]
      simp only [rowsOf, List.getElem?_map, List.getElem?_range hi, Option.map_some, Option.bind_some]
      simp [hrecs, hrec]


/-- **… and for a selected series without declared fills that cell is the input cell**: period `start + i`, column
`min v (k − 1)` of the series (NaN outside its range) -- the conversion is lossless on the selected names and span -/
theorem slate_roundtrip_series (db : Box (Ser V) V) (names : List String) (f : BFreq) (start : Int) (len nvar : Nat)
    (base : List Nat) (sl : Slate V) (out : List (String × Ser V))
    (h : fromDatabox db (some names) f start len nvar [] [] false base = .ok sl) (hout : toDatabox sl false = .ok out)
    (hnd : names.Nodup) (n : String) (hn : n ∈ names) (src : Ser V) (hl : lookup db n = some (.ser src))
    (hf : src.freq = .U ∨ src.freq = f) (hnv : 1 ≤ src.nv) :
    ∃ s, lookup out n = some s ∧ s.freq = f ∧ s.start = start ∧ s.nv = nvar ∧ s.rows.length = len ∧
      ∀ v, v < nvar → ∀ i, i < len →
        (s.rows[i]?.bind (·[v]?)) = some (((src.rowAt (start + (i : Int)))[min v (src.nv - 1)]?).getD none) := by
  obtain ⟨s, h1, h2, h3, h4, h5, h6⟩ := slate_roundtrip_cells db names f start len nvar [] [] false base sl out h hout hnd n hn
  refine ⟨s, h1, h2, h3, h4, h5, ?_⟩
  intro v hv i hi
  obtain ⟨rec, hrec, hcell⟩ := h6 v hv i hi
  rw [record_of_series db f start len base v n src hl hf hnv] at hrec
  cases hrec
  rw [hcell]
  simp [serColumn, hi]

/-- … and NaN on the whole span for a selected name that is not in the databox -/
theorem slate_roundtrip_absent (db : Box (Ser V) V) (names : List String) (f : BFreq) (start : Int) (len nvar : Nat)
    (base : List Nat) (sl : Slate V) (out : List (String × Ser V))
    (h : fromDatabox db (some names) f start len nvar [] [] false base = .ok sl) (hout : toDatabox sl false = .ok out)
    (hnd : names.Nodup) (n : String) (hn : n ∈ names) (hl : lookup db n = none) :
    ∃ s, lookup out n = some s ∧ s.rows.length = len ∧
      ∀ v, v < nvar → ∀ i, i < len → (s.rows[i]?.bind (·[v]?)) = some none := by
  obtain ⟨s, h1, _, _, _, h5, h6⟩ := slate_roundtrip_cells db names f start len nvar [] [] false base sl out h hout hnd n hn
  refine ⟨s, h1, h5, ?_⟩
  intro v hv i hi
  obtain ⟨rec, hrec, hcell⟩ := h6 v hv i hi
  rw [record_absent db f start len base v n hl] at hrec
  cases hrec
  rw [hcell]
  simp [hi]

example : (do
      let sl ← fromDatabox [("a", Item.ser (⟨.Q, 8080, 2, [[some 1, some 2], [none, some 3]], ""⟩ : Ser Nat))]
        (some ["a", "zz"]) .Q 8079 4 3 [] [] false []
      let out ← toDatabox sl false
      pure (lookup out "a", lookup out "zz") : R _)
    = .ok (some ⟨.Q, 8079, 3, [[none, none, none], [some 1, some 2, some 2], [none, some 3, some 3], [none, none, none]], ""⟩,
           some ⟨.Q, 8079, 3, [[none, none, none], [none, none, none], [none, none, none], [none, none, none]], ""⟩) := by
  decide

example : recordOf [("a", Item.ser (⟨.Q, 8080, 2, [[some 1, some 2], [none, some 3]], ""⟩ : Ser Nat))] .Q 8079 4 [] [] false [] 5 "a"
    = .ok [none, some 2, some 3, none] := by decide

/-- **Removing periods from the start keeps exactly the base periods that remain**: a base period is dropped iff it is one
of the removed periods; in particular removing precisely the presample periods leaves the base span untouched -/
theorem removeFromStart_basePeriods (sl : Slate V) (n : Nat) :
    (sl.removeFromStart n).basePeriods = sl.basePeriods.filter (fun p => sl.start + (n : Int) ≤ p) := by
  unfold Slate.basePeriods Slate.removeFromStart
  simp only [List.map_map, List.filter_map]
  have hf : sl.baseCols.filter ((fun p => decide (sl.start + (n : Int) ≤ p)) ∘ fun (i : Nat) => sl.start + (i : Int))
      = sl.baseCols.filter (fun i => decide (n ≤ i)) := by
    apply List.filter_congr
    intro i _
    simp only [Function.comp, decide_eq_decide]
    omega
  rw [hf]
  apply List.map_congr_left
  intro i hi
  have : n ≤ i := by simpa using (List.mem_filter.mp hi).2
  simp only [Function.comp]
  omega

theorem removeFromStart_presample (sl : Slate V) (n : Nat) (h : ∀ i ∈ sl.baseCols, n ≤ i) :
    (sl.removeFromStart n).basePeriods = sl.basePeriods := by
  rw [removeFromStart_basePeriods]
  apply List.filter_eq_self.mpr
  intro p hp
  unfold Slate.basePeriods at hp
  obtain ⟨i, hi, rfl⟩ := List.mem_map.mp hp
  have := h i hi
  simp only [decide_eq_true_eq]
  omega

/-- removing periods from the end keeps exactly the base periods that remain -/
theorem removeFromEnd_basePeriods (sl : Slate V) (n : Nat) :
    (sl.removeFromEnd n).basePeriods = sl.basePeriods.filter (fun p => p < sl.start + ((sl.len - n : Nat) : Int)) := by
  unfold Slate.basePeriods Slate.removeFromEnd
  simp only [List.filter_map]
  congr 1
  apply List.filter_congr
  intro i _
  simp only [Function.comp, decide_eq_decide]
  omega

/-- adding periods at the end changes neither the start nor the base periods, and the new cells are NaN -/
theorem addToEnd_basePeriods (sl : Slate V) (n : Nat) :
    (sl.addToEnd n).basePeriods = sl.basePeriods ∧ (sl.addToEnd n).start = sl.start ∧ (sl.addToEnd n).len = sl.len + n :=
  ⟨rfl, rfl, rfl⟩

example : (Slate.removeFromStart
    (Slate.mk ["a"] BFreq.Q 8076 8 [2, 3, 5] [[[some 1, some 2, some 3, some 4, some 5, some 6, some 7, some (8 : Nat)]]] (-2) 1)
    2).basePeriods = [8078, 8079, 8081] := by
  decide


/-- **`to_databox(trim=True)`** is `to_databox(trim=False)` with `Series.trim()` applied to every series -/
theorem slate_output_trimmed (sl : Slate V) :
    toDatabox sl true = (toDatabox sl false).map (fun l => l.map (fun p => (p.1, p.2.trim))) := toDatabox_trim sl

/-- **`to_databox(span="base")`** is the full-span output restricted to the columns from the first to the last base column
(start moved accordingly) -/
theorem slate_output_base (sl : Slate V) (b0 b1 : Nat) (h0 : sl.baseCols.head? = some b0) (h1 : sl.baseCols.getLast? = some b1)
    (hle : b0 ≤ b1) (hlt : b1 < sl.len) :
    toDataboxBase sl false = (toDatabox sl false).map (fun l => l.map (fun p => (p.1, restrictSer b0 b1 p.2))) :=
  toDataboxBase_restrict sl b0 b1 h0 h1 hle hlt

/-- **any sequence of `remove_periods_from_start / _from_end`, `add_periods_to_end`**: the cell of a period is the converted
value as long as no operation of the sequence removed that period, NaN otherwise (induction over the sequence) -/
theorem slate_ops_cells (sl : Slate V) (ops : List SlateOp) (v k : Nat) (hw : sl.hasRecord v k) (t : Int) :
    (applySlateOps sl ops).cellAt v k t = if aliveAfter sl ops t then sl.cellAt v k t else none :=
  cellAt_applySlateOps sl ops v k hw t

/-- … and the base periods after the sequence are the declared base periods that no operation removed -/
theorem slate_ops_basePeriods (sl : Slate V) (ops : List SlateOp) :
    (applySlateOps sl ops).basePeriods = sl.basePeriods.filter (fun p => aliveAfter sl ops p) := by
  induction ops generalizing sl with
  | nil => exact (List.filter_eq_self.mpr (fun _ _ => rfl)).symm
  | cons op rest ih =>
    simp only [applySlateOps, aliveAfter]
    rw [ih (op.apply sl)]
    cases op with
    | removeStart n =>
      simp only [SlateOp.apply, SlateOp.keeps]
      rw [removeFromStart_basePeriods, List.filter_filter]
      apply List.filter_congr; intro p _; simp [Bool.and_comm]
    | removeEnd n =>
      simp only [SlateOp.apply, SlateOp.keeps]
      rw [removeFromEnd_basePeriods, List.filter_filter]
      apply List.filter_congr; intro p _; simp [Bool.and_comm]
    | addEnd n =>
      simp only [SlateOp.apply, SlateOp.keeps, Bool.true_and]
      rfl

example : (applySlateOps (Slate.mk ["a"] BFreq.Q 8076 6 [2, 3] [[[some 1, some 2, some 3, some 4, some 5, some (6 : Nat)]]] (-2) 1)
    [.removeStart 2, .removeEnd 1, .addEnd 2]).cellAt 0 0 8079 = some 4 := by decide


/-- **`to_databox` of any dataslate, cell by cell** (`Slate.cellAt`: the cell at an absolute period, NaN outside) -/
theorem slate_output_cells (sl : Slate V) (out : List (String × Ser V)) (hout : toDatabox sl false = .ok out)
    (hnd : sl.names.Nodup) (n : String) (hn : n ∈ sl.names) :
    ∃ k s, sl.names[k]? = some n ∧ lookup out n = some s ∧ s.freq = sl.freq ∧ s.start = sl.start
      ∧ s.nv = sl.variants.length ∧ s.rows.length = sl.len
      ∧ ∀ v, v < sl.variants.length → ∀ i, i < sl.len →
          (s.rows[i]?.bind (·[v]?)) = some (sl.cellAt v k (sl.start + (i : Int))) :=
  toDatabox_cellAt sl out hout hnd n hn

/-- **any sequence of period operations followed by `to_databox`, in one statement**: output cell (period `i` from the new start,
variant `v`) = the converted value of that absolute period if no operation of the sequence removed it, NaN otherwise -/
theorem slate_ops_then_output (sl : Slate V) (ops : List SlateOp) (out : List (String × Ser V))
    (hout : toDatabox (applySlateOps sl ops) false = .ok out) (hnd : (applySlateOps sl ops).names.Nodup)
    (n : String) (hn : n ∈ (applySlateOps sl ops).names) (hrec : ∀ v k, v < (applySlateOps sl ops).variants.length →
      (applySlateOps sl ops).names[k]? = some n → sl.hasRecord v k) :
    ∃ k s, (applySlateOps sl ops).names[k]? = some n ∧ lookup out n = some s ∧ s.start = (applySlateOps sl ops).start
      ∧ ∀ v, v < (applySlateOps sl ops).variants.length → ∀ i, i < (applySlateOps sl ops).len →
          (s.rows[i]?.bind (·[v]?)) = some (if aliveAfter sl ops ((applySlateOps sl ops).start + (i : Int))
            then sl.cellAt v k ((applySlateOps sl ops).start + (i : Int)) else none) :=
  slate_ops_then_toDatabox sl ops out hout hnd n hn hrec

example : toDatabox (applySlateOps (Slate.mk ["a"] BFreq.Q 8076 6 [2, 3] [[[some 1, some 2, some 3, some 4, some 5, some (6 : Nat)]]] (-2) 1)
    [.removeStart 2, .removeEnd 2, .addEnd 1]) false
      = .ok [("a", ⟨.Q, 8078, 1, [[some 3], [some 4], [none]], ""⟩)] := by decide


/-- **clip first, THEN fallbacks and overwrites**: with `clip_data_to_base_span`, a column outside the base columns carries
exactly the declared overwrite, else the declared fallback, else NaN -- never the input value; a base column carries the
overwrite, else the input value, else (NaN input) the fallback -/
theorem nonbase_columns_carry_declared_fills (fb ow : Option (Option V)) (base : List Nat) (row : List (Option V)) (i : Nat)
    (hi : i < row.length) :
    (applyOverwrite ow (applyFallback fb (clipRow true base row)))[i]?
      = some (match ow with
        | some z => z
        | none =>
          match (if base.contains i then row[i] else none), fb with
          | some y, _ => some y
          | none, some x => x
          | none, none => none) := by
  have hc := clipRow_cell base row i hi
  cases ow with
  | some z => simp [applyOverwrite, applyFallback, hc]; cases fb <;> simp [applyFallback, hc]
  | none =>
    cases fb with
    | none => simp only [applyOverwrite, applyFallback, hc]; cases (if base.contains i then row[i] else none) <;> rfl
    | some x =>
      simp only [applyOverwrite, applyFallback, List.getElem?_map, hc, Option.map_some]
      cases (if base.contains i then row[i] else none) <;> rfl

/-- the order is the model's `recordOf`: the record of a name is overwrite ∘ fallback ∘ clip of the input row -/
theorem record_is_clip_then_fill (db : Box (Ser V) V) (f : BFreq) (start : Int) (len : Nat) (fbT owT : Box (Ser V) V)
    (clip : Bool) (base : List Nat) (v : Nat) (n : String) (row : List (Option V)) (fb ow : Option (Option V))
    (hrow : (match lookup db n with | none => (pure (nanVec len) : R (List (Option V))) | some it => variantRow f start len v it) = .ok row)
    (hfb : fillFor fbT v n = .ok fb) (how : fillFor owT v n = .ok ow) :
    recordOf db f start len fbT owT clip base v n = .ok (applyOverwrite ow (applyFallback fb (clipRow clip base row))) := by
  unfold recordOf
  cases hl : lookup db n with
  | none =>
    simp only [hl, pure, Except.pure, Except.ok.injEq] at hrow
    subst hrow
    simp only [hl, hfb, how, bind, Except.bind, pure, Except.pure]
  | some it =>
    simp only [hl] at hrow
    simp only [hl, hrow, hfb, how, bind, Except.bind, pure, Except.pure]

example : recordOf [("a", Item.ser (⟨.Q, 8080, 1, [[some 1], [none], [some 3], [some 4]], ""⟩ : Ser Nat))] .Q 8080 4
    [("a", .scalar (some 9))] [] true [1, 2] 0 "a" = .ok [some 9, some 9, some 3, some 9] := by decide

example : (Slate.mk ["a"] BFreq.Q 8076 3 [1] [[[some 1, some 2, some (3 : Nat)]]] 0 0).hasRecord 0 0 :=
  ⟨_, _, rfl, rfl, rfl⟩

end Slate

/-! ### Databox operations: the frame condition -/

section Frame
variable {S V : Type}

/-- **Frame condition, one operation.** Whatever a databox operation does, the entries whose names are outside the
operation's selected set (`touched`) are the same, in the same order, before and after. -/
theorem applyOp_frame (o : SOps S) (db db' : Box S V) (op : Op S V) (h : applyOp o db op = .ok db') :
    frame (touched o db op) db' = frame (touched o db op) db := by
  cases op with
  | rename s t b =>
    simp only [applyOp, rename] at h
    simp only [touched]
    apply renamePairs_frame _ _ _ _ _ h
    intro p hp
    exact ⟨List.mem_append_left _ (List.mem_map_of_mem (f := (·.1)) hp),
      List.mem_append_right _ (List.mem_map_of_mem (f := (·.2)) hp)⟩
  | remove s b =>
    cases s with
    | none => simp [applyOp, remove, pure, Except.pure] at h; subst h; rfl
    | some sel =>
      simp only [applyOp, remove] at h
      simp only [touched]
      exact removeNames_frame _ _ (fun n hn => hn) _ _ h
  | keep s b =>
    cases s with
    | none => simp [applyOp, keep, pure, Except.pure] at h; subst h; rfl
    | some sel =>
      simp only [applyOp, keep, pure, Except.pure, Except.ok.injEq] at h
      subst h
      simp only [touched]
      exact keep_frame db _
  | copy s t b => exact copy_frame o db db' s t b h
  | overlay other ns b => exact lay_frame o o.overlay db other db' ns b h
  | underlay other ns b => exact lay_frame o o.underlay db other db' ns b h
  | clip f lo hi =>
    simp only [applyOp, pure, Except.pure, Except.ok.injEq] at h
    subst h
    exact clip_frame o db f lo hi
  | prepend other f stop => exact lay_frame o o.underlay db _ db' none false h
  | merge others st => exact merge_frame o st others db db' h

/-- **Frame condition, any sequence of operations** (induction on the sequence): entries whose names no operation of
the sequence selects -- each selection resolved in the state it runs in -- come out as they went in, in order. -/
theorem applyOps_frame (o : SOps S) (ops : List (Op S V)) (db db' : Box S V) (h : applyOps o db ops = .ok db') :
    frame (touchedSeq o db ops) db' = frame (touchedSeq o db ops) db := by
  induction ops generalizing db with
  | nil => simp [applyOps, pure, Except.pure] at h; subst h; rfl
  | cons op rest ih =>
    unfold applyOps at h
    cases h1 : applyOp o db op with
    | error e => simp [h1, bind, Except.bind] at h
    | ok db1 =>
      simp only [h1, bind, Except.bind] at h
      simp only [touchedSeq, h1]
      rw [frame_mono' _ (ih db1 h), frame_mono _ (applyOp_frame o db db1 op h1)]

/-- the same in terms of look-ups: a name that no operation selects is bound to the same value afterwards -/
theorem applyOps_lookup (o : SOps S) (ops : List (Op S V)) (db db' : Box S V) (h : applyOps o db ops = .ok db')
    (n : String) (hn : n ∉ touchedSeq o db ops) : lookup db' n = lookup db n := by
  rw [← lookup_frame hn db', ← lookup_frame hn db, applyOps_frame o ops db db' h]

/-- the hypotheses are met by a non-trivial sequence: two operations succeed, `a`/`z` are touched, `b` and `c` are the frame -/
example : applyOps (V := Nat) ⟨fun _ => BFreq.Q, fun a b => a + b, fun a b => a * b, fun a _ _ => a, fun a b => a + b⟩
    [("a", .ser 1), ("b", .ser 2), ("c", .scalar (some 3))]
    [.rename (.names ["a"]) (.names ["z"]) false, .overlay [("z", .ser 10), ("c", .ser 5)] none false]
      = .ok [("b", .ser 2), ("c", .scalar (some 3)), ("z", .ser 11)] := by decide


/-! ### Databox operations: what the selected names become -/

/-- **overlay**: a name the call applies to (a series in both databoxes, of the same known frequency) is bound to
`Series.overlay` of the two series; every other binding is as before (`lay_lookup`, `applyOp_frame`) -/
theorem overlay_applied (o : SOps S) (db other db' : Box S V) (names : Option (List String)) (strict : Bool)
    (h : overlay o db other names strict = .ok db') (n : String) (hn : n ∈ layNames db other names strict)
    (ha : layAct o db other n = .apply) :
    ∃ s t, lookup db n = some (.ser s) ∧ lookup other n = some (.ser t) ∧ lookup db' n = some (.ser (o.overlay s t)) :=
  lay_applied o o.overlay db other db' names strict h n hn ha

theorem underlay_applied (o : SOps S) (db other db' : Box S V) (names : Option (List String)) (strict : Bool)
    (h : underlay o db other names strict = .ok db') (n : String) (hn : n ∈ layNames db other names strict)
    (ha : layAct o db other n = .apply) :
    ∃ s t, lookup db n = some (.ser s) ∧ lookup other n = some (.ser t) ∧ lookup db' n = some (.ser (o.underlay s t)) :=
  lay_applied o o.underlay db other db' names strict h n hn ha

/-- **prepend**: the series is underlaid with the other databox's series clipped at the given end -/
theorem prepend_applied (o : SOps S) (db other db' : Box S V) (f : BFreq) (stop : Int)
    (h : prepend o db other f stop = .ok db') (n : String)
    (hn : n ∈ layNames db (clip o other f none (some stop)) none false)
    (ha : layAct o db (clip o other f none (some stop)) n = .apply) :
    ∃ s t, lookup db n = some (.ser s)
      ∧ (lookup other n).map (clipItem o f none (some stop)) = some (.ser t)
      ∧ lookup db' n = some (.ser (o.underlay s t)) := by
  obtain ⟨s, t, h1, h2, h3⟩ := lay_applied o o.underlay db _ db' none false h n hn ha
  rw [clip_lookup o other f none (some stop) (Or.inr (by simp)) n] at h2
  exact ⟨s, t, h1, h2, h3⟩

/-- **every name after overlay / underlay / prepend**, selected or not -/
theorem lay_every_name (o : SOps S) (f : S → S → S) (db other db' : Box S V) (names : Option (List String)) (strict : Bool)
    (h : lay o f db other names strict = .ok db') (n : String) :
    lookup db' n = (lookup db n).map (layItem o f db other (layNames db other names strict) n) :=
  lay_lookup o f db other db' names strict h n

/-- **clip**: every series of the frequency of the given period(s) is `Series.clip`ped, every other item is as it was -/
theorem clip_every_name (o : SOps S) (db : Box S V) (f : BFreq) (lo hi : Option Int) (hne : lo ≠ none ∨ hi ≠ none) (n : String) :
    lookup (clip o db f lo hi) n = (lookup db n).map (clipItem o f lo hi) :=
  clip_lookup o db f lo hi hne n

/-- **keep**: the selected names keep their bindings, every other name is gone (order: `applyOp_frame`) -/
theorem keep_every_name (db : Box S V) (sel : Sel) (strict : Bool) (n : String) :
    lookup (keep db (some sel) strict) n
      = if (resolveSources (keys db) sel strict).contains n then lookup db n else none :=
  keep_lookup db sel strict n

/-- **remove**: distinct existing names are deleted and nothing else happens (a missing or repeated name is the KeyError
branch of the model) -/
theorem remove_selected (db : Box S V) (sel : Sel) (strict : Bool)
    (hnd : (resolveSources (keys db) sel strict).Nodup) (hin : ∀ n ∈ resolveSources (keys db) sel strict, n ∈ keys db) :
    remove db (some sel) strict = .ok (db.filter (fun p => !(resolveSources (keys db) sel strict).contains p.1)) :=
  removeNames_eq db _ hnd hin

/-- **rename**: distinct existing sources to distinct fresh targets -- the sources disappear, each target is bound to the value
of its source (appended in the order of the pairs), every other entry stays where it is.  (Targets that are existing names or
sources: `rename_no_value_lost`.) -/
theorem rename_fresh (db : Box S V) (src : Sel) (tgt : Tgt) (strict : Bool)
    (hs : ((resolvePairs (keys db) src tgt strict).map (·.1)).Nodup)
    (hin : ∀ p ∈ resolvePairs (keys db) src tgt strict, p.1 ∈ keys db)
    (ht : ((resolvePairs (keys db) src tgt strict).map (·.2)).Nodup)
    (hfresh : ∀ p ∈ resolvePairs (keys db) src tgt strict, p.2 ∉ keys db) :
    rename db src tgt strict = .ok (db.filter (fun q => !((resolvePairs (keys db) src tgt strict).map (·.1)).contains q.1)
      ++ (resolvePairs (keys db) src tgt strict).filterMap (fun st => (lookup db st.1).map (fun v => (st.2, v)))) :=
  renamePairs_fresh db _ hs hin ht hfresh


/-- **when overlay / underlay / prepend apply**: exactly when both items are series, the own series has a known frequency and the
two frequencies are equal -- for every frequency alike (yearly … daily, integer) -/
theorem lay_applies_iff (o : SOps S) (db other : Box S V) (n : String) :
    layAct o db other n = .apply ↔
      ∃ s t, lookup db n = some (.ser s) ∧ lookup other n = some (.ser t) ∧ o.freq s ≠ .U ∧ o.freq s = o.freq t :=
  layAct_apply_iff o db other n

example : layAct (V := Nat) ⟨fun (_ : Nat) => BFreq.I, (· + ·), (· + ·), fun a _ _ => a, (· + ·)⟩ [("x", .ser 1)] [("x", .ser 2)] "x"
    = .apply := by decide

/-- **no value is lost by `rename`** (swaps, chains, cycles, identities, targets onto existing names): all sources are popped
first, then the targets are assigned in pair order -- so for distinct existing sources and distinct targets every target is
bound, after the call, to the value its source had before it (a target that is also a source gets the value its partner HAD),
every source that is not a target is gone, every other name is bound as before.  In particular the values bound to the
targets after the call are exactly the values bound to the sources before it, in pair order. -/
theorem rename_no_value_lost (db : Box S V) (src : Sel) (tgt : Tgt) (strict : Bool)
    (hs : ((resolvePairs (keys db) src tgt strict).map (·.1)).Nodup)
    (hin : ∀ p ∈ resolvePairs (keys db) src tgt strict, p.1 ∈ keys db)
    (ht : ((resolvePairs (keys db) src tgt strict).map (·.2)).Nodup) :
    ∃ r, rename db src tgt strict = .ok r
      ∧ (∀ p ∈ resolvePairs (keys db) src tgt strict, lookup r p.2 = lookup db p.1)
      ∧ ((resolvePairs (keys db) src tgt strict).map (fun p => lookup r p.2)
          = (resolvePairs (keys db) src tgt strict).map (fun p => lookup db p.1))
      ∧ (∀ n, n ∉ (resolvePairs (keys db) src tgt strict).map (·.2) →
          lookup r n = if n ∈ (resolvePairs (keys db) src tgt strict).map (·.1) then none else lookup db n) := by
  obtain ⟨r, h1, h2, h3⟩ := renamePairs_simultaneous db _ hs hin ht
  exact ⟨r, h1, h2, List.map_congr_left h2, h3⟩

/-- a swap, a chain, a cycle of three, an identity, a target onto an existing name: nothing is lost -/
example : rename (S := Nat) (V := Nat) [("a", .ser 1), ("b", .ser 2), ("c", .ser 3), ("d", .ser 4)] (.names ["a", "b"]) (.names ["b", "a"]) false
    = .ok [("c", .ser 3), ("d", .ser 4), ("b", .ser 1), ("a", .ser 2)] := by decide
example : rename (S := Nat) (V := Nat) [("a", .ser 1), ("b", .ser 2), ("c", .ser 3), ("d", .ser 4)] (.names ["a", "b"]) (.names ["b", "z"]) false
    = .ok [("c", .ser 3), ("d", .ser 4), ("b", .ser 1), ("z", .ser 2)] := by decide
example : rename (S := Nat) (V := Nat) [("a", .ser 1), ("b", .ser 2), ("c", .ser 3), ("d", .ser 4)] (.names ["a", "b", "c"]) (.names ["b", "c", "a"]) false
    = .ok [("d", .ser 4), ("b", .ser 1), ("c", .ser 2), ("a", .ser 3)] := by decide
example : rename (S := Nat) (V := Nat) [("a", .ser 1), ("b", .ser 2), ("c", .ser 3), ("d", .ser 4)] (.names ["b", "a"]) (.names ["b", "d"]) false
    = .ok [("c", .ser 3), ("d", .ser 1), ("b", .ser 2)] := by decide

/-- **rename of one name onto an existing name that is not a source**: the source disappears, the target keeps its place in the
dictionary and is re-bound to the source's value (the target's own old value is replaced -- it was not asked to move), every
other binding is unchanged -/
theorem rename_onto_existing_name (db : Box S V) (s t : String) (v : Item S V) (hs : lookup db s = some v) (hst : s ≠ t) :
    renamePairs db [(s, t)] = .ok (setKey (delKey db s) t v)
      ∧ lookup (setKey (delKey db s) t v) t = some v
      ∧ lookup (setKey (delKey db s) t v) s = none
      ∧ ∀ n, n ≠ s → n ≠ t → lookup (setKey (delKey db s) t v) n = lookup db n :=
  rename_onto_existing db s t v hs hst

/-- **merge as a dictionary equation** (one incoming databox): every name is bound to `mergeSpec` of its old and its incoming
binding -- a new name takes the incoming value, an existing name the strategy's result (stack: `hstack` of two series or the
concatenated lists; replace: the incoming value; discard / reporting strategies: the old value), other names stay -/
theorem merge_every_name (o : SOps S) (st : Strategy) (t : Box S V) (ht : (keys t).Nodup) (db r : Box S V) (dup : Bool)
    (h : mergeOne o st db t = .ok (r, dup)) (k : String) :
    lookup r k = mergeSpec o st (lookup db k) (lookup t k) :=
  mergeOne_lookup o st t ht db r dup h k

example : merge (V := Nat) ⟨fun (_ : Nat) => BFreq.I, (· + ·), (· + ·), fun a _ _ => a, (· * ·)⟩ .stack
    [("a", .ser 2), ("k", .scalar (some 1))] [[("a", .ser 5), ("k", .list [none, some 7]), ("z", .ser 9)]]
      = .ok [("a", .ser 10), ("k", .list [some 1, none, some 7]), ("z", .ser 9)] := by decide



/-! ### Name resolution shared by rename / copy (pairs) and keep / remove (sources) -/

/-- **`_resolve_source_target_names`, non-strict**: sources and targets are zipped FIRST and the pairs whose source is missing
are dropped as pairs -- a surviving source keeps the target it was aligned with (never: filter the sources, then truncate the
targets) -/
theorem resolvePairs_filters_pairs (ctx src tgt : List String) :
    resolvePairs ctx (.names src) (.names tgt) false = (src.zip tgt).filter (fun p => ctx.contains p.1)
      ∧ ∀ p, p ∈ resolvePairs ctx (.names src) (.names tgt) false ↔ p ∈ src.zip tgt ∧ p.1 ∈ ctx := by
  refine ⟨rfl, ?_⟩
  intro p
  simp [resolvePairs, Sel.resolve, Tgt.resolve, List.mem_filter]

/-- `copy` resolves its names by the same rule as `rename`; `keep` / `remove` use the sources of the same rule -/
theorem copy_uses_the_same_pairs (ctx : List String) (src : Sel) (tgt : Tgt) :
    copyLists ctx (some src) (some tgt) false
      = ((resolvePairs ctx src tgt false).map (·.1), (resolvePairs ctx src tgt false).map (·.2))
    ∧ resolveSources ctx src false = (resolvePairs ctx src .same false).map (·.1) := by
  constructor
  · simp [copyLists, resolvePairs]
  · simp only [resolveSources, resolvePairs, Tgt.resolve, Bool.false_eq_true, if_false]
    induction src.resolve ctx with
    | nil => rfl
    | cons a l ih =>
      simp only [List.zip_cons_cons, List.filter_cons]
      by_cases h : ctx.contains a = true
      · simp only [h, if_true, List.map_cons, ih]
      · simp only [h, Bool.false_eq_true, if_false, ih]

/-- the missing source in the middle does not shift the targets -/
example : resolvePairs ["a", "b", "c"] (.names ["a", "zz", "c"]) (.names ["x", "y", "w"]) false = [("a", "x"), ("c", "w")] := by
  decide

/-- **rejections**: a source that is not in the databox (only possible with `strict_names`) makes `rename` raise, a missing
name makes `remove` raise -- as the code's `KeyError` -/
theorem rename_missing_source_rejected (db : Box S V) (src : Sel) (tgt : Tgt) (strict : Bool)
    (h : ∃ p ∈ resolvePairs (keys db) src tgt strict, p.1 ∉ keys db) : rename db src tgt strict = .error .badInput := by
  obtain ⟨p, hp, hk⟩ := h
  unfold rename renamePairs
  rw [popAll_missing db _ ⟨p.1, List.mem_map_of_mem (f := (·.1)) hp, hk⟩]
  rfl

theorem remove_missing_name_rejected (db : Box S V) (sel : Sel) (strict : Bool)
    (h : ∃ n ∈ resolveSources (keys db) sel strict, n ∉ keys db) : remove db (some sel) strict = .error .badInput :=
  removeNames_missing db _ h

example : rename (S := Nat) (V := Nat) [("a", .ser 1)] (.names ["a", "zz"]) (.names ["x", "y"]) true = .error .badInput := by decide
example : remove (S := Nat) (V := Nat) [("a", .ser 1)] (some (.names ["zz"])) true = .error .badInput := by decide

/-- **copy with renaming as a dictionary equation** (non-strict): the copy holds exactly the targets, each bound to the value its
source has in the original (swaps and chains included); sources are automatically existing names -/
theorem copy_with_renaming (db : Box S V) (src : Sel) (tgt : Tgt)
    (hs : ((resolvePairs (keys db) src tgt false).map (·.1)).Nodup)
    (ht : ((resolvePairs (keys db) src tgt false).map (·.2)).Nodup) :
    ∃ r, copy db (some src) (some tgt) false = .ok r
      ∧ (∀ p ∈ resolvePairs (keys db) src tgt false, lookup r p.2 = lookup db p.1)
      ∧ (∀ n, n ∉ (resolvePairs (keys db) src tgt false).map (·.2) → lookup r n = none) :=
  copy_renaming db src tgt hs ht

example : copy (S := Nat) (V := Nat) [("a", .ser 1), ("b", .ser 2), ("c", .ser 3)] (some (.names ["a", "b", "zz"])) (some (.names ["b", "q", "r"])) false
    = .ok [("b", .ser 1), ("q", .ser 2)] := by decide

/-! non-vacuity of the positive halves on concrete databoxes -/
example : overlay (V := Nat) ⟨fun (_ : Nat) => BFreq.I, (· + ·), (· * ·), fun a _ _ => a, (· + ·)⟩
    [("x", .ser 1), ("k", .scalar none), ("y", .ser 2)] [("x", .ser 10), ("k", .ser 5)] none false
      = .ok [("x", .ser 11), ("k", .scalar none), ("y", .ser 2)] := by decide
example : clip (V := Nat) ⟨fun (s : Nat) => if s < 5 then BFreq.Q else BFreq.M, (· + ·), (· * ·), fun a _ _ => a + 100, (· + ·)⟩
    [("x", .ser 1), ("y", .ser 7)] .Q (some 3) none = [("x", .ser 101), ("y", .ser 7)] := by decide
example : keep (S := Nat) (V := Nat) [("a", .ser 1), ("b", .ser 2), ("c", .ser 3)] (some (.pred (fun n => n != "b"))) false
    = [("a", .ser 1), ("c", .ser 3)] := by decide
example : remove (S := Nat) (V := Nat) [("a", .ser 1), ("b", .ser 2), ("c", .ser 3)] (some (.names ["c", "a", "zz"])) false
    = .ok [("b", .ser 2)] := by decide

/-- **rejection**: overlay / underlay / prepend raise as soon as one name of their list is missing (strict) or not a series
where a series is needed -/
theorem lay_rejected (o : SOps S) (f : S → S → S) (db other : Box S V) (names : Option (List String)) (strict : Bool)
    (h : ∃ n ∈ layNames db other names strict, layAct o db other n = .raise) :
    lay o f db other names strict = .error .badInput := by
  obtain ⟨n, hn, ha⟩ := h
  unfold lay
  have : (layNames db other names strict).any (fun n => decide (layAct o db other n = .raise)) = true :=
    List.any_eq_true.mpr ⟨n, hn, by simp [ha]⟩
  simp only [this, if_true]
  rfl

example : overlay (V := Nat) ⟨fun (_ : Nat) => BFreq.Q, (· + ·), (· * ·), fun a _ _ => a, (· + ·)⟩
    [("x", .ser 1), ("k", .scalar none)] [("x", .ser 10), ("k", .ser 5)] (some ["x", "k"]) false = .error .badInput := by decide

/-! ### Spellings of one call -/

/-- **option resolution of `merge`, exhaustively**: the deprecated `action=` keyword, when given, decides; otherwise the explicit
strategy (positional or `merge_strategy=`); otherwise `"stack"` -/
theorem merge_strategy_resolution (explicit legacy : Option Strategy) :
    resolveStrategy explicit legacy
      = match explicit, legacy with
        | _, some a => a
        | some e, none => e
        | none, none => .stack := by
  cases explicit <;> cases legacy <;> rfl

/-- every spelling of one intention is the same call: `merge(o, s)`, `merge(o, merge_strategy=s)`, `merge(o, action=s)` -/
theorem merge_spellings_agree (o : SOps S) (st : Strategy) (db : Box S V) (others : List (Box S V)) :
    mergeCall o (some st) none db others = merge o st db others
      ∧ mergeCall o none (some st) db others = merge o st db others
      ∧ mergeCall o none none db others = merge o .stack db others := ⟨rfl, rfl, rfl⟩

/-- `Databox.by_merging(boxes, s)` is `merge` into an empty databox -/
theorem by_merging_is_merge (o : SOps S) (st : Strategy) (boxes : List (Box S V)) :
    byMerging o (some st) boxes = merge o st [] boxes := rfl

/-- **legacy options of the reader** (`date_creator`, `start_date_only`): the new option wins when it is given, the legacy one
is used only when the new one is `None` -/
theorem legacy_option_resolution {α : Type} (option legacy : Option α) :
    resolveLegacy option legacy = match option, legacy with
      | some x, _ => some x
      | none, l => l := by
  cases option <;> cases legacy <;> rfl

example : mergeCall (V := Nat) ⟨fun (_ : Nat) => BFreq.Q, (· + ·), (· + ·), fun a _ _ => a, (· * ·)⟩ none (some .replace)
    [("a", .ser 2), ("k", .scalar (some 1))] [[("a", .ser 5), ("z", .ser 9)]]
      = .ok [("a", .ser 5), ("k", .scalar (some 1)), ("z", .ser 9)] := by decide

/-- **lifting to sequences**: in any sequence of operations, a name is finally bound to what the last operation that selects it
made of it -- if the operations after `op` do not select `n`, the final binding of `n` is its binding right after `op` (which
the theorems above give per kind of operation) -/
theorem applyOps_value_after_last_touch (o : SOps S) (pre post : List (Op S V)) (op : Op S V) (db d1 d2 d3 : Box S V)
    (h1 : applyOps o db pre = .ok d1) (h2 : applyOp o d1 op = .ok d2) (h3 : applyOps o d2 post = .ok d3)
    (n : String) (hn : n ∉ touchedSeq o d2 post) :
    applyOps o db (pre ++ op :: post) = .ok d3 ∧ lookup d3 n = lookup d2 n := by
  constructor
  · rw [applyOps_append, h1]
    simp only [bind, Except.bind, applyOps, h2, h3]
  · exact applyOps_lookup o post d2 d3 h3 n hn

example : rename (S := Nat) (V := Nat) [("a", .ser 1), ("b", .ser 2), ("c", .scalar (some 3))]
    (.names ["a", "zz", "c"]) (.func (fun n => n ++ "_1")) false
      = .ok [("b", .ser 2), ("a_1", .ser 1), ("c_1", .scalar (some 3))] := by decide

end Frame

end IrisVerif.C19
