/-
Portable codec (format 0.3.0) of `Simultaneous` models, as structured data (C20).  No Mathlib.

Modelled (irispie `quantities.py`, `equations.py`, `simultaneous/_flags.py`, `contexts.py`,
`simultaneous/_variants.py: to_portable`, `simultaneous/main.py: to_portable / from_portable`), as the code is
INTENDED to work (pending fixes C20-portable-attributes / -flags / -anticipated):

* `_TO_PORTABLES` / `_FROM_PORTABLES` kind codes; std quantities have no code and are not exported (they are re-created
  by `from_source`);
* the export order: by kind in the order of the code table, within a kind by position;
* attributes: `None` and the empty set are both exported as no tokens; the tokens are the sorted attribute strings
  (the textual join/split by one blank is left to the correspondence run);
* equations: the steady version is exported as `None` when it equals the dynamic one and restored on import;
* flags: three booleans carried verbatim;
* context: the keys except `__builtins__`;
* variant values: a `name -> (level, change)` dictionary per variant, looked up by name on import.
-/
import IrisVerif.Model.Heap

namespace IrisVerif.Portable
open IrisVerif.Heap

def kindCode : QKind → Option String
  | .transVar => some "#x" | .measVar => some "#y" | .transShock => some "#u" | .antShock => some "#v"
  | .measShock => some "#w" | .param => some "#p" | .exog => some "#z" | .transStd => none | .measStd => none

def kindOfCode : String → Option QKind
  | "#x" => some .transVar | "#y" => some .measVar | "#u" => some .transShock | "#v" => some .antShock
  | "#w" => some .measShock | "#p" => some .param | "#z" => some .exog | _ => none

/-- the order of `_TO_PORTABLES.keys()` -/
def exportOrder : List QKind := [.transVar, .measVar, .transShock, .antShock, .measShock, .param, .exog]

structure PQuantity where
  code : String
  name : String
  logly : Option Bool
  desc : String
  attrs : List String
  deriving DecidableEq, Repr

def encodeQ (q : Quantity) : Option PQuantity :=
  (kindCode q.kind).map (fun c => ⟨c, q.name, q.logly, q.desc, q.attrs.getD []⟩)

def decodeQ (p : PQuantity) : Option Quantity :=
  (kindOfCode p.code).map (fun k => { name := p.name, kind := k, logly := p.logly, desc := p.desc, attrs := some p.attrs })

/-- `quantities.to_portable`: one pass per kind code -/
def encodeQs (qs : List Quantity) : List PQuantity :=
  exportOrder.flatMap (fun k => (qs.filter (fun q => q.kind = k)).filterMap encodeQ)

def ekindCode : EKind → String
  | .transition => "#T" | .measurement => "#M" | .autovalue => "#A"

def ekindOfCode : String → Option EKind
  | "#T" => some .transition | "#M" => some .measurement | "#A" => some .autovalue | _ => none

structure PEquation where
  code : String
  dynamic : String
  steady : Option String
  desc : String
  attrs : List String
  deriving DecidableEq, Repr

def encodeE (e : Equation) : PEquation :=
  ⟨ekindCode e.kind, e.dynamic, if e.steady ≠ e.dynamic then some e.steady else none, e.desc, e.attrs.getD []⟩

def decodeE (p : PEquation) : Option Equation :=
  (ekindOfCode p.code).map (fun k =>
    { kind := k, dynamic := p.dynamic, steady := p.steady.getD p.dynamic, desc := p.desc, attrs := some p.attrs })

def eexportOrder : List EKind := [.transition, .measurement, .autovalue]

def encodeEs (es : List Equation) : List PEquation :=
  eexportOrder.flatMap (fun k => (es.filter (fun e => e.kind = k)).map encodeE)

def encodeContext (keys : List String) : List String := keys.filter (· ≠ "__builtins__")

/-- `Variant.to_portable`: `{name: (level, change)}` over ALL quantities (std names included) -/
def encodeVariant (names : List String) (lv cv : List Val) : List (String × Val × Val) :=
  names.zip (lv.zip cv)

def lookupName (d : List (String × Val × Val)) (n : String) : Option (Val × Val) :=
  match d with
  | [] => none
  | (k, v) :: rest => if k = n then some v else lookupName rest n

/-- import of one variant: the values of the names the new model has, looked up in the dictionary -/
def decodeVariant (names : List String) (d : List (String × Val × Val)) : List (Option (Val × Val)) :=
  names.map (lookupName d)


/-! ### the whole model record -/

/-- stable sort by kind = one pass per kind in kind order (`reorder_by_kind`, and the export loops) -/
def groupQ (order : List QKind) (qs : List Quantity) : List Quantity :=
  order.flatMap (fun k => qs.filter (fun q => q.kind = k))

def groupE (es : List Equation) : List Equation :=
  eexportOrder.flatMap (fun k => es.filter (fun e => e.kind = k))

/-- the order of `QuantityKind` values (what `reorder_by_kind` sorts by) -/
def fullOrder : List QKind :=
  [.transVar, .measVar, .transShock, .antShock, .measShock, .param, .exog, .transStd, .measStd]

def decodeQs : List PQuantity → Option (List Quantity)
  | [] => some []
  | p :: ps =>
    match decodeQ p, decodeQs ps with
    | some q, some qs => some (q :: qs)
    | _, _ => none

def decodeEs : List PEquation → Option (List Equation)
  | [] => some []
  | p :: ps =>
    match decodeE p, decodeEs ps with
    | some e, some es => some (e :: es)
    | _, _ => none

def descOr (q : Quantity) : String := if q.desc = "" then q.name else q.desc

/-- `_create_std_for_shock` -/
def stdOf (k : QKind) (q : Quantity) : Quantity :=
  { name := "std_" ++ q.name, kind := k, logly := none, desc := "(Std) " ++ descOr q, attrs := none }

/-- `_create_anticipated_shock_for_transition_shock` -/
def antOf (q : Quantity) : Quantity :=
  { name := "ant_" ++ q.name, kind := .antShock, logly := none, desc := "(Anticipated value) " ++ descOr q, attrs := none }

/-- the std quantities `from_source` creates (none for a deterministic model) -/
def stdsOf (fl : Flags) (qs : List Quantity) : List Quantity :=
  if fl.deterministic then []
  else (qs.filter (fun q => q.kind = .transShock)).map (stdOf .transStd) ++
       (qs.filter (fun q => q.kind = .measShock)).map (stdOf .measStd)

/-- transition shocks that still lack their anticipated counterpart (none in an exported model) -/
def missingAnt (qs : List Quantity) : List Quantity :=
  (qs.filter (fun q => q.kind = .transShock)).filter (fun q => !(qs.any (fun r => r.name == "ant_" ++ q.name)))

structure PModel where
  format : String
  desc : String
  flags : Flags
  quantities : List PQuantity
  equations : List PEquation
  context : List String
  variants : List (List (String × Val × Val))
  deriving Repr

inductive PErr | format | badCode | duplicateNames | counts | noVariants | unknownName
  deriving DecidableEq, Repr

/-- `Simultaneous.to_portable` -/
def toPortable (d : InvData) (vars : List (List Val × List Val)) : PModel :=
  { format := "0.3.0", desc := d.desc, flags := d.flags, quantities := encodeQs d.quantities,
    equations := encodeEs d.equations, context := encodeContext d.contextKeys,
    variants := vars.map (fun v => encodeVariant (d.quantities.map (·.name)) v.1 v.2) }

def countQ (qs : List Quantity) (k : QKind) : Nat := (qs.filter (fun q => q.kind = k)).length
def countE (es : List Equation) (k : EKind) : Nat := (es.filter (fun e => e.kind = k)).length

/-- the level of a quantity after the import of a variant: the dictionary's when the name is there, else the initial one -/
def pickFst (i : Val) (p : Option (Val × Val)) : Val :=
  match p with
  | some v => v.1
  | none => i

def pickSnd (i : Val) (p : Option (Val × Val)) : Val :=
  match p with
  | some v => v.2
  | none => i

/-- the values of one imported variant: initial values overwritten by the dictionary, then the assignment rules -/
def importVariant (d : InvData) (dict : List (String × Val × Val)) : List Val × List Val :=
  let pairs := decodeVariant (d.quantities.map (·.name)) dict
  (enforceLevels d.quantities (List.zipWith pickFst (initLevels d) pairs),
   enforceChanges d.quantities (List.zipWith pickSnd (initChanges d) pairs))

/-- the quantities `from_source` ends up with before sorting: the decoded ones, the anticipated shocks still missing,
the std parameters -/
def sourceQuantities (fl : Flags) (qs : List Quantity) : List Quantity :=
  (qs ++ (missingAnt qs).map antOf) ++ stdsOf fl (qs ++ (missingAnt qs).map antOf)

/-- `subst` is the regex substitution `shock -> (shock+ant_shock)` in the dynamic equations; it is applied only when some
shock lacks its anticipated counterpart (never for an exported model) -/
def sourceEquations (subst : List Quantity → Equation → Equation) (qs : List Quantity) (es : List Equation) : List Equation :=
  if (missingAnt qs).isEmpty then es else es.map (subst (missingAnt qs))

def mkInv (p : PModel) (tol : Rat) (qs2 : List Quantity) (es1 : List Equation) : InvData :=
  { desc := p.desc, flags := p.flags, quantities := groupQ fullOrder qs2, equations := groupE es1,
    contextKeys := p.context, tolEig := tol, tolEq := tol, defaultStd := if p.flags.linear then 1 else 1 / 100 }

/-- `assign_strict`: every key of the dictionary is a name of the model -/
def namesKnown (d : InvData) (dict : List (String × Val × Val)) : Bool :=
  dict.all (fun e => (d.quantities.map (·.name)).contains e.1)

/-- `Simultaneous.from_portable` (with the three fixes of the first round), parametrised by how one variant's dictionary is
imported (`importVariant` for the in-memory portable, `C20State.importVariantJson` after a JSON transport) -/
def fromPortableG (imp : InvData → List (String × Val × Val) → List Val × List Val)
    (subst : List Quantity → Equation → Equation) (tol : Rat) (p : PModel) :
    Except PErr (InvData × List (List Val × List Val)) :=
  if p.format ≠ "0.3.0" then .error .format else
  match decodeQs p.quantities, decodeEs p.equations with
  | some qs, some es =>
    if ¬ ((sourceQuantities p.flags qs).map (·.name)).Nodup then .error .duplicateNames
    else if countQ (sourceQuantities p.flags qs) .transVar ≠ countE (sourceEquations subst qs es) .transition
        ∨ countQ (sourceQuantities p.flags qs) .measVar ≠ countE (sourceEquations subst qs es) .measurement then .error .counts
    else if p.variants.isEmpty then .error .noVariants
    else if ¬ p.variants.all (namesKnown (mkInv p tol (sourceQuantities p.flags qs) (sourceEquations subst qs es))) then
      .error .unknownName
    else .ok (mkInv p tol (sourceQuantities p.flags qs) (sourceEquations subst qs es),
              p.variants.map (imp (mkInv p tol (sourceQuantities p.flags qs) (sourceEquations subst qs es))))
  | _, _ => .error .badCode

def fromPortable (subst : List Quantity → Equation → Equation) (tol : Rat) (p : PModel) :
    Except PErr (InvData × List (List Val × List Val)) :=
  fromPortableG importVariant subst tol p

/-- executable form of the well-formedness the whole-record round-trip theorem needs (`PortableWF` in `Props/C20.lean`,
with `base` = the non-std quantities); the driver evaluates it on every generated model -/
def portableWFb (d : InvData) (vars : List (List Val × List Val)) : Bool :=
  let base := d.quantities.filter (fun q => !q.kind.isStd)
  decide (d.quantities = base ++ stdsOf d.flags base)
  && decide (groupQ exportOrder base = base)
  && decide (missingAnt base = [])
  && decide ((d.quantities.map (·.name)).Nodup)
  && decide (countQ d.quantities .transVar = countE d.equations .transition)
  && decide (countQ d.quantities .measVar = countE d.equations .measurement)
  && decide (groupE d.equations = d.equations)
  && decide ("__builtins__" ∉ d.contextKeys)
  && !vars.isEmpty
  && vars.all (fun v => decide (v.1.length = d.quantities.length) && decide (v.2.length = d.quantities.length)
      && decide (enforceLevels d.quantities v.1 = v.1) && decide (enforceChanges d.quantities v.2 = v.2))

end IrisVerif.Portable
