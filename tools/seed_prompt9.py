import json, sys
props={json.loads(l)['id']:json.loads(l) for l in open('/verif/properties.jsonl')}
pid=sys.argv[1]
p=props[pid]
print(f"""You are a careful software engineer doing mutation seeding for a robustness study of the Python package **irispie** (a macroeconomic modelling library). You have your own scratch git worktree of the package at `/tmp/seed9-{pid}` (source under `/tmp/seed9-{pid}/src/irispie`, tests under `/tmp/seed9-{pid}/tests`). Work ONLY inside `/tmp/seed9-{pid}` and write your results to `/tmp/seed-out9/{pid}/`. Do NOT read, list or modify anything under `/verif` or `/repo` (they are off limits for this task), and do not use the network (there is none). Never use `git stash` (the stash is shared between worktrees).

Run Python as `PYTHONPATH=/tmp/seed9-{pid}/src /venv/bin/python ...` so that your worktree's source is what gets imported (check once with `-c "import irispie; print(irispie.__file__)"`; ignore the 'Developer Edition' warning).

## The property

**{p['title']}**

{p['statement']}

Quantifier: {p['quantifier']['text']}

Code involved (relative to the worktree): {', '.join(p['anchors']['files'])}

## Your task

Produce **1 realistic change** (a bug a real maintainer could plausibly introduce in a refactoring or an "optimisation") to the source under `/tmp/seed9-{pid}/src/irispie` which **breaks the property above** while the package still imports and the existing test suite still passes. The change must need *something specific* to manifest — a particular input class, an unusual option, a boundary, a multi-step sequence of operations, or two cooperating sites that each look fine alone — NOT something that ordinary use or the existing tests would expose at once. Prefer a semantic slip over a crash. Assume that earlier reviewers have already tried: caches keyed too coarsely, missing copies and aliasing, variant-0-for-all-variants slips, dropped or mis-forwarded keyword arguments, alias spellings, off-by-one at the first or last period, wrong table rows, swapped merge directions, in-place mutation of caller objects, state leaking between calls, degenerate shapes (one variable / one period / no shocks); look for something else, preferably in a clause of the property statement that you judge LEAST likely to be exercised by an automated checker, or an interaction of two features each fine alone. You have about 12 minutes in total, so pick quickly and keep it simple. Keep each patch small (1-15 changed lines).

For the change (k = 1):
1. Start from a clean worktree (`git -C /tmp/seed9-{pid} checkout -- .`), make the change.
2. Check the existing tests still pass with it: `cd /tmp/seed9-{pid} && PYTHONPATH=/tmp/seed9-{pid}/src /venv/bin/python -m pytest -q -p no:cacheprovider --timeout=900 --continue-on-collection-errors 2>&1 | tail -3` — the clean worktree gives `6 failed, 254 passed, 5 errors` (those 11 fail for environment reasons; delete the stray `tmp*.spc` files the x13 tests leave in the worktree); with your change the same 254 must still pass.
3. Write a demonstration `demo.py`: a small self-contained script using only the public behaviour of irispie that **exits with status 1 (assertion failure / sys.exit(1)) when run with your change and exits 0 on the clean worktree**. It should check the property itself (not an internal detail), and print what it observed. Verify both outcomes yourself.
4. Save into `/tmp/seed-out9/{pid}/<k>/`: `patch.diff` (output of `git -C /tmp/seed9-{pid} diff`), `demo.py`, and `meta.json` with keys `property` ("{pid}"), `what` (one paragraph: what the change does), `needs` (what specific input/sequence/option is needed for it to manifest), `ran` (the commands you ran and their outcome: tests with change, demo with change, demo without change).
5. `git -C /tmp/seed9-{pid} checkout -- .` when done.

Finish with a short report describing the change in one line and confirming: tests pass with it, demo fails with it, demo passes without it. Leave the worktree clean.""")
